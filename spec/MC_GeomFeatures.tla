--------------------------- MODULE MC_GeomFeatures ---------------------------
(***************************************************************************)
(* Enumeration machine for C05.                                            *)
(*  Init : every HISTORY of the bounded universe: a sequence of geometries *)
(*         converted one after the other in the same process.  Every      *)
(*         geometry of the universe is a history of length 1; the longer   *)
(*         ones are REGROUPINGS of one vertex sequence (same type, same    *)
(*         flattened numbers, different nesting of parts / rings).         *)
(*         The universe lies on time ticks 0..4 and, again, LATE = 2^26    *)
(*         ticks into the recording (wholly, or straddling).               *)
(*         Geometries of                                                   *)
(*         different kinds have different shapes, so the state holds them  *)
(*         as (kind, token string) -- the encoding of GeomValidate -- and  *)
(*         Geo rebuilds the GeomModel record.                              *)
(*  Next : the implementation's pipeline, one action per code path:        *)
(*         Convert (conversion.py) ; ReadBounds (compute_bounds reads the  *)
(*         bounds of the converted shape) ; Features (features.py, per-type*)
(*         functions) ; Anchors (get_geometry_point's selector table).     *)
(*         NextGeom then starts the pipeline again for the next geometry   *)
(*         of the history WITH NO STATE CARRIED OVER.  (Memo = "flat" is   *)
(*         the seeded variant kept for history/MC_GeomFeatures_memo.cfg:   *)
(*         Convert looks its result up under the flattened numbers.)       *)
(*  Invariants: Impl => Req for each stage, and the consistency laws of    *)
(*         Bounds / Feat / Anchor2 themselves.                             *)
(***************************************************************************)
EXTENDS GeomFeatures, TLC, Json
CONSTANTS Memo,              \* "none" (the implementation) | "flat" (conversion memoised under (type, flattened numbers))
          Tier               \* "quick" | "thorough" | "cov" (a small sub-universe of both, run with -coverage: every action is taken)
VARIABLES kind, hist, idx, pc, shape, sb, feat, anch, memo, dec     \* dec = <<>> (lattice case) | <<[tq, fq]>> (decimal case)
vars == <<kind, hist, idx, pc, shape, sb, feat, anch, memo, dec>>
Fm == IF dec = <<>> THEN FMAXT ELSE DecFm(dec[1])            \* MAX_FREQUENCY in this case's frequency ticks
BM(g) == B2(g, Fm)
toks == hist[idx]                             \* the geometry being processed

GV == INSTANCE GeomValidate
O == GV!OPEN
C == GV!CLOSE
Thorough == Tier = "thorough"
Geo == G(kind, GV!Tree(toks))                 \* the geometry of this state as a GeomModel record

IsNumTok(t) == GV!IsNum(t)
P(t, f) == <<O, t, f, C>>
L(ks)   == GV!Wrap(ks)
K(k, s) == [kind |-> k, toks |-> s]

(* ---- the universe: time ticks 0..4, frequency ticks {0,1,2,3,FMAXT} ---- *)
T  == 0..4
Fq == {0, 1, 2, 3, FMAXT}
TPairs == {p \in T \X T : p[1] <= p[2]}
FPairs == {p \in Fq \X Fq : p[1] <= p[2]}
Stamps    == {K("TimeStamp", <<t>>) : t \in T}
Intervals == {K("TimeInterval", <<O, p[1], p[2], C>>) : p \in TPairs}
Points    == {K("Point", P(t, f)) : t \in T, f \in Fq}
Boxes     == {K("BoundingBox", <<O, tp[1], fp[1], tp[2], fp[2], C>>) : tp \in TPairs, fp \in FPairs}          \* incl. zero extent
Pool      == {P(t, f) : t \in (IF Thorough THEN {0, 1, 3, 4} ELSE {0, 1, 3}), f \in (IF Thorough THEN {0, 2, 3, FMAXT} ELSE {0, 2, FMAXT})}
Pool3     == {P(0, 1), P(2, FMAXT), P(2, 0), P(4, 3)}
\* line strings in normal form (first time <= last time; the constructor would reverse the others), 2 and 3 points
Lines2    == {K("LineString", L(<<x[1], x[2]>>)) : x \in {y \in Pool \X Pool : y[1][2] <= y[2][2]}}
Lines3    == {K("LineString", L(<<x[1], x[2], x[3]>>)) : x \in {y \in Pool \X Pool \X Pool : y[1][2] <= y[3][2]}}
MPoints   == {K("MultiPoint", L(<<p>>)) : p \in Pool} \cup {K("MultiPoint", L(<<p, q>>)) : p, q \in Pool}
             \cup {K("MultiPoint", L(<<p, q, r>>)) : p, q, r \in Pool3}
\* polygons: parametrised simple families
RectCCW(s, l, e, h) == <<P(s, l), P(e, l), P(e, h), P(s, h)>>
RectCW(s, l, e, h)  == <<P(s, l), P(s, h), P(e, h), P(e, l)>>
Closed(ps) == Append(ps, ps[1])
\* closed lines: the last vertex is the first (first time = last time: still the normal form), 3, 4, 5 and many vertices
ClosedLines == {K("LineString", L(<<P(0, 0), P(2, 3), P(0, 0)>>)), K("LineString", L(<<P(0, 0), P(2, 0), P(2, 2), P(0, 0)>>)),
                K("LineString", L(<<P(1, 1), P(3, 1), P(3, FMAXT), P(0, 2), P(1, 1)>>)), K("LineString", L(<<P(2, 2), P(2, 2), P(2, 2), P(2, 2)>>)),
                K("LineString", L(<<P(4, 0), P(0, 0), P(1, 3), P(4, 0)>>))}
               \cup {K("LineString", L(Append(ps, ps[1]))) : ps \in {RectCCW(tp[1], fp[1], tp[2], fp[2]) : tp \in TPairs, fp \in {<<0, FMAXT>>, <<1, 3>>}}}
TS == {p \in {0, 1, 3, 4} \X {0, 1, 3, 4} : p[1] < p[2]}
FS == {p \in {0, 2, FMAXT} \X {0, 2, FMAXT} : p[1] < p[2]}
RectRings == UNION {{L(RectCCW(tp[1], fp[1], tp[2], fp[2])), L(Closed(RectCCW(tp[1], fp[1], tp[2], fp[2]))),
                     L(RectCW(tp[1], fp[1], tp[2], fp[2])),  L(Closed(RectCW(tp[1], fp[1], tp[2], fp[2])))} : tp \in TS, fp \in FS}
TriRings  == UNION {{L(<<P(tp[1], fp[1]), P(tp[2], fp[1]), P(tp[1], fp[2])>>),
                     L(<<P(tp[1], fp[2]), P(tp[2], fp[1]), P(tp[2], fp[2]), P(tp[1], fp[2])>>)} : tp \in TS, fp \in FS}
LRings    == {L(<<P(0, 0), P(4, 0), P(4, 1), P(2, 1), P(2, 3), P(0, 3)>>),
              L(<<P(0, 0), P(3, 0), P(3, 2), P(1, 2), P(1, FMAXT), P(0, FMAXT), P(0, 0)>>),
              L(<<P(1, 3), P(1, 1), P(4, 1), P(4, 2), P(2, 2), P(2, 3)>>)}
DegRings  == {L(<<P(1, 1), P(1, 1), P(1, 1)>>),                      \* a single point
              L(<<P(0, 2), P(2, 2), P(4, 2)>>),                      \* zero height
              L(<<P(3, 0), P(3, 1), P(3, FMAXT), P(3, 0)>>),         \* zero width
              L(<<P(0, 0), P(1, 1), P(0, 0)>>)}                      \* out and back
Polys     == {K("Polygon", L(<<r>>)) : r \in RectRings \cup TriRings \cup LRings \cup DegRings}
HolePolys == {L(<<L(Closed(RectCCW(0, 0, 4, h))), L(Closed(RectCW(1, 1, e, 2)))>>) : h \in {3, FMAXT}, e \in {2, 3}}
             \cup {L(<<L(RectCCW(0, 0, 4, FMAXT)), L(RectCW(1, 1, 2, 2)), L(Closed(RectCCW(3, 1, 4, 3)))>>)}       \* two holes, one touching
PolysH    == {K("Polygon", p) : p \in HolePolys}
\* multi-line strings: 1..3 lines, each strictly forward
LinePool  == {L(<<P(0, 0), P(1, 2)>>), L(<<P(1, FMAXT), P(3, 3)>>), L(<<P(2, 1), P(4, 1)>>), L(<<P(0, 3), P(2, 0), P(3, 2)>>)}
             \cup (IF Thorough THEN {L(<<P(3, 0), P(4, FMAXT)>>), L(<<P(1, 1), P(0, 2), P(2, 1)>>)} ELSE {})
MLines    == {K("MultiLineString", L(<<a>>)) : a \in LinePool} \cup {K("MultiLineString", L(<<a, b>>)) : a, b \in LinePool}
             \cup {K("MultiLineString", L(<<a, b, c>>)) : a, b, c \in LinePool}
\* multi-polygons: 1..3 members from a pool (with and without holes)
PolyPool  == {L(<<L(RectCCW(0, 0, 1, 1))>>), L(<<L(<<P(2, 0), P(3, 0), P(2, 2)>>)>>), L(<<L(Closed(RectCW(3, 2, 4, FMAXT)))>>)}
             \cup {L(<<L(Closed(RectCCW(0, 0, 4, 3))), L(Closed(RectCW(1, 1, 2, 2)))>>)}
MPolys    == {K("MultiPolygon", L(<<a>>)) : a \in PolyPool}
             \cup {K("MultiPolygon", L(<<x[1], x[2]>>)) : x \in {y \in PolyPool \X PolyPool : y[1] # y[2]}}
             \cup {K("MultiPolygon", L(<<x[1], x[2], x[3]>>)) : x \in {y \in PolyPool \X PolyPool \X PolyPool : y[1] # y[2] /\ y[2] # y[3] /\ y[1] # y[3]}}
Cases == IF Tier = "cov" THEN Stamps \cup Intervals \cup Points \cup PolysH \cup MPolys
         ELSE ClosedLines \cup Stamps \cup Intervals \cup Points \cup Boxes \cup Lines2 \cup Lines3 \cup MPoints \cup Polys \cup PolysH \cup MLines \cup MPolys

(* ---- histories: regroupings of one vertex sequence ---- *)
\* all ways to cut 1..n into consecutive blocks of at least m elements: sequences of block lengths
RECURSIVE Comps(_, _)
Comps(n, m) == IF n = 0 THEN {<<>>} ELSE UNION {{<<k>> \o c : c \in Comps(n - k, m)} : k \in m..n}
RECURSIVE SumTo(_, _)
SumTo(c, j) == IF j = 0 THEN 0 ELSE c[j] + SumTo(c, j - 1)
\* cut the sequence xs according to the block lengths c
Cut(xs, c) == [j \in DOMAIN c |-> SubSeq(xs, SumTo(c, j - 1) + 1, SumTo(c, j))]
Group(xs, c) == L([j \in DOMAIN c |-> L(Cut(xs, c)[j])])                      \* a list of lists of the items
\* multi-line strings: points strictly forward in time, so every regrouping into lines of >= 2 points is a geometry
PtSeqs == {<<P(0, 0), P(1, 2), P(2, 1), P(3, FMAXT)>>,
           <<P(0, 3), P(1, 0), P(2, 2), P(3, 2), P(4, 1)>>,
           <<P(0, 1), P(1, 1), P(2, FMAXT), P(3, 0), P(4, 2), P(5, 3)>>}
MLRegroup(ps) == {Group(ps, c) : c \in Comps(Len(ps), 2)}
\* polygons: one ring of six points, or its two halves as shell and hole
PolyPts == <<P(0, 0), P(4, 0), P(0, FMAXT), P(1, 1), P(2, 1), P(1, 2)>>
PolyRegroup == {Group(PolyPts, c) : c \in Comps(6, 3)}
\* multi-polygons: a shell and holes inside it (disjoint, or touching in a point), grouped into polygons in every way
\* that keeps each hole either with that shell or on its own ([[shell, hole]] vs [[shell], [hole]] ...)
RingSeqs == {<<L(Closed(RectCCW(0, 0, 4, FMAXT))), L(Closed(RectCW(1, 1, 3, 3)))>>,
             <<L(RectCCW(0, 0, 4, FMAXT)), L(RectCW(1, 1, 2, 2)), L(RectCCW(2, 2, 3, 3))>>}
MPRegroup(rs) == {Group(rs, c) : c \in {d \in Comps(Len(rs), 1) : \A j \in 2..Len(d) : d[j] = 1}}
Families == {[kind |-> "MultiLineString", set |-> MLRegroup(ps)] : ps \in PtSeqs}
            \cup {[kind |-> "Polygon", set |-> PolyRegroup]}
            \cup {[kind |-> "MultiPolygon", set |-> MPRegroup(rs)] : rs \in RingSeqs}
\* every ordered pair of distinct regroupings (X first, then Y),
Pairs(S)  == {<<x, y>> : x, y \in S} \ {<<x, x>> : x \in S}
Histories == IF Tier = "cov"
             THEN {[kind |-> "MultiPolygon", seq |-> h] : h \in Pairs(MPRegroup(<<L(Closed(RectCCW(0, 0, 4, FMAXT))), L(Closed(RectCW(1, 1, 3, 3)))>>))}
             ELSE UNION {{[kind |-> f.kind, seq |-> h] : h \in Pairs(f.set)} : f \in Families}
(* ---- the size dimension: long lines and rings with runs of exactly collinear vertices ---- *)
\* (a conversion must keep every vertex, also the ones that add nothing to the shape)
Sizes == IF Tier = "cov" THEN {} ELSE IF Thorough THEN {66, 100, 300} ELSE {66, 100}
LongPt(pat, i) == CASE pat = "plateau"  -> P(i, 2)                       \* constant frequency: every interior vertex is collinear
                    [] pat = "diagonal" -> P(i, i)                       \* a straight diagonal on the lattice
                    [] pat = "steps"    -> P(i, (i \div 8) % 4)          \* plateaus of eight points joined by steps
                    [] pat = "repeat"   -> P(i \div 2, (i \div 6) % 3)   \* every point twice, on plateaus of three
LongPts(pat, n) == [i \in 1..n |-> LongPt(pat, i)]
\* the boundary of the rectangle [t0, t0 + w] x [f0, f0 + h] walked in unit steps: 2w + 2h vertices, all but four collinear
RingWH(w, h, t0, f0) ==
    [i \in 1..(2 * w + 2 * h) |->
        LET j == i - 1 IN
        IF j < w THEN P(t0 + j, f0)
        ELSE IF j < w + h THEN P(t0 + w, f0 + (j - w))
        ELSE IF j < 2 * w + h THEN P(t0 + w - (j - w - h), f0 + h)
        ELSE P(t0, f0 + h - (j - 2 * w - h))]
Shell(n) == L(RingWH(n \div 2 - 3, 3, 0, 0))                             \* n vertices
HoleIn(n) == L(RingWH(n \div 2 - 7, 1, 2, 1))                            \* inside Shell(n)
LongCases ==
    {K("LineString", L(LongPts(p, n))) : p \in {"plateau", "diagonal", "steps", "repeat"}, n \in Sizes \cup {n - 1 : n \in Sizes}}
    \cup {K("LineString", L(Append(RingWH(n \div 2 - 3, 3, 0, 0), P(0, 0)))) : n \in Sizes}                  \* long and closed
    \cup {K("MultiLineString", L(<<L(LongPts(p, n)), L(<<P(0, 0), P(1, 2)>>)>>)) : p \in {"plateau", "steps"}, n \in Sizes}
    \cup {K("MultiLineString", L(<<L(<<P(0, 3), P(2, 1)>>), L(LongPts("diagonal", n)), L(LongPts("repeat", n))>>)) : n \in Sizes}
    \cup {K("Polygon", L(<<Shell(n)>>)) : n \in Sizes} \cup {K("Polygon", L(<<Shell(n), HoleIn(n)>>)) : n \in Sizes}
    \cup {K("MultiPolygon", L(<<L(<<Shell(n), HoleIn(n)>>), L(<<L(RingWH(40, 2, n, 0))>>)>>)) : n \in Sizes}

(* ---- late geometries: times are only bounded below, frequencies on both sides ---- *)
\* 2^26 ticks: more seconds than MAX_FREQUENCY has hertz at every time unit of the binder (2^26 / 8 s = 8 388 608 s);
\* doubled it still is far below TLC's 2^31
LATE == 67108864
NumIdx(s, i) == Cardinality({j \in 1..i : IsNumTok(s[j])})
\* the time coordinates: every number of a time-only kind, the odd-numbered ones of the others
IsTimeTok(k, s, i) == IsNumTok(s[i]) /\ (k \in TimeOnlyKinds \/ NumIdx(s, i) % 2 = 1)
\* move every time >= thr late into the recording (thr = 0: the whole geometry; thr = 2: it straddles the origin and the
\* late region).  t |-> t + LATE on t >= thr is strictly increasing, so normal forms and forward lines stay what they are,
\* and the rings of the universe (axis-parallel ones, single triangles) stay simple with their holes inside.
Later(c, thr) == K(c.kind, [i \in DOMAIN c.toks |-> IF IsTimeTok(c.kind, c.toks, i) /\ c.toks[i] >= thr THEN c.toks[i] + LATE ELSE c.toks[i]])
SomeBoxes == {K("BoundingBox", <<O, tp[1], fp[1], tp[2], fp[2], C>>) : tp \in TPairs, fp \in {<<0, FMAXT>>, <<1, 3>>, <<2, 2>>}}
LateBase  == IF Tier = "cov" THEN Stamps \cup PolysH
             ELSE Stamps \cup Intervals \cup Points \cup SomeBoxes \cup Lines2 \cup MPoints \cup Polys \cup PolysH \cup MLines \cup MPolys
StradBase == IF Tier = "cov" THEN Intervals
             ELSE Intervals \cup SomeBoxes \cup Lines2 \cup Polys \cup PolysH \cup MPolys
                  \cup {c \in MPoints \cup MLines : Len(GV!Kids(c.toks)) = 2}
LateCases == {Later(c, 0) : c \in LateBase} \cup ({Later(c, 2) : c \in StradBase} \ StradBase)
Singles   == {[kind |-> c.kind, seq |-> <<c.toks>>] : c \in Cases \cup LateCases \cup LongCases}

(* ---- decimal cases: coordinates that are no ticks of a dyadic unit (time = tick / tq s, frequency = tick / fq Hz) ---- *)
DecUnits == {[tq |-> 10, fq |-> 100, T |-> {0, 1, 3, 7, 9}],               \* 0.1 0.3 0.7 0.9 s
             [tq |-> 100, fq |-> 100, T |-> {1, 7, 33, 90, 99}]}           \* a two-decimal grid
DecF == {0, 10, 70001, 123456}                                             \* 0.1, 700.01, 1234.56 Hz
DecCases(u) ==
    LET TP == {p \in u.T \X u.T : p[1] <= p[2]}
        FP == {<<0, 123456>>, <<10, 70001>>, <<10, 10>>, <<70001, 123456>>}
        PP == {P(t, f) : t \in u.T, f \in {10, 123456}}
        PQ == {x \in PP \X PP : x[1][2] <= x[2][2]}
    IN  IF Tier = "cov" THEN {K("TimeInterval", <<O, p[1], p[2], C>>) : p \in TP}
        ELSE {K("TimeStamp", <<t>>) : t \in u.T} \cup {K("TimeInterval", <<O, p[1], p[2], C>>) : p \in TP}
             \cup {K("Point", P(t, f)) : t \in u.T, f \in DecF}
             \cup {K("BoundingBox", <<O, tp[1], fp[1], tp[2], fp[2], C>>) : tp \in TP, fp \in FP}
             \cup {K("LineString", L(<<x[1], x[2]>>)) : x \in PQ} \cup {K("MultiPoint", L(<<x[1], x[2]>>)) : x \in PQ}
             \cup {K("Polygon", L(<<L(<<P(tp[1], 10), P(tp[2], 70001), P(tp[1], 123456)>>)>>)) : tp \in {p \in TP : p[1] < p[2]}}
             \cup {K("MultiLineString", L(<<L(<<P(tp[1], 10), P(tp[2], 70001)>>), L(<<P(tp[1], 123456), P(tp[2], 0)>>)>>)) : tp \in {p \in TP : p[1] < p[2]}}
             \cup {K("MultiPolygon", L(<<L(<<L(<<P(tp[1], 0), P(tp[2], 10), P(tp[2], 70001)>>)>>), L(<<L(<<P(tp[1], 70001), P(tp[2], 123456), P(tp[1], 123456)>>)>>)>>)) : tp \in {p \in TP : p[1] < p[2]}}

(* ---- the machine ---- *)
NoShape == [kind |-> "", parts |-> <<>>]
NumsOf(s) == SelectSeq(s, IsNumTok)
Nums == NumsOf(toks)                              \* the flattened coordinate numbers of the current geometry
Init == /\ \/ \E h \in Singles \cup Histories : kind = h.kind /\ hist = h.seq /\ dec = <<>>
           \/ \E u \in DecUnits : \E c \in DecCases(u) : kind = c.kind /\ hist = <<c.toks>> /\ dec = <<[tq |-> u.tq, fq |-> u.fq]>>
        /\ idx = 1 /\ pc = "convert" /\ shape = NoShape /\ sb = <<>> /\ feat = <<>> /\ anch = <<>> /\ memo = <<>>
\* conversion.py builds the shape from the geometry and from nothing else
Hit == {i \in DOMAIN memo : memo[i].key = Nums}
Convert    == /\ pc = "convert" /\ pc' = "bounds"
              /\ IF Memo = "flat" /\ Hit # {}
                 THEN shape' = memo[CHOOSE i \in Hit : TRUE].shape /\ memo' = memo               \* (seeded variant only)
                 ELSE /\ shape' = ImplShape2(Geo, Fm)
                      /\ memo' = IF Memo = "flat" THEN Append(memo, [key |-> Nums, shape |-> ImplShape2(Geo, Fm)]) ELSE memo
              /\ UNCHANGED <<kind, hist, idx, sb, feat, anch, dec>>
ReadBounds == pc = "bounds"   /\ sb' = ImplBounds(shape) /\ pc' = "features" /\ UNCHANGED <<kind, hist, idx, shape, feat, anch, memo, dec>>
Features   == pc = "features" /\ feat' = ImplFeat(Geo, sb) /\ pc' = "anchors" /\ UNCHANGED <<kind, hist, idx, shape, sb, anch, memo, dec>>
Anchors    == pc = "anchors"  /\ anch' = [i \in DOMAIN Positions |-> ImplAnchor2(Positions[i], sb)] /\ pc' = "done"
              /\ UNCHANGED <<kind, hist, idx, shape, sb, feat, memo, dec>>
\* the next geometry of the history, in the same process: every working variable starts afresh
NextGeom   == /\ pc = "done" /\ idx < Len(hist) /\ idx' = idx + 1 /\ pc' = "convert"
              /\ shape' = NoShape /\ sb' = <<>> /\ feat' = <<>> /\ anch' = <<>>
              /\ UNCHANGED <<kind, hist, memo, dec>>
Next == Convert \/ ReadBounds \/ Features \/ Anchors \/ NextGeom
Spec == Init /\ [][Next]_vars /\ WF_vars(Next)

Finished == pc = "done" /\ idx = Len(hist)
Export == Finished => PrintT(<<"CASE", ToJson([gs |-> [i \in DOMAIN hist |-> G(kind, GV!Tree(hist[i]))], dec |-> dec])>>)

(* ---- Impl => Req ---- *)
AtStart == pc = "bounds"      \* once per geometry, in a non-initial state (initial states are checked by one thread only)
GeneratedAreValid  == AtStart => GV!Valid(kind, toks) /\ GV!Normal(kind, toks) = toks       \* constructible (C03), already in normal form
ImplShapePreserves == pc = "bounds" => ShapePreserves(Geo, shape) /\ (kind \in GeoJsonKinds => shape.kind = kind)
ImplBoundsExact    == pc = "features" => sb = BM(Geo)
ImplFeatRight      == pc = "anchors" => LET g == Geo  f == FeatOf(g, BM(g)) IN
                                        /\ \A i \in DOMAIN feat : feat[i][2] = f[feat[i][1]]
                                        /\ Required(g) \subseteq {feat[i][1] : i \in DOMAIN feat}
ImplAnchorsRight   == pc = "done" => LET b == BM(Geo) IN \A i \in DOMAIN Positions : anch[i] = AnchorOf(b, Positions[i])

(* ---- laws of the specification itself (b = the bounds of this state's geometry) ---- *)
LawBoundsOrdered == AtStart => LET b == BM(Geo) IN b[1] <= b[3] /\ b[2] <= b[4] /\ b[1] >= 0 /\ b[2] >= 0 /\ b[4] <= Fm
\* only the frequency axis has a ceiling: the end of a late geometry lies beyond FMAXT seconds at every unit, and Req keeps it
LawTimeHasNoCeiling == AtStart => \A i \in DOMAIN Nums : (IsTimeTok(kind, toks, i) /\ toks[i] >= LATE) => BM(Geo)[3] >= LATE
LawTimeOnlyBand  == (AtStart /\ kind \in TimeOnlyKinds) => LET b == BM(Geo) IN b[2] = 0 /\ b[4] = Fm
\* the bounds said a second way: straight from the tokens (odd numbers are times, even numbers frequencies)
LawBoundsFromTokens ==
    (AtStart /\ kind \notin TimeOnlyKinds) =>
       LET ns == Nums
           ts == {ns[i] : i \in {j \in DOMAIN ns : j % 2 = 1}}
           fs == {ns[i] : i \in {j \in DOMAIN ns : j % 2 = 0}}
       IN  BM(Geo) = <<SetMin(ts), SetMin(fs), SetMax(ts), SetMax(fs)>>
LawFeat == AtStart => LET g == Geo  b == BM(g)  f == FeatOf(g, b) IN
              /\ (dec = <<>> => f = Feat(g))
              /\ f.duration >= 0 /\ f.bandwidth >= 0 /\ b[1] + f.duration = b[3] /\ f.low_freq + f.bandwidth = f.high_freq
              /\ (kind \in {"TimeStamp", "Point"} => f.duration = 0) /\ (kind = "Point" => f.bandwidth = 0)
              /\ f.num_segments >= 1 /\ (kind \notin MultiKinds => f.num_segments = 1)
\* every named position lies on the bounds; the nine names are pairwise consistent
LawAnchorsOnBounds == AtStart => LET b == BM(Geo) IN
    \A i \in DOMAIN Positions : LET a == AnchorOf(b, Positions[i]) IN
        /\ a[1] \in {2 * b[1], b[1] + b[3], 2 * b[3]} /\ a[2] \in {2 * b[2], b[2] + b[4], 2 * b[4]}
        /\ 2 * b[1] <= a[1] /\ a[1] <= 2 * b[3] /\ 2 * b[2] <= a[2] /\ a[2] <= 2 * b[4]
LawAnchorsConsistent == AtStart => LET g == Geo  b == BM(g)  A(pos) == AnchorOf(b, pos) IN
    /\ (dec = <<>> => A("center") = Anchor2(g, "center"))
    /\ A("bottom-left")[1] = A("center-left")[1] /\ A("center-left")[1] = A("top-left")[1]             \* one left
    /\ A("bottom-right")[1] = A("center-right")[1] /\ A("center-right")[1] = A("top-right")[1]         \* one right
    /\ A("bottom-center")[1] = A("center")[1] /\ A("center")[1] = A("top-center")[1]                   \* one middle time
    /\ A("bottom-left")[2] = A("bottom-center")[2] /\ A("bottom-center")[2] = A("bottom-right")[2]     \* one bottom
    /\ A("top-left")[2] = A("top-center")[2] /\ A("top-center")[2] = A("top-right")[2]                 \* one top
    /\ A("center-left")[2] = A("center")[2] /\ A("center")[2] = A("center-right")[2]                   \* one middle frequency
    /\ A("bottom-left")[1] <= A("bottom-right")[1] /\ A("bottom-left")[2] <= A("top-left")[2]          \* left <= right, bottom <= top
    /\ 2 * A("center")[1] = A("bottom-left")[1] + A("top-right")[1]                                    \* centre = midpoint of the diagonal
    /\ 2 * A("center")[2] = A("bottom-left")[2] + A("top-right")[2]
    /\ <<A("bottom-left")[1], A("bottom-left")[2], A("top-right")[1], A("top-right")[2]>> = [i \in 1..4 |-> 2 * b[i]]
\* histories: one type, one flattened vertex sequence, pairwise different nesting -- and Req tells the members apart:
\* the conversion of one member never preserves another (so a stale conversion cannot pass ShapelyCoords)
LawHistoryIsRegrouping == (AtStart /\ idx = 1) =>
    /\ \A i \in DOMAIN hist : NumsOf(hist[i]) = NumsOf(hist[1])
    /\ \A i, j \in DOMAIN hist : i # j => hist[i] # hist[j]
LawRegroupingsDistinguished == (AtStart /\ idx = 1) =>
    \A i, j \in DOMAIN hist : i # j => ~ShapePreserves(G(kind, GV!Tree(hist[i])), ImplShape(G(kind, GV!Tree(hist[j]))))
NoMemo == Memo = "none" => memo = <<>>
\* termination without a liveness graph: every step lowers a rank, and no state short of the end of the history is stuck
Rank == 5 * (Len(hist) - idx) + (CASE pc = "convert" -> 4 [] pc = "bounds" -> 3 [] pc = "features" -> 2 [] pc = "anchors" -> 1 [] OTHER -> 0)
RankDecreases == [][Rank' < Rank]_vars
NeverStuck    == ~Finished => ENABLED Next
Terminates == <>Finished        \* checked as a liveness property on the "cov" sub-universe only
=============================================================================
