------------------------------ MODULE Lattice ------------------------------
(***************************************************************************)
(* Integer / rational / limb arithmetic shared by every module.            *)
(*                                                                         *)
(* TLC has no reals and 32-bit integers.  Specifications therefore work on *)
(* integer "ticks" of a unit chosen by the binder, on rationals <<p, q>>   *)
(* with q > 0, and -- for doubles observed from the implementation that    *)
(* are not on the lattice -- on limb numbers                               *)
(*     <<s, i, f1, f2, f3, f4, x>>  =  s * (i + f1/2^16 + ... + f4/2^64)   *)
(* (s in {-1,0,1}; x = 1 iff no bits were dropped; s = 9 marks non-finite  *)
(* or out-of-range values, i then being a code).                           *)
(***************************************************************************)
EXTENDS Integers, Sequences, FiniteSets

Min(a, b) == IF a <= b THEN a ELSE b
Max(a, b) == IF a >= b THEN a ELSE b
Abs(a)    == IF a >= 0 THEN a ELSE -a
SetMin(S) == CHOOSE x \in S : \A y \in S : x <= y
SetMax(S) == CHOOSE x \in S : \A y \in S : x >= y
Range(s)  == {s[i] : i \in DOMAIN s}
FloorDiv(a, b) == a \div b              \* TLA+ \div is floor division for b > 0
CeilDiv(a, b)  == -((-a) \div b)

\* optional values travel as sequences of length 0 or 1
IsNone(o) == Len(o) = 0
Some(o)   == o[1]

\* ---- rationals <<p, q>>, q > 0 (small numbers only: products must stay below 2^31)
RLe(a, b)  == a[1] * b[2] <= b[1] * a[2]
RLt(a, b)  == a[1] * b[2] <  b[1] * a[2]
REq(a, b)  == a[1] * b[2] =  b[1] * a[2]
RAdd(a, b) == <<a[1] * b[2] + b[1] * a[2], a[2] * b[2]>>
RMulInt(a, k) == <<a[1] * k, a[2]>>

\* ---- limb numbers
B16 == 65536
LFinite(v)  == v[1] # 9
LSign(v)    == v[1]
LIsZero(v)  == v[1] = 0
\* magnitude comparison, lexicographic on (i, f1..f4)
LMagLe(a, b) ==
    \/ a[2] < b[2]
    \/ a[2] = b[2] /\ \/ a[3] < b[3]
                      \/ a[3] = b[3] /\ \/ a[4] < b[4]
                                        \/ a[4] = b[4] /\ \/ a[5] < b[5]
                                                          \/ a[5] = b[5] /\ a[6] <= b[6]
LMagEq(a, b) == a[2] = b[2] /\ a[3] = b[3] /\ a[4] = b[4] /\ a[5] = b[5] /\ a[6] = b[6]
\* a <= b for finite limb numbers (exact on the retained bits)
LLe(a, b) ==
    CASE a[1] <= 0 /\ b[1] >= 0 -> IF a[1] = 0 /\ b[1] = 0 THEN TRUE ELSE TRUE
      [] a[1] > 0 /\ b[1] <= 0  -> FALSE
      [] a[1] > 0 /\ b[1] > 0   -> LMagLe(a, b)
      [] a[1] < 0 /\ b[1] < 0   -> LMagLe(b, a)
      [] OTHER -> FALSE
LEq(a, b) == (a[1] = b[1]) /\ (a[1] = 0 \/ LMagEq(a, b))
LInt(k) == <<IF k > 0 THEN 1 ELSE IF k = 0 THEN 0 ELSE -1, Abs(k), 0, 0, 0, 0, 1>>
LLeInt(v, k) == LLe(v, LInt(k))
LGeInt(v, k) == LLe(LInt(k), v)
\* v <= k + 2^-32  /  v >= k - 2^-32  (absolute slack of 2^-32 ~ 2.3e-10)
LLeIntSlack(v, k) == LLe(v, <<IF k >= 0 THEN 1 ELSE -1, Abs(k), 0, IF k >= 0 THEN 1 ELSE 0, 0, 0, 1>>) \/ LLeInt(v, k)
\* multiply magnitude by a small positive integer q (q < 2^15), normalising carries
LMulMag(v, q) ==
    LET p6 == v[6] * q  c6 == p6 \div B16
        p5 == v[5] * q + c6  c5 == p5 \div B16
        p4 == v[4] * q + c5  c4 == p4 \div B16
        p3 == v[3] * q + c4  c3 == p3 \div B16
    IN  <<v[1], v[2] * q + c3, p3 % B16, p4 % B16, p5 % B16, p6 % B16, v[7]>>
\* |q*v - p| < 2^-32, i.e. |v - p/q| < 2.4e-10 / q   (p >= 0, q in 1..32767, v finite)
LApproxRat(v, p, q) ==
    IF p = 0 THEN v[1] = 0 \/ (LET m == LMulMag(v, q) IN m[2] = 0 /\ m[3] = 0 /\ m[4] = 0)
    ELSE /\ v[1] = 1
         /\ LET m == LMulMag(v, q)
            IN  \/ m[2] = p /\ m[3] = 0 /\ m[4] = 0
                \/ m[2] = p - 1 /\ m[3] = B16 - 1 /\ m[4] = B16 - 1
\* sum of two non-negative limb numbers (magnitudes), carries normalised
LSumMag(a, b) ==
    LET s6 == a[6] + b[6]  c6 == s6 \div B16
        s5 == a[5] + b[5] + c6  c5 == s5 \div B16
        s4 == a[4] + b[4] + c5  c4 == s4 \div B16
        s3 == a[3] + b[3] + c4  c3 == s3 \div B16
        i  == a[2] + b[2] + c3
        z  == i = 0 /\ s3 % B16 = 0 /\ s4 % B16 = 0 /\ s5 % B16 = 0 /\ s6 % B16 = 0
    IN  <<IF z THEN 0 ELSE 1, i, s3 % B16, s4 % B16, s5 % B16, s6 % B16, IF a[7] = 1 /\ b[7] = 1 THEN 1 ELSE 0>>
\* |a - b| <= tol for non-negative limb numbers
LWithin(a, b, tol) == LLe(a, LSumMag(b, tol)) /\ LLe(b, LSumMag(a, tol))
\* k * 2^-50 as a limb number (k < 32768): four units in the last place of a double in [1, 2) per unit of k
LUlps4(k) == LMulMag(<<1, 0, 0, 0, 0, 16384, 1>>, k)
\* v within [lo, hi] (integers)
LIn(v, lo, hi) == LFinite(v) /\ LGeInt(v, lo) /\ LLeInt(v, hi)
=============================================================================
