SPECIFICATION Spec
CONSTANTS
  RootNames = {1, 2, 4}
  Stride = 2
  AncestorFollow = FALSE
  MaxWalkDepth = 2
CONSTRAINT Export
INVARIANT ImplRefinesReq
INVARIANT ImplPrefix
INVARIANT RaisedIffNotDir
INVARIANT Laws
INVARIANT WalkBounded
INVARIANT NoStuck
INVARIANT StepsExact
CHECK_DEADLOCK FALSE
