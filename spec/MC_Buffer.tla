------------------------------ MODULE MC_Buffer ------------------------------
(***************************************************************************)
(* Enumeration machine for C11: every initial state is one pair of calls   *)
(* buffer_geometry(g, b1), buffer_geometry(g, b2) on a catalogue of        *)
(* geometries of all nine kinds (GeomModel!Catalogue in sub-ticks plus     *)
(* shapes touching time 0, frequency 0 and MAX_FREQUENCY), with the        *)
(* buffers 0, 1/2, 1, 2 ticks and "larger than the domain" on each axis,   *)
(* b2 the next larger setting, and the negative-buffer combinations.       *)
(* The one action computes the closed form (where there is one); laws of   *)
(* the specification are invariants; Export prints one CASE per call pair  *)
(* together with the probe points the binder has to locate.                *)
(***************************************************************************)
EXTENDS Buffer, TLC, Json
CONSTANTS GeomStride,      \* take every GeomStride-th (geometry, buffers) combination (1 = all)
          AllUnits         \* TRUE: every combination at all three time units; FALSE: one unit per combination
VARIABLES c, ph, res

FMAXC == 99999                                   \* stands for MAX_FREQUENCY in the tick catalogue
SubPt(p) == <<2 * p[1], IF p[2] = FMAXC THEN FMAXS ELSE 16 * p[2]>>       \* tick -> sub-tick: 2 per time tick, 16 per frequency tick
SubPts(s) == [i \in DOMAIN s |-> SubPt(s[i])]
Sub(g) ==
  LET x == g.coordinates IN
  CASE g.type = "TimeStamp"    -> G(g.type, 2 * x)
    [] g.type = "TimeInterval" -> G(g.type, <<2 * x[1], 2 * x[2]>>)
    [] g.type = "Point"        -> G(g.type, SubPt(x))
    [] g.type = "BoundingBox"  -> G(g.type, <<2 * x[1], SubPt(<<0, x[2]>>)[2], 2 * x[3], SubPt(<<0, x[4]>>)[2]>>)
    [] g.type \in {"LineString", "MultiPoint"} -> G(g.type, SubPts(x))
    [] g.type \in {"Polygon", "MultiLineString"} -> G(g.type, [i \in DOMAIN x |-> SubPts(x[i])])
    [] g.type = "MultiPolygon" -> G(g.type, [i \in DOMAIN x |-> [j \in DOMAIN x[i] |-> SubPts(x[i][j])]])
Rect(s, l, e, h) == <<<<s, l>>, <<e, l>>, <<e, h>>, <<s, h>>, <<s, l>>>>
Late == 100000000                                \* 1e8 time sub-ticks = 5e7 / 2.5e7 / 6.25e6 s
Edge == <<                                        \* shapes on the three edges of the domain (sub-ticks)
  G("Point", <<0, FMAXS>>),
  G("Point", <<6, 0>>),
  G("MultiPoint", <<<<0, FMAXS>>, <<4, 0>>>>),
  G("MultiPoint", <<<<2, 0>>, <<6, FMAXS>>>>),
  G("LineString", <<<<2, FMAXS - 32>>, <<6, FMAXS>>>>),
  G("LineString", <<<<0, 0>>, <<2, FMAXS>>>>),
  G("LineString", <<<<2, 16>>, <<2, 48>>>>),
  G("LineString", <<<<0, 32>>, <<4, 0>>, <<8, 0>>>>),
  G("MultiLineString", <<<<<<0, 16>>, <<2, 48>>>>, <<<<2, FMAXS - 16>>, <<4, FMAXS>>>>>>),
  G("Polygon", <<Rect(2, FMAXS - 32, 6, FMAXS)>>),
  G("Polygon", <<<<<<0, 0>>, <<4, 0>>, <<0, 32>>, <<0, 0>>>>>>),
  G("MultiPolygon", <<<<Rect(0, 0, 2, 16)>>, <<Rect(4, FMAXS - 16, 6, FMAXS)>>>>),
  G("BoundingBox", <<0, FMAXS - 16, 2, FMAXS>>),
  G("TimeInterval", <<0, 0>>),
  G("Point", <<4, 40000>>),                        \* 2.56 MHz and 4.6 MHz: where frequency * 1e9 runs out of fraction bits
  G("Point", <<4, 72000>>),
  G("LineString", <<<<2, 72000>>, <<6, 72000>>>>),
  G("Polygon", <<Rect(2, 72000, 6, 72032)>>),
  \* MultiPolygons whose parts OVERLAP or are NESTED (the type allows it): the original is the UNION of the parts, so a
  \* point covered twice belongs to it; the probe grid has points inside the doubly covered regions
  G("MultiPolygon", <<<<Rect(0, 0, 6, 48)>>, <<Rect(2, 16, 8, 64)>>>>),
  G("MultiPolygon", <<<<Rect(0, 0, 8, 64)>>, <<Rect(2, 16, 6, 48)>>>>),
  \* an island in a lake: a part with a hole and a part lying inside that hole, in both orders; and rings written unclosed
  G("MultiPolygon", <<<<Rect(0, 0, 12, 64), Rect(2, 8, 10, 56)>>, <<Rect(4, 16, 8, 48)>>>>),
  G("MultiPolygon", <<<<Rect(4, 16, 8, 48)>>, <<Rect(0, 0, 12, 64), Rect(2, 8, 10, 56)>>>>),
  G("Polygon", <<<<<<2, 16>>, <<8, 16>>, <<8, 48>>, <<2, 48>>>>>>),
  G("MultiPolygon", <<<<<<<<0, 0>>, <<4, 0>>, <<4, 32>>, <<0, 32>>>>, <<<<1, 8>>, <<3, 8>>, <<3, 24>>, <<1, 24>>>>>>>>),
  G("Polygon", <<Rect(0, 0, 12, 64), Rect(2, 8, 5, 56), Rect(7, 8, 10, 56)>>),          \* two holes
  \* areal shapes one sub-tick wide: with the time buffer BT[7] = 4e6 sub-ticks they are 2.5e-7 of the buffer wide
  G("Polygon", <<Rect(8, 16, 9, 48)>>),
  G("MultiPolygon", <<<<Rect(8, 0, 9, 32)>>, <<Rect(12, 16, 16, 48)>>>>),
  G("LineString", <<<<0, 0>>, <<1, 32>>, <<2, 16>>>>),   \* with buffers (1, 0): buffer_geometry raises KeyError (found by the random driver)
  \* lines that go BACK in time at an interior vertex (legal: only first time <= last time is required): Z, hook, closed
  \* loop with equal first and last time, and a member of a multi line.  The original is the curve IN THE ORDER GIVEN;
  \* the probe grid has points on the backward segments (e.g. (5,24), (4,32), (3,40) on the middle stroke of the Z).
  G("LineString", <<<<0, 16>>, <<6, 16>>, <<2, 48>>, <<8, 48>>>>),
  G("LineString", <<<<2, 0>>, <<8, 32>>, <<4, 64>>>>),
  G("LineString", <<<<2, 16>>, <<6, 48>>, <<8, 16>>, <<2, 16>>>>),
  G("MultiLineString", <<<<<<0, 0>>, <<4, 32>>, <<2, 64>>, <<6, 64>>>>, <<<<8, 16>>, <<10, 48>>>>>>),
  \* events late in a long recording: Late sub-ticks are >= 6.25e6 s at every time unit, beyond MAX_FREQUENCY = 5e6 as a number.
  \* Time has no upper edge, so nothing may be clamped there.  (Closed-form kinds only: their oracle needs no products.)
  G("TimeStamp", Late),
  G("TimeInterval", <<Late - 2, Late + 4>>),
  G("BoundingBox", <<Late, 16, Late + 6, 48>>),
  G("BoundingBox", <<Late - 4, 0, Late, FMAXS>>)
>>
TickCat == Catalogue(FMAXC)
Geoms == [i \in 1..(Len(TickCat) + Len(Edge)) |-> IF i <= Len(TickCat) THEN Sub(TickCat[i]) ELSE Edge[i - Len(TickCat)]]

\* time buffers: 0, 1/2, 1, 2 ticks, far beyond time 0, and (closed-form kinds) 2e8 sub-ticks = 1e8 / 5e7 / 1.25e7 s:
\* longer than MAX_FREQUENCY seconds at every unit -- the time axis is unbounded above, the result must end at end + tb
BT == <<0, 1, 2, 4, 200, 200000000, 4000000>>
\* frequency buffers: 0, 1/2, 1, 2 ticks, twice the domain; and, for shapes within reach of MAX_FREQUENCY, buffers that are
\* neither powers of two nor round numbers (3, 17, 34, 68, 285 sub-ticks: for 17, 34, 68, 285 the product MAX * (1/b) / (1/b)
\* is not MAX in doubles) -- the result must stay inside the domain whatever the buffer's binary expansion
BF == <<0, 8, 16, 32, 2 * FMAXS, 3, 17, 34, 68, 285>>
NearTop(g) == g.type \notin TimeOnlyKinds /\ Bounds(g, FMAXS)[4] >= FMAXS - 600
NF(g) == IF NearTop(g) THEN 10 ELSE 5
UpF(j) == IF j <= 5 THEN Min(j + 1, 5) ELSE Min(j + 1, 10)
\* BT[6] only for the closed-form kinds; BT[7] (4e6 sub-ticks = 2e6 / 1e6 / 2.5e5 s: seven orders of magnitude above one
\* sub-tick) only for the thin areal shapes; the other shapely kinds stay below 2^31 / 207 (their targets are scaled by CapD)
Thin(g) == g.type \in {"Polygon", "MultiPolygon"} /\ \E v \in Vertices(g) : v[1] = 9 /\ \E w \in Vertices(g) : w[1] = 8
TimeIdx(g) == IF g.type \in ClosedKinds THEN 1..6 ELSE IF Thin(g) THEN (1..5) \cup {7} ELSE 1..5
NT(g) == IF g.type \in ClosedKinds THEN 6 ELSE 5
UpT(g, i) == IF Thin(g) /\ i >= 5 THEN 7 ELSE Min(i + 1, NT(g))
Up(i) == Min(i + 1, 5)
NegPairs == <<<<<<-1, 0>>, <<0, -8>>>>, <<<<-1, -8>>, <<-2, 16>>>>, <<<<4, -1>>, <<0, 0>>>>>>

(* ---- probe points: a grid around the geometry (time: every sub-tick, frequency: every half tick) ---- *)
InDom(f) == 0 <= f /\ f <= FMAXS
FSeq(lo, hi) ==
    IF hi - lo <= 128
    THEN SelectSeq([q \in 1..((hi - lo) \div 8 + 8) |-> lo - 24 + 8 * (q - 1)] \o <<hi>>, InDom)
    ELSE SelectSeq(<<lo - 8, lo, lo + 8, lo + 16, (lo + hi) \div 2, hi - 16, hi - 8, hi, hi + 8>>, InDom)
RECURSIVE SeqOf(_)
SeqOf(S) == IF S = {} THEN <<>> ELSE LET x == CHOOSE y \in S : TRUE IN <<x>> \o SeqOf(S \ {x})
Probes(g) ==
    LET o  == Bounds(g, FMAXS)
        t0 == Max(0, o[1] - 3)
        nt == o[3] + 3 - t0 + 1
        fs == FSeq(o[2], o[4])
        nf == Len(fs)
        grid == [q \in 1..(nt * nf) |-> <<t0 + (q - 1) \div nf, fs[((q - 1) % nf) + 1]>>]
    IN  grid \o SeqOf(Vertices(g) \ Range(grid))          \* the vertices themselves are always probed

UnitsOf(gi, i, j) == IF AllUnits THEN 1..3 ELSE {((gi + i + 2 * j) % 3) + 1}        \* u: which time unit the binder uses
\* which numeric types the buffers of a combination are passed in (indices into Buffer!BufTypes): the closed-form kinds
\* three types per combination (one of them always unsigned), the shapely kinds one; all nine types occur for every geometry
TypesOf(gi, i, j) == IF Geoms[gi].type \in ClosedKinds THEN LET q == ((gi + i + j) % 3) + 1 IN {q, q + 3, q + 6}
                     ELSE {((2 * gi + 3 * i + j) % 9) + 1}
\* tn = 9: the LARGER pair is numerically equal on the two axes (1024 sub-ticks * 0.5 s = 512 = 8 sub-ticks * 64 Hz at unit 1),
\* the smaller pair (400 s, 448 Hz) is not; probes sit just inside the mitre corners of the smaller result
Rectilinear(g) == g.type \in {"Polygon", "MultiPolygon"} /\
    LET rs == IF g.type = "Polygon" THEN g.coordinates ELSE [q \in 1..1 |-> g.coordinates[1][1]] IN
    /\ \A r \in DOMAIN rs : \A q \in 1..(Len(rs[r]) - 1) : rs[r][q][1] = rs[r][q + 1][1] \/ rs[r][q][2] = rs[r][q + 1][2]
    /\ g.type = "MultiPolygon" => Len(g.coordinates) = 1
    /\ Bounds(g, FMAXS)[4] < 1000 /\ Bounds(g, FMAXS)[3] < 100
EqB1 == <<800, 7>>
EqB2 == <<1024, 8>>
CornerProbes(g) == LET o == Bounds(g, FMAXS) IN
    <<<<o[3] + EqB1[1] - 1, o[4] + EqB1[2] - 1>>, <<o[3] + EqB1[1] - 2, o[4] + EqB1[2] - 2>>, <<o[3] + EqB1[1] - 40, o[4] + EqB1[2] - 1>>,
      <<o[3] + EqB1[1] - 1, o[4] + EqB1[2]>>, <<o[3] + EqB1[1], o[4] + EqB1[2] - 1>>>>
\* time intervals on two-decimal times, given to the binder as decimal numerals (real doubles, not lattice values), with the
\* buffers 0, 0.1, 0.25, 1.5 s: see Buffer!RealClauses
RealTimes == <<<<"43.28", "45.57">>, <<"0.1", "0.3">>, <<"12.34", "56.78">>, <<"3.3", "9.9">>, <<"100.01", "100.07">>, <<"0.07", "7.77">>, <<"2.2", "2.2">>>>
RealBufs  == <<"0", "0.1", "0.25", "1.5">>
RealCase(q) == [real |-> TRUE, start |-> RealTimes[((q - 1) \div 4) + 1][1], end |-> RealTimes[((q - 1) \div 4) + 1][2], buf |-> RealBufs[((q - 1) % 4) + 1]]
\* tiny buffers around zero (Buffer!TinyNames): each on the time axis with a positive frequency buffer, on the frequency
\* axis with a positive time buffer, and on both; two runs per case
TinyRuns == LET N == <<"-1e-9", "-1e-10", "-1e-12", "-5e-324", "-0.0">> IN
    [q \in 1..15 |-> LET n == N[((q - 1) % 5) + 1] IN
        CASE q <= 5  -> [b |-> <<0, 16>>, e |-> <<n, "">>]
          [] q <= 10 -> [b |-> <<2, 0>>,  e |-> <<"", n>>]
          [] OTHER   -> [b |-> <<0, 0>>,  e |-> <<n, n>>]]
TinyOf(d, run) == TinyRuns[IF run = 1 THEN 2 * d.tn - 1 ELSE Min(2 * d.tn, 15)]
Descriptors == UNION {UNION {{[gi |-> gi, i |-> i, j |-> j, neg |-> 0, tn |-> 0, u |-> u, ty |-> q, rl |-> 0] : u \in UnitsOf(gi, i, j), q \in TypesOf(gi, i, j)} :
                                 i \in TimeIdx(Geoms[gi]), j \in 1..NF(Geoms[gi])} : gi \in 1..Len(Geoms)}
          \cup {[gi |-> gi, i |-> 1, j |-> 1, neg |-> n, u |-> (n % 3) + 1, ty |-> <<1, 2, 5>>[((gi + n) % 3) + 1], tn |-> 0, rl |-> 0] : gi \in 1..Len(Geoms), n \in 1..3}
          \cup {[gi |-> gi, i |-> 1, j |-> 1, neg |-> 0, tn |-> q, u |-> (q % 3) + 1, ty |-> 2, rl |-> 0] : gi \in 1..Len(Geoms), q \in 1..8}
          \cup {[gi |-> 1, i |-> 1, j |-> 1, neg |-> 0, tn |-> 0, u |-> 1, ty |-> 2, rl |-> q] : q \in 1..(4 * Len(RealTimes))}
          \cup {[gi |-> gi, i |-> 1, j |-> 1, neg |-> 0, tn |-> 9, u |-> 1, ty |-> 2, rl |-> 0] : gi \in {q \in 1..Len(Geoms) : Rectilinear(Geoms[q])}}
B1(d) == IF d.tn = 9 THEN EqB1 ELSE IF d.tn > 0 THEN TinyOf(d, 1).b ELSE IF d.neg = 0 THEN <<BT[d.i], BF[d.j]>> ELSE NegPairs[d.neg][1]
B2(d) == IF d.tn = 9 THEN EqB2 ELSE IF d.tn > 0 THEN TinyOf(d, 2).b ELSE IF d.neg = 0 THEN <<BT[UpT(Geoms[d.gi], d.i)], BF[UpF(d.j)]>> ELSE NegPairs[d.neg][2]
Concrete(d) == IF d.rl > 0 THEN RealCase(d.rl) ELSE [g |-> Geoms[d.gi], b1 |-> B1(d), b2 |-> B2(d), u |-> d.u,
                probes |-> IF d.tn = 9 THEN Probes(Geoms[d.gi]) \o CornerProbes(Geoms[d.gi]) ELSE Probes(Geoms[d.gi]),
                e1 |-> IF d.tn \in 1..8 THEN TinyOf(d, 1).e ELSE NoTiny, e2 |-> IF d.tn \in 1..8 THEN TinyOf(d, 2).e ELSE NoTiny,
                t1 |-> ArgTypes(BufTypes[d.ty], B1(d), d.u), t2 |-> ArgTypes(BufTypes[d.ty], B2(d), d.u)]

Init == /\ c \in {d \in Descriptors : (d.gi * 7 + d.i * 3 + d.j + d.neg) % GeomStride = 0}
        /\ ph = "in" /\ res = <<>>
\* the specified outcome where Req is a function: the closed form, or the rejection
Outcome(g, b, e) == IF NegativeRun(b, e) THEN <<"raise:ValueError">>
                 ELSE IF g.type \in ClosedKinds THEN <<BufClosed(g, b).type, BufClosed(g, b).coordinates>>
                 ELSE <<"relational">>
Compute == ph = "in" /\ ph' = "out" /\ res' = (IF c.rl > 0 THEN <<<<"real">>, <<"real">>>> ELSE <<Outcome(Geoms[c.gi], B1(c), Concrete(c).e1), Outcome(Geoms[c.gi], B2(c), Concrete(c).e2)>>) /\ c' = c
Next == Compute
vars == <<c, ph, res>>
Spec == Init /\ [][Next]_vars

Export == ph = "out" => PrintT(<<"CASE", ToJson(Concrete(c))>>)

(* ---- laws of the specification, for every geometry of the catalogue and ALL ordered buffer pairs ---- *)
\* (they depend on the geometry only: evaluated once per geometry, in the state after Compute)
LawAt == ph = "out" /\ c.i = 1 /\ c.j = 1 /\ c.neg = 0 /\ c.tn = 0 /\ c.rl = 0 /\ c.u = (CHOOSE u \in UnitsOf(c.gi, 1, 1) : TRUE)
         /\ c.ty = (CHOOSE q \in TypesOf(c.gi, 1, 1) : TRUE)
GG == Geoms[c.gi]
PP == Range(Probes(GG))
AllB == {<<BT[i], BF[j]>> : i \in 1..NT(GG), j \in 1..5}
Le2(a, b) == a[1] <= b[1] /\ a[2] <= b[2]
IsClosed == GG.type \in ClosedKinds
\* closed forms: the result contains the original, larger buffers give supersets (no restriction on the ratio),
\* the result is a valid geometry inside the domain, and its bounds are exactly the widened, clipped bounds
LawClosedContains == (LawAt /\ IsClosed) => LET pp == PP IN \A b \in AllB : \A p \in pp : OnOrIn(GG, p) => OnOrIn(BufClosed(GG, b), p)
LawClosedMonotone == (LawAt /\ IsClosed) => LET pp == PP IN \A b \in AllB : \A b2 \in AllB : Le2(b, b2) =>
                          \A p \in pp : OnOrIn(BufClosed(GG, b), p) => OnOrIn(BufClosed(GG, b2), p)
LawClosedDomain   == (LawAt /\ IsClosed) => \A b \in AllB :
                          LET o == Bounds(BufClosed(GG, b), FMAXS) IN 0 <= o[1] /\ o[1] <= o[3] /\ 0 <= o[2] /\ o[2] <= o[4] /\ o[4] <= FMAXS
\* the time axis is unbounded above: the end is end + tb, even beyond MAX_FREQUENCY as a number of seconds at every unit
LawTimeUnbounded  == (LawAt /\ IsClosed) => \A b \in AllB : Bounds(BufClosed(GG, b), FMAXS)[3] = Bounds(GG, FMAXS)[3] + b[1]
LawClosedWidening == (LawAt /\ IsClosed) => \A b \in AllB : Bounds(BufClosed(GG, b), FMAXS) = Target(GG, b)
\* relational clauses are satisfiable: the clipped Minkowski rectangle Target(g, b) contains the original, lies in the
\* domain and grows with the buffers; the tolerated round-cap target is never more demanding than the exact one
LawWitness == LawAt => LET inp == {p \in PP : OnOrIn(GG, p)} IN \A b \in AllB :
    LET t == Target(GG, b) IN
    /\ 0 <= t[1] /\ t[1] <= t[3] /\ 0 <= t[2] /\ t[2] <= t[4] /\ t[4] <= FMAXS
    /\ \A p \in inp : t[1] <= p[1] /\ p[1] <= t[3] /\ t[2] <= p[2] /\ p[2] <= t[4]
    /\ \A b2 \in AllB : Le2(b, b2) => LET t2 == Target(GG, b2) IN t2[1] <= t[1] /\ t2[2] <= t[2] /\ t[3] <= t2[3] /\ t[4] <= t2[4]
    /\ GG.type \in RoundKinds =>
          LET r == TargetRoundScaled(GG, b) IN CapD * t[1] <= r[1] /\ CapD * t[2] <= r[2] /\ r[3] <= CapD * t[3] /\ r[4] <= CapD * t[4]
\* every vertex of the original is among the probes that must be contained (so Contains is never vacuous)
LawProbesCoverVertices == LawAt => LET pp == PP IN \A v \in (IF GG.type \in TimeOnlyKinds THEN {} ELSE Vertices(GG)) : v \in pp /\ OnOrIn(GG, v)
\* every segment of a line longer than one grid step carries a probe strictly between its end points
LawProbesOnSegments == LawAt => (GG.type \in RoundKinds =>
    LET paths == IF GG.type = "LineString" THEN <<GG.coordinates>> ELSE GG.coordinates  pp == PP IN
    \A q \in DOMAIN paths : \A k \in 1..(Len(paths[q]) - 1) :
        LET a == paths[q][k]  b == paths[q][k + 1] IN
        (Abs(a[1] - b[1]) >= 2 /\ Abs(a[2] - b[2]) <= 128 /\ Abs(a[2] - b[2]) % (8 * Abs(a[1] - b[1])) = 0) =>
            \E p \in pp : p # a /\ p # b /\ OnSeg(a, b, p))
LawSomeProbeOutside == LawAt => (GG.type \notin TimeOnlyKinds => \E p \in PP : ~OnOrIn(GG, p))
\* limb helpers agree with integer arithmetic
LawLimbs == (LawAt /\ c.gi = 1) => \A a \in {0, 1, 5, FMAXS} : \A b \in {0, 1, 4, 5, 6, FMAXS} :
    /\ LGeS(LInt(a), LInt(b), SlackFor(0)) <=> a >= b
    /\ LLeS(LInt(a), LInt(b), SlackFor(0)) <=> a <= b
    /\ LEq(LAdd(LInt(a), LInt(b)), LInt(a + b)) \/ a + b = 0
    /\ LET sm == LAdd(LRatDown(a * CapD + 100, CapD), LRatDown(b * CapD + 107, CapD))            \* 100/207 + 107/207, each truncated
       IN  LLe(sm, LInt(a + b + 1)) /\ LLe(LRatDown((a + b + 1) * CapD - 1, CapD), sm)
    /\ LEq(LAdd(SlackFor(15), SlackFor(17)), <<1, 0, 2, 512, 0, 0, 1>>)
    /\ LEq(LRatDown(a * CapD, CapD), LInt(a))
    /\ LLe(LRatDown(a * CapD + 1, CapD), LRatDown(a * CapD + 2, CapD)) /\ ~LLe(LRatDown(a * CapD + 2, CapD), LRatDown(a * CapD + 1, CapD))
\* which catalogue lines fold back: exactly the Z, the hook, the loop and the multi line with a backward stroke
\* the tiny magnitudes: four are negative, -0.0 is not; each occurs on the time axis, on the frequency axis and on both
LawTiny == (LawAt /\ c.gi = 1) =>
    /\ NegativeRun(<<0, 16>>, <<"-5e-324", "">>) /\ NegativeRun(<<2, 0>>, <<"", "-1e-12">>) /\ ~NegativeRun(<<0, 0>>, <<"-0.0", "-0.0">>)
    /\ \A n \in TinyNames : \E q \in 1..15 : TinyRuns[q].e = <<n, "">>
    /\ \A n \in TinyNames : \E q \in 1..15 : TinyRuns[q].e = <<"", n>>
    /\ \A n \in TinyNames : \E q \in 1..15 : TinyRuns[q].e = <<n, n>>
    /\ {IF r = 1 THEN 2 * t - 1 ELSE Min(2 * t, 15) : t \in 1..8, r \in 1..2} = 1..15
\* the equal-buffer pair: equal as numbers of seconds and Hz at unit 1, the smaller pair not, the pair is comparable,
\* and some geometry carries it
LawEqualPair == (LawAt /\ c.gi = 1) =>
    /\ EqB2[1] = EqB2[2] * HzPerSub * SubPerSec[1] /\ EqB1[1] # EqB1[2] * HzPerSub * SubPerSec[1]
    /\ MonoComparable(EqB1, EqB2) /\ \E q \in 1..Len(Geoms) : Rectilinear(Geoms[q])
LawFolded == (LawAt /\ c.gi = 1) =>
    /\ Cardinality({gi \in 1..Len(Geoms) : Folded(Geoms[gi])}) = 4
    /\ FoldedPath(<<<<5, 10>>, <<5, 30>>, <<5, 20>>, <<9, 20>>>>) /\ ~FoldedPath(<<<<5, 10>>, <<5, 30>>, <<5, 40>>, <<9, 20>>>>)
LawMonoComparable == (LawAt /\ c.gi = 1) =>
                                  /\ MonoComparable(<<1, 8>>, <<2, 16>>) /\ MonoComparable(<<0, 0>>, <<0, 8>>) /\ MonoComparable(<<4, 8>>, <<4, 8>>)
                                  /\ ~MonoComparable(<<4, 8>>, <<4, 16>>) /\ ~MonoComparable(<<1000, 0>>, <<1004, 0>>)
                                  /\ MonoComparable(<<206, 0>>, <<207, 0>>) /\ ~MonoComparable(<<2, 8>>, <<1, 16>>)
                                  /\ MonoComparable(<<200, 0>>, <<200000000, 0>>) /\ ~MonoComparable(<<412, 0>>, <<413, 0>>) /\ MonoComparable(<<412, 0>>, <<414, 0>>)
\* the type rules: what fits keeps its value; unsigned types never carry a negative buffer; every type is used
LawTypes == (LawAt /\ c.gi = 1) =>
    /\ Fits("np.uint16", "f", 32, 1) /\ ~Fits("np.uint8", "f", 8, 1) /\ Fits("np.uint8", "f", 3, 1) /\ ~Fits("np.uint64", "t", -1, 1)
    /\ Fits("int", "t", 4, 2) /\ ~Fits("int", "t", 2, 2) /\ Fits("np.float32", "t", 200000000, 3) /\ ~Fits("np.float32", "t", 100000003, 1)
    /\ Fits("np.uint16", "t", 200, 2) /\ ~Fits("np.uint16", "t", 200000000, 1) /\ Fits("np.uint32", "t", 200000000, 1)
    /\ \A gi \in 1..Len(Geoms) : UNION {TypesOf(gi, i, j) : i \in 1..5, j \in 1..5} = 1..9
LawOutcome == ph = "out" => Len(res) = 2
=============================================================================
