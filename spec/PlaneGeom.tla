------------------------------ MODULE PlaneGeom ------------------------------
(***************************************************************************)
(* Exact plane geometry on integer coordinates, shared by Raster (C20) and *)
(* Buffer (C11): orientation, point on segment, even-odd point in polygon. *)
(* Points are <<x, y>>; a ring is a sequence of points (closed: first =    *)
(* last); a polygon is a sequence of rings (outer ring, then holes).       *)
(* Products must stay below 2^31: |x| * |y| < 10^9.                        *)
(***************************************************************************)
EXTENDS Lattice

Cross(a, b, p) == (b[1] - a[1]) * (p[2] - a[2]) - (b[2] - a[2]) * (p[1] - a[1])
Between(x, u, v) == Min(u, v) <= x /\ x <= Max(u, v)
OnSeg(a, b, p) == Cross(a, b, p) = 0 /\ Between(p[1], a[1], b[1]) /\ Between(p[2], a[2], b[2])
\* does the horizontal ray from p towards +x cross the segment a-b (half-open rule on y)
RayCrosses(a, b, p) ==
    /\ (a[2] > p[2]) # (b[2] > p[2])
    /\ IF b[2] > a[2] THEN (p[1] - a[1]) * (b[2] - a[2]) < (p[2] - a[2]) * (b[1] - a[1])
                      ELSE (p[1] - a[1]) * (b[2] - a[2]) > (p[2] - a[2]) * (b[1] - a[1])
\* <<r, k>>: the segment rings[r][k] -- rings[r][k+1]
SegIdx(rings) == UNION {{<<r, k>> : k \in 1..(Len(rings[r]) - 1)} : r \in DOMAIN rings}
\* a polygon ring may be written without repeating its first point at the end (>= 3 points): it is closed implicitly
CloseRing(r) == IF r[1] = r[Len(r)] THEN r ELSE Append(r, r[1])
CloseRings(rings) == [q \in DOMAIN rings |-> CloseRing(rings[q])]
OnPath(path, p) == \E k \in 1..(Len(path) - 1) : OnSeg(path[k], path[k + 1], p)
\* position of a point relative to a polygon (even-odd over all rings): "in" | "out" | "edge"
PolyStatus(rings, p) ==
    LET S == SegIdx(rings) IN
    IF \E x \in S : OnSeg(rings[x[1]][x[2]], rings[x[1]][x[2] + 1], p) THEN "edge"
    ELSE IF Cardinality({x \in S : RayCrosses(rings[x[1]][x[2]], rings[x[1]][x[2] + 1], p)}) % 2 = 1 THEN "in" ELSE "out"
=============================================================================
