----------------------------- MODULE MC_Dispatch -----------------------------
(* Enumeration + implementation machine for X04.  The implementation's order of checks is one action per check       *)
(* (io.save: ResolveFormat, PickSaver, Adapter, Write; io.load: ResolveFormat, PickLoader, Exists, Suffix, Parse,      *)
(* TypeCheck, VersionCheck, Convert); invariant ImplRefinesReq: whatever outcome the machine ends in, Req accepts it.   *)
EXTENDS Dispatch, Json
CONSTANT Stride        \* keep every Stride-th combination (1 = all); every value of every dimension still occurs
VARIABLES c, pc, isave, iload
vars == <<c, pc, isave, iload>>

Cases == [ct : 1..8, obj : ObjKinds, sfx : Suffixes, sfmt : Formats, nested : BOOLEAN,
          lfmt : Formats, ltype : LoadTypes, tamper : Tampers]
Ix(S, x) == CHOOSE i \in 1..Len(S) : S[i] = x
Code(x) == x.ct + 3 * Ix(<<"plain", "subclass", "not_a_collection">>, x.obj) + 5 * Ix(<<".json", ".JSON", ".txt", "">>, x.sfx)
           + 7 * Ix(<<"default", "aoef", "none", "csv">>, x.sfmt) + 11 * Ix(<<"default", "aoef", "none", "csv">>, x.lfmt)
           + 13 * x.ltype + 17 * Ix(<<"no", "version", "missing", "garbage", "unknown_ctype", "renamed_json">>, x.tamper)
           + (IF x.nested THEN 1 ELSE 0)
SaveWillFail(x) == x.sfmt = "csv" \/ x.obj = "not_a_collection" \/ (x.sfmt = "none" /\ x.sfx # ".json")
Sane(x) == /\ (x.obj = "not_a_collection" => x.ct = 1)
           /\ (x.tamper = "renamed_json" => x.sfx # ".json")
           \* the load dimensions are irrelevant when the save is refused
           /\ (SaveWillFail(x) => x.lfmt = "default" /\ x.ltype = 0 /\ x.tamper = "no")
           /\ (SaveWillFail(x) \/ Code(x) % Stride = 0)
Init == /\ c \in {x \in Cases : Sane(x)} /\ pc = "s_format" /\ isave = "" /\ iload = ""

Step(p2) == pc' = p2 /\ UNCHANGED <<c, isave, iload>>
SFail(e) == pc' = "done" /\ isave' = e /\ iload' = "skipped" /\ UNCHANGED c
LFail(e) == pc' = "done" /\ iload' = e /\ UNCHANGED <<c, isave>>

\* ---- io.save ----
SFormat  == pc = "s_format" /\ IF c.sfmt = "none" /\ c.sfx # ".json" THEN SFail("ValueError") ELSE Step("s_saver")   \* is_json: suffix == ".json"
SSaver   == pc = "s_saver"  /\ IF c.sfmt = "csv" THEN SFail("ValueError") ELSE Step("s_adapter")
SAdapter == pc = "s_adapter" /\ IF c.obj = "not_a_collection" THEN SFail("NotImplementedError") ELSE Step("s_write")
SWrite   == pc = "s_write" /\ pc' = "l_format" /\ isave' = "ok" /\ UNCHANGED <<c, iload>>
\* ---- io.load (on the possibly tampered file) ----
LFormat  == pc = "l_format" /\ IF c.lfmt = "none" /\ LoadSfx(c) # ".json" THEN LFail("ValueError") ELSE Step("l_loader")
LLoader  == pc = "l_loader" /\ IF c.lfmt = "csv" THEN LFail("ValueError") ELSE Step("l_exists")
LExists  == pc = "l_exists" /\ IF c.tamper = "missing" THEN LFail("FileNotFoundError") ELSE Step("l_suffix")
LSuffix  == pc = "l_suffix" /\ IF LoadSfx(c) # ".json" THEN LFail("ValueError") ELSE Step("l_parse")
LParse   == pc = "l_parse"  /\ IF c.tamper \in {"garbage", "unknown_ctype"} THEN LFail("ValueError") ELSE Step("l_type")
LType    == pc = "l_type"   /\ IF c.ltype # 0 /\ c.ltype # c.ct THEN LFail("ValueError") ELSE Step("l_version")
LVersion == pc = "l_version" /\ IF c.tamper = "version" THEN LFail("ValueError") ELSE Step("l_convert")
LConvert == pc = "l_convert" /\ pc' = "done" /\ iload' = "ok" /\ UNCHANGED <<c, isave>>

Next == SFormat \/ SSaver \/ SAdapter \/ SWrite \/ LFormat \/ LLoader \/ LExists \/ LSuffix \/ LParse \/ LType \/ LVersion \/ LConvert
Spec == Init /\ [][Next]_vars /\ WF_vars(Next)

ImplRefinesReq == pc = "done" => /\ SaveAccepts(c, isave)
                                 /\ (isave = "ok" => LoadAccepts(c, iload))
\* a call without faults succeeds, a call with a certain fault never does
NoFaultOk == pc = "done" => /\ (SaveFaults(c) \cup SaveMaybe(c) = {} => isave = "ok")
                            /\ (SaveFaults(c) # {} => isave # "ok")
                            /\ (isave = "ok" /\ LoadFaults(c) \cup LoadMaybe(c) = {} => iload = "ok")
                            /\ (isave = "ok" /\ LoadFaults(c) # {} => iload # "ok")
Terminates == <>(pc = "done")
Export == pc = "done" => PrintT(<<"CASE", ToJson(c @@ [isave |-> isave, iload |-> iload])>>)
=============================================================================
