------------------------------- MODULE ArrayOps -------------------------------
(***************************************************************************)
(* X02 -- the rest of the arrays API (DESIGN 7): what the docstrings of    *)
(* soundevent.arrays.operations / .dimensions promise, on exact rationals. *)
(*                                                                         *)
(*  alg    offset / scale / normalize / center: values and the attributes  *)
(*         they record (add_offset, scale_factor)                          *)
(*  db     to_db: floor at amin, reference, clamps min_db then max_db      *)
(*  resize new size, start kept, step = old_step * old_size / new_size     *)
(*  adjust adjust_dim_range = crop / extend to the bins that cover         *)
(*         [start, stop], composed from CropExtend!ApplyOp                 *)
(*  dims   set_dim_attrs, get_dim_range / width / step, estimate_dim_step, *)
(*         create_time_dim_from_array / create_frequency_dim_from_array    *)
(*                                                                         *)
(* Rationals are <<p, q>>, q > 0, kept normalised; observed doubles are    *)
(* limb numbers (distance to a rational) or bit patterns (identity/order). *)
(***************************************************************************)
EXTENDS CropExtend

(* ------------------------------------------------------------- rationals *)
RECURSIVE GCD(_, _)
GCD(x, y) == IF y = 0 THEN x ELSE GCD(y, x % y)
RNorm(x)  == IF x[1] = 0 THEN <<0, 1>> ELSE LET g == GCD(Abs(x[1]), x[2]) IN <<x[1] \div g, x[2] \div g>>
RPlus(x, y)  == RNorm(<<x[1] * y[2] + y[1] * x[2], x[2] * y[2]>>)
RNeg(x)      == <<-x[1], x[2]>>
RMinus(x, y) == RPlus(x, RNeg(y))
RTimes(x, y) == RNorm(<<x[1] * y[1], x[2] * y[2]>>)
RInv(x)      == IF x[1] > 0 THEN <<x[2], x[1]>> ELSE <<-x[2], -x[1]>>            \* x # 0
RInt(k)      == <<k, 1>>
Pow2(q)      == q \in {1, 2, 4, 8, 16, 32, 64, 128, 256, 512, 1024}
RDyadic(x)   == Pow2(x[2])
RPow2(x)     == x[1] > 0 /\ Pow2(x[1]) /\ Pow2(x[2])                             \* 2^k, k any sign: its reciprocal is exact
RSeqMin(xs)  == CHOOSE x \in Range(xs) : \A y \in Range(xs) : RLe(x, y)
RSeqMax(xs)  == CHOOSE x \in Range(xs) : \A y \in Range(xs) : RLe(y, x)
RECURSIVE RSum(_, _)
RSum(xs, k)  == IF k = 0 THEN <<0, 1>> ELSE RPlus(RSum(xs, k - 1), xs[k])

\* an observed double v (limbs) against a rational x: equal when the computation is exact, else within 2^-28 / q
VIs(v, x, exact) == /\ LFinite(v) /\ x[2] < 32768
                    /\ LET m == LMulMag(v, x[2]) IN IF exact THEN ExactInt(m, x[1]) ELSE NearInt(m, x[1])

(* ------------------------------------------- (a) attribute algebra: Req *)
(* state: values (rationals), the two recorded attributes (<<>> = absent), *)
(* and whether every float operation so far was exact                      *)
(* operations: [op |-> "offset" | "scale" | "normalize" | "center", v]     *)
AlgInit(xs) == [vals |-> [k \in 1..Len(xs) |-> RNorm(<<xs[k], 4>>)], off |-> <<>>, sf |-> <<>>, exact |-> TRUE]
Shift(st, d) == [st EXCEPT !.vals = [k \in 1..Len(st.vals) |-> RPlus(st.vals[k], d)], !.off = <<RNeg(d)>>]     \* offset(arr, d): add_offset = -d
Mult(st, f)  == [st EXCEPT !.vals = [k \in 1..Len(st.vals) |-> RTimes(st.vals[k], f)], !.sf = <<RInv(f)>>]      \* scale(arr, f): scale_factor = 1/f
AlgStep(st, o) ==
    CASE o.op = "offset"    -> Shift(st, RNorm(o.v))
      [] o.op = "scale"     -> Mult(st, RNorm(o.v))
      [] o.op = "normalize" -> LET mn == RSeqMin(st.vals)  rg == RMinus(RSeqMax(st.vals), mn) IN
                               IF rg[1] = 0 THEN Shift(st, RNeg(mn))                         \* constant array: only the offset
                               ELSE [Mult(Shift(st, RNeg(mn)), RInv(rg)) EXCEPT !.exact = st.exact /\ RPow2(rg)]
      [] o.op = "center"    -> LET mean == RTimes(RSum(st.vals, Len(st.vals)), <<1, Len(st.vals)>>) IN
                               [Shift(st, RNeg(mean)) EXCEPT !.exact = st.exact /\ RDyadic(mean)]
RECURSIVE AlgRun(_, _, _)
AlgRun(st, ops, k) == IF k > Len(ops) THEN st ELSE AlgRun(AlgStep(st, ops[k]), ops, k + 1)
AlgFinal(c) == AlgRun(AlgInit(c.xs), c.ops, 1)
\* unpacking by the recorded attributes (CF convention): original = value * scale_factor + add_offset
Unpack(st) == [k \in 1..Len(st.vals) |-> RPlus(RTimes(st.vals[k], IF IsNone(st.sf) THEN <<1, 1>> ELSE Some(st.sf)),
                                               IF IsNone(st.off) THEN <<0, 1>> ELSE Some(st.off))]

(* ----------------------------------------------------- (b) to_db: Req *)
(* numbers are m * 10^e with m in {1, 2, 5} (m = 0: zero, m = -1: a negative value); decibels are integers of micro-dB *)
(* intervals <<lo, hi>> (10 log10 2 in [3.010299, 3.010300], 10 log10 5 in [6.989700, 6.989701])                        *)
MicroDb == 1000000
L10(m)  == CASE m = 1 -> <<0, 0>> [] m = 2 -> <<3010299, 3010300>> [] m = 5 -> <<6989700, 6989701>>
Db10(x) == <<L10(x.m)[1] + 10 * MicroDb * x.e, L10(x.m)[2] + 10 * MicroDb * x.e>>          \* 10 log10(m 10^e)
IvScale(iv, k) == <<iv[1] * k, iv[2] * k>>
IvMinus(x, y)  == <<x[1] - y[2], x[2] - y[1]>>
IvClampLo(iv, b) == <<Max(iv[1], b), Max(iv[2], b)>>
IvClampHi(iv, b) == <<Min(iv[1], b), Min(iv[2], b)>>
Positive(x) == x.m >= 1
\* the value after  np.maximum(amin ** (1/power), .)  : threshold 10^(ea / power)
Floored(x, ea, p) == IF Positive(x) /\ x.e >= ea \div p THEN x ELSE [m |-> 1, e |-> ea \div p]
\* order of the numbers m * 10^e (zero and negatives below every positive one):  NumLe(y, x) iff y <= x
NumLe(y, x) == \/ ~Positive(y) /\ (Positive(x) \/ y.m <= x.m)
               \/ Positive(y) /\ Positive(x) /\ (y.e < x.e \/ (y.e = x.e /\ y.m <= x.m))
\* ref: a power of ten 10^er (er a multiple of power), or ref = np.max (a callable: the maximum of the array; power = 1)
DbRef(c)   == IF c.refmax THEN (CHOOSE x \in Range(c.xs) : \A y \in Range(c.xs) : NumLe(y, x)) ELSE c.ref
DbRaises(c) == c.aminneg \/ ~Positive(DbRef(c))
\* 10 * power * log10(max(amin^(1/p), x)) - 10 * power * log10(max(amin^(1/p), ref^(1/p))), then max(., min_db), then min(., max_db)
DbOf(c, x) ==
    LET p   == c.power
        thr == c.ea \div p
        rf  == DbRef(c)
        num == IvScale(Db10(Floored(x, c.ea, p)), p)
        den == IF c.refmax THEN Db10(Floored(rf, c.ea, 1))
               ELSE IvScale(Db10([m |-> 1, e |-> Max(thr, rf.e \div p)]), p)
        raw == IvMinus(num, den)
        lo  == IF IsNone(c.mindb) THEN raw ELSE IvClampLo(raw, Some(c.mindb) * MicroDb)
    IN  IF IsNone(c.maxdb) THEN lo ELSE IvClampHi(lo, Some(c.maxdb) * MicroDb)
\* observed double (limbs) inside a micro-dB interval, one micro-dB of slack
SignedInt(m) == IF m[1] = -1 THEN -(m[2] + 1) ELSE m[2]                                    \* floor of the value
InMicro(v, iv) == /\ LFinite(v)
                  /\ IF iv[1] = iv[2] /\ iv[1] % MicroDb = 0 THEN NearInt(v, iv[1] \div MicroDb)          \* whole decibels: to 2^-28 dB
                     ELSE LET m == LMulMag(LMulMag(v, 1000), 1000) IN SignedInt(m) >= iv[1] - 1 /\ SignedInt(m) <= iv[2] + 1

(* ----------------------------------------------------- (c) resize: Req *)
NewStep(s, n, k) == RNorm(<<s[1] * n, s[2] * k>>)                                           \* old_step * old_size / new_size

(* -------------------------------------------- (d) adjust_dim_range: Req *)
(* the axis a + j*s, a a multiple of s (the code snaps to multiples of the step); coordinates are the left edges of bins *)
(* [c, c + s).  The result consists of the bins from the one containing start to the one containing stop; a side that   *)
(* is None is left alone.  A stop exactly on a bin edge: the docstring does not say whether that bin belongs.            *)
AdjLo(c) == IF IsNone(c.start) THEN 0 ELSE Some(c.start) \div 4
AdjHis(c) == IF IsNone(c.stop) THEN {c.n - 1}
             ELSE IF Some(c.stop) % 4 = 0 THEN {Some(c.stop) \div 4, Some(c.stop) \div 4 - 1} ELSE {Some(c.stop) \div 4}
AdjRaises(c) == (IsNone(c.start) /\ IsNone(c.stop)) \/ (~IsNone(c.start) /\ ~IsNone(c.stop) /\ Some(c.start) >= Some(c.stop))
\* the same result as a composition of the C17 operations (CropExtend!ApplyOp), the way the implementation proceeds
AdjOp(op, ms, me, lc, rc) == [op |-> op, ms |-> ms, me |-> me, lc |-> lc, rc |-> rc, w |-> 0, pos |-> ""]
AdjStartOp(c, st) == LET t == 4 * (Some(c.start) \div 4) IN
                     IF Some(c.start) > 4 * st.lo THEN {AdjOp("crop", t, 4 * st.hi, TRUE, TRUE)}
                     ELSE IF Some(c.start) < 4 * st.lo THEN {AdjOp("extend", t, 4 * st.hi, TRUE, TRUE)} ELSE {}
AdjStopOp(c, st)  == LET t == 4 * (Some(c.stop) \div 4) IN
                     IF Some(c.stop) < 4 * st.hi THEN {AdjOp("crop", 4 * st.lo, t, TRUE, TRUE)}
                     ELSE IF Some(c.stop) > 4 * st.hi THEN {AdjOp("extend", 4 * st.lo, t, TRUE, TRUE)} ELSE {}
ApplyAll(S, s, opsOf(_)) == UNION {IF opsOf(st) = {} THEN {st} ELSE UNION {ApplyOp(st, s, o) : o \in opsOf(st)} : st \in S}
AdjCompose(c) ==
    LET S0 == {St(0, c.n - 1, 0..(c.n - 1))}
        S1 == IF IsNone(c.start) THEN S0 ELSE ApplyAll(S0, c.s, LAMBDA st : AdjStartOp(c, st))
    IN  IF IsNone(c.stop) THEN S1 ELSE ApplyAll(S1, c.s, LAMBDA st : AdjStopOp(c, st))

(* -------------------------------------------------------- (e) dims: Req *)
Lat2(ir, k) == IF ir = 0 THEN k ELSE (k * (k + 1)) \div 2                                   \* irregular axis: gaps 1, 2, 3, ...
\* get_dim_step / estimate_dim_step: <<"raise">> or <<"val", rational>>
StepOutcome(c) ==
    IF ~IsNone(c.attr) THEN <<"val", RTimes(c.s, Some(c.attr))>>                             \* the attribute, whatever the coordinates are
    ELSE IF ~c.est THEN <<"raise">>
    ELSE IF c.ir # 0 /\ c.n >= 3 /\ c.chk THEN <<"raise">>                                  \* differences 1, 2, ...: not a consistent step
    ELSE <<"val", RTimes(c.s, <<Lat2(c.ir, c.n - 1), c.n - 1>>)>>                            \* mean of the differences

(***************************************************************************)
(* Acceptance of one observation (o.in = case, o.out = what came back).    *)
(***************************************************************************)
ClausesX == {"Returns", "Raises",
             "AlgValues", "AlgAddOffset", "AlgScaleFactor", "Preserved", "InputUntouched",
             "DbValues", "DbMonotone", "DbClamped", "DbUnits",
             "ResizeShape", "ResizeCoords", "ResizeStepAttr", "ResizeValues",
             "AdjustAxis", "AdjustOldKept", "AdjustNewFill",
             "StepValue", "RangeWidth", "AttrsSet", "DimFromArray", "WidthFill"}

OptIs(o, x, exact) == IF IsNone(x) THEN IsNone(o) ELSE ~IsNone(o) /\ VIs(Some(o), Some(x), exact)
SamePres(r) == r.dims_out = r.dims_in /\ r.coords_out = r.coords_in /\ r.other_out = r.other_in
Untouched(r) == r.in_after = r.in_before /\ r.in_attrs_after = r.in_attrs_before

HoldsAlg(cl, c, r) ==
    LET f == AlgFinal(c) IN
    CASE cl = "Returns"        -> r.raised = ""
      [] cl = "AlgValues"      -> Len(r.vals) = Len(f.vals) /\ \A k \in 1..Len(f.vals) : VIs(r.vals[k], f.vals[k], f.exact)
      [] cl = "AlgAddOffset"   -> OptIs(r.off, f.off, f.exact)
      [] cl = "AlgScaleFactor" -> OptIs(r.sf, f.sf, f.exact)
      [] cl = "Preserved"      -> SamePres(r)
      [] cl = "InputUntouched" -> Untouched(r)
      [] OTHER -> TRUE

HoldsDb(cl, c, r) ==
    IF DbRaises(c) THEN (cl = "Raises" => r.raised = "ValueError")
    ELSE
    CASE cl = "Returns"    -> r.raised = ""
      [] cl = "DbValues"   -> Len(r.vals) = Len(c.xs) /\ \A k \in 1..Len(c.xs) : InMicro(r.vals[k], DbOf(c, c.xs[k]))
      [] cl = "DbMonotone" -> \A j \in 1..Len(r.valb), k \in 1..Len(r.valb) : NumLe(c.xs[j], c.xs[k]) => BLe(r.valb[j], r.valb[k])
      [] cl = "DbClamped"  -> \A k \in 1..Len(r.valb) :
                                 /\ (~IsNone(c.mindb) /\ (IsNone(c.maxdb) \/ Some(c.maxdb) >= Some(c.mindb))) => BLe(r.mindb_b, r.valb[k])
                                 /\ ~IsNone(c.maxdb) => BLe(r.valb[k], r.maxdb_b)
      [] cl = "DbUnits"    -> r.units = (IF c.units = "" THEN "dB" ELSE c.units \o " dB")
      [] cl = "Preserved"  -> r.dims_out = r.dims_in /\ r.coords_out = r.coords_in
      [] cl = "InputUntouched" -> Untouched(r)
      [] OTHER -> TRUE

\* resize: c.sizes[d] = <<>> (dimension d not resized) or <<k>>; c.shape = old sizes; dimension 1 is the axis (a4, s)
HoldsResize(cl, c, r) ==
    IF c.baddim THEN (cl = "Raises" => r.raised = "ValueError")
    ELSE
    LET k  == Some(c.sizes[1])
        ns == NewStep(c.s, c.shape[1], k) IN
    CASE cl = "Returns"        -> r.raised = ""
      [] cl = "ResizeShape"    -> /\ Len(r.shape) = Len(c.shape) /\ r.dims_out = r.dims_in
                                  /\ \A d \in 1..Len(c.shape) : r.shape[d] = (IF IsNone(c.sizes[d]) THEN c.shape[d] ELSE Some(c.sizes[d]))
      \* exact only when the old step AND the new one are dyadic (the new step is computed as (stop + step - start) / size)
      [] cl = "ResizeCoords"   -> Len(r.lout) = k /\ \A t \in 1..Len(r.lout) :
                                     /\ LFinite(r.lout[t])
                                     /\ LET m == ToGrid(r.lout[t], ns)  P == GridPoint(c.a4, ns, t - 1)
                                        IN  IF Dyadic(c.s) /\ Dyadic(ns) THEN ExactInt(m, P) ELSE NearInt(m, P)
      [] cl = "ResizeStepAttr" -> IsNone(r.stepattr) \/ VIs(Some(r.stepattr), ns, Dyadic(c.s) /\ Dyadic(ns))   \* if a step is recorded it is the new one
      \* linear data (sample j holds j + 1): inside the old coordinates the interpolated value is 1 + t * n / k
      [] cl = "ResizeValues"   -> c.shape[1] >= 2 => Len(r.vals) = Len(r.lout) /\ \A t \in 1..Len(r.vals) :
                                     (\/ (t - 1) * c.shape[1] < (c.shape[1] - 1) * k
                                      \/ (t - 1) * c.shape[1] = (c.shape[1] - 1) * k /\ Dyadic(c.s) /\ RDyadic(ns)) =>
                                        VIs(r.vals[t], RNorm(<<k + (t - 1) * c.shape[1], k>>), FALSE)
      [] cl = "InputUntouched" -> Untouched(r)
      [] OTHER -> TRUE

HoldsAdjust(cl, c, r) ==
    IF AdjRaises(c) THEN (cl = "Raises" => r.raised = "ValueError")
    ELSE
    LET L == Len(r.data)
        lo == AdjLo(c)
        H == {h \in AdjHis(c) : L = h - lo + 1} IN
    CASE cl = "Returns"       -> r.raised = ""
      [] cl = "AdjustAxis"    -> H # {} /\ Len(r.lout) = L /\ \A t \in 1..L : OnLattice(r.lout[t], c.a4, c.s, lo + t - 1)
      [] cl = "AdjustOldKept" -> H = {} \/ (/\ \A t \in 1..L : (lo + t - 1) \in 0..(c.n - 1) => r.data[t] = lo + t
                                           /\ CoordsKept(c, r))
      [] cl = "AdjustNewFill" -> H = {} \/ \A t \in 1..L : (lo + t - 1) \notin 0..(c.n - 1) => r.data[t] = c.fill
      [] cl = "InputUntouched" -> Untouched(r)
      [] OTHER -> TRUE

TimeAttrs == <<<<"long_name", "Time since start of recording">>, <<"standard_name", "time">>, <<"units", "s">>>>
FreqAttrs == <<<<"long_name", "Frequency">>, <<"standard_name", "frequency">>, <<"units", "Hz">>>>
HoldsDims(cl, c, r) ==
    CASE c.fn \in {"get_step", "est_step"} ->
            LET e == StepOutcome(c) IN
            IF e[1] = "raise" THEN (cl = "Raises" => r.raised = "ValueError")
            ELSE CASE cl = "Returns"   -> r.raised = ""
                   [] cl = "StepValue" -> ~IsNone(r.val) /\ VIs(Some(r.val), e[2], Dyadic(c.s) /\ RDyadic(e[2]))
                   [] OTHER -> TRUE
      [] c.fn = "range_width" ->
            CASE cl = "Returns"    -> r.raised = ""
              [] cl = "RangeWidth" -> /\ BEq(r.lo, r.cb[1]) /\ BEq(r.hi, r.cb[Len(r.cb)])
                                      /\ ~IsNone(r.val) /\ VIs(Some(r.val), RTimes(c.s, RInt(Lat2(c.ir, c.n - 1))), Dyadic(c.s))
              [] OTHER -> TRUE
      [] c.fn = "set_attrs" ->
            CASE cl = "Returns"  -> r.raised = ""
              \* the given attributes are set (overwriting), every other attribute of the coordinate is kept; same object back
              [] cl = "AttrsSet" -> /\ r.same
                                    /\ Range(r.attrs_after) = Range(r.given) \cup {a \in Range(r.attrs_before) : \A g \in Range(r.given) : g[1] # a[1]}
              [] cl = "InputUntouched" -> r.data_after = r.data_before /\ r.cb_after = r.cb
              [] OTHER -> TRUE
      [] c.fn \in {"time_from_array", "freq_from_array"} ->
            LET how == c.how
                es  == CASE how = "none" -> <<>>
                         [] how = "given" -> <<RTimes(c.s, <<3, 2>>)>>                     \* an explicit step is recorded as given
                         [] how = "sr"    -> <<c.s>>                                       \* samplerate = 1/s
                         [] how = "est"   -> <<RTimes(c.s, <<Lat2(c.ir, c.n - 1), c.n - 1>>)>>
            IN
            CASE cl = "Returns"      -> r.raised = ""
              [] cl = "DimFromArray" -> /\ r.named = (IF c.fn = "time_from_array" THEN TimeAttrs ELSE FreqAttrs)
                                        /\ r.dimname = (IF c.name # "" THEN c.name ELSE IF c.fn = "time_from_array" THEN "time" ELSE "frequency")
                                        /\ r.cb_after = r.cb /\ r.extra = "kept"
                                        /\ OptIs(r.stepattr, es, Dyadic(c.s) /\ (IsNone(es) \/ RDyadic(Some(es))))
              [] OTHER -> TRUE

\* adjust_dim_width / extend_dim_width, fill_value: "the value to fill the extended region with" -- every added sample, in front
\* and behind, holds it; the original block sits where C17 says (CropExtend!Offs).  c.fill is a rational.
HoldsWFill(cl, c, r) ==
    CASE cl = "Returns"   -> r.raised = ""
      [] cl = "WidthFill" -> r.raised = "" =>
            /\ Len(r.vals) = c.w
            /\ \E off \in Offs(c.pos, c.w - c.n) : \A t \in 1..c.w :
                  VIs(r.vals[t], IF t - off - 1 \in 0..(c.n - 1) THEN RInt(t - off) ELSE RNorm(c.fill), TRUE)
      [] cl = "InputUntouched" -> Untouched(r)
      [] OTHER -> TRUE

HoldsX(cl, o) ==
    LET c == o.in  r == o.out IN
    CASE c.kind = "alg"    -> HoldsAlg(cl, c, r)
      [] c.kind = "db"     -> HoldsDb(cl, c, r)
      [] c.kind = "resize" -> HoldsResize(cl, c, r)
      [] c.kind = "adjust" -> HoldsAdjust(cl, c, r)
      [] c.kind = "dims"   -> HoldsDims(cl, c, r)
      [] c.kind = "wfill"  -> HoldsWFill(cl, c, r)
=============================================================================
