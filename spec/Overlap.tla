------------------------------- MODULE Overlap -------------------------------
(***************************************************************************)
(* C12 -- overlap predicates agree with exact interval arithmetic.         *)
(*                                                                         *)
(* Req: what intervals_overlap / have_temporal_overlap /                   *)
(* have_frequency_overlap / is_in_clip must return, on integer ticks.      *)
(* Thresholds are optional: abs is <<>> or <<k>>; rel is <<>> or <<<<p,q>>>>*)
(***************************************************************************)
EXTENDS GeomModel

FMAXT == 5000        \* MAX_FREQUENCY in ticks of 1000 Hz

Width(i) == i[2] - i[1]
InterLen(i, j) == Min(i[2], j[2]) - Max(i[1], j[1])      \* may be negative

\* outcome of intervals_overlap as a string: "true" | "false" | "raise:ValueError"
B2S(b) == IF b THEN "true" ELSE "false"

RelValid(r) == r[1] >= 0 /\ r[1] <= r[2]

OverlapVal(i, j, abs, rel) ==
    IF ~IsNone(abs) THEN InterLen(i, j) >= Some(abs)
    ELSE IF ~IsNone(rel)
         THEN InterLen(i, j) * Some(rel)[2] >= Some(rel)[1] * Min(Width(i), Width(j))
         ELSE InterLen(i, j) >= 0

Overlap(i, j, abs, rel) ==
    IF ~IsNone(abs) /\ ~IsNone(rel) THEN "raise:ValueError"
    ELSE IF ~IsNone(rel) /\ ~RelValid(Some(rel)) THEN "raise:ValueError"
    ELSE B2S(OverlapVal(i, j, abs, rel))

TemporalOverlap(g1, g2, abs, rel)  == Overlap(TimeExtent(g1, FMAXT), TimeExtent(g2, FMAXT), abs, rel)
FrequencyOverlap(g1, g2, abs, rel) == Overlap(FreqExtent(g1, FMAXT), FreqExtent(g2, FMAXT), abs, rel)

\* is_in_clip: ends more than m after the clip start and starts more than m before the clip end
InClip(g, clip, m) ==
    IF m < 0 THEN "raise:ValueError"
    ELSE LET t == TimeExtent(g, FMAXT)
         IN  B2S(t[2] > clip[1] + m /\ t[1] < clip[2] - m)

Expected(c) ==
    CASE c.kind = "iv"   -> Overlap(c.a, c.b, c.abs, c.rel)
      [] c.kind = "time" -> TemporalOverlap(c.g1, c.g2, c.abs, c.rel)
      [] c.kind = "freq" -> FrequencyOverlap(c.g1, c.g2, c.abs, c.rel)
      [] c.kind = "clip" -> InClip(c.g, c.clip, c.m)
      [] c.kind = "clipfar" -> InClip(c.g, c.clip, c.m)      \* same predicate; the binder uses a fine unit far from time 0

(***************************************************************************)
(* Acceptance of one observation o = [in |-> case, out |-> [r, rs]]:       *)
(* r[u] is the outcome at exact unit u, rs[u] the outcome with the two     *)
(* arguments swapped (equal to r for "clip").                              *)
(***************************************************************************)
Clauses == {"EqualsExact", "Sym", "Raises"}
IsRaise(s) == s = "raise:ValueError"
Holds(cl, o) ==
    LET e == Expected(o.in) IN
    CASE cl = "EqualsExact" -> IsRaise(e) \/ \A u \in DOMAIN o.out.r : o.out.r[u] = e
      [] cl = "Raises"      -> IsRaise(e) => \A u \in DOMAIN o.out.r : o.out.r[u] = e
      [] cl = "Sym"         -> \A u \in DOMAIN o.out.r : o.out.rs[u] = o.out.r[u]
=============================================================================
