----------------------------- MODULE P_CropExtend -----------------------------
(***************************************************************************)
(* C17 laws for ALL integers, division-free (floor/ceil are characterised  *)
(* by their defining inequalities).  Coordinates at 4*j (quarter steps).   *)
(***************************************************************************)
EXTENDS Integers, TLAPS

\* the first / last lattice index inside an interval that contains the axis 0..n-1 lies outside or at its ends
THEOREM ExtendContainsAxis ==
  \A n, ms, me, lo, hi \in Int :
     (n >= 1 /\ ms <= 0 /\ me >= 4 * (n - 1)
        /\ 4 * lo >= ms /\ 4 * (lo - 1) < ms            \* lo = ceil(ms/4)  (closed left end)
        /\ 4 * hi <= me /\ 4 * (hi + 1) > me)           \* hi = floor(me/4) (closed right end)
     => (lo <= 0 /\ hi >= n - 1)
  OBVIOUS
THEOREM ExtendContainsAxisOpen ==
  \A n, ms, me, lo, hi \in Int :
     (n >= 1 /\ ms < 0 /\ me > 4 * (n - 1)
        /\ 4 * lo > ms /\ 4 * (lo - 1) <= ms            \* lo = floor(ms/4) + 1 (open left end)
        /\ 4 * hi < me /\ 4 * (hi + 1) >= me)           \* hi = ceil(me/4) - 1  (open right end)
     => (lo <= 0 /\ hi >= n - 1)
  OBVIOUS

\* repaired extend_dim_width: the numbers of new samples are integers xl + xr = w - n, so the width is exact,
\* and the centre split xl = floor(extra/2) puts the block at floor or ceil of the middle
THEOREM WidthExact == \A n, w, xl, xr \in Int : xl + xr = w - n => n + xl + xr = w
  OBVIOUS
\* (doubling is written x + x: the SMT back end does not use integrality of products 2 * x)
THEOREM CentreSplit ==
  \A extra, xl \in Int : (extra >= 0 /\ xl + xl <= extra /\ extra < xl + xl + 2)
                            => (0 <= xl /\ xl <= extra /\ xl + xl - 1 <= extra /\ extra <= xl + xl + 1)
  OBVIOUS
\* crop_dim_width "center": offset n div 2 - w div 2 is floor or ceil of (n - w)/2 and the block fits
THEOREM CentreCropOffset ==
  \A n, w, a, b \in Int :
     (1 <= w /\ w < n /\ a + a <= n /\ n < a + a + 2 /\ b + b <= w /\ w < b + b + 2)
     => (0 <= a - b /\ (a - b) + w <= n /\ (a - b) + (a - b) - 1 <= n - w /\ n - w <= (a - b) + (a - b) + 1)
  <1> SUFFICES ASSUME NEW n \in Int, NEW w \in Int, NEW a \in Int, NEW b \in Int,
                      1 <= w, w < n, a + a <= n, n < a + a + 2, b + b <= w, w < b + b + 2
               PROVE  0 <= a - b /\ (a - b) + w <= n /\ (a - b) + (a - b) - 1 <= n - w /\ n - w <= (a - b) + (a - b) + 1
      OBVIOUS
  <1>a. n <= a + a + 1 /\ w <= b + b + 1  OBVIOUS
  <1>1. (a - b) + (a - b) - 1 <= n - w /\ n - w <= (a - b) + (a - b) + 1  BY <1>a
  <1>2. 0 <= a - b  BY <1>1
  <1>3. ((a - b) + w) + ((a - b) + w) <= n + n  BY <1>a
  <1>4. (a - b) + w <= n  BY <1>3
  <1> QED BY <1>1, <1>2, <1>4
\* the float arange of extend_dim_width as found could return extra + 1 elements: then the width is wrong
THEOREM FloatArangeBreaksWidth == \A n, extra \in Int : n + (extra + 1) # n + extra
  OBVIOUS
=============================================================================
