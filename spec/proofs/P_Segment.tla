------------------------------ MODULE P_Segment ------------------------------
(***************************************************************************)
(* C14: why the loop bound must be ceil(len / hop), for ALL integers.      *)
(* A window index i starts inside the clip iff i*h < len; the loop runs    *)
(* i = 0 .. num-1.  With num = ceil(len/h) (characterised without          *)
(* division: (num-1)*h < len <= num*h) exactly those indices are visited;  *)
(* with num = floor(len/h) (num*h <= len < (num+1)*h) the index i = num is *)
(* lost whenever len is not a multiple of h.                               *)
(***************************************************************************)
EXTENDS Integers, TLAPS

THEOREM CeilBoundExact ==
  \A len, h, num, i \in Int :
     (h >= 1 /\ len >= 0 /\ num >= 0 /\ (num - 1) * h < len /\ len <= num * h /\ i >= 0)
        => ((i * h < len) <=> (i < num))
  <1> SUFFICES ASSUME NEW len \in Int, NEW h \in Int, NEW num \in Int, NEW i \in Int,
                      h >= 1, len >= 0, num >= 0, (num - 1) * h < len, len <= num * h, i >= 0
               PROVE  (i * h < len) <=> (i < num)
      OBVIOUS
  <1>1. ASSUME i < num PROVE i * h < len
        <2>1. i <= num - 1  BY <1>1
        <2>2. i * h <= (num - 1) * h  BY <2>1
        <2> QED BY <2>2
  <1>2. ASSUME i >= num PROVE i * h >= len
        <2>1. i * h >= num * h  BY <1>2
        <2> QED BY <2>1
  <1> QED BY <1>1, <1>2

THEOREM FloorBoundLoses ==
  \A len, h, num \in Int :
     (h >= 1 /\ num >= 0 /\ num * h < len /\ len < (num + 1) * h)
        => (num * h < len /\ ~(num < num))      \* index num starts inside the clip but is never visited
  OBVIOUS

\* windows that fit completely form a prefix of the windows that start inside (d >= 1)
THEOREM FitImpliesStartsInside ==
  \A s, e, d, h, i \in Int : (d >= 1 /\ s + i * h + d <= e) => s + i * h < e
  OBVIOUS
=============================================================================
