------------------------------ MODULE P_Overlap ------------------------------
(***************************************************************************)
(* C12 laws for ALL integers (TLC checks them on 0..N only).               *)
(* Self-contained copies of the arithmetic core of Overlap.tla so that the *)
(* proof manager does not have to load the geometry library.               *)
(***************************************************************************)
EXTENDS Integers, TLAPS

Min(a, b) == IF a <= b THEN a ELSE b
Max(a, b) == IF a >= b THEN a ELSE b
InterLen(a1, a2, b1, b2) == Min(a2, b2) - Max(a1, b1)
AbsOverlap(a1, a2, b1, b2, k) == InterLen(a1, a2, b1, b2) >= k
\* relative threshold p/q of the shorter interval
RelOverlap(a1, a2, b1, b2, p, q) == InterLen(a1, a2, b1, b2) * q >= p * Min(a2 - a1, b2 - b1)

THEOREM Sym == \A a1, a2, b1, b2, k \in Int :
                 AbsOverlap(a1, a2, b1, b2, k) <=> AbsOverlap(b1, b2, a1, a2, k)
  BY DEF AbsOverlap, InterLen, Min, Max

THEOREM SymRel == \A a1, a2, b1, b2, p, q \in Int :
                 RelOverlap(a1, a2, b1, b2, p, q) <=> RelOverlap(b1, b2, a1, a2, p, q)
  BY DEF RelOverlap, InterLen, Min, Max

THEOREM MonoAbs == \A a1, a2, b1, b2, k, k2 \in Int :
                 (k2 <= k /\ AbsOverlap(a1, a2, b1, b2, k)) => AbsOverlap(a1, a2, b1, b2, k2)
  BY DEF AbsOverlap, InterLen, Min, Max

THEOREM Touching == \A a1, a2, b2 \in Int : (a1 <= a2 /\ a2 <= b2) => AbsOverlap(a1, a2, a2, b2, 0)
  BY DEF AbsOverlap, InterLen, Min, Max

THEOREM Disjoint == \A a1, a2, b1, b2, k \in Int : (a2 < b1 /\ k >= 0) => ~AbsOverlap(a1, a2, b1, b2, k)
  BY DEF AbsOverlap, InterLen, Min, Max

\* is_in_clip: a geometry wholly inside the clip is in (even with zero length); one that only touches an edge is out
InClip(t1, t2, s, e, m) == t2 > s + m /\ t1 < e - m
THEOREM Inside == \A t1, t2, s, e \in Int : (s < t1 /\ t1 <= t2 /\ t2 < e) => InClip(t1, t2, s, e, 0)
  BY DEF InClip
THEOREM TouchingOut == \A t1, t2, s, e \in Int : (t2 = s \/ t1 = e) => ~InClip(t1, t2, s, e, 0)
  BY DEF InClip
THEOREM MonoClip == \A t1, t2, s, e, m, m2 \in Int : (0 <= m2 /\ m2 <= m /\ InClip(t1, t2, s, e, m)) => InClip(t1, t2, s, e, m2)
  BY DEF InClip
=============================================================================
