------------------------------ MODULE P_Buffer ------------------------------
(***************************************************************************)
(* C11, closed forms, for ALL integers (TLAPS, SMT back end).              *)
(* The closed form of Buffer!BufClosed on one axis is                      *)
(*     Lo(s, b) = Max(s - b, 0)     Hi(e, b, top) = Min(e + b, top)        *)
(* (the time axis has no upper clamp: Hi without Min).  The theorems are   *)
(* the laws MC_Buffer checks on the bounded lattice: containment,          *)
(* monotonicity, domain, exact widening.                                   *)
(***************************************************************************)
EXTENDS Integers, TLAPS

Max(a, b) == IF a >= b THEN a ELSE b
Min(a, b) == IF a <= b THEN a ELSE b
Lo(s, b) == Max(s - b, 0)
Hi(e, b, top) == Min(e + b, top)

THEOREM Contains ==
    \A s, e, b, top \in Int : (0 <= s /\ s <= e /\ e <= top /\ b >= 0) =>
        /\ Lo(s, b) <= s /\ e <= Hi(e, b, top)          \* clamped axis
        /\ e <= e + b                                   \* time axis
  BY DEF Lo, Hi, Max, Min

THEOREM Monotone ==
    \A s, e, b, c, top \in Int : (0 <= s /\ s <= e /\ e <= top /\ 0 <= b /\ b <= c) =>
        /\ Lo(s, c) <= Lo(s, b) /\ Hi(e, b, top) <= Hi(e, c, top)
        /\ e + b <= e + c
  BY DEF Lo, Hi, Max, Min

THEOREM Domain ==
    \A s, e, b, top \in Int : (0 <= s /\ s <= e /\ e <= top /\ b >= 0) =>
        /\ 0 <= Lo(s, b) /\ Lo(s, b) <= Hi(e, b, top) /\ Hi(e, b, top) <= top
        /\ Lo(s, b) <= e + b
  BY DEF Lo, Hi, Max, Min

\* "exactly widened by the buffers": away from the edges the result is s - b, e + b; at an edge it is the edge
THEOREM ExactWidening ==
    \A s, e, b, top \in Int : (0 <= s /\ s <= e /\ e <= top /\ b >= 0) =>
        /\ (s - b >= 0 => Lo(s, b) = s - b) /\ (s - b <= 0 => Lo(s, b) = 0)
        /\ (e + b <= top => Hi(e, b, top) = e + b) /\ (e + b >= top => Hi(e, b, top) = top)
  BY DEF Lo, Hi, Max, Min
=============================================================================
