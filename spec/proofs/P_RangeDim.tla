------------------------------ MODULE P_RangeDim ------------------------------
(***************************************************************************)
(* C16 laws for ALL integers (TLC checks them on the bounded universe).    *)
(* Self-contained copies of the integer core of RangeDim / MC_RangeDim     *)
(* (coordinate i at tick 8*i; stops in quarter steps), without division.   *)
(***************************************************************************)
EXTENDS Integers, TLAPS

\* k is a bracket of position p on an axis of n points:  c_k <= p < c_{k+1}, the last bin closed at the upper edge
Br(n, p, k) == 0 <= k /\ k <= n - 1 /\ 8 * k <= p /\ (k = n - 1 \/ p < 8 * (k + 1))

THEOREM BracketUnique ==
  \A n, p, k1, k2 \in Int : (Br(n, p, k1) /\ Br(n, p, k2)) => k1 = k2
  BY DEF Br

THEOREM UpperEdgeIsLastIndex == \A n \in Int : n >= 1 => Br(n, 8 * (n - 1), n - 1)
  BY DEF Br

THEOREM CoordinateOpensItsOwnBin ==
  \A n, k \in Int : (0 <= k /\ k <= n - 1) => (Br(n, 8 * k, k) /\ (k >= 1 => Br(n, 8 * k - 1, k - 1)))
  BY DEF Br

\* get_slice_bound(v, "right") - 1: the scan stops at the first i with c_i > p (or at n); in range, i - 1 is the bracket
THEOREM RightBoundMinusOne ==
  \A n, p, i \in Int :
     (n >= 1 /\ 0 <= p /\ p <= 8 * (n - 1) /\ 0 <= i /\ i <= n
        /\ (i >= 1 => 8 * (i - 1) <= p) /\ (i = n \/ 8 * i > p))
     => (i >= 1 /\ Br(n, p, i - 1))
  BY DEF Br

\* Range(a, a + k*s, s) has exactly the indices 0..k-1  (stop in quarter steps: m = 4k)
THEOREM WholeCount == \A k, i \in Int : (0 <= i /\ 4 * i < 4 * k) <=> (0 <= i /\ i <= k - 1)
  OBVIOUS

\* the removal test  last >= stop - s/2  (4*(len-1) >= m - 2) turns "k or k+1 elements" into exactly k when m = 4k,
\* and never leaves a point at or after the stop
Trimmed(m, len) == IF 4 * (len - 1) >= m - 2 THEN len - 1 ELSE len
THEOREM TrimCuresArange ==
  \A k, len \in Int : (k >= 1 /\ (len = k \/ len = k + 1)) => Trimmed(4 * k, len) = k
  BY DEF Trimmed
THEOREM TrimNeverAtStop ==
  \A m, len \in Int : (m >= 1 /\ 4 * (len - 1) < m + 4) => 4 * (Trimmed(m, len) - 1) < m
  BY DEF Trimmed
=============================================================================
