SPECIFICATION Spec
CONSTANTS
  MaxN = 4
  BoxStride = 1
  CatStride = 1
  PairStride = 5
  SameStride = 1
  AttrStride = 2
  TripleStride = 3
  ValueStride = 20
  PointStride = 2
  LightStride = 1
  ShapeFrom = "named dims"
CONSTRAINT Export
INVARIANT ImplRefinesReq
INVARIANT ImplOnTemplateAxes
INVARIANT LawBin
INVARIANT LawBoxIsCentreRule
INVARIANT LawCellsMonotone
INVARIANT LawInIsTouched
INVARIANT LawSameBins
INVARIANT LawDense
INVARIANT LawSatisfiable
PROPERTY Terminates
CHECK_DEADLOCK FALSE
