SPECIFICATION Spec
CONSTANTS
  Tier = "thorough"
CONSTRAINT Export
INVARIANT FineCoding
INVARIANT WellFormedCases
INVARIANT ParserAgrees
INVARIANT MissingIsInvalid
INVARIANT ImplIffValid
INVARIANT ImplIsFunction
INVARIANT ImplValueNormal
INVARIANT SecondNeedsFirst
INVARIANT LawReadings
INVARIANT LawNormalIdem
INVARIANT LawNormalValid
INVARIANT LawNormalAllowed
INVARIANT LawNormalKeepsPoints
INVARIANT LawStrictOnlyMulti
INVARIANT LawLooseIsDoc
INVARIANT LawRinglessInvalid
INVARIANT NeverStuck
PROPERTY RankDecreases
CHECK_DEADLOCK FALSE
