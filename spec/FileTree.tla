------------------------------- MODULE FileTree -------------------------------
(***************************************************************************)
(* X01 (a, b) -- the file-system side: is_audio_file, get_audio_files,     *)
(* Dataset.from_directory on a FILE TREE given as a TLA+ value.            *)
(*                                                                         *)
(* A name is a sequence of dot-separated parts: <<"a","wav">> = "a.wav",   *)
(* <<"","wav">> = ".wav" (a dot-file), <<"a">> = "a" (no extension),       *)
(* <<"a","wav","txt">> = "a.wav.txt".  A path is a sequence of names       *)
(* relative to the root (<<>> = the root itself).                          *)
(*                                                                         *)
(* A tree T = [root, ents]:                                                *)
(*   root \in {"dir","link","file","missing"}: what the path handed to the *)
(*        library is (link = a symlink to the directory holding ents)      *)
(*   ents = sequence of entries                                            *)
(*     [d: real directory path, n: name, k: "file"|"dir"|"link",           *)
(*      c: "audio"|"junk"|"empty"|"" (files), a: [sr,ch,fr,st] (audio),    *)
(*      t: target of a link = REAL path of a dir/file, or a missing path]  *)
(* Link targets are real (link-free) paths, so resolution is one hop.      *)
(***************************************************************************)
EXTENDS LimbBig, TLC

\* ------------------------------------------------------------------ names
RECURSIVE JoinStr(_, _)
JoinStr(s, sep) == IF Len(s) = 0 THEN "" ELSE IF Len(s) = 1 THEN s[1] ELSE s[1] \o sep \o JoinStr(Tail(s), sep)
NStr(n) == JoinStr(n, ".")
PStr(p) == IF p = <<>> THEN "." ELSE JoinStr([i \in DOMAIN p |-> NStr(p[i])], "/")

FrontOf(p) == SubSeq(p, 1, Len(p) - 1)
LastOf(p)  == p[Len(p)]

\* pathlib.PurePath.suffix: the part after the last dot, unless that dot is the leading character of the name
Suffix(n) == IF Len(n) >= 2 /\ ~(Len(n) = 2 /\ n[1] = "") THEN n[Len(n)] ELSE ""

\* str.lower on the alphabet of extensions that the universe uses
Lower(e) == CASE e \in {"wav", "WAV", "Wav", "wAV"} -> "wav"
              [] e \in {"flac", "FLAC", "Flac"} -> "flac"
              [] e \in {"mp3", "MP3"} -> "mp3"
              [] e \in {"txt", "TXT"} -> "txt"
              [] OTHER -> e

\* "Supported formats" of the is_audio_file docstring, verbatim
ValidExt == {"aiff", "au", "avr", "caf", "flac", "htk", "ircam", "mat4", "mat5", "mp3", "mpc2k", "nist", "ogg", "paf",
             "pvf", "rf64", "sds", "svx", "voc", "w64", "wav", "wavex", "wve"}

ExtOK(n)  == Lower(Suffix(n)) \in ValidExt                       \* a supported extension in pathlib's sense, any case
EndsOK(n) == Len(n) >= 2 /\ Lower(n[Len(n)]) \in ValidExt         \* the looser reading: the name ends in ".<supported>"

\* ------------------------------------------------------------------ the tree
Idx(T) == DOMAIN T.ents
Children(T, d) == {i \in Idx(T) : T.ents[i].d = d}
Find(T, d, n) == LET S == {i \in Idx(T) : T.ents[i].d = d /\ T.ents[i].n = n}
                 IN  IF S = {} THEN 0 ELSE CHOOSE i \in S : TRUE
FindPath(T, p) == IF p = <<>> THEN 0 ELSE Find(T, FrontOf(p), LastOf(p))
IsRealDir(T, p)  == p = <<>> \/ (LET i == FindPath(T, p) IN i # 0 /\ T.ents[i].k = "dir")
IsRealFile(T, p) == p # <<>> /\ (LET i == FindPath(T, p) IN i # 0 /\ T.ents[i].k = "file")
RealPath(e) == e.d \o <<e.n>>

NoDir == [ok |-> FALSE, at |-> <<>>]
StepDir(T, cur, name) ==
    LET i == Find(T, cur, name) IN
    IF i = 0 THEN NoDir
    ELSE LET e == T.ents[i] IN
         CASE e.k = "dir"  -> [ok |-> TRUE, at |-> cur \o <<name>>]
           [] e.k = "link" -> IF IsRealDir(T, e.t) THEN [ok |-> TRUE, at |-> e.t] ELSE NoDir
           [] OTHER -> NoDir
RECURSIVE ResolveDirFrom(_, _, _)
ResolveDirFrom(T, cur, p) == IF p = <<>> THEN [ok |-> TRUE, at |-> cur]
                             ELSE LET s == StepDir(T, cur, Head(p)) IN IF s.ok THEN ResolveDirFrom(T, s.at, Tail(p)) ELSE s
\* the real directory that a path (possibly through directory links) denotes
ResolveDir(T, p) == ResolveDirFrom(T, <<>>, p)

\* stat(p), following links: kind of what p denotes, index i of the real entry (0 = none), link = the last component is a link,
\* li = index of the entry named by the last component itself
Missing(l, li) == [kind |-> "missing", i |-> 0, link |-> l, li |-> li]
Stat(T, p) ==
    IF p = <<>> THEN [kind |-> "dir", i |-> 0, link |-> FALSE, li |-> 0] ELSE
    LET par == ResolveDir(T, FrontOf(p)) IN
    IF ~par.ok THEN Missing(FALSE, 0)
    ELSE LET i == Find(T, par.at, LastOf(p)) IN
         IF i = 0 THEN Missing(FALSE, 0)
         ELSE LET e == T.ents[i] IN
              IF e.k # "link" THEN [kind |-> e.k, i |-> i, link |-> FALSE, li |-> i]
              ELSE IF IsRealDir(T, e.t) THEN [kind |-> "dir", i |-> FindPath(T, e.t), link |-> TRUE, li |-> i]
              ELSE IF IsRealFile(T, e.t) THEN [kind |-> "file", i |-> FindPath(T, e.t), link |-> TRUE, li |-> i]
              ELSE Missing(TRUE, i)

Decodable(T, s) == s.kind = "file" /\ T.ents[s.i].c = "audio"

\* ------------------------------------------------------------------ is_audio_file: three readings
\* the reading the implementation takes (and the docstring's plain sense): a file (links followed) whose OWN name has a
\* supported extension; strict => libsndfile can open it
IsAudio(T, p, strict) ==
    LET s == Stat(T, p) IN s.kind = "file" /\ ExtOK(LastOf(p)) /\ (strict => Decodable(T, s))
\* every reading says yes: a plain file, or a link whose own name AND whose target's name carry a supported extension
AudioSurely(T, p, strict) ==
    LET s == Stat(T, p) IN
    /\ s.kind = "file" /\ ExtOK(LastOf(p)) /\ (strict => Decodable(T, s))
    /\ s.link => ExtOK(T.ents[s.i].n)
\* some reading says yes: a file whose name, or whose target's name, ends in .<supported extension>
AudioPossibly(T, p, strict) ==
    LET s == Stat(T, p) IN
    /\ s.kind = "file" /\ (strict => Decodable(T, s))
    /\ EndsOK(LastOf(p)) \/ (s.link /\ EndsOK(T.ents[s.i].n))

\* ------------------------------------------------------------------ the walk, declaratively
K == 3          \* directory levels below the root that are looked at (no link-free tree of the universe is deeper than 2)
SubDirNames(T, at, follow) ==
    {T.ents[i].n : i \in {j \in Children(T, at) : T.ents[j].k = "dir" \/ (follow /\ T.ents[j].k = "link" /\ IsRealDir(T, T.ents[j].t))}}
Below(T, follow, D) == UNION {LET r == ResolveDir(T, d) IN {d \o <<n>> : n \in SubDirNames(T, r.at, follow)} : d \in D}
RECURSIVE Level(_, _, _)
Level(T, follow, k) == IF k = 0 THEN {<<>>} ELSE Below(T, follow, Level(T, follow, k - 1))
\* directories visited: all depths when recursive (through directory links only with follow), else the top level only
Reach(T, rec, follow) ==
    IF ~rec THEN {<<>>}
    ELSE LET l1 == Below(T, follow, {<<>>})  l2 == Below(T, follow, l1)  l3 == Below(T, follow, l2)      \* K = 3 levels
         IN  {<<>>} \cup l1 \cup l2 \cup l3
\* every path examined: the entries of every directory visited
WalkPaths(T, rec, follow) ==
    UNION {LET r == ResolveDir(T, d) IN {d \o <<T.ents[i].n>> : i \in Children(T, r.at)} : d \in Reach(T, rec, follow)}
Finite(T, follow) == Level(T, follow, K) = {}

RootIsDir(T) == T.root \in {"dir", "link"}
HasAncestorLink(T) == \E i \in Idx(T) : T.ents[i].k = "link" /\ IsRealDir(T, T.ents[i].t)
                                         /\ Len(T.ents[i].t) <= Len(T.ents[i].d) /\ T.ents[i].t = SubSeq(T.ents[i].d, 1, Len(T.ents[i].t))

\* get_audio_files(T, f): f = [strict, rec, follow]
Code(T, f)    == {p \in WalkPaths(T, f.rec, f.follow) : IsAudio(T, p, f.strict)}          \* the plain reading (= Impl)
\* required by every reading: files link or not; a link to a file only when links are to be followed
Must(T, f)    == {p \in WalkPaths(T, f.rec, f.follow) : AudioSurely(T, p, f.strict) /\ (Stat(T, p).link => f.follow)}
Allowed(T, f) == {p \in WalkPaths(T, f.rec, f.follow) : AudioPossibly(T, p, f.strict)}
StrSet(P) == {PStr(p) : p \in P}

\* ------------------------------------------------------------------ Dataset.from_directory(T, rec, hash)
\* "Reads the audio files in the directory": silent on extensions other than wav, on case, on links.  Required by every
\* reading: plain decodable files named *.wav reached without links.  Allowed: any decodable file with an audio-like name,
\* reached through links or not.  An entry with an audio-like name that is NOT a decodable file (junk, empty, a directory,
\* a broken link) is a trap: the docstring does not say whether it is skipped or the call fails.
DsMust(T, rec) ==
    {p \in WalkPaths(T, rec, FALSE) : LET s == Stat(T, p) IN ~s.link /\ Decodable(T, s) /\ Suffix(LastOf(p)) = "wav"}
DsAllowed(T, rec) == {p \in WalkPaths(T, rec, TRUE) : AudioPossibly(T, p, TRUE)}
DsTrap(T, rec) == \E p \in WalkPaths(T, rec, TRUE) :
                     LET s == Stat(T, p) IN (EndsOK(LastOf(p)) \/ (s.link /\ s.i # 0 /\ EndsOK(T.ents[s.i].n))) /\ ~Decodable(T, s)

\* ------------------------------------------------------------------ acceptance of one observation (kind "tree")
(* o.in  = [kind, tree, calls: <<[strict, rec, follow]>>, probes: <<path>>, ds: <<[rec, hash]>>]                     *)
(* o.out = [files: <<[p, md5]>>   the regular files the binder wrote (real path string, md5 of the bytes written)    *)
(*          walk:  <<[raised, order, sorted]>>        one per call: relative paths yielded, in yield order / sorted   *)
(*          isaudio: <<[ns, st]>>                      one per probe: outcome non-strict / strict                      *)
(*          ds: <<[raised, name, descnone, recs: <<[p, sr, ch, dur, te, hash, hashnone]>>]>>  one per ds call]        *)
Clauses == {"WalkNotDir", "WalkSound", "WalkComplete", "WalkOnce", "Drift/WalkAsImpl",
            "IsAudioFile", "Drift/IsAudioAsImpl",
            "DsNotDir", "DsNoSpuriousRaise", "DsSound", "DsComplete", "DsOnce", "DsMetadata", "DsHash", "DsName",
            "Drift/advisory:DsAgreesWithDiscovery"}

B2S(b) == IF b THEN "true" ELSE "false"
Md5Of(files, ps) == LET S == {i \in DOMAIN files : files[i].p = ps} IN IF S = {} THEN "?" ELSE files[CHOOSE i \in S : TRUE].md5

WalkHolds(cl, T, f, w) ==
    CASE cl = "WalkNotDir"   -> /\ T.root \in {"file", "missing"} => w.raised = "ValueError"
                                /\ T.root = "dir" => w.raised = ""
      [] cl = "WalkSound"    -> w.raised = "" => Range(w.order) \subseteq StrSet(Allowed(T, f))
      \* a root that is itself a link: the docstring does not say whether it is walked when links are not followed
      [] cl = "WalkComplete" -> (w.raised = "" /\ (T.root = "dir" \/ f.follow)) => StrSet(Must(T, f)) \subseteq Range(w.order)
      [] cl = "WalkOnce"     -> w.raised = "" => Cardinality(Range(w.order)) = Len(w.order)
      [] cl = "Drift/WalkAsImpl" -> IF RootIsDir(T) THEN w.raised = "" /\ Range(w.order) = StrSet(Code(T, f)) /\ Range(w.sorted) = Range(w.order)
                                    ELSE w.raised = "ValueError"

ProbeHolds(cl, T, p, r) ==
    CASE cl = "IsAudioFile" ->
            /\ r.ns \in {"true", "false"} /\ r.st \in {"true", "false"}
            /\ AudioSurely(T, p, FALSE) => r.ns = "true"
            /\ AudioSurely(T, p, TRUE)  => r.st = "true"
            /\ ~AudioPossibly(T, p, FALSE) => r.ns = "false"
            /\ ~AudioPossibly(T, p, TRUE)  => r.st = "false"
      [] cl = "Drift/IsAudioAsImpl" -> r.ns = B2S(IsAudio(T, p, FALSE)) /\ r.st = B2S(IsAudio(T, p, TRUE))

\* the path (model side) of a recording whose path string is ps
PathOf(T, rec, ps) == CHOOSE p \in DsAllowed(T, rec) : PStr(p) = ps
DsHolds(cl, T, c, d, files) ==
    LET ok   == d.raised = ""
        got  == {d.recs[i].p : i \in DOMAIN d.recs}
        good == {i \in DOMAIN d.recs : d.recs[i].p \in StrSet(DsAllowed(T, c.rec))}
    IN
    CASE cl = "DsNotDir" -> T.root \in {"file", "missing"} => d.raised = "ValueError"
      [] cl = "DsNoSpuriousRaise" -> ~ok => (T.root \in {"file", "missing"} \/ (T.root = "link" /\ d.raised = "ValueError") \/ DsTrap(T, c.rec))
      [] cl = "DsSound"    -> ok => got \subseteq StrSet(DsAllowed(T, c.rec))
      [] cl = "DsComplete" -> ok => StrSet(DsMust(T, c.rec)) \subseteq got
      [] cl = "DsOnce"     -> ok => Cardinality(got) = Len(d.recs)
      [] cl = "DsMetadata" -> ok => \A i \in good :
                                LET r == d.recs[i]  e == T.ents[Stat(T, PathOf(T, c.rec, r.p)).i]
                                IN  r.sr = e.a.sr /\ r.ch = e.a.ch /\ DurOK(r.dur, e.a.fr, e.a.sr) /\ LEq(r.te, LInt(1))
      [] cl = "DsHash"     -> ok => \A i \in good :
                                LET r == d.recs[i]  e == T.ents[Stat(T, PathOf(T, c.rec, r.p)).i]
                                IN  IF c.hash THEN ~r.hashnone /\ r.hash = Md5Of(files, PStr(RealPath(e))) ELSE r.hashnone
      [] cl = "DsName"     -> ok => d.name = "the name" /\ d.descnone
      \* advisory (never a violation): "the audio files in the directory" are the ones the library's own discovery function names
      [] cl = "Drift/advisory:DsAgreesWithDiscovery" ->
                ok => got = StrSet(Code(T, [strict |-> FALSE, rec |-> c.rec, follow |-> FALSE]))

Holds(cl, o) ==
    LET T == o.in.tree IN
    CASE cl \in {"WalkNotDir", "WalkSound", "WalkComplete", "WalkOnce", "Drift/WalkAsImpl"} ->
            \A i \in DOMAIN o.in.calls : WalkHolds(cl, T, o.in.calls[i], o.out.walk[i])
      [] cl \in {"IsAudioFile", "Drift/IsAudioAsImpl"} ->
            \A i \in DOMAIN o.in.probes : ProbeHolds(cl, T, o.in.probes[i], o.out.isaudio[i])
      [] OTHER ->
            \A i \in DOMAIN o.in.ds : DsHolds(cl, T, o.in.ds[i], o.out.ds[i], o.out.files)
=============================================================================
