------------------------------ MODULE Dispatch ------------------------------
(* X04 (extension): soundevent.io.save / soundevent.io.load as a decision procedure.                                  *)
(*                                                                                                                    *)
(* A case is one save followed (when the save wrote a file) by one load of that file, possibly tampered with in       *)
(* between.  Req is what the docstrings of io.save / io.load / io.aoef.load promise: which FAULTS a call has and       *)
(* which exception class each fault is reported with; a call without faults succeeds and hands back an object of the  *)
(* collection's own class that equals the saved one.  When a call has several faults the docstrings do not say which  *)
(* one is reported: Req accepts the class of any of them.  Impl (MC_Dispatch) is the implementation's order of        *)
(* checks as a step machine; TLC proves Impl's outcome is one Req accepts on every case, and the real calls are then   *)
(* judged by Req (VIOLATION) and compared with Impl (Drift/..., advisory only).                                        *)
EXTENDS Naturals, Sequences, FiniteSets, TLC

CTypeNames == <<"recording_set", "dataset", "annotation_set", "annotation_project",
                "evaluation_set", "prediction_set", "model_run", "evaluation">>
\* what is handed to save: one of the eight collections, an instance of a USER SUBCLASS of one, or an object that is no
\* collection at all (a Recording)
ObjKinds   == {"plain", "subclass", "not_a_collection"}
Suffixes   == {".json", ".JSON", ".txt", ""}
Formats    == {"default", "aoef", "none", "csv"}          \* default = argument omitted (= "aoef"); none = format=None (infer)
LoadTypes  == 0..8            \* the type argument of load: 0 = omitted, k = CTypeNames[k] (equal to the saved collection's type or one of the seven others)
Tampers    == {"no", "version", "missing", "garbage", "unknown_ctype", "renamed_json"}

EffFormat(f) == IF f = "default" THEN "aoef" ELSE f

\* ---- faults of a save call ------------------------------------------------------------------------------------
\* "the format will be inferred from the file extension": only .json is documented as AOEF; whether an upper-case
\* extension counts is not said => for ".JSON" inference MAY fail (fault "infer?") -- Req accepts both outcomes
SaveFaults(c) ==
    (IF c.sfmt = "none" /\ c.sfx \in {".txt", ""} THEN {"infer"} ELSE {})
    \cup (IF c.sfmt = "csv" THEN {"unknown_format"} ELSE {})
    \cup (IF c.obj = "not_a_collection" THEN {"unsupported"} ELSE {})
SaveMaybe(c) == IF c.sfmt = "none" /\ c.sfx = ".JSON" THEN {"infer"} ELSE {}

\* exception class (as the binder reports it: "ValueError" stands for ValueError and its subclasses)
ClassOf(fault) == CASE fault \in {"infer", "unknown_format", "suffix", "type", "version", "garbage", "unknown_ctype"} -> {"ValueError"}
                    [] fault = "missing"     -> {"FileNotFoundError"}
                    [] fault = "unsupported" -> {"NotImplementedError", "ValueError", "TypeError", "AttributeError"}

SaveAccepts(c, out) ==
    LET F == SaveFaults(c) M == SaveMaybe(c)
    IN  \/ out = "ok" /\ F = {}
        \/ \E f \in F \cup M : out \in ClassOf(f)

\* ---- the file after the save and the tampering ---------------------------------------------------------------
\* the load uses the path the save wrote to, except tamper "renamed_json": the file is renamed to <stem>.json first
LoadSfx(c) == IF c.tamper = "renamed_json" THEN ".json" ELSE c.sfx

LoadFaults(c) ==
    (IF c.lfmt = "none" /\ LoadSfx(c) \in {".txt", ""} THEN {"infer"} ELSE {})
    \cup (IF c.lfmt = "csv" THEN {"unknown_format"} ELSE {})
    \cup (IF c.tamper = "missing" THEN {"missing"} ELSE {})
    \* io.aoef.load: "Load an AOEF object from a JSON file" -- a file that is not named *.json is refused
    \cup (IF EffFormat(c.lfmt) = "aoef" /\ LoadSfx(c) \in {".txt", ""} THEN {"suffix"} ELSE {})
    \cup (IF c.tamper = "garbage" THEN {"garbage"} ELSE {})
    \cup (IF c.tamper = "unknown_ctype" THEN {"unknown_ctype"} ELSE {})
    \cup (IF c.tamper = "version" THEN {"version"} ELSE {})
    \cup (IF c.ltype # 0 /\ c.ltype # c.ct THEN {"type"} ELSE {})
LoadMaybe(c) == (IF c.lfmt = "none" /\ LoadSfx(c) = ".JSON" THEN {"infer"} ELSE {})
                \cup (IF EffFormat(c.lfmt) = "aoef" /\ LoadSfx(c) = ".JSON" THEN {"suffix"} ELSE {})

LoadAccepts(c, out) ==
    LET F == LoadFaults(c) M == LoadMaybe(c)
    IN  \/ out = "ok" /\ F = {}
        \/ \E f \in F \cup M : out \in ClassOf(f)

\* ---- clauses over an observation o = [in |-> case, out |-> [save, exists, parent_made, load, cls, equal, impl...]] --
Clauses == {"SaveOutcome", "SaveWritesIffOk", "LoadOutcome", "LoadedClass", "LoadedEqual", "NoPartialFile",
            "Drift/save", "Drift/load"}

Holds(cl, o) ==
    LET c == o.in  r == o.out IN
    CASE cl = "SaveOutcome"     -> SaveAccepts(c, r.save)
      \* a successful save leaves the file (creating missing parent directories); a refused one writes nothing
      [] cl = "SaveWritesIffOk" -> (r.save = "ok") = r.exists
      [] cl = "NoPartialFile"   -> r.save # "ok" => ~r.exists
      [] cl = "LoadOutcome"     -> r.save = "ok" => LoadAccepts(c, r.load)
      \* the loaded object is an instance of the collection's own class (a user subclass is saved as its base collection)
      [] cl = "LoadedClass"     -> (r.save = "ok" /\ r.load = "ok") => r.cls = CTypeNames[c.ct]
      [] cl = "LoadedEqual"     -> (r.save = "ok" /\ r.load = "ok" /\ c.obj = "plain") => r.equal
      [] cl = "Drift/save"      -> r.save = c.isave
      [] cl = "Drift/load"      -> r.save = "ok" => r.load = c.iload
      [] OTHER -> TRUE
=============================================================================
