SPECIFICATION Spec
CONSTANTS
  Universe = "extra"
  MaxTotal = 0
  MaxSide = 0
  Rich = FALSE
  Matcher = "positive"
  ClipAlg = "fixed"
  ExportAt = "next"
CONSTRAINT Export
INVARIANT ImplReturns
INVARIANT ImplClips
INVARIANT ImplEveryEventOnce
INVARIANT ImplPairedOnlyIfOverlap
INVARIANT ImplPairAffinity
INVARIANT ImplPairScore
INVARIANT ImplUnpairedZero
INVARIANT ImplClipMean
INVARIANT ImplOverallMean
INVARIANT ImplScoresInUnit
INVARIANT ImplPairsHavePositiveAffinity
PROPERTY Terminates
CHECK_DEADLOCK FALSE
