SPECIFICATION Spec
CONSTANTS
  MinN = 0
  MaxN = 5
  TwinMaxN = 4
  SubMaxN = 3
  OutputCopy = "same"
  GuiseMaxN = 3
  GuiseTest = "callable"
  ArgSwap = "none"
  IndexWrap = 0
  GeoMaxN = 4
  GeoFilter = "none"
  RetMaxN = 4
  TruthTest = "truthy"
CONSTRAINT Export
INVARIANT ImplRefinesReq
INVARIANT ImplCallsDistinct
INVARIANT ImplMatrix
INVARIANT ImplLabelSound
INVARIANT ImplEveryPairOnce
INVARIANT Laws
INVARIANT TerminatesBySafety
PROPERTY Terminates
CHECK_DEADLOCK FALSE
