SPECIFICATION Spec
CONSTANTS
  MaxLen = 3
  MaxN = 4
  MaxK = 6
  AdjExt = 5
CONSTRAINT Export
INVARIANT LawUndo
INVARIANT LawOffsetLast
INVARIANT LawScaleThenOffsetLoses
INVARIANT LawNormalize
INVARIANT LawNormalizeTwice
INVARIANT LawCenter
INVARIANT LawCenterTwice
INVARIANT LawOrderKept
INVARIANT LawDbMonotone
INVARIANT LawDbClamped
INVARIANT LawDbFloor
INVARIANT LawResizeSpan
INVARIANT ImplAdjust
INVARIANT LawAdjustNone
INVARIANT LawStepOutcome
INVARIANT LawWFillOffs
PROPERTY Terminates
CHECK_DEADLOCK FALSE
