------------------------------ MODULE AoefPaths ------------------------------
(***************************************************************************)
(* C18 -- audio paths are stored relative to the audio directory and       *)
(* relocate on load.  Paths are sequences of components.                   *)
(***************************************************************************)
EXTENDS Aoef

IsPrefixOf(d, p) == Len(d) <= Len(p) /\ SubSeq(p, 1, Len(d)) = d
RelativeTo(p, d) == SubSeq(p, Len(d) + 1, Len(p))          \* defined iff IsPrefixOf(d, p)
Join(d, r) == d \o r

(*  Observation (checks/c18.py):                                                    *)
(*  in : world + [audio: "none"|"str"|"path", place: "inside"|"outside", dir, file] *)
(*  out: [saved: ""|"raise:X", file_exists: BOOLEAN, loaded: ""|"raise:X", loadedN: ""|"raise:X",      *)
(*        A, B: components of the directory used on save / on load,                                     *)
(*        recs: << [id, orig: comps, stored: comps ("" when the document does not define the recording), *)
(*                  atB: comps of the path after load(audio_dir=B),                                      *)
(*                  atNone: comps after load without audio dir, count: number of distinct paths this     *)
(*                  recording has among all places it is reachable from in the loaded object] >> ]       *)
PathClauses == {"StoredIsRelative", "Relocates", "RelocatesEverywhere", "PassThroughWithoutDir",
                "OutsideRaises", "NothingWrittenOnError", "SecondSaveIndependent"}
WithDir(o) == o.in.audio # "none"
HoldsC18(cl, o) ==
  LET x == o.out IN
  CASE cl = "StoredIsRelative" ->
         (WithDir(o) /\ o.in.place = "inside") =>
            /\ x.saved = ""
            /\ \A j \in DOMAIN x.recs : IsPrefixOf(x.A, x.recs[j].orig) /\ x.recs[j].stored = RelativeTo(x.recs[j].orig, x.A)
    [] cl = "Relocates" ->
         (WithDir(o) /\ o.in.place = "inside" /\ x.saved = "") =>
            /\ x.loaded = ""
            /\ \A j \in DOMAIN x.recs : x.recs[j].atB = Join(x.B, RelativeTo(x.recs[j].orig, x.A))
            \* ... and the same when the files really exist under A, the process stands inside A and nothing exists under
            \* the load directory (out.loadedfs = "skipped" when that load was not made)
            /\ x.loadedfs # "skipped" =>
                  /\ x.loadedfs = ""
                  /\ \A j \in DOMAIN x.recs : x.recs[j].atBfs = Join(x.Bfs, RelativeTo(x.recs[j].orig, x.A))
    [] cl = "RelocatesEverywhere" ->        \* every place the recording is reachable from sees the same relocated path
         (x.saved = "" /\ x.loaded = "") => \A j \in DOMAIN x.recs : x.recs[j].count = 1
    [] cl = "PassThroughWithoutDir" ->
         ~WithDir(o) => /\ x.saved = "" /\ x.loadedN = ""
                        /\ \A j \in DOMAIN x.recs : x.recs[j].stored = x.recs[j].orig /\ x.recs[j].atNone = x.recs[j].orig
    [] cl = "OutsideRaises" -> (WithDir(o) /\ o.in.place # "inside") => x.saved # ""
    [] cl = "NothingWrittenOnError" -> x.saved # "" => ~x.file_exists
    \* a save depends only on its own arguments: the same collection saved again in the same process under directory A2
    \* (out.saved2 = "skipped" when no second save was made) stores every path relative to A2
    [] cl = "SecondSaveIndependent" ->
         x.saved2 # "skipped" => /\ x.saved2 = ""
                                 /\ \A j \in DOMAIN x.recs : IsPrefixOf(x.A2, x.recs[j].orig) /\ x.recs[j].stored2 = RelativeTo(x.recs[j].orig, x.A2)
=============================================================================
