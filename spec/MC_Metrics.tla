------------------------------ MODULE MC_Metrics ------------------------------
(***************************************************************************)
(* Enumeration machine for C09.  Every initial state is one abstract       *)
(* evaluation problem (task, vocabulary size, items with truths and score  *)
(* ticks on the 1/U lattice, partition into clips); the one action         *)
(* computes the allowed value sets.  Laws of the definitions and of the    *)
(* task tables are invariants; Export prints one CASE per terminal state.  *)
(*                                                                         *)
(* Items are drawn as non-decreasing sequences of catalogue indices (the   *)
(* binder runs every case in two clip orders, and LawPermInv shows the     *)
(* definitions do not depend on the order).  Plan: sequence of             *)
(* [kind, C, n, stride]: a 1/stride sample of the (C, n) multisets         *)
(* (stride 1 = all); kind "sl" = the three single-label tasks, "ml" = the  *)
(* multilabel task, or one of "cc" | "sec" | "sed".                        *)
(***************************************************************************)
EXTENDS Metrics, TLC, Json
CONSTANTS U, Plan, TableVariant, MapVariant
VARIABLES c, ph, res

Pow(b, e) == LET P[k \in 0..e] == IF k = 0 THEN 1 ELSE b * P[k - 1] IN P[e]
Digits(x, base, C) == [k \in 1..C |-> (x \div Pow(base, k - 1)) % base]

\* item catalogues, indexed by a raw integer
SlRaw(C)     == 0..((C + 1) * Pow(U + 1, C) - 1)
SlItem(r, C) == [t |-> r % (C + 1), y |-> <<>>, s |-> Digits(r \div (C + 1), U + 1, C)]
SlValid(C)   == {r \in SlRaw(C) : SumSeq(SlItem(r, C).s) <= U}      \* scores of an item sum to at most 1
MlRaw(C)     == 0..(Pow(2, C) * Pow(U + 1, C) - 1)
MlItem(r, C) == [t |-> 0, y |-> Digits(r % Pow(2, C), 2, C), s |-> Digits(r \div Pow(2, C), U + 1, C)]

Multisets(V, n, stride) ==
    CASE n = 1 -> {<<a>> : a \in {x \in V : (7 * x) % stride = 0}}
      [] n = 2 -> {r \in V \X V : r[1] <= r[2] /\ (7 * r[1] + 13 * r[2]) % stride = 0}
      [] n = 3 -> {r \in V \X V \X V : r[1] <= r[2] /\ r[2] <= r[3] /\ (7 * r[1] + 13 * r[2] + 29 * r[3]) % stride = 0}

\* clip shapes for the sound-event tasks (sizes of consecutive clips; 0 = a clip without sound events)
ShapesOf(n) ==
    CASE n = 1 -> << <<1>>, <<0, 1>>, <<1, 0>> >>
      [] n = 2 -> << <<2>>, <<1, 1>>, <<1, 0, 1>>, <<0, 2>>, <<2, 0>> >>
      [] n = 3 -> << <<3>>, <<1, 2>>, <<2, 1>>, <<1, 1, 1>>, <<2, 0, 1>>, <<0, 3>> >>
FromSizes(sz) == [k \in 1..Len(sz) |-> [j \in 1..sz[k] |-> SumSeq(SubSeq(sz, 1, k - 1)) + j]]
OneEach(n)    == [k \in 1..n |-> <<k>>]

\* kinds "mlnear" / "sednear": every item repeats the score ticks of the first one, so that on every class the items
\* are ranked by the tiny offsets alone (the truths still differ as drawn)
IsMl(kind)   == kind \in {"ml", "mlnear"}
IsNear(kind) == kind \in {"mlnear", "sednear"}
TasksOf(kind) == CASE kind = "sl" -> {"cc", "sec", "sed"} [] IsMl(kind) -> {"cml"} [] kind = "sednear" -> {"sed"}
                   [] OTHER -> {kind}   \* or one single-label task
TaskNo(task)  == CASE task = "cc" -> 0 [] task = "cml" -> 0 [] task = "sec" -> 1 [] task = "sed" -> 2
Labelled(items) == {i \in DOMAIN items : items[i].t # 0} # {}

\* clips of one input only, around the m evaluated clips: none / a predicted-only clip first, last, in between /
\* an annotated-only clip / combinations.  The binder runs both orders, so "first" is also "last" and vice versa.
ExtraPatterns(m) ==
    << <<>>,
       <<[pos |-> 0, side |-> "pred"]>>,
       <<[pos |-> m, side |-> "pred"]>>,
       <<[pos |-> (m + 1) \div 2, side |-> "pred"]>>,
       <<[pos |-> 0, side |-> "ann"]>>,
       <<[pos |-> m, side |-> "ann"], [pos |-> 0, side |-> "pred"]>>,
       <<[pos |-> 0, side |-> "pred"], [pos |-> m, side |-> "pred"], [pos |-> m \div 2, side |-> "ann"]>>,
       <<>> >>
\* the case drawn from plan entry e for the index multiset rs and the task
\* sound_event_detection: how each event pair exists (Metrics!MatchKind); a quarter of the items stay matched pairs
\* near-equal scores (Metrics!FineOf) for the two tasks that rank items (mean average precision): in every second
\* case most scores strictly between 0 and 1 carry a tiny offset, so that equal ticks of two items are ordered by it
\* (the other cases keep pure lattice scores and their true ties)
\* item i, class k, h a hash: mostly the two real offsets, alternating with the item index (so two neighbouring items
\* with the same tick are strictly ordered, in a direction that changes with the class and the hash), sometimes the
\* sub-resolution code 1 or no offset
FineCode(i, k, h) == IF h % 5 = 0 THEN (IF h % 2 = 0 THEN 1 ELSE 0) ELSE 2 + ((i + k + h) % 2)
\* detection confidence of the sound event predictions (Metrics: `conf`), matched or not: default, 1, 1/2, 1/4
ConfCodes == <<0, 2, 4, 1, 2, 0, 1, 4>>
MatchKinds == <<"both", "pred", "ann", "both", "pred0", "ann", "ann0", "pred">>
MkCore(e, rs, task) ==
    LET item(r) == IF ~IsMl(e.kind) THEN SlItem(r, e.C) ELSE MlItem(r, e.C)
        sc(i) == IF IsNear(e.kind) THEN item(rs[1]).s ELSE item(rs[i]).s
        fineOn == IsNear(e.kind) \/ (SumSeq(rs) + rs[1]) % 2 = 0
        sh == ShapesOf(e.n)
    IN  [task  |-> task, C |-> e.C, u |-> U,
         items |-> [i \in 1..e.n |-> LET it == item(rs[i]) IN
                       [t |-> it.t, y |-> it.y, s |-> sc(i),
                        f |-> [k \in 1..e.C |->
                                 IF task \in {"cml", "sed"} /\ fineOn /\ sc(i)[k] # 0 /\ sc(i)[k] # U /\ (IsMl(e.kind) \/ SumSeq(sc(i)) < U)
                                 THEN FineCode(i, k, rs[i] + SumSeq(rs)) ELSE 0],
                        conf |-> IF task \in {"sec", "sed"} THEN ConfCodes[1 + ((rs[i] + 2 * i + SumSeq(rs)) % Len(ConfCodes))] ELSE 0,
                        m |-> IF task = "sed" /\ ~IsNear(e.kind)
                              THEN MatchKinds[1 + ((3 * rs[i] + 5 * i + SumSeq(rs)) % Len(MatchKinds))] ELSE "both"]],
         clips |-> IF task \in {"cc", "cml"} THEN OneEach(e.n)
                   ELSE FromSizes(sh[1 + ((SumSeq(rs) + TaskNo(task)) % Len(sh))]),
         style |-> (rs[1] + 3 * rs[e.n] + TaskNo(task)) % 4]
MkCase(e, rs, task) ==
    LET k == MkCore(e, rs, task)  pats == ExtraPatterns(Len(k.clips))
    IN  [task |-> k.task, C |-> k.C, u |-> k.u, items |-> k.items, clips |-> k.clips, style |-> k.style,
         perm |-> IF task \in {"sec", "sed"} THEN (rs[1] + 2 * rs[e.n] + SumSeq(rs)) % 3 ELSE 0,
         extras |-> pats[1 + ((5 * rs[1] + SumSeq(rs) + (rs[e.n] \div 3) + 3 * TaskNo(task)) % Len(pats))]]
Catalogue(e) == IF ~IsMl(e.kind) THEN SlValid(e.C) ELSE MlRaw(e.C)

\* sound_event_detection computes mean average precision over the labelled items: with none it is undefined
\* (not generated, see DESIGN section 4 C09)
InScope(k) == IF k.task = "sed" THEN Labelled(EffSeq(k.items)) ELSE TRUE

MetricIds(task) == IF SingleLabel(task) THEN {"acc", "bacc", "top3", "map", "tcp"} ELSE {"map", "ap", "jac"}
\* the units on which a value is attached: all items, the items of each clip, each single item
Units(k) == {k.items} \cup {ClipItems(k, j) : j \in DOMAIN k.clips} \cup {<<k.items[i]>> : i \in DOMAIN k.items}

\* (nested quantifiers rather than one big set of records: TLC then never has to sort tens of thousands of records)
Init == /\ \E i \in DOMAIN Plan : \E rs \in Multisets(Catalogue(Plan[i]), Plan[i].n, Plan[i].stride) :
              \E task \in TasksOf(Plan[i].kind) : c = MkCase(Plan[i], rs, task) /\ InScope(c)
        /\ ph = "in" /\ res = <<>>
Compute == /\ ph = "in" /\ ph' = "out" /\ c' = c
           /\ res' = [mid \in MetricIds(c.task) |-> Allowed(mid, c.task, c.items, c.C, c.u)]
Next == Compute
vars == <<c, ph, res>>
Spec == Init /\ [][Next]_vars

Export == ph = "out" => PrintT(<<"CASE", ToJson(c)>>)

(* ---------------- laws of the definitions ----------------
   (stated for the terminal states, so that TLC's workers evaluate them in parallel) *)
Out == ph = "out"
A(mid, its) == Allowed(mid, c.task, its, c.C, c.u)
\* every allowed value is a rational of [0,1] with a denominator TLC's validator can multiply by
LawRange == Out =>
    \A its \in Units(c) : \A mid \in MetricIds(c.task) :
        LET a == A(mid, its) IN
        a.kind = "vals" =>
            /\ a.vals # {}
            /\ \A r \in a.vals : 0 <= r[1] /\ r[1] <= r[2] /\ r[2] >= 1 /\ r[2] < 32768
\* no definition depends on the order of the items (a transposition and a rotation generate every permutation)
Swap(s) == IF Len(s) < 2 THEN s ELSE <<s[2], s[1]>> \o SubSeq(s, 3, Len(s))
Rot(s)  == IF Len(s) < 2 THEN s ELSE Tail(s) \o <<Head(s)>>
LawPermInv == Out =>
    \A mid \in MetricIds(c.task) :
        LET a == A(mid, c.items) IN A(mid, Swap(c.items)) = a /\ A(mid, Rot(c.items)) = a
\* a prediction that is right is also among the top three: both ends of the tie ranges are ordered
LawTopGeAcc == (Out /\ SingleLabel(c.task)) =>
        LET acc == {r[1] : r \in AccSet(c.items, c.C, c.u)}  top == {r[1] : r \in Top3Set(c.items, c.C, c.u)}
        IN  SetMin(acc) <= SetMin(top) /\ SetMax(acc) <= SetMax(top)
\* the term's own definition: on balanced truths balanced accuracy is accuracy
LawBalanced == (Out /\ SingleLabel(c.task)) =>
        LET e == EffSeq(c.items) IN
        Balanced(e, c.C) => \A p \in Preds(e, c.C, c.u) : REq(BaccOf(e, c.C, p), AccOf(e, c.C, p))
\* 'none' is an extra class for the accuracy family: same values as the (C+1)-class problem with the left-over
\* mass as an explicit score ...
Lift(it) == [t |-> Truth(it, c.C), y |-> <<>>, s |-> Append(it.s, c.u - SumSeq(it.s))]
LawNoneIsAClass == (Out /\ SingleLabel(c.task)) =>
        LET up == [i \in 1..Len(c.items) |-> Lift(c.items[i])] IN
        /\ AccSet(up, c.C + 1, c.u) = AccSet(c.items, c.C, c.u)
        /\ BaccSet(up, c.C + 1, c.u) = BaccSet(c.items, c.C, c.u)
\* ... and unlabelled items do not touch mean average precision
LawNoneLeftOut == (Out /\ SingleLabel(c.task)) => MapSL(c.items, c.C, c.u) = MapSL(SelectSeq(c.items, LAMBDA it : it.t # 0), c.C, c.u)
\* a ranking that puts every positive strictly above every negative has average precision 1
LawPerfectAP == (Out /\ ~SingleLabel(c.task)) =>
        \A i \in DOMAIN c.items :
            LET it == c.items[i]  a == BinAP(it.y, it.s, c.u) IN
            (a.def /\ \A j, k \in DOMAIN it.y : (it.y[j] = 1 /\ it.y[k] = 0) => it.s[j] > it.s[k]) => a.num = a.den
\* Jaccard of a confident exact prediction is 1, of a confident disjoint one 0
LawJaccardExtremes == (Out /\ ~SingleLabel(c.task)) =>
        \A i \in DOMAIN c.items :
            LET it == c.items[i]
                T == {k \in DOMAIN it.y : it.y[k] = 1}
                P == {k \in DOMAIN it.s : 2 * it.s[k] > c.u}
                sure == \A k \in DOMAIN it.s : 2 * it.s[k] # c.u
            IN  /\ (sure /\ T = P /\ T # {}) => JaccardSet(it, c.u) = {<<Cardinality(T), Cardinality(T)>>}
                /\ (sure /\ T \cap P = {} /\ T \cup P # {}) => \A r \in JaccardSet(it, c.u) : r[1] = 0
\* the tables: terms pairwise distinct within every list, and each term names the function it is paired with
\* (stated for the task of the current case: every task occurs among the cases, and a violation comes with its state)
LawDistinctTerms      == TableDistinctTerms(c.task, TableVariant)
LawTermNamesFunction  == TableTermNamesFunction(c.task, TableVariant)
\* Impl => Req: the value mean_average_precision computes for multilabel truths is an allowed macro mean
ImplMapRefinesReq == (Out /\ ~SingleLabel(c.task)) => ImplMapMLRefinesReq(c.items, c.C, c.u, MapVariant)
\* the clips evaluated (walk the predictions, keep the annotated ones) are exactly the clips in both inputs, in both orders
LawEvaluatedClips == ImplIterateRefinesReq(c)
\* offsets only on ticks strictly between 0 and 1 (a score stays in [0,1]), and a single-label item keeps its scores within the unit mass
LawFineWellFormed ==
    \A i \in DOMAIN c.items : \A k \in 1..c.C :
        /\ c.items[i].f[k] \in 0..3
        /\ c.items[i].f[k] # 0 => (c.items[i].s[k] # 0 /\ c.items[i].s[k] < c.u /\ (SingleLabel(c.task) => SumSeq(c.items[i].s) < c.u))
\* a real difference decides: a positive item scored a hair above the only negative one has average precision 1
\* on that class, a hair below it does not (two-item problems of the multilabel task)
LawFineOrders == (Out /\ c.task = "cml" /\ Len(c.items) = 2) =>
    \A k \in 1..c.C :
        LET a == c.items[1]  b == c.items[2]
            ka == a.s[k] * FF + a.f[k]  kb == b.s[k] * FF + b.f[k]
            ap == BinAP(<<a.y[k], b.y[k]>>, <<ka, kb>>, c.u * FF)
        IN  (a.y[k] = 1 /\ b.y[k] = 0 /\ a.s[k] = b.s[k] /\ a.f[k] \in {2, 3} /\ b.f[k] \in {0, 2, 3}) =>
                ((ap.num = ap.den) <=> (a.f[k] > b.f[k]))
LawConf == \A i \in DOMAIN c.items : c.items[i].conf \in {0, 1, 2, 4}
LawPerm == c.perm \in 0..2
LawStyle == c.style \in 0..3
LawExtrasWellFormed == \A i \in DOMAIN c.extras : c.extras[i].pos \in 0..Len(c.clips) /\ c.extras[i].side \in {"pred", "ann"}
\* detection: an annotation nothing was predicted for is a miss of the accuracy family unless it is itself unlabelled,
\* and a prediction without annotation is an item of the 'none' class that mean average precision leaves out
LawUnmatched == (Out /\ c.task = "sed") =>
    LET e == EffSeq(c.items) IN
    /\ \A i \in DOMAIN c.items : AnnOnly(c.items[i]) =>
          \A p \in Preds(e, c.C, c.u) : p[i] = c.C + 1
    /\ \A i \in DOMAIN c.items : PredOnly(c.items[i]) => Truth(e[i], c.C) = c.C + 1
    /\ MapSL(e, c.C, c.u) = MapSL(SelectSeq(e, LAMBDA it : it.t # 0), c.C, c.u)
LawComputed == ph = "out" => DOMAIN res = MetricIds(c.task)

\* smallest universe showing the two as-found defects on the model (spec/history/*.cfg)
PlanHistory == << [kind |-> "sl", C |-> 1, n |-> 1, stride |-> 1], [kind |-> "ml", C |-> 2, n |-> 1, stride |-> 1],
                 [kind |-> "ml", C |-> 2, n |-> 2, stride |-> 1] >>
PlanQuick ==
    << [kind |-> "sl", C |-> 1, n |-> 1, stride |-> 1], [kind |-> "sl", C |-> 1, n |-> 2, stride |-> 1],
       [kind |-> "sl", C |-> 1, n |-> 3, stride |-> 4],
       [kind |-> "sl", C |-> 2, n |-> 1, stride |-> 1], [kind |-> "sl", C |-> 2, n |-> 2, stride |-> 16],
       [kind |-> "sl", C |-> 2, n |-> 3, stride |-> 256],
       [kind |-> "sl", C |-> 3, n |-> 1, stride |-> 1], [kind |-> "sl", C |-> 3, n |-> 2, stride |-> 128],
       [kind |-> "ml", C |-> 1, n |-> 1, stride |-> 1], [kind |-> "ml", C |-> 1, n |-> 2, stride |-> 1],
       [kind |-> "ml", C |-> 2, n |-> 1, stride |-> 1], [kind |-> "ml", C |-> 2, n |-> 2, stride |-> 64],
       [kind |-> "ml", C |-> 2, n |-> 3, stride |-> 2048],
       [kind |-> "ml", C |-> 3, n |-> 1, stride |-> 8], [kind |-> "ml", C |-> 3, n |-> 2, stride |-> 8192],
       [kind |-> "mlnear", C |-> 2, n |-> 2, stride |-> 64], [kind |-> "mlnear", C |-> 2, n |-> 3, stride |-> 4096],
       [kind |-> "sednear", C |-> 2, n |-> 2, stride |-> 16], [kind |-> "sednear", C |-> 2, n |-> 3, stride |-> 256] >>
PlanThorough ==
    << [kind |-> "sl", C |-> 1, n |-> 1, stride |-> 1], [kind |-> "sl", C |-> 1, n |-> 2, stride |-> 1],
       [kind |-> "sl", C |-> 1, n |-> 3, stride |-> 1],
       [kind |-> "sl", C |-> 2, n |-> 1, stride |-> 1], [kind |-> "sl", C |-> 2, n |-> 2, stride |-> 2],
       [kind |-> "cc", C |-> 2, n |-> 3, stride |-> 12],
       [kind |-> "sec", C |-> 2, n |-> 3, stride |-> 12], [kind |-> "sed", C |-> 2, n |-> 3, stride |-> 12],
       [kind |-> "sl", C |-> 3, n |-> 1, stride |-> 1], [kind |-> "sl", C |-> 3, n |-> 2, stride |-> 16],
       [kind |-> "ml", C |-> 1, n |-> 1, stride |-> 1], [kind |-> "ml", C |-> 1, n |-> 2, stride |-> 1],
       [kind |-> "ml", C |-> 1, n |-> 3, stride |-> 1],
       [kind |-> "ml", C |-> 2, n |-> 1, stride |-> 1], [kind |-> "ml", C |-> 2, n |-> 2, stride |-> 4],
       [kind |-> "ml", C |-> 2, n |-> 3, stride |-> 96],
       [kind |-> "ml", C |-> 3, n |-> 1, stride |-> 2], [kind |-> "ml", C |-> 3, n |-> 2, stride |-> 512],
       [kind |-> "mlnear", C |-> 2, n |-> 2, stride |-> 8], [kind |-> "mlnear", C |-> 2, n |-> 3, stride |-> 1024],
       [kind |-> "mlnear", C |-> 3, n |-> 2, stride |-> 2048],
       [kind |-> "sednear", C |-> 2, n |-> 2, stride |-> 2], [kind |-> "sednear", C |-> 2, n |-> 3, stride |-> 64],
       [kind |-> "sednear", C |-> 3, n |-> 2, stride |-> 64] >>
=============================================================================
