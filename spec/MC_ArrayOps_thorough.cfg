SPECIFICATION Spec
CONSTANTS
  MaxLen = 4
  MaxN = 6
  MaxK = 9
  AdjExt = 10
CONSTRAINT Export
INVARIANT LawUndo
INVARIANT LawOffsetLast
INVARIANT LawScaleThenOffsetLoses
INVARIANT LawNormalize
INVARIANT LawNormalizeTwice
INVARIANT LawCenter
INVARIANT LawCenterTwice
INVARIANT LawOrderKept
INVARIANT LawDbMonotone
INVARIANT LawDbClamped
INVARIANT LawDbFloor
INVARIANT LawResizeSpan
INVARIANT ImplAdjust
INVARIANT LawAdjustNone
INVARIANT LawStepOutcome
INVARIANT LawWFillOffs
PROPERTY Terminates
CHECK_DEADLOCK FALSE
