SPECIFICATION Spec
CONSTANTS
  MaxLen = 2
  SortedLen = 0
  NoForeignLen = 3
  OneSided = "kept"
  MatchGuard = "any_mapping"
  ClipCheck = "raise"
  Optimised = FALSE
  RepLen = 2
  OtherLen = 1
  WrapLen = 2
  ShareLen = 2
  MatchKey = "annotation"
  ProjScan = "set"
  ClipKey = "uuid"
  ClipValidator = "after"
CONSTRAINT Export
INVARIANT ImplIffValid
INVARIANT ImplReasons
INVARIANT Laws
INVARIANT TerminatesBySafety
CHECK_DEADLOCK FALSE
