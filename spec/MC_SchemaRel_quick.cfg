SPECIFICATION Spec
CONSTANTS
  MaxLen = 2
  SortedLen = 3
  NoForeignLen = 0
  OtherLen = 2
  ClipValidator = "after"
CONSTRAINT Export
INVARIANT ImplIffValid
INVARIANT ImplReasons
INVARIANT Laws
INVARIANT TerminatesBySafety
CHECK_DEADLOCK FALSE
