------------------------------- MODULE Encoding -------------------------------
(***************************************************************************)
(* C19 -- tag encoding projects faithfully onto the vocabulary; equal      *)
(* objects hash equally.                                                   *)
(*                                                                         *)
(* Universe.  Terms 1..4 = T1, T1' (T1's name, another label), T1'' (T1's  *)
(* label, another name), T2, without URI; terms 5..7 with a URI (equal URI *)
(* and different name; equal name and different URI);                      *)
(* values 1..5 = "a", "b", "c", "a ", " a"; universe tags 1..26 =          *)
(* UTag[u] = <<term, value>>.  Two tags are equal iff TEq: same value on   *)
(* equal terms (TermRep) -- for all but tags 22..24 that means the same    *)
(* universe tag (the binder builds them from this table, always as fresh   *)
(* objects).  Python indices are 0-based: vocabulary position k <-> k - 1. *)
(*                                                                         *)
(* An "enc" case:  [kind |-> "enc", vocab |-> injective sequence of        *)
(*   universe tags, tags |-> sequence of universe tags (repeats, members   *)
(*   outside the vocabulary), scs |-> sequence of score patterns, each a   *)
(*   sequence of quarter ticks 0..4 aligned with tags, ftags / fscs |->    *)
(*   tags / scs without the members outside the vocabulary,                *)
(*   vprov, qprov |-> how the vocabulary tags and the query tags (encode   *)
(*   arguments, list members) are WRITTEN: "fresh", "explicit_defaults"    *)
(*   (every optional field of the term passed explicitly with its default  *)
(*   value), "extras_ab" / "extras_ba" (the term carries two extra         *)
(*   attributes, given in this or that order; both sides carry them or     *)
(*   neither does).  Equal tags stay equal however they were written, so Req does *)
(*   not mention vprov / qprov]                                            *)
(* A "pair" case:  [kind |-> "pair", cls |-> class number 1..8,            *)
(*   x, y |-> field-choice vectors, px, py |-> provenances] -- two objects *)
(*   of one hashable class, each with the history by which it came to hold *)
(*   its fields (see Provs below): data objects are not only born in       *)
(*   constructors, they are also copied, updated, assigned to, re-validated.*)
(***************************************************************************)
EXTENDS Lattice

\* terms 5..7 carry a URI: T5 and T6 share the URI under different names, T7 has T5's name and label under another URI
\* terms 8, 9 are T1 in every declared field plus an EXTRA attribute status = "draft" / "final" (Term allows extras and
\* they count in equality): three different terms
\* term 10 has EVERY optional Term field set, among them the two ALIASED ones away from their defaults (type_of_term,
\* written "type", = "class"; term_range, written "range"); term 11 is term 10 with the default type_of_term
\* terms 12..16 are T1 plus an extra attribute whose VALUE is loosely typed: version = 1 / 1.0 / True (one value for
\* python, so ONE term written three ways), parts = (1, 2) / [1, 2] (a tuple is not a list: two terms, one JSON text)
TermName  == <<"n1", "n1", "n2", "n3", "n4", "n5", "n4", "n1", "n1", "n6", "n6", "n1", "n1", "n1", "n1", "n1">>
TermLabel == <<"l1", "l2", "l1", "l3", "l4", "l4", "l4", "l1", "l1", "l6", "l6", "l1", "l1", "l1", "l1", "l1">>
TermUri   == <<"", "", "", "", "u1", "u1", "u2", "", "", "u6", "u6", "", "", "", "", "">>
Declared  == <<1, 2, 3, 4, 5, 6, 7, 1, 1, 10, 11, 1, 1, 1, 1, 1>>  \* the term one gets by looking at the declared fields only
TermRep   == <<1, 2, 3, 4, 5, 6, 7, 8, 9, 10, 11, 12, 12, 12, 15, 16>>   \* equal terms share a representative
TermJson  == <<1, 2, 3, 4, 5, 6, 7, 8, 9, 10, 11, 12, 13, 14, 15, 15>>   \* terms with the same canonical JSON text
\* what a dump that leaves out defaults, re-validated by field NAME, makes of a term: the aliased fields do not come back
Redumped  == <<1, 2, 3, 4, 5, 6, 7, 8, 9, 0, 0, 12, 13, 14, 15, 16>>    \* 0 = a term that is none of the universe (and not the original)
UTag == << <<1, 1>>, <<1, 2>>, <<2, 1>>, <<3, 1>>, <<4, 1>>, <<4, 2>>,
           <<2, 2>>, <<3, 2>>, <<1, 3>>, <<2, 3>>, <<3, 3>>, <<4, 3>>,
           <<5, 1>>, <<6, 1>>, <<7, 1>>,            \* 13..15: tags on the URI-bearing terms
           <<1, 4>>, <<1, 5>>,                      \* 16, 17: T1 with the values "a " and " a" (value 1 = "a")
           <<8, 1>>, <<9, 1>>,                      \* 18, 19: value "a" on the terms with the extra attribute
           <<10, 1>>, <<11, 1>>,                    \* 20, 21: value "a" on the fully described terms
           <<12, 1>>, <<13, 1>>, <<14, 1>>,         \* 22..24: ONE tag written three ways (version 1 / 1.0 / True)
           <<15, 1>>, <<16, 1>> >>                  \* 25, 26: two tags with one JSON text (parts tuple / list)
LooseTags == {1, 22, 23, 24, 25, 26}
UriTags == {1, 13, 14, 15}
FullTags == {1, 20, 21}                             \* terms with every optional field set (aliased ones included)
XTags   == {1, 2, 18, 19}                           \* same declared term fields, extra attribute absent / draft / final
WsTags  == {1, 2, 16, 17}                           \* values that differ only by surrounding whitespace are different values
StripVal == <<1, 2, 3, 1, 1>>                       \* what value.strip() would make of values 1..5
NU == Len(UTag)

(* ------------------------------ Req: encoding ------------------------------ *)
\* equality of universe tags: the same value on equal terms
TEq(a, b) == TermRep[UTag[a][1]] = TermRep[UTag[b][1]] /\ UTag[a][2] = UTag[b][2]
Injective(v) == \A k, l \in DOMAIN v : TEq(v[k], v[l]) => k = l        \* a vocabulary of distinct tags
Pos(v, u)     == {k \in DOMAIN v : TEq(v[k], u)}
InVocab(v, u) == Pos(v, u) # {}
Encode(v, u)  == IF InVocab(v, u) THEN <<SetMin(Pos(v, u)) - 1>> ELSE <<>>      \* optional python index
Decode(v, i)  == v[i + 1]
Hits(v, ts)   == {j \in DOMAIN ts : InVocab(v, ts[j])}
Classify(v, ts)   == IF Hits(v, ts) = {} THEN <<>> ELSE Encode(v, ts[SetMin(Hits(v, ts))])
Multilabel(v, ts) == [k \in DOMAIN v |-> IF \E j \in DOMAIN ts : TEq(ts[j], v[k]) THEN 1 ELSE 0]
\* prediction vector: with repeats any of that tag's scores is allowed
PredAllowed(v, ts, sc, k) == IF \E j \in DOMAIN ts : TEq(ts[j], v[k])
                             THEN {sc[j] : j \in {j \in DOMAIN ts : TEq(ts[j], v[k])}} ELSE {0}
PredOK(v, ts, sc, p) == Len(p) = Len(v) /\ \A k \in DOMAIN v : p[k] \in PredAllowed(v, ts, sc, k)
\* the list without its out-of-vocabulary members (and the scores that go with it)
Keep(v, ts)       == SelectSeq([j \in DOMAIN ts |-> j], LAMBDA j : InVocab(v, ts[j]))
Filtered(v, ts)   == [m \in DOMAIN Keep(v, ts) |-> ts[Keep(v, ts)[m]]]
FilteredSc(v, ts, sc) == [m \in DOMAIN Keep(v, ts) |-> sc[Keep(v, ts)[m]]]

(* laws of Req *)
LawRoundTrip(v)  == Injective(v) => \A k \in DOMAIN v : Encode(v, Decode(v, k - 1)) = <<k - 1>>
LawEncodeIff(v)  == Injective(v) => \A u \in 1..NU : \A k \in DOMAIN v : (Encode(v, u) = <<k - 1>>) <=> TEq(u, v[k])
LawOOV(v, ts)    == /\ Classify(v, Filtered(v, ts)) = Classify(v, ts)
                    /\ Multilabel(v, Filtered(v, ts)) = Multilabel(v, ts)
LawOOVPred(v, ts, sc) == \A k \in DOMAIN v : PredAllowed(v, Filtered(v, ts), FilteredSc(v, ts, sc), k) = PredAllowed(v, ts, sc, k)
LawClassifyIsHit(v, ts) == Classify(v, ts) = <<>> \/ Multilabel(v, ts)[Classify(v, ts)[1] + 1] = 1

\* ways of writing a term (see Provs below): carrying extra attributes is content, their order is not
HasExtras(mode) == mode \in {"extras_ab", "extras_ba"}
SameContent(m1, m2) == HasExtras(m1) = HasExtras(m2)        \* two ways of writing that leave equal objects equal

EncClauses == {"EncodeIffEqual", "EncodeIffObservedEqual", "DecodeEncodeIdentity", "DecodeIsVocabularyTag", "ClassifyFirstHit", "MultilabelIndicator",
               "PredictionScores", "OutOfVocabularyNoInfluence"}

(***************************************************************************)
(* r: what was observed for an enc case                                    *)
(*  enc    : for every universe tag the optional index                     *)
(*  dec    : for every vocabulary position the universe tag decoded (0 = not one) *)
(*  encdec : for every vocabulary position encode(decode(position))        *)
(*  cls, multi, pred (one vector of quarter ticks per score pattern)       *)
(*  f_cls, f_multi, f_pred : the same three on the list without its        *)
(*           out-of-vocabulary members                                     *)
(***************************************************************************)
EncClauseHolds(cl, c, r) ==
    LET v == c.vocab  ts == c.tags IN
    \* (equal universe tags are equal objects only when vocabulary and queries are written with the same content)
    CASE cl = "EncodeIffEqual"       -> SameContent(c.vprov, c.qprov) /\ Injective(v) /\ Len(r.enc) = NU /\ \A u \in 1..NU : r.enc[u] = Encode(v, u)
      \* the same clause on OBSERVED equality: qeq[u][k] = (query tag u == vocabulary tag k), veq[k][l] likewise inside the
      \* vocabulary.  For a vocabulary of (observably) distinct tags a tag goes to index i iff it == the i-th tag.
      [] cl = "EncodeIffObservedEqual" ->
             /\ Len(r.enc) = NU /\ Len(r.qeq) = NU /\ Len(r.veq) = Len(v)
             /\ \A u \in 1..NU : Len(r.qeq[u]) = Len(v)
             /\ \A k \in DOMAIN v : Len(r.veq[k]) = Len(v)
             /\ (\A k, l \in DOMAIN v : k # l => ~r.veq[k][l]) =>
                   \A u \in 1..NU :
                      LET hits == {k \in DOMAIN v : r.qeq[u][k]}
                      IN  Cardinality(hits) <= 1 => r.enc[u] = (IF hits = {} THEN <<>> ELSE <<SetMin(hits) - 1>>)
      [] cl = "DecodeEncodeIdentity" -> /\ Len(r.dec) = Len(v) /\ Len(r.encdec) = Len(v)
                                        /\ \A k \in DOMAIN v : r.dec[k] \in 1..NU /\ TEq(r.dec[k], v[k]) /\ r.encdec[k] = <<k - 1>>
      \* decoding is the inverse on indices: decode(i) EQUALS (observed ==) the i-th vocabulary tag
      [] cl = "DecodeIsVocabularyTag" -> Len(r.deq) = Len(v) /\ \A k \in DOMAIN v : r.deq[k]
      [] cl = "ClassifyFirstHit"     -> r.cls = Classify(v, ts)
      [] cl = "MultilabelIndicator"  -> r.multi = Multilabel(v, ts)
      [] cl = "PredictionScores"     -> Len(r.pred) = Len(c.scs) /\ \A s \in DOMAIN c.scs : PredOK(v, ts, c.scs[s], r.pred[s])
      [] cl = "OutOfVocabularyNoInfluence" ->
             \* the case carries the filtered list (ftags, fscs); it must be the one this module defines
             /\ c.ftags = Filtered(v, ts) /\ \A s \in DOMAIN c.scs : c.fscs[s] = FilteredSc(v, ts, c.scs[s])
             /\ r.f_cls = r.cls /\ r.f_multi = r.multi
             \* with repeats the code may pick any of a tag's scores, but the pick must not depend on outsiders
             /\ r.f_pred = r.pred

(* ------------------------- Req: hash / equality contract ------------------------- *)
ClassNames == <<"Term", "Tag", "Feature", "Note", "SoundEvent", "SoundEventAnnotation",
                "SoundEventPrediction", "ClipPrediction">>
\* sizes of the field domains the binder builds objects from (field meanings: see checks/c19.py FIELDS)
FieldDom == << <<2, 2, 2, 2, 3, 2>>,   \* Term: name, label, definition, an extra attribute present or not,
                                       \*       uri (none, u1, u2), comment (none, given)
               <<7, 2>>,          \* Tag: term (T1, T1', T1'', T2, T5, T6, T7), value
               <<7, 5>>,          \* Feature: term, value (0.0, -0.0, 0.5, float("nan"), numpy.nan)
               \* some values are the SAME value spelled differently (equal for the models, so equal for the contract):
               <<2, 2, 2, 4>>,    \* Note: uuid, message, is_issue, created_on (two naive times; 12:00Z; 13:00+01:00 = the
                                  \*       same instant as 12:00Z)
               <<2, 4, 3, 2>>,    \* SoundEvent: uuid, geometry (interval [1, 2]; box; interval [0.0, 2.0]; the same interval spelled
                                  \*       [-0.0, 2]), recording (r1, r2, r1 with its path spelled "./r1.wav"), features
               <<2, 2, 2, 2>>,    \* SoundEventAnnotation: uuid, sound_event, tags, notes
               <<2, 2, 3, 2>>,    \* SoundEventPrediction: uuid, sound_event, score (0.5, 1.0, the int 1), tags
               <<2, 2, 2, 2>> >>  \* ClipPrediction: uuid, clip, tags, features
RECURSIVE Vectors(_, _)
Vectors(dom, k) == IF k > Len(dom) THEN {<<>>}
                   ELSE {<<a>> \o rest : a \in 1..dom[k], rest \in Vectors(dom, k + 1)}
Objects(cls) == Vectors(FieldDom[cls], 1)
\* model equality = all declared fields equal (Feature value: 0.0 and -0.0 are the same number)
Norm(cls, x) == CASE cls = 3 /\ x[2] = 2 -> <<x[1], 1>>                    \* -0.0 = 0.0
                  [] cls = 4 /\ x[4] = 4 -> [x EXCEPT ![4] = 3]             \* one instant, two UTC offsets
                  [] cls = 5 -> [x EXCEPT ![3] = IF x[3] = 3 THEN 1 ELSE x[3],    \* one path, two spellings
                                           ![2] = IF x[2] = 4 THEN 3 ELSE x[2]]     \* -0.0 = 0.0, 2 = 2.0
                  [] cls = 7 /\ x[3] = 3 -> [x EXCEPT ![3] = 2]             \* 1 = 1.0
                  [] OTHER -> x
\* NaN is not equal to itself, so a Feature holding NaN equals no other Feature object (not even one built alike)
IsNaN(cls, x) == cls = 3 /\ x[2] \in {4, 5}
ModelEq(cls, x, y) == ~IsNaN(cls, x) /\ ~IsNaN(cls, y) /\ Norm(cls, x) = Norm(cls, y)
DiffCount(x, y) == Cardinality({f \in DOMAIN x : x[f] # y[f]})
\* control "uri": a Term.__eq__ that takes two terms with the same (present) URI for equal, whatever their names
UriOf(cls, x) == IF cls = 1 THEN (IF x[5] = 1 THEN "" ELSE IF x[5] = 2 THEN "u1" ELSE "u2") ELSE TermUri[x[1]]
\* control "nan_equal": a Feature.__eq__ that takes two same-term features for equal when both values are NaN
EqUnder(mode, cls, x, y) ==
    IF mode = "nan_equal" /\ IsNaN(cls, x) /\ IsNaN(cls, y) THEN x[1] = y[1]
    ELSE IF mode = "uri" /\ cls <= 3 /\ UriOf(cls, x) # "" /\ UriOf(cls, x) = UriOf(cls, y)
    THEN (cls = 1 \/ Norm(cls, x)[2] = Norm(cls, y)[2])
    ELSE ModelEq(cls, x, y)
\* the projection the code hashes ("code"), and two variants used as controls of the law below
HashKey(mode, cls, x, who) ==
    CASE mode = "identity" -> <<who>>                                   \* id(self): never equal for two objects
      [] mode = "code" /\ cls = 1 -> <<x[1]>>                            \* Term: name
      [] mode = "code" /\ cls \in {2, 3} /\ ~IsNaN(cls, x) -> <<TermName[x[1]], Norm(cls, x)[2]>>   \* (hash(name), value)
      [] mode = "code" /\ IsNaN(cls, x) -> <<TermName[x[1]], 0, who>>          \* hash(nan) is the identity of the float object
      [] mode = "code" /\ cls > 3 -> <<x[1]>>                             \* uuid
      [] mode = "label" /\ cls = 1 -> <<x[2]>>                            \* a different but sound hash
      [] OTHER -> <<>>                                                    \* constant hash: sound too
LawHashSound(mode, cls, x, y) == ModelEq(cls, x, y) => HashKey(mode, cls, x, 1) = HashKey(mode, cls, y, 2)

(***************************************************************************)
(* Provenance: how an object came to hold the fields of its vector.        *)
(*   fresh        built by the constructor                                 *)
(*   copy_update  a donor (the vector with field f set to the cyclically   *)
(*                next value of its domain) is built and HASHED, then      *)
(*                donor.model_copy(update={field f: the vector's value})   *)
(*   assign       the donor is built and HASHED, then field f is assigned  *)
(*                (the models are not frozen -- except Term)               *)
(*   deep_copy    the object is built and HASHED, then model_copy(deep=True)*)
(*   revalidate   the object is built and HASHED, then                     *)
(*                model_validate(model_dump(exclude_unset=True))  (the full *)
(*                dump of a Term re-validates its aliased fields as extra  *)
(*                attributes and compares unequal: not this property's     *)
(*                subject, and it would make the pairs trivial)            *)
(*   explicit_defaults  built by the constructor with every optional field *)
(*                (of the object and of every Term inside it) passed       *)
(*                explicitly with its default value: == does not see which *)
(*                fields were set, so neither may the hash                 *)
(* Hashing BEFORE the derivation step is the point: anything an object     *)
(* remembers about its hash travels with copies and survives assignments.  *)
(***************************************************************************)
Prov(m, f) == [mode |-> m, f |-> f]
Fresh == Prov("fresh", 0)
Frozen(cls) == cls = 1                                   \* Term: ConfigDict(frozen=True)
\* Term's 4th field (an extra attribute) can be added by an update but not removed, so it is never the donor field
DonorFields(cls) == IF cls = 1 THEN {1, 2, 3, 5, 6} ELSE DOMAIN FieldDom[cls]
Explicit == Prov("explicit_defaults", 0)
\* Term accepts extra attributes (extra = "allow"; the other seven classes do not).  extras_ab / extras_ba: every Term of
\* the object carries the same two extra attributes, GIVEN in the order a, b or b, a.  == compares the extras as a
\* mapping, so the order is only a way of writing; carrying extras at all is content (such a term is not equal to the
\* bare one).
ExtrasAB == Prov("extras_ab", 0)
ExtrasBA == Prov("extras_ba", 0)
Provs(cls) == {Fresh, Prov("deep_copy", 0), Prov("revalidate", 0), Explicit, ExtrasAB, ExtrasBA} \cup
              {Prov(m, f) : m \in {"copy_update"} \cup (IF Frozen(cls) THEN {} ELSE {"assign"}), f \in DonorFields(cls)}
Donor(cls, x, p) == IF p.f = 0 THEN x ELSE [x EXCEPT ![p.f] = (x[p.f] % FieldDom[cls][p.f]) + 1]
\* the instance __dict__ (and whatever was memoised in it) is carried by these derivations, not by re-validation
CarriesDict(p) == p.mode \in {"copy_update", "assign", "deep_copy"}
Near(cls, x, y) == ModelEq(cls, x, y) \/ Cardinality({f \in DOMAIN x : x[f] # y[f]}) <= 1

PairClauses == {"EqualImpliesEqualHash", "SetAndDictMembership"}
(* r = [eq, eq_rev, hash_eq, in_set, set_size, dict_hit, dict_size] observed on two separately built objects,   *)
(* each brought about by its provenance; the clauses do not depend on the history -- that is the contract        *)
PairClauseHolds(cl, r) ==
    CASE cl = "EqualImpliesEqualHash" -> (r.eq \/ r.eq_rev) => r.hash_eq
      [] cl = "SetAndDictMembership"  ->
             IF r.eq THEN r.in_set /\ r.set_size = 1 /\ r.dict_hit /\ r.dict_size = 1
             ELSE ~r.in_set /\ r.set_size = 2 /\ ~r.dict_hit /\ r.dict_size = 2

Clauses == EncClauses \cup PairClauses
Holds(cl, o) ==
    IF o.in.kind = "enc"
    THEN IF cl \in EncClauses THEN EncClauseHolds(cl, o.in, o.out) ELSE TRUE
    ELSE IF cl \in PairClauses THEN PairClauseHolds(cl, o.out) ELSE TRUE
=============================================================================
