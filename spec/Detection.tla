------------------------------ MODULE Detection ------------------------------
(***************************************************************************)
(* C08 -- sound_event_detection accounts for every sound event and only    *)
(* credits overlaps.                                                       *)
(*                                                                         *)
(* Input (a case):                                                         *)
(*   [kind, vocab |-> V, clips |-> <<[id, anns, preds]>>, porder, aorder]   *)
(*   porder / aorder: clip ids in the order of the prediction / annotation *)
(*   lists handed to sound_event_detection (a clip's anns are used only if  *)
(*   it is in aorder, its preds only if it is in porder)                   *)
(*   annotated event  [g |-> <<>> | <<geometry>>, cls |-> 0 no tag | 1..V   *)
(*                     class of the vocabulary | 9 a tag outside of it]     *)
(*   predicted event  [g |-> ..., sc |-> <<q_1..q_V>>] scores in quarters,  *)
(*                     sum <= 4 (single-label scoring)                      *)
(*   kind = "lat": geometries are lattice BoundingBoxes (never buffered:    *)
(*   their affinity is the exact box IoU); kind = "rnd": g holds the kind   *)
(*   name only and the affinity of a pair is the observed compute_affinity. *)
(* Output: runs (one per exact unit) of                                     *)
(*   [raised, cs (hundredths of a second per tick), clips |-> <<[id, score, m |-> <<[s, t, a, sc]>>]>>, score, *)
(*    aff |-> per input clip the matrix [prediction][annotation] of         *)
(*    compute_affinity]   s / t: <<>> or <<1-based index into the clip's    *)
(*   predicted / annotated sound events>>; doubles as [l, h, r] (Affinity). *)
(***************************************************************************)
EXTENDS GeomModel
Aff == INSTANCE Affinity
Mat == INSTANCE Matching

(* ---------------- reading a case ---------------- *)
HasGeom(e)     == ~IsNone(e.g)
ClipIds(c)     == {c.clips[k].id : k \in DOMAIN c.clips}
ClipPos(c, id) == CHOOSE k \in DOMAIN c.clips : c.clips[k].id = id
ClipOf(c, id)  == c.clips[ClipPos(c, id)]
Evaluated(c)   == Range(c.porder) \cap Range(c.aorder)          \* "the clips present in both inputs"
RECURSIVE SumSeq(_)
SumSeq(s) == IF s = <<>> THEN 0 ELSE Head(s) + SumSeq(Tail(s))
(* Tags.  Classic cases: the vocabulary is V = c.vocab tags of one term with distinct values; an annotation names its   *)
(* class (cls), a prediction gives a score vector (sc).  Term cases (c.voc present): tags are ids into a fixed table    *)
(*      id   1          2          3          4                                                                        *)
(*      term T1         T2         T3         T1        T1, T2: different terms with the SAME LABEL;                     *)
(*      value x         x          x          y         T1, T3: different terms with the SAME NAME                       *)
(* c.voc is the vocabulary (distinct ids, in order), an annotation carries tag ids (a.tags), a prediction pairs         *)
(* <<tag id, quarters>> (p.pt).  A tag is a (term, value) pair: ids 1, 2, 3 are three different tags.                   *)
NumClasses(c) == c.vocab
InVoc(c, t)   == "voc" \in DOMAIN c /\ \E k \in DOMAIN c.voc : c.voc[k] = t
VocIndex(c, t) == CHOOSE k \in DOMAIN c.voc : c.voc[k] = t
\* the annotation's class within the vocabulary (its first tag that is in the vocabulary), 0 when it has none
ClassOf(a, c) ==
    IF "tags" \in DOMAIN a
    THEN LET hits == {i \in DOMAIN a.tags : InVoc(c, a.tags[i])}
         IN  IF hits = {} THEN 0 ELSE VocIndex(c, a.tags[SetMin(hits)])
    ELSE IF a.cls \in 1..NumClasses(c) THEN a.cls ELSE 0
\* the score (quarters) the prediction gives to every class of the vocabulary
ScoreVec(p, c) ==
    IF "pt" \in DOMAIN p
    THEN [k \in 1..NumClasses(c) |-> SumSeq([i \in DOMAIN p.pt |-> IF p.pt[i][1] = c.voc[k] THEN p.pt[i][2] ELSE 0])]
    ELSE [k \in 1..NumClasses(c) |-> IF k <= Len(p.sc) THEN p.sc[k] ELSE 0]
\* probability (in quarters) the prediction gives to the annotation's class; for an annotation without a class
\* of the vocabulary the remaining mass 1 - sum (the "none" class of single-label scoring)
ExpScore(p, a, c) == IF ClassOf(a, c) = 0 THEN <<4 - SumSeq(ScoreVec(p, c)), 4>> ELSE <<ScoreVec(p, c)[ClassOf(a, c)], 4>>
(* Lattice geometries are rectilinear regions (Affinity!Rectilinear: boxes, polygons and multi-polygons bounded by    *)
(* axis-parallel rectangles, interior rings included).  Two regions certainly do not overlap when their bounding boxes *)
(* do not meet or one lies strictly inside an interior ring of the other; touching counts as overlapping (the statement *)
(* says "overlap", C12 calls touching an overlap), and every other configuration is accepted as overlapping.            *)
BoxesMeet(x, y) == Max(x[1], y[1]) <= Min(x[3], y[3]) /\ Max(x[2], y[2]) <= Min(x[4], y[4])
RegionBox(g) == LET S == Range(Aff!Shells(g)) IN
    <<SetMin({b[1] : b \in S}), SetMin({b[2] : b \in S}), SetMax({b[3] : b \in S}), SetMax({b[4] : b \in S})>>
InsideHole(x, y) == LET b == RegionBox(x) IN
    \E h \in Range(Aff!Holes(y)) : h[1] < b[1] /\ b[3] < h[3] /\ h[2] < b[2] /\ b[4] < h[4]
(* Time-only events (TimeStamp, TimeInterval) against anything: the affinity is the IoU of the time extents, a        *)
(* TimeStamp grown by the matcher's default time buffer of 0.01 s (a TimeInterval under either reading of C06, r).     *)
(* Extents are counted in hundredths of a second: S = hundredths per tick (100 at unit 1 s, 25 at unit 1/4 s; the run   *)
(* says which, r.cs).  Affinity!TimeIoU / PExt's closed form, at that scale.                                           *)
TimeKind(g) == g.type \in Aff!TimeKinds
CExt(g, S, r) ==
    LET x == TimeExtent(g, Aff!FMAXT)  grown == <<Max(x[1] * S - 1, 0), x[2] * S + 1>>  asis == <<x[1] * S, x[2] * S>> IN
    CASE g.type = "TimeStamp"    -> grown
      [] g.type = "TimeInterval" -> IF r = 1 THEN grown ELSE asis
      [] OTHER                   -> asis                       \* lattice events are otherwise regions: never buffered
DetAff(x, y, S, r) == IF TimeKind(x) \/ TimeKind(y) THEN Aff!TimeIoU(CExt(x, S, r), CExt(y, S, r)) ELSE Aff!RectIoU(x, y)
RegionsMeet(x, y) ==
    IF TimeKind(x) \/ TimeKind(y)
    THEN LET a == CExt(x, 100, 1)  b == CExt(y, 100, 1) IN Max(a[1], b[1]) <= Min(a[2], b[2])
    ELSE BoxesMeet(RegionBox(x), RegionBox(y)) /\ ~InsideHole(x, y) /\ ~InsideHole(y, x)

(* ---------------- clauses on one clip evaluation ---------------- *)
(* P, A: the clip's predicted / annotated events; M: its matches.  Eq(v, pq), Zero(v): how a reported number    *)
(* is compared with a rational (doubles: Aff!EqRat; the model: rational equality).                               *)
IsPair(x) == Mat!IsPair(x)
InRange(M, P, A) == Mat!InRange(M, Len(P), Len(A))
EveryEventOnceOf(M, P, A) == Mat!CoverOf(M, Len(P), Len(A))
PairScoreOf(M, P, A, V, Eq(_, _)) ==
    InRange(M, P, A) => \A k \in DOMAIN M : IsPair(M[k]) => Eq(M[k].sc, ExpScore(P[Some(M[k].s)], A[Some(M[k].t)], V))
UnpairedZeroOf(M, Zero(_)) == \A k \in DOMAIN M : ~IsPair(M[k]) => Zero(M[k].a) /\ Zero(M[k].sc)
LatOverlapOf(M, P, A) ==
    InRange(M, P, A) => \A k \in DOMAIN M : IsPair(M[k]) =>
        LET p == P[Some(M[k].s)]  a == A[Some(M[k].t)]
        IN  HasGeom(p) /\ HasGeom(a) /\ RegionsMeet(Some(p.g), Some(a.g))
LatAffinityOf(M, P, A, S, Eq(_, _)) ==
    InRange(M, P, A) => \A k \in DOMAIN M : IsPair(M[k]) =>
        LET p == P[Some(M[k].s)]  a == A[Some(M[k].t)]
        IN  (HasGeom(p) /\ HasGeom(a)) => \E r \in Aff!Readings : Eq(M[k].a, DetAff(Some(p.g), Some(a.g), S, r))
\* expected score of every match, given who was matched with whom (quarters)
ExpScores(M, P, A, V) == [k \in DOMAIN M |-> IF IsPair(M[k]) THEN ExpScore(P[Some(M[k].s)], A[Some(M[k].t)], V)[1] ELSE 0]

(* ---------------- observations ---------------- *)
IsLat(o) == o.in.kind = "lat"
N24(l)   == l[2] * 16777216 + l[3] * 256 + (l[4] \div 256)          \* floor of a value of [0,1] in units of 2^-24
Num(v)   == Aff!Ret(v) /\ v.l[1] \in {0, 1} /\ v.l[2] <= 1 /\ Aff!LLeInt(v.l, 1)
\* an expected value of exactly 0 (geometries that merely touch or are apart; a zero score) is demanded exactly, on any grid
EqD(v, pq) == IF pq[1] = 0 /\ pq[2] > 0 THEN Aff!IsZero(v) ELSE Aff!EqRat(v, pq)
ZeroD(v)   == Aff!IsZero(v)
\* the mean of the reported numbers, on floors to 2^-24 (each floor is off by less than one unit)
IsMeanOf(v, s) ==
    Len(s) > 0 => /\ Num(v) /\ \A k \in DOMAIN s : Num(s[k])
                  /\ Abs(Len(s) * N24(v.l) - SumSeq([k \in DOMAIN s |-> N24(s[k].l)])) <= Len(s)
RECURSIVE Gcd(_, _)
Gcd(a, b) == IF b = 0 THEN a ELSE Gcd(b, a % b)
Reduce(pq) == LET g == Gcd(pq[1], pq[2]) IN IF g = 0 THEN pq ELSE <<pq[1] \div g, pq[2] \div g>>
EqIfSmall(v, pq) == LET r == Reduce(pq) IN r[2] <= 32767 => EqD(v, r)

Clauses == {"Returns", "ClipsAreIntersection", "EveryEventOnce", "PairedOnlyIfOverlap", "PairAffinity", "PairScore",
            "UnpairedZero", "ClipScoreIsMean", "OverallIsMeanOfClips"}

\* clause cl on the k-th reported clip evaluation of run r
HoldsClip(cl, o, r, k) ==
    LET c == o.in  e == r.clips[k]  M == e.m IN
    (e.id \in Evaluated(c)) =>
    LET x == ClipOf(c, e.id)  P == x.preds  A == x.anns  V == c
        F == r.aff[ClipPos(c, e.id)]                     \* observed affinities [prediction][annotation]
    IN
    CASE cl = "EveryEventOnce" -> EveryEventOnceOf(M, P, A)
      [] cl = "PairedOnlyIfOverlap" ->
            IF IsLat(o) THEN LatOverlapOf(M, P, A)
            ELSE InRange(M, P, A) => \A j \in DOMAIN M : IsPair(M[j]) =>
                    LET i1 == Some(M[j].s)  i2 == Some(M[j].t)
                    IN  HasGeom(P[i1]) /\ HasGeom(A[i2]) /\ Aff!Ret(F[i1][i2]) /\ F[i1][i2].l[1] = 1
      [] cl = "PairAffinity" ->
            IF IsLat(o) THEN LatAffinityOf(M, P, A, r.cs, EqD)
            ELSE InRange(M, P, A) => \A j \in DOMAIN M : IsPair(M[j]) =>
                    LET i1 == Some(M[j].s)  i2 == Some(M[j].t)
                    IN  (HasGeom(P[i1]) /\ HasGeom(A[i2])) => Aff!Close(M[j].a, F[i1][i2])
      [] cl = "PairScore"    -> PairScoreOf(M, P, A, V, EqD)
      [] cl = "UnpairedZero" -> UnpairedZeroOf(M, ZeroD)
      [] cl = "ClipScoreIsMean" ->
            /\ IsMeanOf(e.score, [j \in DOMAIN M |-> M[j].sc])
            \* exact sibling: when every match score is what the property says, so is their mean
            /\ (Len(M) > 0 /\ InRange(M, P, A) /\ PairScoreOf(M, P, A, V, EqD) /\ UnpairedZeroOf(M, ZeroD))
                   => EqIfSmall(e.score, <<SumSeq(ExpScores(M, P, A, V)), 4 * Len(M)>>)
      [] OTHER -> TRUE

HoldsRun(cl, o, r) ==
    IF cl = "Returns" THEN r.raised = ""
    ELSE IF r.raised # "" THEN TRUE                                   \* reported once, by Returns
    ELSE CASE cl = "ClipsAreIntersection" ->
                 /\ \A j, k \in DOMAIN r.clips : j # k => r.clips[j].id # r.clips[k].id
                 /\ {r.clips[k].id : k \in DOMAIN r.clips} = Evaluated(o.in)
           [] cl = "OverallIsMeanOfClips" -> IsMeanOf(r.score, [k \in DOMAIN r.clips |-> r.clips[k].score])
           [] OTHER -> \A k \in DOMAIN r.clips : HoldsClip(cl, o, r, k)
Holds(cl, o) == \A u \in DOMAIN o.out.runs : HoldsRun(cl, o, o.out.runs[u])
=============================================================================
