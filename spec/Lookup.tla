------------------------------- MODULE Lookup -------------------------------
(* X03 (extension): find_tag / find_feature -- "the first element whose term (or term label) matches, otherwise the     *)
(* default, otherwise None; ValueError when neither selector is given" -- and the deprecated spellings that feed it       *)
(* (Tag(key=..) / Feature(name=..) build term_from_key(key); .key / .name read the label back).                           *)
(* Terms are records <<name, label, definition>>; the catalogue is chosen so that every pair of notions of "same term"    *)
(* that an implementation could confuse is separated by some pair: same label / other name (1,2), same name and label /  *)
(* other definition (1,3: equal hash, unequal objects), the compat term of key "a" (5), an unrelated term (4).            *)
(* Req judges the result BY VALUE (which element's content came back); identity with the list element and the            *)
(* precedence of `term` over `label` when both are given are Impl facts, compared as Drift/ (advisory).                   *)
EXTENDS Naturals, Sequences, FiniteSets
Terms == << [name |-> "ns:a",         label |-> "a", def |-> "d1"],
            [name |-> "ns2:alpha",    label |-> "a", def |-> "d1"],
            [name |-> "ns:a",         label |-> "a", def |-> "d2"],
            [name |-> "ns:b",         label |-> "b", def |-> "d1"],
            [name |-> "soundevent:a", label |-> "a", def |-> "Unknown"] >>      \* = term_from_key("a"); built through key= / name=
NT == Len(Terms)
Labels == << "a", "b", "c", "A" >>                 \* query labels: 0 = not given; "c" and "A" match nothing (labels are compared exactly)
Elem == [t : 1..NT, v : 1..2]                      \* an element of the searched list: term index and value code
DefaultElem == [t |-> 4, v |-> 2]                  \* the default handed in (kind 1: not in the list by identity; its value may occur)

TermEq(i, j) == Terms[i] = Terms[j]                \* equality of all declared fields
MatchTerm(e, q) == TermEq(e.t, q)
MatchLabel(e, q) == Terms[e.t].label = Labels[q]
RECURSIVE First(_, _, _, _)
First(xs, i, P(_, _), q) == IF i > Len(xs) THEN 0 ELSE IF P(xs[i], q) THEN i ELSE First(xs, i + 1, P, q)

\* outcome of a call: "raise" | <<"elem", t, v>> | "default" | "none"
Fallback(c) == IF c.dflt = 0 THEN "none" ELSE "default"
ByTerm(c)  == LET i == First(c.xs, 1, MatchTerm, c.term) IN IF i = 0 THEN <<0, Fallback(c)>> ELSE <<i, "elem">>
ByLabel(c) == LET i == First(c.xs, 1, MatchLabel, c.lbl) IN IF i = 0 THEN <<0, Fallback(c)>> ELSE <<i, "elem">>
Accepted(c) == IF c.term = 0 /\ c.lbl = 0 THEN {<<0, "raise">>}
               ELSE IF c.lbl = 0 THEN {ByTerm(c)}
               ELSE IF c.term = 0 THEN {ByLabel(c)}
               ELSE {ByTerm(c), ByLabel(c)}       \* "the given term or term label": either reading
ImplOutcome(c) == IF c.term # 0 THEN ByTerm(c) ELSE IF c.lbl # 0 THEN ByLabel(c) ELSE <<0, "raise">>

\* ---- observations: out = [kind: "raise:<Class>" | "elem" | "default" | "none" | "other", t, v, ident, keys, dkey] ----
SameContent(c, i, r) == r.t = c.xs[i].t /\ r.v = c.xs[i].v
Clauses == {"RaisesIffNoSelector", "FirstMatchByValue", "FallbackIsDefault", "InputUntouched", "DeprecatedKeyIsLabel", "KnownOutcome",
            "Drift/identity", "Drift/term_precedence"}
Holds(cl, o) ==
  LET c == o.in  r == o.out  acc == Accepted(c) IN
  CASE cl = "RaisesIffNoSelector" -> (r.kind = "raise:ValueError") <=> (c.term = 0 /\ c.lbl = 0)
    [] cl = "FirstMatchByValue"   -> (r.kind = "elem" \/ \A a \in acc : a[2] = "elem") =>
                                        \E a \in acc : a[2] = "elem" /\ r.kind = "elem" /\ SameContent(c, a[1], r)
    [] cl = "FallbackIsDefault"   -> (r.kind \in {"default", "none"} \/ \A a \in acc : a[2] \in {"default", "none"}) =>
                                        \E a \in acc : r.kind = a[2]
    [] cl = "KnownOutcome"        -> r.kind \in {"elem", "default", "none", "raise:ValueError"}
    [] cl = "InputUntouched"      -> r.after = [i \in 1..Len(c.xs) |-> <<c.xs[i].t, c.xs[i].v>>]
    [] cl = "DeprecatedKeyIsLabel" -> r.keys = [i \in 1..Len(c.xs) |-> Terms[c.xs[i].t].label]
    [] cl = "Drift/identity"      -> r.kind = "elem" => r.ident = ImplOutcome(c)[1]
    [] cl = "Drift/term_precedence" -> r.kind \in {"elem", "default", "none"} =>
                                          /\ r.kind = ImplOutcome(c)[2]
                                          /\ (r.kind = "elem" => SameContent(c, ImplOutcome(c)[1], r))
    [] OTHER -> TRUE
=============================================================================
