SPECIFICATION Spec
CONSTANTS
  MaxS = 2
  MaxLen = 10
  MaxD = 4
  MaxH = 5
  LoopBound = "ceil"
CONSTRAINT Export
INVARIANT ImplRefinesReq
INVARIANT ImplPrefix
INVARIANT RaisedIffInvalid
INVARIANT Laws
PROPERTY Terminates
CHECK_DEADLOCK FALSE
