------------------------------ MODULE Crowsetta ------------------------------
(***************************************************************************)
(* C10 -- crowsetta conversions preserve times, frequencies, labels, order *)
(*                                                                         *)
(* Units.  A case carries                                                  *)
(*   sr    recording.samplerate in Hz (the TRUE rate, after expansion)     *)
(*   te    time expansion as a rational <<p, q>>, p, q > 0                 *)
(*   tden  time ticks per second, fden frequency ticks per Hz              *)
(*   exact TRUE: all units dyadic, observed doubles must equal the         *)
(*         rational exactly; FALSE: compared as limb numbers (LApproxRat)  *)
(* Observed doubles arrive as [r |-> <<>> | <<num, den>> (lowest terms),   *)
(* l |-> limb number].  Tags are pairs <<key, value>> (key = term.label).  *)
(* Optional values are <<>> / <<v>>.                                       *)
(***************************************************************************)
EXTENDS GeomModel, TLC

MAXF == 5000000                      \* soundevent MAX_FREQUENCY in Hz

RECURSIVE Gcd(_, _)
Gcd(a, b) == IF b = 0 THEN a ELSE Gcd(b, a % b)
Norm(r)   == IF r[1] = 0 THEN <<0, 1>>
             ELSE LET g == Gcd(Abs(r[1]), r[2]) IN <<r[1] \div g, r[2] \div g>>
\* observed number v is the rational r
NumIs(v, r, exact) == LET n == Norm(r) IN IF exact THEN v.r = n ELSE LApproxRat(v.l, n[1], n[2])

(* ======================================================================= *)
(* IMPORT arithmetic                                                       *)
(* ======================================================================= *)
DivTe(r, c) == <<r[1] * c.te[2], r[2] * c.te[1]>>
MulTe(r, c) == <<r[1] * c.te[1], r[2] * c.te[2]>>
FileRate(c)        == <<c.sr * c.te[2], c.te[1]>>                 \* rate of the (expanded) file: sr / te
FileTimeSec(t, c)  == <<t, c.tden>>                               \* seconds as written in the crowsetta element
FileTimeSmp(n, c)  == <<n * FileRate(c)[2], FileRate(c)[1]>>      \* sample index over the file samplerate
\* the statement: times divided by te exactly once; samples over the file rate when seconds are absent
ReqTime(el, k, c)  == IF el.sec # <<>> THEN DivTe(FileTimeSec(el.sec[k], c), c)
                                       ELSE DivTe(FileTimeSmp(el.smp[k], c), c)
ReqFreq(el, k, c)  == MulTe(<<el.frq[k], c.fden>>, c)            \* frequencies multiplied by te exactly once
FileTime(el, k, c) == IF el.sec # <<>> THEN FileTimeSec(el.sec[k], c) ELSE FileTimeSmp(el.smp[k], c)

IsBoxEl(el) == el.frq # <<>>
\* the geometry an element must become: <<start, end>> or <<start, low, end, high>> as rationals
ReqGeom(el, c) == IF IsBoxEl(el) THEN <<ReqTime(el, 1, c), ReqFreq(el, 1, c), ReqTime(el, 2, c), ReqFreq(el, 2, c)>>
                                 ELSE <<ReqTime(el, 1, c), ReqTime(el, 2, c)>>

(* ======================================================================= *)
(* IMPORT label cascade: label_to_tags                                      *)
(*  to = [label, empties (<<>> = default | <<seq of labels>>),              *)
(*        fn, termmap, tagmap, keymap \in {"a" absent, "h" hit, "m" miss}   *)
(*        (fn "m" = the function raises ValueError), fnlist, tagmaplist     *)
(*        (the hit is a list of two tags instead of one tag),               *)
(*        key, term, fb : <<>> | <<string>>]                                *)
(* An outcome is a sequence of tags.                                        *)
(* ======================================================================= *)
EmptySet(to)  == IF to.empties = <<>> THEN {"__empty__"} ELSE Range(to.empties[1])
LabelEmpty(to) == to.label \in EmptySet(to)
FnTags(to)    == IF to.fnlist THEN <<<<"kfn", "vfn">>, <<"kfn2", "vfn2">>>> ELSE <<<<"kfn", "vfn">>>>
MapTags(to)   == IF to.tagmaplist THEN <<<<"ktg", "vtg">>, <<"ktg2", "vtg2">>>> ELSE <<<<"ktg", "vtg">>>>
Fallback(to)  == IF to.fb = <<>> THEN "crowsetta" ELSE to.fb[1]
One(k, to)    == <<<<k, to.label>>>>                    \* a single tag, the label as value

\* Reading D: the Notes of the docstring, steps 1-8 in order.  Step 3 ("label found in term_mapping: USE the corresponding
\* term") is a decision: a reading in which step 4 then returns the tag_mapping tags does not use that term, so a
\* term_mapping hit comes before a tag_mapping hit in this reading too (as in the summary).  An EXPLICIT term is only
\* consulted in steps 6-8, after tag_mapping.  Step 6 ("if key is provided, use it") after a hitting key_mapping is read
\* both ways (the mapped key stays / the explicit key is used).
DocTags(to) ==
    IF LabelEmpty(to) THEN {<<>>}
    ELSE IF to.fn = "h" THEN {FnTags(to)}
    ELSE IF to.termmap = "h" THEN {One("TM", to)}
    ELSE IF to.tagmap = "h" THEN {MapTags(to)}
    ELSE LET keys == IF to.keymap = "h" THEN {"KM"} \cup Range(to.key)
                     ELSE IF to.key # <<>> THEN {to.key[1]} ELSE {Fallback(to)}
         IN  IF to.term # <<>> THEN {One(to.term[1], to)} ELSE {One(k, to) : k \in keys}
\* Reading P: the property's summary as a priority list
\* (function, term / tag / key mappings, explicit term or key, fallback key).
SumTags(to) ==
    IF LabelEmpty(to) THEN {<<>>}
    ELSE IF to.fn = "h" THEN {FnTags(to)}
    ELSE IF to.termmap = "h" THEN {One("TM", to)}
    ELSE IF to.tagmap = "h" THEN {MapTags(to)}
    ELSE IF to.keymap = "h" THEN {One("KM", to)}
    ELSE IF to.term # <<>> \/ to.key # <<>> THEN {One(k, to) : k \in Range(to.term) \cup Range(to.key)}
    ELSE {One(Fallback(to), to)}
\* (the label "" : whether it counts as "the empty label" is not said; no tags is accepted as well)
AllowedTags(to) == DocTags(to) \cup SumTags(to) \cup (IF to.label = "" THEN {<<>>} ELSE {})
\* a tag function that raises ValueError: falling through (tests) or propagating (docstring step 2) are both readings
MayPropagate(to) == ~LabelEmpty(to) /\ to.fn = "m"
TagsOk(to, raised, tags) == \/ raised = "" /\ tags \in AllowedTags(to)
                            \/ raised = "ValueError" /\ MayPropagate(to)

(* ======================================================================= *)
(* EXPORT label cascade: label_from_tag / label_from_tags                   *)
(*  lo = [seqfn : BOOLEAN, sel, idx, sep, empty, kvsep : <<>> | <<v>>,      *)
(*        fn : BOOLEAN, map \in {"a","h","m"}, vo \in {"a","t","f"}]        *)
(*  binder conventions: seq_label_fn(tags) = "seq<n>", label_fn(tag) =      *)
(*  "fn<key|value>", label_mapping "h" = {Tag(animal, dog): "canine"},      *)
(*  "m" = {Tag(zzz, zzz): "nothing"}.                                       *)
(* ======================================================================= *)
RECURSIVE Join(_, _)
Join(s, sep) == IF Len(s) = 0 THEN "" ELSE IF Len(s) = 1 THEN s[1] ELSE s[1] \o sep \o Join(Tail(s), sep)
OptOr(o, d)  == IF o = <<>> THEN d ELSE o[1]
\* export-side tags are triples <<key, value, flavour>>: flavour "k" = Tag(key=...) (the simple key-term), "h" = a hand-built
\* Term with that label, "v" = a soundevent.terms vocabulary term with that label.  The KEY of a tag is its term's label
\* whatever the flavour; label_mapping is keyed by whole tags, so only the key-built <<animal, dog>> hits it.
MapHit(tag, lo) == lo.map = "h" /\ tag = <<"animal", "dog", "k">>
\* one tag -> label (function, mapping, value only or key-separator-value); vo is the effective value_only
OneLabel(tag, lo, vo) ==
    IF lo.fn THEN "fn<" \o tag[1] \o "|" \o tag[2] \o ">"
    ELSE IF MapHit(tag, lo) THEN "canine"
    ELSE IF vo THEN tag[2]
    ELSE tag[1] \o OptOr(lo.kvsep, ":") \o tag[2]
\* allowed labels of a tag sequence
ReqLabels(tags, lo) ==
    IF lo.seqfn THEN {"seq<" \o ToString(Len(tags)) \o ">"}
    ELSE IF tags = <<>> THEN {OptOr(lo.empty, "__empty__")}
    ELSE IF lo.sel # <<>> THEN
         LET hits == {i \in DOMAIN tags : tags[i][1] = lo.sel[1]}
         IN  IF hits = {} THEN {OptOr(lo.empty, "__empty__")}
             ELSE LET t == tags[SetMin(hits)]
                  IN  \* the docstring converts the selected tag with the keyword arguments passed through, so an EXPLICIT
                      \* value_only decides (True: the value; False: key-separator-value -- nothing in the docstring or the
                      \* statement lets select_by_key override an explicit False).  value_only OMITTED: the implementation
                      \* and its tests give the value, the docstring's default gives key-separator-value; both accepted.
                      IF lo.vo = "t" THEN {OneLabel(t, lo, TRUE)}
                      ELSE IF lo.vo = "f" THEN {OneLabel(t, lo, FALSE)}
                      ELSE {OneLabel(t, lo, TRUE), OneLabel(t, lo, FALSE)}
    ELSE IF lo.idx # <<>> THEN {OneLabel(tags[(lo.idx[1] % Len(tags)) + 1], lo, lo.vo = "t")}
    ELSE {Join([i \in DOMAIN tags |-> OneLabel(tags[i], lo, lo.vo = "t")], OptOr(lo.sep, ","))}
DefaultLo(vo) == [seqfn |-> FALSE, sel |-> <<>>, idx |-> <<>>, sep |-> <<>>, empty |-> <<>>, kvsep |-> <<>>,
                  fn |-> FALSE, map |-> "a", vo |-> vo]

(* ======================================================================= *)
(* EXPORT geometry                                                          *)
(*  c = [via \in {"segment","bbox","sequence","annot_seq","annot_bbox"},     *)
(*       sr, tden, fden, cast, ign, rtg : BOOLEAN,                           *)
(*       vo \in {"a","t","f"} value_only omitted / True / False,            *)
(*       lsel : <<>> | <<key>> select_by_key passed to the exporter,         *)
(*       evs : sequence of geometries, G("None", 0) = no geometry]           *)
(*  event i carries the single tag <<"ev", ToString(i)>>                     *)
(* ======================================================================= *)
NoGeom(g)  == g.type = "None"
Fmax(c)    == MAXF * c.fden
Bnd(g, c)  == Bounds(g, Fmax(c))                     \* <<start, low, end, high>> ticks
Nyq(c)     == (c.sr * c.fden) \div 2                 \* Nyquist frequency in ticks (sr * fden is kept even)
SampleOf(t, c) == (t * c.sr) \div c.tden             \* floor(time x samplerate)
IsBoxVia(c) == c.via \in {"bbox", "annot_bbox"}
SegRefused(g, c) == NoGeom(g) \/ (g.type # "TimeInterval" /\ ~c.cast)
BoxRefused(g, c) == NoGeom(g) \/ (g.type # "BoundingBox" /\ ~c.cast) \/ (g.type \in TimeOnlyKinds /\ c.rtg)
\* third-party domain fact: crowsetta.BBox needs onset < offset and low < high (after the Nyquist cap)
BoxDomainOk(g, c) == LET b == Bnd(g, c) IN b[1] < b[3] /\ b[2] < Min(b[4], Nyq(c))
\* (IF, not \/: TLC splits a disjunction that occurs positively in an action and would evaluate Bnd of "None")
Unconv(g, c) == IF NoGeom(g) THEN TRUE
                ELSE IF ~IsBoxVia(c) THEN SegRefused(g, c)
                ELSE IF BoxRefused(g, c) THEN TRUE ELSE ~BoxDomainOk(g, c)
EvTags(i)    == <<<<"ev", ToString(i), "k">>>>
EvLabels(i, c) == ReqLabels(EvTags(i), [DefaultLo(c.vo) EXCEPT !.sel = c.lsel])      \* allowed labels of event i
EvLabel(i, c)  == CHOOSE s \in EvLabels(i, c) : TRUE                                  \* a canonical one (model only)
ExpItem(g, i, c) ==
    LET b == Bnd(g, c) IN
    IF IsBoxVia(c) THEN [on |-> b[1], off |-> b[3], lo |-> b[2], hi |-> Min(b[4], Nyq(c)), smp |-> <<>>, label |-> EvLabel(i, c)]
    ELSE [on |-> b[1], off |-> b[3], lo |-> 0, hi |-> 0, smp |-> <<SampleOf(b[1], c), SampleOf(b[3], c)>>, label |-> EvLabel(i, c)]
Idx(c)       == [i \in 1..Len(c.evs) |-> i]
KeptTest(c, i) == ~Unconv(c.evs[i], c)
Kept(c)      == SelectSeq(Idx(c), LAMBDA i : KeptTest(c, i))          \* convertible events, in order
ExpRaises(c) == ~c.ign /\ \E i \in 1..Len(c.evs) : Unconv(c.evs[i], c)
ReqExport(c) == IF ExpRaises(c) THEN [raised |-> TRUE, items |-> <<>>]
                ELSE [raised |-> FALSE, items |-> [j \in 1..Len(Kept(c)) |-> ExpItem(c.evs[Kept(c)[j]], Kept(c)[j], c)]]

(* ======================================================================= *)
(* Acceptance of observations                                               *)
(*  imp : out = [raised, items : <<[type, c : <<num..>>, tags]>>]           *)
(*  exp, rt : out = [raised, items : <<[on, off, lo, hi : num,              *)
(*                                      smp : <<>> | <<a, b>>, label]>>]    *)
(*  l2t : out = [runs : <<[via, raised, tags]>>]                            *)
(*  t2l, t1l : out = [raised, label]                                        *)
(*  xs  : out = [raised, tl, ol : <<limbs, limbs>>, smp : <<a, b>>]         *)
(* ======================================================================= *)
Clauses == {"OnePerElementInOrder", "Times", "Freqs", "SamplesFloor", "NyquistCap", "ErrorPolicy",
            "TagsByCascade", "LabelByCascade", "RoundTrip"}

\* ---- imp
ImpShape(o) == o.out.raised = "" /\ Len(o.out.items) = Len(o.in.els)
ImpHolds(cl, o) ==
    LET c == o.in  its == o.out.items IN
    CASE cl = "ErrorPolicy" -> o.out.raised = ""
      [] cl = "OnePerElementInOrder" ->
            /\ ImpShape(o)
            /\ \A i \in DOMAIN its :
                 /\ its[i].type = (IF IsBoxEl(c.els[i]) THEN "BoundingBox" ELSE "TimeInterval")
                 /\ \E k \in DOMAIN its[i].tags : its[i].tags[k][2] = c.els[i].label
      [] cl = "Times" -> ImpShape(o) =>
            \A i \in DOMAIN its : LET last == IF IsBoxEl(c.els[i]) THEN 3 ELSE 2 IN
                 /\ Len(its[i].c) >= last
                 /\ NumIs(its[i].c[1], ReqTime(c.els[i], 1, c), c.exact)
                 /\ NumIs(its[i].c[last], ReqTime(c.els[i], 2, c), c.exact)
      [] cl = "Freqs" -> ImpShape(o) =>
            \A i \in DOMAIN its : IsBoxEl(c.els[i]) =>
                 /\ Len(its[i].c) = 4
                 /\ NumIs(its[i].c[2], ReqFreq(c.els[i], 1, c), c.exact)
                 /\ NumIs(its[i].c[4], ReqFreq(c.els[i], 2, c), c.exact)
      [] cl = "TagsByCascade" -> ImpShape(o) =>
            \A i \in DOMAIN its : its[i].tags = <<<<"crowsetta", c.els[i].label>>>>
      [] OTHER -> TRUE

\* ---- exp
ExpShape(o) == ~ExpRaises(o.in) /\ o.out.raised = "" /\ Len(o.out.items) = Len(Kept(o.in))
ExpHolds(cl, o) ==
    LET c == o.in  its == o.out.items  want == ReqExport(o.in).items IN
    CASE cl = "ErrorPolicy" -> IF ExpRaises(c) THEN o.out.raised # "" ELSE o.out.raised = ""
      [] cl = "OnePerElementInOrder" -> (~ExpRaises(c) /\ o.out.raised = "") =>
            /\ Len(its) = Len(Kept(c))
            /\ \A j \in DOMAIN its : its[j].label \in {ToString(Kept(c)[j]), "ev:" \o ToString(Kept(c)[j])}
      [] cl = "LabelByCascade" -> ExpShape(o) => \A j \in DOMAIN its : its[j].label \in EvLabels(Kept(c)[j], c)
      [] cl = "Times" -> ExpShape(o) => \A j \in DOMAIN its :
            NumIs(its[j].on, <<want[j].on, c.tden>>, TRUE) /\ NumIs(its[j].off, <<want[j].off, c.tden>>, TRUE)
      [] cl = "Freqs" -> (ExpShape(o) /\ IsBoxVia(c)) => \A j \in DOMAIN its :
            /\ NumIs(its[j].lo, <<want[j].lo, c.fden>>, TRUE)
            /\ (Bnd(c.evs[Kept(c)[j]], c)[4] <= Nyq(c) => NumIs(its[j].hi, <<want[j].hi, c.fden>>, TRUE))
      [] cl = "NyquistCap" -> (ExpShape(o) /\ IsBoxVia(c)) => \A j \in DOMAIN its :
            Bnd(c.evs[Kept(c)[j]], c)[4] > Nyq(c) => NumIs(its[j].hi, <<Nyq(c), c.fden>>, TRUE)
      [] cl = "SamplesFloor" -> (ExpShape(o) /\ ~IsBoxVia(c)) => \A j \in DOMAIN its : its[j].smp = want[j].smp
      [] OTHER -> TRUE

\* ---- rt: import (te = 1) then export with value_only: every field the element had comes back
RtHolds(cl, o) ==
    LET c == o.in  its == o.out.items IN
    CASE cl = "RoundTrip" ->
            /\ o.out.raised = ""
            /\ Len(its) = Len(c.els)
            /\ \A i \in DOMAIN its : LET el == c.els[i] IN
                 /\ its[i].label = el.label
                 /\ el.sec # <<>> => NumIs(its[i].on, <<el.sec[1], c.tden>>, TRUE) /\ NumIs(its[i].off, <<el.sec[2], c.tden>>, TRUE)
                 /\ el.smp # <<>> => its[i].smp = el.smp
                 /\ el.frq # <<>> => NumIs(its[i].lo, <<el.frq[1], c.fden>>, TRUE) /\ NumIs(its[i].hi, <<el.frq[2], c.fden>>, TRUE)
      [] OTHER -> TRUE

\* ---- xs: export of intervals whose times are arbitrary doubles (decimal fractions).  out.tl = the two doubles passed, as
\* limb numbers (exact: flag 1), out.ol = the exported onset_s / offset_s, out.smp the sample indices.  floor(t x sr) is
\* computed exactly on the limbs: sr = srf[1] * srf[2], both factors < 32768.  Boundary guard (DESIGN 2.5): the
\* implementation multiplies in binary floating point; the rounded product can reach the next integer only when the exact
\* product lies within half an ulp (<= 2^-34 for products < 2^20) below it, so floor + 1 is accepted exactly when the
\* fraction of the exact product is >= 1 - 2^-32.
ProdLimbs(v, srf) == LMulMag(LMulMag(v, srf[1]), srf[2])
NearBelow(m)      == m[3] = B16 - 1 /\ m[4] = B16 - 1
FloorOk(n, v, srf) == LET m == ProdLimbs(v, srf) IN n = m[2] \/ (NearBelow(m) /\ n = m[2] + 1)
XsShape(o) == o.out.raised = "" /\ Len(o.out.smp) = 2 /\ Len(o.out.tl) = 2 /\ Len(o.out.ol) = 2
XsHolds(cl, o) ==
    CASE cl = "ErrorPolicy"  -> o.out.raised = ""
      [] cl = "SamplesFloor" -> /\ XsShape(o) /\ o.in.srf[1] * o.in.srf[2] = o.in.sr
                                /\ \A e \in 1..2 : /\ LFinite(o.out.tl[e]) /\ o.out.tl[e][1] >= 0 /\ o.out.tl[e][7] = 1
                                                    /\ FloorOk(o.out.smp[e], o.out.tl[e], o.in.srf)
      [] cl = "Times"        -> XsShape(o) => \A e \in 1..2 : o.out.ol[e] = o.out.tl[e]
      [] OTHER -> TRUE

\* ---- label cascades
L2tHolds(cl, o) ==
    CASE cl = "TagsByCascade" -> \A u \in DOMAIN o.out.runs : TagsOk(o.in.to, o.out.runs[u].raised, o.out.runs[u].tags)
      [] OTHER -> TRUE
T2lHolds(cl, o) ==
    CASE cl = "LabelByCascade" -> o.out.raised = "" /\ o.out.label \in ReqLabels(o.in.tags, o.in.lo)
      [] OTHER -> TRUE
T1lHolds(cl, o) ==
    CASE cl = "LabelByCascade" -> o.out.raised = "" /\ o.out.label = OneLabel(o.in.tag, o.in.lo, o.in.lo.vo = "t")
      [] OTHER -> TRUE

Holds(cl, o) ==
    CASE o.in.kind = "imp" -> ImpHolds(cl, o)
      [] o.in.kind = "exp" -> ExpHolds(cl, o)
      [] o.in.kind = "rt"  -> RtHolds(cl, o)
      [] o.in.kind = "l2t" -> L2tHolds(cl, o)
      [] o.in.kind = "t2l" -> T2lHolds(cl, o)
      [] o.in.kind = "t1l" -> T1lHolds(cl, o)
      [] o.in.kind = "xs"  -> XsHolds(cl, o)
=============================================================================
