------------------------------- MODULE Grouping -------------------------------
(***************************************************************************)
(* C13 -- group_sound_events returns the connected components of the       *)
(* similarity graph.                                                       *)
(*                                                                         *)
(* A case is c = [n  |-> number of list positions,                         *)
(*                id |-> sequence of length n: the identifier of the sound *)
(*                       event held at each position.  Positions with the  *)
(*                       same identifier are TWINS: the list holds the     *)
(*                       same event (or an equal one, same uuid) twice,    *)
(*                e  |-> sequence of pairs <<a, b>>, a <= b, of identifiers,*)
(*                ret |-> the type in which the comparison function hands  *)
(*                       its answer back: "bool", "np_bool" (numpy.bool_,   *)
(*                       what adj[i, j] or np.isclose give), "int" (0 / 1)] *)
(*                ng |-> sequence of the identifiers of the events that    *)
(*                       have NO GEOMETRY (SoundEvent(geometry=None))]     *)
(* Whether an event has a geometry is nobody's business but the comparison *)
(* function's -- which is arbitrary -- so no clause mentions ng.           *)
(*                cl |-> <<>>, or the sizes of DISJOINT CLIQUES laid out one  *)
(*                       after the other over the positions (then e = <<>>   *)
(*                       and id is the identity): the relation is "same     *)
(*                       clique", and the components are the cliques -- for  *)
(*                       lists of hundreds of densely similar events, where  *)
(*                       neither an edge list nor a closure is affordable    *)
(*                       (LawCliques checks the shortcut on small ones),     *)
(*                sub |-> sequence of the identifiers of the events that   *)
(*                       are instances of a USER SUBCLASS of SoundEvent    *)
(*                       (with a field of its own): still input events;    *)
(*                       no clause mentions sub.  An output member counts  *)
(*                       as the input event a only if it equals it, class  *)
(*                       included; otherwise the binder reports 0,         *)
(*                gd |-> TRUE when the comparison function also LOOKS at   *)
(*                       its arguments: it answers "similar" only if each  *)
(*                       argument has / lacks a geometry exactly as the     *)
(*                       input event of that identifier does (for genuine   *)
(*                       input events this changes nothing),                *)
(*                guise |-> the shape in which the comparison function is   *)
(*                       handed over: plain function, lambda, partial,      *)
(*                       bound method, callable object, callable object     *)
(*                       that is FALSY (__len__ = 0 / __bool__ = False)]    *)
(* A callable is a comparison function whatever its truth value.           *)
(* The statement quantifies over ANY symmetric comparison function; two    *)
(* events are similar when its answer is TRUE IN PYTHON'S SENSE (truthy),  *)
(* so the graph -- and every clause -- is the same for every ret.          *)
(* The comparison function of the binder sees events, not positions: it    *)
(* answers f(a, b) by looking the unordered identifier pair up in e, so    *)
(* the relation on positions is twin-consistent by construction            *)
(* (rel(i, k) = rel(j, k) for twins i, j; rel(i, j) = f(a, a), both values *)
(* are generated).  The similarity graph of the statement is the graph on  *)
(* the list POSITIONS: Edge(c, i, j) below.  Without twins id = <<1..n>>   *)
(* and e is simply a symmetric irreflexive relation on positions.          *)
(*                                                                         *)
(* An output is a sequence of sequences of identifiers (0 = "not one of    *)
(* the input events") -- what is observed are events, not positions -- and *)
(* the log of the comparison function's calls: <<a, b, fa, fb>> with the   *)
(* identifiers of the two arguments and fa / fb = 1 when the argument      *)
(* equals, in every field, the input event of that identifier (0 when not).*)
(***************************************************************************)
EXTENDS Lattice, TLC

Nodes(c) == 1..c.n
Ids(c)   == Range(c.id)
IdEdge(c, a, b) == \E k \in DOMAIN c.e : c.e[k] = <<a, b>> \/ c.e[k] = <<b, a>>
HasCliques(c)   == Len(c.cl) > 0
RECURSIVE SumTo(_, _)
SumTo(sq, k)    == IF k = 0 THEN 0 ELSE sq[k] + SumTo(sq, k - 1)
\* the clique that holds position i: the first one whose sizes add up to at least i
BlockOf(c, i)   == SetMin({b \in DOMAIN c.cl : SumTo(c.cl, b) >= i})
BlockF(c)       == TLCEval([i \in 1..c.n |-> BlockOf(c, i)])
Edge(c, i, j)   == i # j /\ (IF HasCliques(c) THEN BlockOf(c, i) = BlockOf(c, j) ELSE IdEdge(c, c.id[i], c.id[j]))
Mult(c, a)      == Cardinality({i \in Nodes(c) : c.id[i] = a})          \* how often event a occurs in the list
RetTypes == {"bool", "np_bool", "int"}
Guises == {"function", "lambda", "partial", "method", "object", "falsy_len", "falsy_bool"}
Falsy(gz) == gz \in {"falsy_len", "falsy_bool"}
WellFormed(c)   == /\ Len(c.id) = c.n /\ c.ret \in RetTypes /\ Range(c.ng) \subseteq Ids(c)
                   /\ c.guise \in Guises /\ c.gd \in BOOLEAN /\ Range(c.sub) \subseteq Ids(c)
                   /\ (HasCliques(c) => /\ SumTo(c.cl, Len(c.cl)) = c.n /\ Len(c.e) = 0
                                         /\ \A b \in DOMAIN c.cl : c.cl[b] >= 1
                                         /\ \A i \in 1..c.n : c.id[i] = i)
                   /\ \A k \in DOMAIN c.e : /\ c.e[k][1] \in Ids(c) /\ c.e[k][2] \in Ids(c) /\ c.e[k][1] <= c.e[k][2]
                                            /\ (c.e[k][1] = c.e[k][2] => Mult(c, c.e[k][1]) >= 2)

\* neighbour sets, computed once per case.  TLCEval forces the value: TLC otherwise keeps [i \in S |-> e] as a
\* lambda and re-evaluates e at every application (exponential in the recursive definitions below)
NbF(c) == TLCEval([i \in 1..c.n |-> {j \in 1..c.n : Edge(c, i, j)}])

\* reachability: iterate S := S \cup N(S) at most n times (a chain has at most n - 1 links)
RECURSIVE Grow(_, _, _)
Grow(nb, S, k) ==
    IF k = 0 THEN S
    ELSE LET T == S \cup UNION {nb[x] : x \in S}
         IN  IF T = S THEN S ELSE Grow(nb, T, k - 1)
CompClosure(c) == LET nb == NbF(c) IN TLCEval([i \in 1..c.n |-> Grow(nb, {i}, c.n)])
\* with cliques the components are the cliques themselves (no closure needed)
CompCliques(c) == LET bf == BlockF(c) IN TLCEval([i \in 1..c.n |-> {j \in 1..c.n : bf[j] = bf[i]}])
CompF(c) == IF HasCliques(c) THEN CompCliques(c) ELSE CompClosure(c)
Connected(c, i, j) == j \in CompF(c)[i]

(***************************************************************************)
(* A second, independent formulation (Warshall), used only to cross-check  *)
(* the closure above on the enumerated universe.                           *)
(***************************************************************************)
RECURSIVE WF(_, _)
WF(c, k) ==
    IF k = 0 THEN TLCEval([p \in Nodes(c) \X Nodes(c) |-> p[1] = p[2] \/ Edge(c, p[1], p[2])])
    ELSE LET prev == WF(c, k - 1)
         IN  TLCEval([p \in Nodes(c) \X Nodes(c) |-> prev[p] \/ (prev[<<p[1], k>>] /\ prev[<<k, p[2]>>])])

(* ---- laws of Req (checked by TLC on every enumerated graph) ---- *)
LawEquivalence(c) ==
    LET cf == CompF(c) IN
    /\ \A i \in Nodes(c) : i \in cf[i]
    /\ \A i, j \in Nodes(c) : j \in cf[i] => i \in cf[j]
    /\ \A i, j, k \in Nodes(c) : (j \in cf[i] /\ k \in cf[j]) => k \in cf[i]
LawContainsEdges(c) == LET cf == CompF(c) IN \A i, j \in Nodes(c) : Edge(c, i, j) => j \in cf[i]
\* least: every labelling that never separates an edge never separates connected nodes
LawLeast(c) ==
    c.n <= 4 => LET cf == CompF(c) IN
                \A f \in [Nodes(c) -> Nodes(c)] :
                   (\A i, j \in Nodes(c) : Edge(c, i, j) => f[i] = f[j])
                   => \A i, j \in Nodes(c) : j \in cf[i] => f[i] = f[j]
LawWarshall(c) == LET cf == CompF(c)  w == WF(c, c.n) IN \A i, j \in Nodes(c) : (j \in cf[i]) <=> w[<<i, j>>]
LawNoEdgeNoLink(c) == (Len(c.e) = 0 /\ ~HasCliques(c)) => LET cf == CompF(c) IN \A i, j \in Nodes(c) : (j \in cf[i]) <=> i = j
\* the clique shortcut is the closure
LawCliques(c) == HasCliques(c) => CompCliques(c) = CompClosure(c)
\* twins: the relation on positions cannot tell them apart; twins that are similar to anything share a component
LawTwins(c) == LET cf == CompF(c) IN
    \A i, j \in Nodes(c) : (i # j /\ c.id[i] = c.id[j]) =>
        /\ \A k \in Nodes(c) \ {i, j} : Edge(c, i, k) <=> Edge(c, j, k)
        /\ (Edge(c, i, j) \/ \E k \in Nodes(c) \ {i, j} : Edge(c, i, k)) => j \in cf[i]

(***************************************************************************)
(* Req, clause by clause.  seqs: the returned sequences as identifiers;    *)
(* calls: the logged comparison_fn arguments as identifiers.               *)
(* The expected blocks are the connected components over POSITIONS; a      *)
(* block is observed as the sequence of the identifiers it holds, in input *)
(* order.  Blocks are compared as bags of identifiers (twins share one).   *)
(***************************************************************************)
ReqClauses == {"OnlyInputEvents", "EveryEventOnce", "NoEmptySequence", "OrderKept",
               "SameSequenceIffConnected", "EmptyGivesNone", "CallsOnDistinctInputs", "CallsOnInputEvents"}
Clauses == {"Returns"} \cup ReqClauses

Occ(sq, a) == Cardinality({k \in DOMAIN sq : sq[k] = a})
\* sq can be read off the list at strictly increasing positions (greedy earliest match)
RECURSIVE IsSubseq(_, _, _, _)
IsSubseq(sq, k, ids, from) ==
    IF k > Len(sq) THEN TRUE
    ELSE LET P == {p \in from..Len(ids) : ids[p] = sq[k]}
         IN  P # {} /\ IsSubseq(sq, k + 1, ids, SetMin(P) + 1)
Roots(c, cf) == {i \in Nodes(c) : i = SetMin(cf[i])}                      \* one position per component
\* same size, and every event of sq occurs in the block as often as in sq (then the block holds nothing else);
\* written over the members of sq so that it stays cheap on lists of hundreds of events
SameBag(c, sq, block) == Len(sq) = Cardinality(block) /\
                         \A k \in DOMAIN sq : Occ(sq, sq[k]) = Cardinality({j \in block : c.id[j] = sq[k]})

ClauseHolds(cl, c, seqs, calls) ==
    CASE cl = "OnlyInputEvents" -> LET ids == Ids(c) IN \A s \in DOMAIN seqs : \A k \in DOMAIN seqs[s] : seqs[s][k] \in ids
      \* every list entry in exactly one sequence: an event occurs in the output as often as in the list
      [] cl = "EveryEventOnce"  -> \A a \in Ids(c) :
                                     Cardinality({p \in UNION {{<<s, k>> : k \in DOMAIN seqs[s]} : s \in DOMAIN seqs} :
                                                    seqs[p[1]][p[2]] = a}) = Mult(c, a)
      [] cl = "NoEmptySequence" -> \A s \in DOMAIN seqs : Len(seqs[s]) > 0
      \* (without twins every event has one position, and "read off at increasing positions" needs no recursion -- TLC's
      \*  stack does not carry a recursion over hundreds of members)
      [] cl = "OrderKept"       ->
             IF Cardinality(Ids(c)) = c.n
             THEN LET ids == Ids(c)
                      pf == TLCEval([a \in ids |-> CHOOSE p \in 1..c.n : c.id[p] = a])
                  IN  \A s \in DOMAIN seqs :
                         /\ \A k \in DOMAIN seqs[s] : seqs[s][k] \in ids
                         /\ \A k \in 1..(Len(seqs[s]) - 1) : pf[seqs[s][k]] < pf[seqs[s][k + 1]]
             ELSE \A s \in DOMAIN seqs : IsSubseq(seqs[s], 1, c.id, 1)
      \* the returned sequences are exactly the components: same bags of events, with the same multiplicities
      [] cl = "SameSequenceIffConnected" ->
             LET cf == CompF(c)  R == Roots(c, cf) IN
             /\ \A s \in DOMAIN seqs : \E r \in R :
                   /\ SameBag(c, seqs[s], cf[r])
                   /\ Cardinality({t \in DOMAIN seqs : SameBag(c, seqs[t], cf[r])}) =
                      Cardinality({q \in R : SameBag(c, seqs[s], cf[q])})
             /\ \A r \in R : \E s \in DOMAIN seqs : SameBag(c, seqs[s], cf[r])
      [] cl = "EmptyGivesNone"  -> c.n = 0 => Len(seqs) = 0
      \* distinct list entries: two different events, or one event that the list holds at two positions
      \* the arguments ARE input events: not stand-ins that merely share their uuid (equality in every field is demanded;
      \* object identity is recorded by the binder but not judged -- the statement does not forbid handing over copies)
      [] cl = "CallsOnInputEvents" -> \A k \in DOMAIN calls : Len(calls[k]) = 4 /\ calls[k][3] = 1 /\ calls[k][4] = 1
      [] cl = "CallsOnDistinctInputs" ->
             LET ids == Ids(c) IN
             \A k \in DOMAIN calls : /\ calls[k][1] \in ids /\ calls[k][2] \in ids
                                     /\ (calls[k][1] = calls[k][2] => Mult(c, calls[k][1]) >= 2)

(***************************************************************************)
(* Acceptance of an observation: out.runs is a sequence of                 *)
(*   [raised: string ("" = returned), seqs, calls]                          *)
(* one per way the binder dressed the same case as sound events.           *)
(***************************************************************************)
Holds(cl, o) ==
    \A r \in DOMAIN o.out.runs :
       LET run == o.out.runs[r] IN
       IF cl = "Returns" THEN WellFormed(o.in) /\ run.raised = ""
       ELSE run.raised = "" => ClauseHolds(cl, o.in, run.seqs, run.calls)
=============================================================================
