------------------------------- MODULE Grouping -------------------------------
(***************************************************************************)
(* C13 -- group_sound_events returns the connected components of the       *)
(* similarity graph.                                                       *)
(*                                                                         *)
(* A case is c = [n |-> number of sound events,                            *)
(*                e |-> sequence of pairs <<i, j>>, 1 <= i < j <= n]        *)
(* i.e. a symmetric, irreflexive relation on the input positions 1..n      *)
(* (the comparison function of the binder answers by looking the unordered *)
(* pair up in e).  An output is a sequence of sequences of input positions *)
(* (0 = "not one of the input events") and the log of the comparison       *)
(* function's calls as pairs of input positions (0 = not an input event).  *)
(***************************************************************************)
EXTENDS Lattice, TLC

Nodes(c) == 1..c.n
Edge(c, i, j) == \E k \in DOMAIN c.e : c.e[k] = <<i, j>> \/ c.e[k] = <<j, i>>

\* neighbour sets, computed once per case.  TLCEval forces the value: TLC otherwise keeps [i \in S |-> e] as a
\* lambda and re-evaluates e at every application (exponential in the recursive definitions below)
NbF(c) == TLCEval([i \in 1..c.n |->
             {c.e[k][2] : k \in {k \in DOMAIN c.e : c.e[k][1] = i}} \cup
             {c.e[k][1] : k \in {k \in DOMAIN c.e : c.e[k][2] = i}}])

\* reachability: iterate S := S \cup N(S) at most n times (a chain has at most n - 1 links)
RECURSIVE Grow(_, _, _)
Grow(nb, S, k) ==
    IF k = 0 THEN S
    ELSE LET T == S \cup UNION {nb[x] : x \in S}
         IN  IF T = S THEN S ELSE Grow(nb, T, k - 1)
CompF(c) == LET nb == NbF(c) IN TLCEval([i \in 1..c.n |-> Grow(nb, {i}, c.n)])
Connected(c, i, j) == j \in CompF(c)[i]

(***************************************************************************)
(* A second, independent formulation (Warshall), used only to cross-check  *)
(* the closure above on the enumerated universe.                           *)
(***************************************************************************)
RECURSIVE WF(_, _)
WF(c, k) ==
    IF k = 0 THEN TLCEval([p \in Nodes(c) \X Nodes(c) |-> p[1] = p[2] \/ Edge(c, p[1], p[2])])
    ELSE LET prev == WF(c, k - 1)
         IN  TLCEval([p \in Nodes(c) \X Nodes(c) |-> prev[p] \/ (prev[<<p[1], k>>] /\ prev[<<k, p[2]>>])])

(* ---- laws of Req (checked by TLC on every enumerated graph) ---- *)
LawEquivalence(c) ==
    LET cf == CompF(c) IN
    /\ \A i \in Nodes(c) : i \in cf[i]
    /\ \A i, j \in Nodes(c) : j \in cf[i] => i \in cf[j]
    /\ \A i, j, k \in Nodes(c) : (j \in cf[i] /\ k \in cf[j]) => k \in cf[i]
LawContainsEdges(c) == LET cf == CompF(c) IN \A k \in DOMAIN c.e : c.e[k][2] \in cf[c.e[k][1]]
\* least: every labelling that never separates an edge never separates connected nodes
LawLeast(c) ==
    c.n <= 4 => LET cf == CompF(c) IN
                \A f \in [Nodes(c) -> Nodes(c)] :
                   (\A k \in DOMAIN c.e : f[c.e[k][1]] = f[c.e[k][2]])
                   => \A i, j \in Nodes(c) : j \in cf[i] => f[i] = f[j]
LawWarshall(c) == LET cf == CompF(c)  w == WF(c, c.n) IN \A i, j \in Nodes(c) : (j \in cf[i]) <=> w[<<i, j>>]
LawNoEdgeNoLink(c) == Len(c.e) = 0 => LET cf == CompF(c) IN \A i, j \in Nodes(c) : (j \in cf[i]) <=> i = j

(***************************************************************************)
(* Req, clause by clause.  seqs: the returned sequences as input positions;*)
(* calls: the logged comparison_fn arguments.                              *)
(***************************************************************************)
ReqClauses == {"OnlyInputEvents", "EveryEventOnce", "NoEmptySequence", "OrderKept",
               "SameSequenceIffConnected", "EmptyGivesNone", "CallsOnDistinctInputs"}
Clauses == {"Returns"} \cup ReqClauses

InSeq(sq, i) == \E k \in DOMAIN sq : sq[k] = i
ClauseHolds(cl, c, seqs, calls) ==
    CASE cl = "OnlyInputEvents" -> \A s \in DOMAIN seqs : \A k \in DOMAIN seqs[s] : seqs[s][k] \in Nodes(c)
      [] cl = "EveryEventOnce"  -> \A i \in Nodes(c) :
                                     Cardinality({p \in UNION {{<<s, k>> : k \in DOMAIN seqs[s]} : s \in DOMAIN seqs} :
                                                    seqs[p[1]][p[2]] = i}) = 1
      [] cl = "NoEmptySequence" -> \A s \in DOMAIN seqs : Len(seqs[s]) > 0
      [] cl = "OrderKept"       -> \A s \in DOMAIN seqs : \A k, l \in DOMAIN seqs[s] : k < l => seqs[s][k] < seqs[s][l]
      [] cl = "SameSequenceIffConnected" ->
             LET cf == CompF(c) IN
             \A i, j \in Nodes(c) : (\E s \in DOMAIN seqs : InSeq(seqs[s], i) /\ InSeq(seqs[s], j)) <=> (j \in cf[i])
      [] cl = "EmptyGivesNone"  -> c.n = 0 => Len(seqs) = 0
      [] cl = "CallsOnDistinctInputs" ->
             \A k \in DOMAIN calls : calls[k][1] \in Nodes(c) /\ calls[k][2] \in Nodes(c) /\ calls[k][1] # calls[k][2]

(***************************************************************************)
(* Acceptance of an observation: out.runs is a sequence of                 *)
(*   [raised: string ("" = returned), seqs, calls]                          *)
(* one per way the binder dressed the same graph as sound events.          *)
(***************************************************************************)
Holds(cl, o) ==
    \A r \in DOMAIN o.out.runs :
       LET run == o.out.runs[r] IN
       IF cl = "Returns" THEN run.raised = ""
       ELSE run.raised = "" => ClauseHolds(cl, o.in, run.seqs, run.calls)
=============================================================================
