\* termination as a temporal property (liveness under weak fairness) on a strided sub-universe; the full universes prove it by
\* NoStuck + WalkBounded + the step count (StepsExact), which are safety properties
SPECIFICATION Spec
CONSTANTS
  RootNames = {1, 2, 4}
  Stride = 5
  AncestorFollow = FALSE
  MaxWalkDepth = 2
INVARIANT ImplRefinesReq
INVARIANT NoStuck
PROPERTY Terminates
CHECK_DEADLOCK FALSE
