------------------------------ MODULE AudioAxis ------------------------------
(***************************************************************************)
(* C15 -- audio-derived arrays are sample-accurate and their axes tell the *)
(* truth (load_recording, load_clip, resample, compute_spectrogram).       *)
(*                                                                         *)
(* Pure module: integer sample arithmetic (Req), the integer form of the   *)
(* axis clauses used on the Impl machine (MC_AudioAxis), and the           *)
(* acceptance of recorded observations (Holds) on limb numbers.            *)
(*                                                                         *)
(* A case (o.in) is the record                                             *)
(*   [kind   : "rec" | "clip" | "resamp" | "spec",                          *)
(*    fr, te : file samplerate, time expansion <<p, q>>  (recording rate    *)
(*             Sr = fr*p/q, an integer by construction of the generators),  *)
(*    ch, N  : channels, frames; file frame k (0-based), channel j (1-based)*)
(*             holds the value k*ch + j  (never 0, so zero fill is visible),*)
(*    tden   : all durations of the case are integers in units of 1/tden s, *)
(*    s, e   : clip start / end                     (rec: unused),          *)
(*    src    : "rec" | "clip"  source array of resamp / spec,              *)
(*    w, h   : window / hop                         (spec),                 *)
(*    target : target samplerate                    (resamp),               *)
(*    pre    : rate of a preliminary resample of the same source (0: none), *)
(*    hist, N2, base2 : history of the loads, see FileRow,                  *)
(*    decl   : samplerate declared on a hand-built Recording (0: from_file), *)
(*    padded, bnd : compute_spectrogram options: padded 1 | 0; boundary      *)
(*             "default" (not passed) | "zeros" | "even" | "none" (None),    *)
(*    ops    : kind "chain": operations applied one after the other to the  *)
(*             source array, <<name, a, b>> with name = "resamp" (a = target *)
(*             rate), "filter" (a, b = low / high cutoff, 0 = none), "spec"  *)
(*             (a, b = window, hop in 1/tden s), "order" (dims rotated left  *)
(*             by a positions, so that time is the first / middle / last     *)
(*             dimension); the axes of the FINAL array are judged by the     *)
(*             Time* / Freq* clauses, its start against the source's start]  *)
(***************************************************************************)
EXTENDS Lattice

Pow2Set == {1, 2, 4, 8, 16, 32, 64, 128, 256, 512, 1024, 2048, 4096, 8192, 16384, 32768,
            65536, 131072, 262144, 524288, 1048576}
Pow2(x) == x \in Pow2Set

\* the recording's samplerate: what Recording.from_file derives from the header (c.decl = 0), or the value declared on a
\* Recording built by hand (c.decl > 0), which need not equal header rate x time expansion (44100 Hz x 8 stored with a
\* 5512 Hz header).  Every clause speaks about this rate, never about the header's.
Sr(c)      == IF c.decl > 0 THEN c.decl ELSE (c.fr * c.te[1]) \div c.te[2]
ExactIn(c) == Pow2(c.tden)     \* the times passed are dyadic: start*sr and (end-start)*sr are exact in doubles
ExactCo(c) == Pow2(Sr(c))      \* sample instants k/sr are exact doubles
Exact(c)   == ExactIn(c) /\ ExactCo(c)

\* the file: frame k (0-based) as a row of ch values, zero past the end of the file
\* (a file of N frames whose values start at base: frame k, channel j holds base + k*ch + j)
FileRow(k, ch, N, base) == [j \in 1..ch |-> IF k < N THEN base + k * ch + j ELSE 0]
(***************************************************************************)
(* History of a case: c.hist = "none" (one load), or a first load followed *)
(* by "mutate" (the caller edits the returned arrays in place), "rewrite"  *)
(* (the file at the same path is rewritten with other frame values) or     *)
(* "rewrite_len" (... and another length), followed by a SECOND load, which*)
(* is the one observed and judged.  A load must reflect the file as it is  *)
(* at the time of the call: c.N2 frames, values from c.base2 (for "none"   *)
(* and "mutate" these are c.N and 0).                                      *)
(***************************************************************************)

\* n = floor(num/den), stated declaratively (den > 0)
IsFloor(n, num, den) == n * den <= num /\ num < (n + 1) * den

(***************************************************************************)
(* Boundary guard (DESIGN 2.5).  x = num/den is the nominal value of a     *)
(* product such as start*samplerate.  On exact inputs it is the value of   *)
(* the doubles actually passed and floor(x) is the only answer.  Otherwise *)
(* the doubles differ from the nominal value by rounding; when the nominal *)
(* value is an integer the binder reports sd = the signed distance of the  *)
(* exact product of the doubles passed from that integer, in units of 2^-30*)
(* relative (0 = exactly on it, +-1 = within 2^-30, saturating at 2^30):   *)
(* within 2^-30 but not on it, both neighbours are accepted.               *)
(***************************************************************************)
AccInts(num, den, sd, exact) ==
    LET q == num \div den IN
    IF exact \/ num % den # 0 \/ sd = 0 THEN {q}
    ELSE IF Abs(sd) <= 1 THEN {q - 1, q}
    ELSE IF sd > 0 THEN {q} ELSE {q - 1}

OffNum(c) == c.s * Sr(c)                  \* start * samplerate = OffNum / tden
LenNum(c) == (c.e - c.s) * Sr(c)          \* duration * samplerate = LenNum / tden

(***************************************************************************)
(* Integer form of the clauses (used on the Impl machine).                 *)
(* d = coordinates relative to the first one, in some integer unit; step   *)
(* in the same unit.                                                       *)
(***************************************************************************)
AxisIncreasingI(d) == \A i \in 2..Len(d) : d[i - 1] < d[i]
AxisWithinI(d, step) == Len(d) > 0 => /\ step > 0
                                      /\ \A i \in 1..Len(d) : Abs(d[i] - (i - 1) * step) < step
\* n coordinates 0, 1, .. n-1 against an advertised step of p/q:  |i - i*p/q| < p/q  <=>  i*|q - p| < p
AxisWithinRatI(n, p, q) == p > 0 /\ q > 0 /\ \A i \in 0..(n - 1) : i * Abs(q - p) < p
AxisReqI(d, step) == AxisIncreasingI(d) /\ AxisWithinI(d, step)

\* load_clip: n frames, first coordinate t0 (in samples), rows, coordinates d relative to t0 (in samples)
ClipReqI(c, n, t0, rows, d) ==
    /\ IsFloor(n, LenNum(c), c.tden)
    /\ Len(rows) = n /\ Len(d) = n
    /\ \E off \in 0..(OffNum(c) \div c.tden + 1) :
          /\ IsFloor(off, OffNum(c), c.tden)
          /\ t0 = off
          /\ \A i \in 1..n : rows[i] = FileRow(off + i - 1, c.ch, c.N2, c.base2) /\ d[i] = i - 1

(***************************************************************************)
(* Where an array must be produced at all.  load_recording / load_clip:    *)
(* always ("for every clip").  resample / compute_spectrogram: only where  *)
(* the request is realisable and float rounding cannot matter: at least    *)
(* one output sample; hop >= 1 sample, window >= 1 sample (the hop may be   *)
(* longer than the window), window <= source length, on exact units.       *)
(***************************************************************************)
MustProduceN(c, srcOk, srcN) ==
    CASE c.kind \in {"rec", "clip", "long", "longclip"} -> TRUE
      [] c.kind = "chain"  -> FALSE          \* chains: only the axes of the final array are judged
      [] c.kind = "resamp" -> srcOk /\ srcN >= 2 /\ (srcN * c.target >= 2 * Sr(c) \/ (ExactCo(c) /\ srcN * c.target >= Sr(c)))
      [] c.kind = "spec"   -> /\ srcOk /\ Exact(c)
                              /\ c.h * Sr(c) >= c.tden /\ c.w * Sr(c) >= c.tden
                              /\ c.bnd # "even"            \* (scipy refuses an even extension longer than the signal)
                              /\ (c.w * Sr(c)) \div c.tden <= srcN

(***************************************************************************)
(* The integer arithmetic of the implementation (resample,                 *)
(* compute_spectrogram + scipy.signal.stft), shared by the Impl machine    *)
(* (MC_AudioAxis) and by the Drift clauses below.  srcN = frames of the    *)
(* source array.                                                           *)
(***************************************************************************)
ImplNum(c, srcN) == (srcN * c.target) \div Sr(c)                 \* int(times.size * target_samplerate * step)
ImplNp0(c)       == (c.w * Sr(c)) \div c.tden                    \* int(window_size * samplerate)
\* int((window_size - hop_size) * samplerate): int() truncates towards zero, so a hop longer than the window gives
\* noverlap = -floor((h - w) * sr) <= 0; scipy then leaves gaps: frames are nperseg - noverlap samples apart
ImplNov(c)       == IF c.w >= c.h THEN ((c.w - c.h) * Sr(c)) \div c.tden ELSE 0 - (((c.h - c.w) * Sr(c)) \div c.tden)
ImplNp(c, srcN)  == Min(ImplNp0(c), srcN)                        \* scipy _triage_segments: nperseg <= input length
ImplSpecRaises(c, srcN) == ImplNp0(c) < 1 \/ ImplNov(c) >= ImplNp(c, srcN)
\* extension by nperseg/2 on both sides (unless boundary is None), zero padding to a whole number of hops (if padded),
\* one frame per hop
ImplFramesB(c, srcN, noext, padded) ==
    LET np  == ImplNp(c, srcN)
        hop == np - ImplNov(c)
        L0  == srcN + (IF noext THEN 0 ELSE 2 * (np \div 2))
        L   == L0 + (IF padded THEN ((0 - (L0 - np)) % hop) % np ELSE 0)
    IN  (L - np) \div hop + 1
ImplFrames(c, srcN) == ImplFramesB(c, srcN, c.bnd = "none", c.padded = 1)
ImplBins(c, srcN) == ImplNp(c, srcN) \div 2 + 1                  \* rfftfreq(nperseg)

(***************************************************************************)
(* Limb numbers (doubles observed from the implementation, see Lattice).   *)
(***************************************************************************)
LMagLt(a, b) == LMagLe(a, b) /\ ~LMagEq(a, b)
\* multiply the magnitude by q; samplerates above 32767 are multiples of 100 (44100, 48000, 96000 ...)
LMul(v, q) == IF q <= 32767 THEN LMulMag(v, q) ELSE LMulMag(LMulMag(v, q \div 100), 100)
\* v = p/q exactly (p >= 0)
LExactRat(v, p, q) ==
    IF p = 0 THEN LIsZero(v)
    ELSE v[1] = 1 /\ LET m == LMul(v, q) IN m[2] = p /\ m[3] = 0 /\ m[4] = 0 /\ m[5] = 0 /\ m[6] = 0 /\ m[7] = 1
\* |q*v - p| < 2^-32, i.e. v within 2.4e-10 of p, in units of 1/q (any sign of v when p = 0)
LNearRat(v, p, q) ==
    /\ LFinite(v)
    /\ LET m == LMul(v, q) IN
       IF p = 0 THEN v[1] = 0 \/ (m[2] = 0 /\ m[3] = 0 /\ m[4] = 0)
       ELSE v[1] = 1 /\ \/ m[2] = p /\ m[3] = 0 /\ m[4] = 0
                        \/ m[2] = p - 1 /\ m[3] = B16 - 1 /\ m[4] = B16 - 1
\* "time v is p/q": exact on exact units, within 2.4e-10 of a sample otherwise
TimeIs(v, p, q, exact) == IF exact THEN LExactRat(v, p, q) ELSE LNearRat(v, p, q)

(***************************************************************************)
(* Long arrays (kinds "long" = load_recording, "longclip" = load_clip of a *)
(* file of more than 2^23 frames, one channel, frame k holding             *)
(* k % 32749 + 1).  Their axes do not fit the limb encoding coordinate by  *)
(* coordinate; the binder ships reductions r.red instead (all generic):    *)
(*   dtype of the coordinate, n, nonincr = number of consecutive pairs     *)
(*   with c[i+1] <= c[i], c0 / last / step as limbs, maxdev = max_i        *)
(*   |c_i - (c_0 + i*step)| (exact at the maximising index), and samples   *)
(*   <<i, c_i, value of frame i>> at a handful of indices.                 *)
(* The axis clauses are stated on the reductions.  Doubles near 30 s cannot*)
(* hold a sample instant to 2^-32 sample, and np.arange accumulates one    *)
(* rounding of the step per index, so sampled instants of long arrays are  *)
(* judged to 2^-8 sample (float32 coordinates are off by tenths there).    *)
(***************************************************************************)
LongKinds == {"long", "longclip"}
LongVal(k, N) == IF k < N THEN (k % 32749) + 1 ELSE 0
\* |v*q1*q2 - p| < 2^-8   (rate = q1*q2 = file rate * time expansion)
LCoarseRat(v, p, q1, q2) ==
    /\ LFinite(v)
    /\ LET m == LMulMag(LMulMag(v, q1), q2) IN
       IF p = 0 THEN v[1] = 0 \/ (m[2] = 0 /\ m[3] < 256)
       ELSE v[1] = 1 /\ \/ m[2] = p /\ m[3] < 256
                        \/ m[2] = p - 1 /\ m[3] >= B16 - 256
LongSamplesAt(c, red, off) ==
    \A x \in DOMAIN red.samples :
       LCoarseRat(red.samples[x][2], off + red.samples[x][1], c.fr, c.te[1])
LongWithin(red) ==
    red.n > 0 => /\ ~IsNone(red.step) /\ Some(red.step)[1] = 1
                 /\ red.maxdev[1] \in {0, 1} /\ LMagLt(red.maxdev, Some(red.step))

(***************************************************************************)
(* An observed axis is the record                                          *)
(*   [n : number of coordinates, c0 : first coordinate (limbs),            *)
(*    dev0 : c0 minus the first coordinate of the source array (limbs),    *)
(*    d : <<c_i - c_0>> exact differences (limbs), step : <<>> | <<limbs>>] *)
(***************************************************************************)
AxisIncreasing(a) ==
    \A i \in 2..a.n : a.d[i][1] = 1 /\ a.d[i - 1][1] \in {0, 1} /\ LMagLt(a.d[i - 1], a.d[i])
\* |c_i - (c_0 + k*step)| < step   <=>   (k-1)*step < d < (k+1)*step
Within(d, k, st) ==
    IF k = 0 THEN LIsZero(d)
    ELSE d[1] = 1 /\ LMagLt(LMulMag(st, k - 1), d) /\ LMagLt(d, LMulMag(st, k + 1))
AxisWithin(a) ==
    a.n > 0 => /\ ~IsNone(a.step) /\ Some(a.step)[1] = 1          \* a positive step is advertised
               /\ \A i \in 1..a.n : Within(a.d[i], i - 1, Some(a.step))
\* first coordinate = source start
StartsAtZero(a)        == a.n > 0 => LIsZero(a.c0)
StartsAtSource(a, c)   == a.n > 0 => IF Exact(c) THEN LIsZero(a.dev0) ELSE LNearRat(a.dev0, 0, Sr(c))

(***************************************************************************)
(* Acceptance of one observation o = [in |-> case, out |-> r]:             *)
(*  r.raised  "" or the exception class ("source:X" if the source array of *)
(*            resamp / spec could not be loaded),                          *)
(*  r.n       frames of the result, r.rows its frames as rows of integers, *)
(*  r.rec_rows  the rows of load_recording of the same file (clip),        *)
(*  r.bs, r.bd  boundary flags of start*sr and (end-start)*sr (see AccInts),*)
(*  r.fo, r.fn  floor of the same two products as rounded in double         *)
(*            arithmetic (only used by Drift/ClipFloatFloor),              *)
(*  r.src_ok, r.src_n  source array loaded / its length (resamp, spec),    *)
(*  r.axes    <<time>> or <<time, frequency>> (spec); <<>> when raised.    *)
(*  r.reobs   re-observations, made after the last call of the case, of    *)
(*            every array produced earlier in it: axis records with an     *)
(*            extra field role = "source" (the array loaded by             *)
(*            load_recording / load_clip that resample / compute_spectrogram*)
(*            were applied to) or "derived" (the result of the preliminary *)
(*            resample(source, c.pre) of a derived-twice case).            *)
(***************************************************************************)
AccOff(o) == AccInts(OffNum(o.in), o.in.tden, o.out.bs, ExactIn(o.in))
AccLen(o) == AccInts(LenNum(o.in), o.in.tden, o.out.bd, ExactIn(o.in))

ClipFramesAt(o, off) ==
    \A i \in 1..Len(o.out.rows) : o.out.rows[i] = FileRow(off + i - 1, o.in.ch, o.in.N2, o.in.base2)
ClipTimesAt(o, off) ==
    LET a == o.out.axes[1]  sr == Sr(o.in)  ex == ExactCo(o.in) IN
    /\ a.n = Len(o.out.rows)
    /\ a.n > 0 => TimeIs(a.c0, off, sr, ex)
    /\ \A i \in 1..a.n : TimeIs(a.d[i], i - 1, sr, ex)
ClipSameAt(o, off) ==
    \A i \in 1..Len(o.out.rows) : off + i <= Len(o.out.rec_rows) => o.out.rows[i] = o.out.rec_rows[off + i]

\* "Drift/..." clauses compare the code with the Impl transcription on exact units; the engine reports them as
\* MODEL-DRIFT (the spec's Impl must be re-transcribed), never as a violation of the property
\* an array that satisfied the axis clauses when it was produced must still satisfy them after later library calls
\* SourceUntouched/*: the loaded array the operations were applied to; FirstResult/*: the result of the preliminary
\* resample of a derived-twice case, looked at after the second operation
SourceClauses == {"SourceUntouched/TimeIncreasing", "SourceUntouched/TimeStart", "SourceUntouched/TimeWithinStep",
                  "FirstResult/TimeIncreasing", "FirstResult/TimeStart", "FirstResult/TimeWithinStep"}
Reobs(r, role) == {x \in DOMAIN r.reobs : r.reobs[x].role = role}
\* Drift/ClipFloatFloor: the offset / length are the floors of the products as the implementation rounds them in double
\* arithmetic (r.fo, r.fn).  Inside the boundary guard the property accepts both neighbours, so another rounding of the
\* same real formula is drift, not a violation.
DriftClauses == {"Drift/SpecShape", "Drift/ResampleNum", "Drift/ClipFloatFloor"}
Clauses == {"Produced", "RecFrames",
            "ClipLength", "ClipFrames", "ClipTimes", "ClipSameAsRecording", "ClipConsistent", "Drift/RecTimes",
            "TimeIncreasing", "TimeStart", "TimeWithinStep",
            "FreqIncreasing", "FreqStart", "FreqWithinStep"} \cup SourceClauses \cup DriftClauses

Holds(cl, o) ==
    LET c == o.in  r == o.out
        ok == r.raised = ""
        isclip == c.kind = "clip" /\ ok
        hasf == ok /\ Len(r.axes) >= 2
        long == c.kind \in LongKinds
        lclip == c.kind = "longclip" /\ ok
        gen == ok /\ ~long                     \* arrays whose axes were encoded coordinate by coordinate
    IN
    CASE cl = "Produced"   -> MustProduceN(c, r.src_ok, r.src_n) => ok
      \* load_recording returns the file's frames (implied: the clip [0, N/sr] is the file's frames and equals the
      \* same frames of load_recording); bites in the history cases, where the file or an earlier result changed
      [] cl = "RecFrames"  -> /\ (c.kind = "rec" /\ ok) =>
                                    /\ Len(r.rows) = c.N2
                                    /\ \A i \in 1..Len(r.rows) : r.rows[i] = FileRow(i - 1, c.ch, c.N2, c.base2)
                              /\ (c.kind = "long" /\ ok) =>
                                    /\ r.n = c.N /\ r.red.n = r.n
                                    /\ \A x \in DOMAIN r.red.samples : r.red.samples[x][3] = LongVal(r.red.samples[x][1], c.N)
      [] cl = "ClipLength" -> /\ isclip => r.n \in AccLen(o) /\ Len(r.rows) = r.n
                              /\ lclip => r.n \in AccLen(o) /\ r.red.n = r.n
      [] cl = "ClipFrames" -> /\ isclip => \E off \in AccOff(o) : ClipFramesAt(o, off)
                              /\ lclip => \E off \in AccOff(o) : \A x \in DOMAIN r.red.samples :
                                              r.red.samples[x][3] = LongVal(off + r.red.samples[x][1], c.N)
      [] cl = "ClipTimes"  -> /\ isclip => \E off \in AccOff(o) : ClipTimesAt(o, off)
                              /\ lclip => \E off \in AccOff(o) : LongSamplesAt(c, r.red, off)
      \* the clip's frame i is "the same frame of load_recording" and carries (off+i)/sr, so load_recording's frame k
      \* carries k/sr; judged on the sampled instants of long recordings only (2^-8 sample)
      [] cl = "Drift/RecTimes"   -> (c.kind = "long" /\ ok) =>
                                 LongSamplesAt(c, r.red, 0)
      [] cl = "ClipSameAsRecording" -> isclip => \E off \in AccOff(o) : ClipSameAt(o, off)
      [] cl = "ClipConsistent" -> isclip => \E off \in AccOff(o) : ClipFramesAt(o, off) /\ ClipTimesAt(o, off) /\ ClipSameAt(o, off)
      [] cl = "TimeIncreasing" -> /\ gen => AxisIncreasing(r.axes[1])
                                  /\ (long /\ ok) => r.red.nonincr = 0
      [] cl = "TimeWithinStep" -> /\ gen => AxisWithin(r.axes[1])
                                  /\ (long /\ ok) => LongWithin(r.red)
      [] cl = "TimeStart" -> /\ (c.kind = "long" /\ ok) => (r.red.n > 0 => LIsZero(r.red.c0))
                             /\ lclip => (r.red.n > 0 => \E off \in AccOff(o) : LCoarseRat(r.red.c0, off, c.fr, c.te[1]))
                             /\ gen => (IF c.kind = "rec" THEN StartsAtZero(r.axes[1])
                                    ELSE IF c.kind = "clip"
                                         THEN r.axes[1].n > 0 => \E off \in AccOff(o) : TimeIs(r.axes[1].c0, off, Sr(c), ExactCo(c))
                                         \* boundary=None: by scipy's definition the first frame is centred half a window into
                                         \* the signal; the caller asked for it, so "starts at the source's start" is not demanded
                                         ELSE (c.kind = "spec" /\ c.bnd = "none") \/ StartsAtSource(r.axes[1], c))
      [] cl = "FreqIncreasing" -> hasf => AxisIncreasing(r.axes[2])
      [] cl = "FreqWithinStep" -> hasf => AxisWithin(r.axes[2])
      [] cl = "FreqStart"      -> hasf => StartsAtZero(r.axes[2])
      [] cl = "SourceUntouched/TimeIncreasing" -> \A x \in Reobs(r, "source") : AxisIncreasing(r.reobs[x])
      [] cl = "SourceUntouched/TimeWithinStep" -> \A x \in Reobs(r, "source") : AxisWithin(r.reobs[x])
      [] cl = "SourceUntouched/TimeStart" ->
            \A x \in Reobs(r, "source") :
               LET a == r.reobs[x] IN
               IF c.src = "rec" THEN StartsAtZero(a)
               ELSE a.n > 0 => \E off \in AccOff(o) : TimeIs(a.c0, off, Sr(c), ExactCo(c))
      [] cl = "FirstResult/TimeIncreasing" -> \A x \in Reobs(r, "derived") : AxisIncreasing(r.reobs[x])
      [] cl = "FirstResult/TimeWithinStep" -> \A x \in Reobs(r, "derived") : AxisWithin(r.reobs[x])
      [] cl = "FirstResult/TimeStart"      -> \A x \in Reobs(r, "derived") : StartsAtSource(r.reobs[x], c)
      [] cl = "Drift/SpecShape" ->
            (c.kind = "spec" /\ Exact(c) /\ r.src_ok /\ r.src_n >= 1 /\ c.bnd # "even") =>
               IF ImplSpecRaises(c, r.src_n) THEN ~ok
               ELSE ok /\ Len(r.axes) = 2 /\ r.axes[1].n = ImplFrames(c, r.src_n) /\ r.axes[2].n = ImplBins(c, r.src_n)
      [] cl = "Drift/ClipFloatFloor" ->
            /\ isclip => r.n = r.fn /\ ClipFramesAt(o, r.fo) /\ ClipTimesAt(o, r.fo)
            /\ lclip => /\ r.n = r.fn
                        /\ LongSamplesAt(c, r.red, r.fo)
                        /\ \A x \in DOMAIN r.red.samples : r.red.samples[x][3] = LongVal(r.fo + r.red.samples[x][1], c.N)
      [] cl = "Drift/ResampleNum" ->
            (c.kind = "resamp" /\ ExactCo(c) /\ r.src_ok /\ r.src_n >= 2) =>
               IF ImplNum(c, r.src_n) < 1 THEN ~ok ELSE ok /\ r.n = ImplNum(c, r.src_n)
=============================================================================
