------------------------------ MODULE Affinity ------------------------------
(***************************************************************************)
(* C06 -- compute_affinity is a symmetric intersection-over-union in [0,1]. *)
(*                                                                         *)
(* Req, on an integer lattice (time ticks, frequency ticks of 1000 Hz):    *)
(*   - closed forms as rationals <<num, den>>: IoU of (buffered) time      *)
(*     extents when either geometry is time-only, area IoU of two boxes;   *)
(*   - acceptance clauses over one observation = one *session* of calls    *)
(*     on a pair (g1, g2) with buffers (tb, fb):                           *)
(*        v12 = aff(g1,g2)  v21 = aff(g2,g1)  v11 = aff(g1,g1)  v22       *)
(*        sh[k].v = aff(g1 + ds[k], g2 + ds[k])      (ds[1] = 0)           *)
(*     repeated at several exact (dyadic) time units (out.runs).           *)
(*                                                                         *)
(* An observed double v travels as [l |-> limb number, h |-> float.hex(),  *)
(* r |-> "" | exception name].  Observed time extents (bounds reported by   *)
(* the public compute_bounds, raw and after the public buffer_geometry) are *)
(* limb numbers in ticks: e = [raw |-> <<lo, hi>>, buf |-> <<lo, hi>>].     *)
(***************************************************************************)
EXTENDS GeomModel

FMAXT == 5000                       \* MAX_FREQUENCY in ticks of 1000 Hz

TimeKinds == {"TimeStamp", "TimeInterval"}
LineKinds == {"LineString", "MultiLineString"}
AreaKinds == {"BoundingBox", "Polygon", "MultiPolygon"}       \* have an area of their own: never buffered
\* zero- and one-dimensional kinds in the time-frequency plane: buffered so that they acquire an area
GrownKinds == {"TimeStamp", "Point", "MultiPoint", "LineString", "MultiLineString"}
\* TimeInterval is one-dimensional but only ever used through its time extent; the statement does not
\* say whether its extent is buffered: both readings are accepted (reading r = 0: as is, r = 1: buffered)
Readings == {0, 1}

(* ---------------- closed forms on the lattice ---------------- *)
Seg2Axis(s) == Len(s) = 2 /\ (s[1][1] = s[2][1] \/ s[1][2] = s[2][2])
\* the buffered time extent is known in closed form (round caps of an axis-parallel segment and circles
\* reach exactly +- buffer; oblique caps and mitre joins do not: for those the clause is relational)
ClosedExtent(g) ==
    CASE g.type = "LineString"      -> Seg2Axis(g.coordinates)
      [] g.type = "MultiLineString" -> \A i \in DOMAIN g.coordinates : Seg2Axis(g.coordinates[i])
      [] OTHER -> TRUE
Grow(x, tb) == <<Max(x[1] - tb, 0), x[2] + tb>>
PExt(g, tb, r) ==
    LET x == TimeExtent(g, FMAXT) IN
    CASE g.type \in AreaKinds    -> x
      [] g.type = "TimeInterval" -> IF r = 1 THEN Grow(x, tb) ELSE x
      [] OTHER                   -> Grow(x, tb)
Inter1(x, y) == Max(0, Min(x[2], y[2]) - Max(x[1], y[1]))
\* <<intersection, union>> of two intervals; union = 0 means the ratio is undefined
TimeIoU(x, y) == LET i == Inter1(x, y) IN <<i, (x[2] - x[1]) + (y[2] - y[1]) - i>>
BoxArea(b) == (b[3] - b[1]) * (b[4] - b[2])
BoxIoU(a, b) ==
    LET i == Inter1(<<a[1], a[3]>>, <<b[1], b[3]>>) * Inter1(<<a[2], a[4]>>, <<b[2], b[4]>>)
    IN  <<i, BoxArea(a) + BoxArea(b) - i>>

(* Rectilinear regions: a BoundingBox, or a Polygon / MultiPolygon all of whose rings (shells and holes) are       *)
(* axis-parallel rectangles, holes inside their shell, parts disjoint.  The region's indicator is the sum of its     *)
(* shells minus the sum of its holes, so areas and intersection areas are sums of products of interval overlaps:     *)
(* the exact area intersection-over-union the property's title promises, interior rings included.                    *)
RingBox(r) == LET T == {r[i][1] : i \in DOMAIN r}  F == {r[i][2] : i \in DOMAIN r}
              IN  <<SetMin(T), SetMin(F), SetMax(T), SetMax(F)>>
IsRectRing(r) == LET b == RingBox(r) IN
    /\ Len(r) = 5 /\ r[1] = r[5]
    /\ {r[i] : i \in 1..4} = {<<b[1], b[2]>>, <<b[3], b[2]>>, <<b[3], b[4]>>, <<b[1], b[4]>>}
    /\ \A i \in 1..4 : r[i][1] = r[i + 1][1] \/ r[i][2] = r[i + 1][2]
PolyRings(g) == CASE g.type = "Polygon"      -> <<g.coordinates>>
                  [] g.type = "MultiPolygon" -> g.coordinates
                  [] OTHER                   -> <<>>
Rectilinear(g) == \/ g.type = "BoundingBox"
                  \/ /\ g.type \in {"Polygon", "MultiPolygon"}
                     /\ \A p \in DOMAIN PolyRings(g) : \A k \in DOMAIN PolyRings(g)[p] : IsRectRing(PolyRings(g)[p][k])
RECURSIVE Flat(_)
Flat(ss) == IF ss = <<>> THEN <<>> ELSE Head(ss) \o Flat(Tail(ss))
\* shells and holes as sequences of boxes <<t0, f0, t1, f1>>
Shells(g) == IF g.type = "BoundingBox" THEN <<g.coordinates>>
             ELSE [p \in DOMAIN PolyRings(g) |-> RingBox(PolyRings(g)[p][1])]
Holes(g)  == IF g.type = "BoundingBox" THEN <<>>
             ELSE Flat([p \in DOMAIN PolyRings(g) |-> [k \in 1..(Len(PolyRings(g)[p]) - 1) |-> RingBox(PolyRings(g)[p][k + 1])]])
BoxInter(a, b) == Inter1(<<a[1], a[3]>>, <<b[1], b[3]>>) * Inter1(<<a[2], a[4]>>, <<b[2], b[4]>>)
RECURSIVE SumSeq(_)
SumSeq(s) == IF s = <<>> THEN 0 ELSE Head(s) + SumSeq(Tail(s))
CrossSum(xs, ys) == SumSeq(Flat([i \in DOMAIN xs |-> [j \in DOMAIN ys |-> BoxInter(xs[i], ys[j])]]))
RectArea(g) == SumSeq([i \in DOMAIN Shells(g) |-> BoxArea(Shells(g)[i])]) - SumSeq([i \in DOMAIN Holes(g) |-> BoxArea(Holes(g)[i])])
RectInter(a, b) == CrossSum(Shells(a), Shells(b)) - CrossSum(Shells(a), Holes(b))
                   - CrossSum(Holes(a), Shells(b)) + CrossSum(Holes(a), Holes(b))
RectIoU(a, b) == LET i == RectInter(a, b) IN <<i, RectArea(a) + RectArea(b) - i>>
RectPair(ga, gb) == ga.type \in AreaKinds /\ gb.type \in AreaKinds /\ Rectilinear(ga) /\ Rectilinear(gb)

(* Lines whose buffered time extent is not a closed form (oblique end caps, bends): it is still bracketed.  The round *)
(* end caps are inscribed 32-gons: in the time direction they reach between b(1 - 1/128) and b beyond the first / last  *)
(* vertex (the shortfall is at most 1 - cos(pi/32) = 0.48 %).  A mitred bend of at most 90 degrees (in the buffer's own  *)
(* units: time / tb, frequency / fb) sticks out at most sqrt(2) b from its vertex; when every bend is such and lies at  *)
(* least tb inside the line's time extent, nothing reaches beyond the end caps.  Extents in units of 1/128 tick:        *)
LineParts(g) == IF g.type = "LineString" THEN <<g.coordinates>> ELSE g.coordinates
BendsOk(g, tb, fb) ==
    LET x == TimeExtent(g, FMAXT) IN
    \A p \in DOMAIN LineParts(g) : LET s == LineParts(g)[p] IN
        \A k \in 2..(Len(s) - 1) :
            /\ (s[k][1] - s[k - 1][1]) * (s[k + 1][1] - s[k][1]) * fb * fb
                  + (s[k][2] - s[k - 1][2]) * (s[k + 1][2] - s[k][2]) * tb * tb >= 0
            /\ x[1] + tb <= s[k][1] /\ s[k][1] <= x[2] - tb
Bracketed(g, tb, fb) == g.type \in LineKinds /\ ~ClosedExtent(g) /\ tb > 0 /\ fb > 0 /\ BendsOk(g, tb, fb)
\* <<largest, smallest>> possible prepared extent, 1/128 ticks; exact kinds: both equal
PExt128(g, tb, fb, r) ==
    LET e == PExt(g, tb, r)  big == <<128 * e[1], 128 * e[2]>> IN
    IF Bracketed(g, tb, fb) THEN <<big, <<IF e[1] = 0 THEN 0 ELSE big[1] + tb, big[2] - tb>>>> ELSE <<big, big>>
Len1(x) == x[2] - x[1]
\* v lies between the smallest and the largest intersection-over-union the bracketed extents allow
BracketIoU(v, A, B) ==
    LET ihi == Inter1(A[1], B[1])  ilo == Inter1(A[2], B[2])
        uhi == Len1(A[1]) + Len1(B[1]) - ilo  ulo == Len1(A[2]) + Len1(B[2]) - ihi
    IN  \/ uhi > 32000 \/ ulo <= 0
        \/ /\ v.r = "" /\ v.l[1] \in {0, 1} /\ v.l[2] <= 1
           /\ LMulMag(v.l, uhi)[2] >= ilo - 1 /\ LMulMag(v.l, ulo)[2] <= ihi

(* Buffered points stay inside the ellipse with half-axes tb, fb around them (they are polygons inscribed in it; the    *)
(* clips at time 0, frequency 0 and MAX_FREQUENCY only remove area).  So a buffered Point / MultiPoint certainly does   *)
(* not intersect a box (never buffered) or another buffered Point / MultiPoint when the ellipses stay clear of it --     *)
(* also when the box lies in a HOLE enclosed by a ring of overlapping buffered points.  Disjoint regions: affinity 0.    *)
PointKinds == {"Point", "MultiPoint"}
PointsOf(g) == IF g.type = "Point" THEN {g.coordinates} ELSE Range(g.coordinates)
Gap1(lo, hi, x) == Max(Max(lo - x, x - hi), 0)
ClearOfBox(p, b, tb, fb) ==
    LET dx == Gap1(b[1], b[3], p[1])  df == Gap1(b[2], b[4], p[2]) IN dx * dx * fb * fb + df * df * tb * tb > tb * tb * fb * fb
ClearOfPoint(p, q, tb, fb) ==
    LET dx == Abs(p[1] - q[1])  df == Abs(p[2] - q[2]) IN dx * dx * fb * fb + df * df * tb * tb > 4 * tb * tb * fb * fb
Separate(ga, gb, tb, fb) ==
    /\ tb > 0 /\ fb > 0 /\ tb <= 4 /\ fb <= 4
    /\ \/ ga.type \in PointKinds /\ gb.type = "BoundingBox" /\ \A p \in PointsOf(ga) : ClearOfBox(p, gb.coordinates, tb, fb)
       \/ gb.type \in PointKinds /\ ga.type = "BoundingBox" /\ \A p \in PointsOf(gb) : ClearOfBox(p, ga.coordinates, tb, fb)
       \/ ga.type \in PointKinds /\ gb.type \in PointKinds /\ \A p \in PointsOf(ga), q \in PointsOf(gb) : ClearOfPoint(p, q, tb, fb)

\* Conversely a buffered point reaches exactly tb (fb) from the point along the time (frequency) axis: when it lies level
\* with a box of positive area and closer to it than the buffer, the two regions share area -- the affinity is positive,
\* also when the raw point is outside the box and they overlap ONLY through the buffer.
ReachesBox(p, b, tb, fb) ==
    LET dx == Gap1(b[1], b[3], p[1])  df == Gap1(b[2], b[4], p[2])
    IN  (df = 0 /\ dx < tb /\ p[2] > b[2] /\ p[2] < b[4]) \/ (dx = 0 /\ df < fb /\ p[1] > b[1] /\ p[1] < b[3])
Overlapping(ga, gb, tb, fb) ==
    /\ tb > 0 /\ fb > 0
    /\ \/ ga.type \in PointKinds /\ gb.type = "BoundingBox" /\ BoxArea(gb.coordinates) > 0
          /\ \E p \in PointsOf(ga) : ReachesBox(p, gb.coordinates, tb, fb)
       \/ gb.type \in PointKinds /\ ga.type = "BoundingBox" /\ BoxArea(ga.coordinates) > 0
          /\ \E p \in PointsOf(gb) : ReachesBox(p, ga.coordinates, tb, fb)

TimeOnlyPair(k1, k2) == k1 \in TimeKinds \/ k2 \in TimeKinds
BoxPair(k1, k2)      == k1 = "BoundingBox" /\ k2 = "BoundingBox"

\* "a geometry of non-zero extent": it has an area / a duration of its own, or it acquires one by buffering
NonZeroExtent(g, tb, fb) ==
    CASE g.type = "BoundingBox"  -> BoxArea(g.coordinates) > 0
      [] g.type = "TimeInterval" -> g.coordinates[2] > g.coordinates[1]
      [] g.type \in {"Polygon", "MultiPolygon"} -> TRUE            \* valid polygons have positive area
      [] OTHER -> tb > 0 /\ fb > 0

(* ---------------- observed values ---------------- *)
Ret(v)     == v.r = ""
InUnit(v)  == Ret(v) /\ LFinite(v.l) /\ LGeInt(v.l, 0) /\ LLeInt(v.l, 1)
IsZero(v)  == Ret(v) /\ v.l[1] = 0
\* a value of [0, 1] in units of 2^-30 (fits 32 bits because the integer part is at most 1)
N30(l)     == l[2] * 1073741824 + l[3] * 16384 + (l[4] \div 4)
Close(a, b) == /\ Ret(a) /\ Ret(b) /\ a.l[1] \in {0, 1} /\ b.l[1] \in {0, 1} /\ a.l[2] <= 1 /\ b.l[2] <= 1
               /\ Abs(N30(a.l) - N30(b.l)) <= 2                       \* |a - b| < 3e-9
NearOne(v) == Ret(v) /\ v.l[1] = 1 /\ v.l[2] <= 1 /\ N30(v.l) >= 1073741824 - 2 /\ LLeInt(v.l, 1)
\* v = p/q exactly as far as a double can tell (|v - p/q| < 2.4e-10/q); nothing demanded when q = 0
EqRat(v, pq) == pq[2] > 0 => (Ret(v) /\ pq[2] <= 32767 /\ LApproxRat(v.l, pq[1], pq[2]))

\* strict order of two non-negative finite limb numbers
LLt(a, b) == LLe(a, b) /\ ~LEq(a, b)
Pos(a)    == a[1] = 1
\* floor of a non-negative limb number in units of 2^-10 tick
Q10(x) == x[2] * 1024 + (x[3] \div 64)
QExt(e) == <<Q10(e[1]), Q10(e[2])>>
ExtOk(e) == \A i \in 1..2 : e[i][1] \in {0, 1} /\ e[i][2] < 30
\* the time extent the affinity works with, as observed through the public API
RecExt(kind, e, r) ==
    CASE kind \in AreaKinds    -> e.raw
      [] kind = "TimeInterval" -> IF r = 1 THEN e.buf ELSE e.raw
      [] OTHER                 -> e.buf
\* v = I/U for the observed extents, decided on extents floored to 2^-10 tick: the four floors move
\* I by less than 1 and U by less than 3 units, so floor(v * Uq) lies within Iq - 5 .. Iq + 4
EqObservedIoU(v, x, y) ==
    LET iu == TimeIoU(QExt(x), QExt(y)) IN
    \/ ~ExtOk(x) \/ ~ExtOk(y) \/ iu[2] > 32000
    \/ /\ Ret(v) /\ v.l[1] \in {0, 1} /\ v.l[2] <= 1
       /\ LET m == LMulMag(v.l, iu[2]) IN m[2] >= iu[1] - 5 /\ m[2] <= iu[1] + 4

(* ---------------- the observation ---------------- *)
\* "lat": ticks of a coarse dyadic unit next to time 0.  "far": ticks of a fine dyadic unit (2^-10 s) counted from a
\* huge origin (2^E s, in.bases[k]; 0 = no origin): short events far along the time axis.  The closed forms are ratios
\* of tick differences, hence free of scale and -- away from 0, MC_Affinity!LawShift -- of origin: the same clauses
\* apply; sh[k] is the pair at origin bases[k] (ds[k] = 0), so Shift compares origins 2^27 s apart.
\* "iso": ticks of ONE numeric unit on both axes (1 tick = u seconds = u hertz, u = 0.5, 2, 0.125) so that coordinate lists
\* of different kinds can coincide literally (TimeInterval [1, 2] / Point [1, 2]) and time_buffer = freq_buffer as numbers.
IsLat(o) == o.in.kind \in {"lat", "far", "iso"}
K1(o) == IF IsLat(o) THEN o.in.g1.type ELSE o.in.k1
K2(o) == IF IsLat(o) THEN o.in.g2.type ELSE o.in.k2
Vals(run) == {run.v12, run.v21, run.v11, run.v22} \cup {run.sh[k].v : k \in DOMAIN run.sh}

\* exact clauses for one call aff(ga, gb) = v on the lattice
ExactTimeOnly(ga, gb, tb, v) ==
    (TimeOnlyPair(ga.type, gb.type) /\ ClosedExtent(ga) /\ ClosedExtent(gb))
        => \E r \in Readings : EqRat(v, TimeIoU(PExt(ga, tb, r), PExt(gb, tb, r)))
BracketTimeOnly(ga, gb, tb, fb, v) ==
    (TimeOnlyPair(ga.type, gb.type) /\ (Bracketed(ga, tb, fb) \/ Bracketed(gb, tb, fb)) /\ ClosedExtent(ga) # ClosedExtent(gb))
        => \E r \in Readings : BracketIoU(v, PExt128(ga, tb, fb, r), PExt128(gb, tb, fb, r))
ExactBox(ga, gb, v) ==
    BoxPair(ga.type, gb.type) => EqRat(v, BoxIoU(ga.coordinates, gb.coordinates))
ExactRect(ga, gb, v) == RectPair(ga, gb) => EqRat(v, RectIoU(ga, gb))
\* the calls of a lattice session as <<ga, gb, v>> (a sequence: the geometries have different shapes)
Calls(o, run) ==
    <<  <<o.in.g1, o.in.g2, run.v12>>, <<o.in.g2, o.in.g1, run.v21>>,
        <<o.in.g1, o.in.g1, run.v11>>, <<o.in.g2, o.in.g2, run.v22>> >>
    \o [k \in DOMAIN run.sh |-> <<Shift(o.in.g1, o.in.ds[k]), Shift(o.in.g2, o.in.ds[k]), run.sh[k].v>>]

\* buffered geometries disjoint in time, seen on the observed extents (for TimeInterval under either reading)
ObsDisjoint(o, s) ==
    \A r \in Readings :
        LET x == RecExt(K1(o), s.e1, r)  y == RecExt(K2(o), s.e2, r)
        IN  LLt(x[2], y[1]) \/ LLt(y[2], x[1])
\* neither buffered geometry reaches time 0
AwayFromZero(o, s) == /\ Pos(RecExt(K1(o), s.e1, 1)[1]) /\ Pos(RecExt(K2(o), s.e2, 1)[1])

Clauses == {"Range", "Sym", "Self", "DisjointInTime", "DisjointRegions", "OverlapPositive", "BoxIoU", "RectIoU", "TimeOnly", "Shift"}

HoldsRun(cl, o, run) ==
    LET tb == o.in.tb  fb == o.in.fb IN
    CASE cl = "Range" -> \A v \in Vals(run) : InUnit(v)
      \* identical doubles; where the result goes through shapely's overlay (whose vertex order, and hence the
      \* last bit of the area sum, depends on the operand order) equal within the numeric policy's 1e-9
      [] cl = "Sym" ->
            IF TimeOnlyPair(K1(o), K2(o)) \/ (IsLat(o) /\ BoxPair(K1(o), K2(o)))
            THEN Ret(run.v12) /\ run.v12.h = run.v21.h
            ELSE Close(run.v12, run.v21)
      [] cl = "Self" ->
            IF IsLat(o)
            THEN /\ NonZeroExtent(o.in.g1, tb, fb) => NearOne(run.v11)
                 /\ NonZeroExtent(o.in.g2, tb, fb) => NearOne(run.v22)
            ELSE NearOne(run.v11) /\ NearOne(run.v22)       \* random geometries are generated with non-zero extent
      [] cl = "DisjointInTime" ->
            /\ \A k \in DOMAIN run.sh : ObsDisjoint(o, run.sh[k]) => IsZero(run.sh[k].v)
            /\ ObsDisjoint(o, run.sh[1]) => IsZero(run.v21)
            /\ IsLat(o) => \A k \in DOMAIN run.sh :
                   LET g1 == Shift(o.in.g1, o.in.ds[k])  g2 == Shift(o.in.g2, o.in.ds[k])
                   IN  (ClosedExtent(g1) /\ ClosedExtent(g2) /\
                        \A r \in Readings : LET x == PExt(g1, tb, r)  y == PExt(g2, tb, r) IN x[2] < y[1] \/ y[2] < x[1])
                       => IsZero(run.sh[k].v)
      \* buffered points that certainly do not intersect the other geometry (e.g. a box in the hole of a ring of points)
      [] cl = "DisjointRegions" ->
            IsLat(o) => \A k \in 1..Len(Calls(o, run)) :
                            LET c == Calls(o, run)[k] IN Separate(c[1], c[2], tb, fb) => IsZero(c[3])
      [] cl = "OverlapPositive" ->
            IsLat(o) => \A k \in 1..Len(Calls(o, run)) :
                            LET c == Calls(o, run)[k] IN Overlapping(c[1], c[2], tb, fb) => (Ret(c[3]) /\ c[3].l[1] = 1)
      [] cl = "BoxIoU" ->
            IsLat(o) => \A k \in 1..Len(Calls(o, run)) :
                            LET c == Calls(o, run)[k] IN ExactBox(c[1], c[2], c[3])
      \* the same, for regions bounded by axis-parallel rectangles (polygons and multi-polygons with holes)
      [] cl = "RectIoU" ->
            IsLat(o) => \A k \in 1..Len(Calls(o, run)) :
                            LET c == Calls(o, run)[k] IN ExactRect(c[1], c[2], c[3])
      [] cl = "TimeOnly" ->
            /\ IsLat(o) => \A k \in 1..Len(Calls(o, run)) :
                            LET c == Calls(o, run)[k] IN ExactTimeOnly(c[1], c[2], tb, c[3]) /\ BracketTimeOnly(c[1], c[2], tb, fb, c[3])
            /\ TimeOnlyPair(K1(o), K2(o)) =>
                 /\ \A k \in DOMAIN run.sh : \E r \in Readings :
                        EqObservedIoU(run.sh[k].v, RecExt(K1(o), run.sh[k].e1, r), RecExt(K2(o), run.sh[k].e2, r))
                 /\ \E r \in Readings :
                        EqObservedIoU(run.v21, RecExt(K2(o), run.sh[1].e2, r), RecExt(K1(o), run.sh[1].e1, r))
      [] cl = "Shift" ->
            \A j, k \in DOMAIN run.sh :
                (j < k /\ AwayFromZero(o, run.sh[j]) /\ AwayFromZero(o, run.sh[k])) => Close(run.sh[j].v, run.sh[k].v)

Holds(cl, o) == \A u \in DOMAIN o.out.runs : HoldsRun(cl, o, o.out.runs[u])
=============================================================================
