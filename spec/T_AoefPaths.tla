------------------------------ MODULE T_AoefPaths ------------------------------
(* Trace validator for C18. *)
EXTENDS AoefPaths, TraceKit
VARIABLE l
Failing(o) == IF Crashed(o) THEN {"NoCrash"} ELSE {cl \in PathClauses : ~HoldsC18(cl, o)}
TInit == l = 1
TNext == l <= Len(Obs) /\ l' = l + 1
Report == l <= Len(Obs) =>
            LET bad == Failing(Obs[l])
            IN  bad = {} \/ PrintT(<<"REJECT", ToJson([id |-> Obs[l].id, bad |-> bad])>>)
=============================================================================
