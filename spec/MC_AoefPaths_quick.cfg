SPECIFICATION Spec
CONSTANTS
  Stride = 3
  MaxDepth = 1
CONSTRAINT Export
INVARIANT LawRelocate
INVARIANT LawPrefix
INVARIANT LawRoundTrip
INVARIANT LawHasRecording
CHECK_DEADLOCK FALSE
