SPECIFICATION Spec
CONSTANTS
  MaxDepth = 2
CONSTRAINT Export
INVARIANT LawRelocate
INVARIANT LawPrefix
INVARIANT LawRoundTrip
INVARIANT LawHasRecording
CHECK_DEADLOCK FALSE
