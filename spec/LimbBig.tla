------------------------------- MODULE LimbBig -------------------------------
(* X01: limb numbers (Lattice) against exact rationals whose denominator exceeds 2^15 (sample rates up to 3 840 000). *)
EXTENDS Lattice
\* smallest d with x = d * (x / d) and x / d < 2^15
SplitD(x) == CHOOSE d \in 1..1000 : x % d = 0 /\ x \div d <= 32767 /\ \A e \in 1..(d - 1) : ~(x % e = 0 /\ x \div e <= 32767)
\* |v - p / (q1*q2)| < 2.4e-10 / (q1*q2), q2 possibly above 2^15
LApproxBig(v, p, q1, q2) ==
    IF p = 0 THEN v[1] = 0
    ELSE v[1] = 1 /\ (LET d == SplitD(q2) IN LApproxRat(LMulMag(LMulMag(v, q1), d), p, q2 \div d))
DurOK(v, fr, sr) == LFinite(v) /\ LApproxBig(v, fr, 1, sr)

=============================================================================
