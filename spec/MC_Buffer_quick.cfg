SPECIFICATION Spec
CONSTANTS
  GeomStride = 1
  AllUnits = FALSE
CONSTRAINT Export
INVARIANT LawClosedContains
INVARIANT LawClosedMonotone
INVARIANT LawClosedDomain
INVARIANT LawClosedWidening
INVARIANT LawTimeUnbounded
INVARIANT LawWitness
INVARIANT LawProbesCoverVertices
INVARIANT LawProbesOnSegments
INVARIANT LawSomeProbeOutside
INVARIANT LawLimbs
INVARIANT LawTiny
INVARIANT LawEqualPair
INVARIANT LawFolded
INVARIANT LawMonoComparable
INVARIANT LawTypes
INVARIANT LawOutcome
CHECK_DEADLOCK FALSE
