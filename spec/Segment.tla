------------------------------- MODULE Segment -------------------------------
(***************************************************************************)
(* C14 -- segment_clip tiles the clip on the hop lattice.                  *)
(* Integers: clip [s, e], window duration d, hop h (optional: <<>> = d),   *)
(* include_incomplete inc.                                                 *)
(***************************************************************************)
EXTENDS Lattice

Hop(c) == IF IsNone(c.h) THEN c.d ELSE Some(c.h)
Invalid(c) == c.d <= 0 \/ Hop(c) <= 0

\* Req: window i is wanted iff it starts inside the clip (inc) / fits completely (~inc)
Want(c, i) == IF c.inc THEN c.s + i * Hop(c) < c.e ELSE c.s + i * Hop(c) + c.d <= c.e
ReqWindows(c) ==
    LET K == {i \in 0..(c.e - c.s) : Want(c, i)}          \* hop >= 1 tick, so i <= e - s
    IN  [k \in 1..Cardinality(K) |-> <<c.s + (k - 1) * Hop(c), Min(c.s + (k - 1) * Hop(c) + c.d, c.e)>>]

\* laws of Req
Covers(c) == \A t \in c.s..(c.e - 1) : \E k \in DOMAIN ReqWindows(c) : ReqWindows(c)[k][1] <= t /\ t + 1 <= ReqWindows(c)[k][2]
LawCoverage(c) == (~Invalid(c) /\ c.inc /\ Hop(c) <= c.d) => Covers(c)
LawInside(c)   == ~Invalid(c) => \A k \in DOMAIN ReqWindows(c) : c.s <= ReqWindows(c)[k][1] /\ ReqWindows(c)[k][1] < ReqWindows(c)[k][2] /\ ReqWindows(c)[k][2] <= c.e
LawExactDur(c) == (~Invalid(c) /\ ~c.inc) => \A k \in DOMAIN ReqWindows(c) : ReqWindows(c)[k][2] - ReqWindows(c)[k][1] = c.d
LawPrefix(c)   == ~Invalid(c) => \A i \in 0..(c.e - c.s) : Want(c, i + 1) => Want(c, i)

(***************************************************************************)
(* Acceptance of an observation.  out.runs is a sequence (one per exact    *)
(* unit) of records                                                        *)
(*   [raised: string ("" when none), w: <<<<start, end>>, ...>> in ticks,   *)
(*    w2: the windows of a clip with the same bounds on another recording, *)
(*        segmented afterwards in the same process (samerec/ids cover both) *)
(*    samerec: BOOLEAN, ids_distinct: BOOLEAN, ids_repeat: BOOLEAN]         *)
(***************************************************************************)
Clauses == {"Rejects", "Windows", "SameRecording", "IdsDistinct", "IdsDeterministic", "IdFunctionOfBounds", "InsideNonEmpty"}
\* (InsideNonEmpty also carries the on-lattice condition for non-representable units, see StressOK)
LLt(a, b) == LLe(a, b) /\ ~LEq(a, b)
\* out.stress: the same call at units that are not representable (0.1, 0.3, 1/3); bounds travel as limb numbers and only
\* order facts that no rounding can excuse are judged: every produced segment starts inside the clip, ends inside it and is
\* not empty (plus the argument errors, the recording and the distinct identifiers)
StressOK(c, r) ==
    /\ Invalid(c) <=> (r.raised = "ValueError")
    /\ r.raised = "" => /\ r.samerec /\ r.ids_distinct
                         \* start k lies on the hop lattice: within four units in the last place of clip.start + (k-1)*hop, where the
                         \* product and the sum are formed EXACTLY from the doubles that were passed (r.hd = the hop as a limb number);
                         \* one multiplication and one addition in floating point stay within one such unit, a running sum does not
                         \* (stated on magnitudes, hence for clips that start at or after time 0 only)
                         /\ \A j \in DOMAIN r.segs :
                               LET E == LSumMag(r.cs, IF j = 1 THEN LInt(0) ELSE LMulMag(r.hd, j - 1))
                               IN  (j <= 32000 /\ E[2] < 32000 /\ r.cs[1] >= 0) => LWithin(r.segs[j][1], E, LUlps4(E[2] + 1))
                         \* on a non-representable unit the last window may be won or lost to rounding at the clip end, but only that
                         \* one: the number of segments differs from the exact count by at most one
                         /\ Len(r.segs) \in (Len(ReqWindows(c)) - 1)..(Len(ReqWindows(c)) + 1)
                         /\ \A k \in DOMAIN r.segs : /\ LLe(r.cs, r.segs[k][1])
                                                      /\ LLt(r.segs[k][1], r.segs[k][2])
                                                      /\ LLe(r.segs[k][2], r.ce)
Holds(cl, o) ==
    LET c == o.in IN
    IF cl = "InsideNonEmpty" THEN \A u \in DOMAIN o.out.stress : StressOK(c, o.out.stress[u]) ELSE
    \A u \in DOMAIN o.out.runs :
      LET r == o.out.runs[u] IN
      CASE cl = "Rejects"  -> Invalid(c) <=> (r.raised = "ValueError")
        [] cl = "Windows"  -> (~Invalid(c) /\ r.raised = "") => r.w = ReqWindows(c) /\ r.w2 = ReqWindows(c)   \* w2: same bounds, other recording, called afterwards
                                                           /\ r.w3 = ReqWindows(c)   \* w3: the clip derived by model_copy(update end_time) from a used, longer clip
                                                           /\ r.w4 = ReqWindows(c)   \* w4: the same call with positional arguments (clip, duration, hop, include_incomplete)
        [] cl = "SameRecording"    -> r.raised = "" => r.samerec
        [] cl = "IdsDistinct"      -> r.raised = "" => r.ids_distinct
        [] cl = "IdsDeterministic" -> r.raised = "" => r.ids_repeat
        \* idmap = << <<start, end, id index>> ... >> over this call and a call with duration d+1 on the same parent:
        \* the identifier is a function of (parent, bounds), so equal bounds have equal identifiers
        [] cl = "IdFunctionOfBounds" -> \A i, j \in DOMAIN r.idmap :
                                          (r.idmap[i][1] = r.idmap[j][1] /\ r.idmap[i][2] = r.idmap[j][2]) => r.idmap[i][3] = r.idmap[j][3]
=============================================================================
