------------------------------ MODULE MC_Matching ------------------------------
(***************************************************************************)
(* Impl of C07: the steps of match_geometries / _select_matches as a state *)
(* machine, model-checked against the clauses of Matching.                 *)
(*                                                                         *)
(*   Solve    linear_sum_assignment(cost, maximize=True): a COMPLETE        *)
(*            assignment of min(n, m) rows/columns of maximum total value  *)
(*            -- any optimal one (nondeterministic)                         *)
(*   Pair     one iteration of "for row, column in zip(...)": yield the    *)
(*            pair, remove row and column from the leftover sets           *)
(*   Skip     (ZeroPairs = "split", the repaired algorithm) an assigned     *)
(*            pair of affinity 0 is not a match: both stay in the leftovers*)
(*   Row/Col  the two leftover loops (set iteration: any order)            *)
(*                                                                         *)
(* ZeroPairs = "pair" is the algorithm as found: history/MC_Matching_prefix *)
(***************************************************************************)
EXTENDS Matching, TLC, Json
CONSTANTS Geoms,        \* sequence of lattice geometries to draw from
          MaxN, MaxM,   \* list lengths
          MaxTotal,     \* n + m <= MaxTotal
          ZeroPairs,    \* "pair" | "split"
          ExportAt,     \* "matrix" | "solve"
          TB, FB,       \* buffers in ticks (0, or powers of two with lists restricted to Exactable ones)
          WithTwins     \* BOOLEAN: also enumerate the lists of TwinInputs (cases only: the model has no closed form for them)
VARIABLES c, pc, W, asg, rows, cols, out

vars == <<c, pc, W, asg, rows, cols, out>>

\* ---- universes for the cfg files
ProperIntervals(N) == {<<a, b>> \in (0..N) \X (0..N) : a < b}
RECURSIVE SetToSeq(_)
SetToSeq(S) == IF S = {} THEN <<>> ELSE LET x == CHOOSE x \in S : \A y \in S : x[1] < y[1] \/ (x[1] = y[1] /\ x[2] <= y[2])
                                        IN  <<x>> \o SetToSeq(S \ {x})
IntervalGeoms(N) == LET s == SetToSeq(ProperIntervals(N)) IN [k \in DOMAIN s |-> G("TimeInterval", s[k])]
Intervals4 == IntervalGeoms(4)
Intervals3 == IntervalGeoms(3)
Boxes == << G("BoundingBox", <<0, 0, 2, 2>>), G("BoundingBox", <<1, 1, 3, 3>>), G("BoundingBox", <<1, 0, 2, 1>>),
            G("BoundingBox", <<2, 0, 4, 2>>), G("BoundingBox", <<0, 2, 4, 3>>), G("BoundingBox", <<3, 1, 4, 3>>),
            G("BoundingBox", <<0, 0, 4, 3>>) >>
\* intervals, boxes, and a region with an interior ring: box (3,3,4,4) lies strictly inside the hole (and apart from box
\* (0,0,2,2) on BOTH axes: diagonal neighbours), box (1,1,3,3) inside it touching its border; box (0,0,4,4) strictly contains
\* or is contained in the others (nested pairs, met in both orders)
Mixed == << G("TimeInterval", <<0, 2>>), G("TimeInterval", <<1, 4>>),
            G("BoundingBox", <<0, 0, 2, 2>>), G("BoundingBox", <<1, 1, 3, 3>>), G("BoundingBox", <<0, 0, 4, 4>>),
            G("MultiPolygon", <<<<<<<<0, 0>>, <<6, 0>>, <<6, 6>>, <<0, 6>>, <<0, 0>>>>, <<<<1, 1>>, <<5, 1>>, <<5, 5>>, <<1, 5>>, <<1, 1>>>>>>>>),
            G("BoundingBox", <<3, 3, 4, 4>>) >>
\* geometries of different kinds with literally equal coordinates (run at unit 1 s / 1 Hz, positive buffers)
TwinGeoms == << G("TimeInterval", <<1, 2>>), G("Point", <<1, 2>>),
                G("LineString", <<<<0, 1>>, <<2, 3>>, <<3, 1>>>>), G("MultiPoint", <<<<0, 1>>, <<2, 3>>, <<3, 1>>>>),
                G("Polygon", <<<<<<0, 0>>, <<2, 3>>, <<4, 0>>>>>>), G("MultiLineString", <<<<<<0, 0>>, <<2, 3>>, <<4, 0>>>>>>),
                G("BoundingBox", <<0, 0, 3, 3>>) >>
TwinSeqs(k) == UNION {[1..l -> 1..Len(TwinGeoms)] : l \in 0..k}
HasTwins(x) == \E a, b \in Range(x[1]) \cup Range(x[2]) :
                  TwinGeoms[a].type # TwinGeoms[b].type /\ TwinGeoms[a].coordinates = TwinGeoms[b].coordinates
TwinInputs == IF WithTwins THEN {x \in TwinSeqs(2) \X TwinSeqs(2) : Len(x[1]) + Len(x[2]) <= 3 /\ HasTwins(x)} ELSE {}
\* where the objects come from: one code 0..3 per element, spread over the cases
Prov(s, salt) == [k \in DOMAIN s |-> (s[k] + 2 * k + salt) % 4]

\* zero-extent geometries (with zero buffers): a zero-length interval and a zero-duration box at the same instant, a
\* TimeStamp at another instant (disjoint in time from both: affinity 0, not 0/0) -- next to
\* proper ones whose affinities are fractions
Degenerate == << G("TimeInterval", <<1, 1>>), G("TimeStamp", 2), G("BoundingBox", <<1, 0, 1, 2>>),
                 G("TimeInterval", <<0, 2>>), G("TimeInterval", <<1, 3>>),
                 G("BoundingBox", <<0, 1, 2, 1>>) >>     \* a flat box (low = high): no area, but a duration -- time affinity 1 and 1/3

\* kinds that are buffered, next to TimeStamps: with TB = 2, 4 ticks the buffer exceeds 1 s at unit 1 s
Buffered == << G("TimeStamp", 1), G("TimeStamp", 4), G("TimeStamp", 8),
               G("Point", <<2, 1>>), G("Point", <<6, 2>>), G("MultiPoint", <<<<1, 1>>, <<5, 2>>>>),
               G("LineString", <<<<3, 2>>, <<5, 2>>>>), G("BoundingBox", <<2, 0, 7, 3>>) >>

Idx == 1..Len(Geoms)
SeqsUpTo(k) == UNION {[1..l -> Idx] : l \in 0..k}
\* with buffers the exact matrix exists when every cross pair has a time-only side
Exactable(x) == TB = 0 \/ \A i \in DOMAIN x[1], j \in DOMAIN x[2] :
                            Aff!TimeOnlyPair(Geoms[x[1][i]].type, Geoms[x[2][j]].type)
Inputs == {x \in SeqsUpTo(MaxN) \X SeqsUpTo(MaxM) : Len(x[1]) + Len(x[2]) <= MaxTotal /\ Exactable(x)}
Src == [k \in DOMAIN c.src |-> Geoms[c.src[k]]]
Tgt == [k \in DOMAIN c.tgt |-> Geoms[c.tgt[k]]]
n == Len(c.src)
m == Len(c.tgt)

\* complete assignments of a rectangular matrix, as scipy returns them
Complete == {P \in SUBSET ((1..n) \X (1..m)) : OneToOne(P) /\ Cardinality(P) = Min(n, m)}
BestComplete == {P \in Complete : \A Q \in Complete : Val(W, Q) <= Val(W, P)}
Rec(s, t, a) == [s |-> s, t |-> t, a |-> a]
NextPair == CHOOSE p \in asg : \A q \in asg : p[1] <= q[1]         \* scipy returns the pairs sorted by row

Init == /\ \/ \E x \in Inputs : c = [src |-> x[1], tgt |-> x[2]] /\ pc = "matrix"
           \/ \E x \in TwinInputs : c = [src |-> x[1], tgt |-> x[2]] /\ pc = "twin"
        /\ W = <<>> /\ asg = {} /\ rows = {} /\ cols = {} /\ out = <<>>
Matrix == /\ pc = "matrix" /\ W' = ExactWB(Src, Tgt, TB) /\ rows' = 1..n /\ cols' = 1..m
          /\ pc' = "solve" /\ UNCHANGED <<c, asg, out>>
Solve == /\ pc = "solve" /\ asg' \in BestComplete /\ pc' = "pairs" /\ UNCHANGED <<c, W, rows, cols, out>>
Pair == /\ pc = "pairs" /\ asg # {}
        /\ LET p == NextPair IN
           /\ (ZeroPairs = "split" => W[p[1]][p[2]] > 0)
           /\ out' = Append(out, Rec(<<p[1]>>, <<p[2]>>, W[p[1]][p[2]]))
           /\ rows' = rows \ {p[1]} /\ cols' = cols \ {p[2]} /\ asg' = asg \ {p}
        /\ UNCHANGED <<c, pc, W>>
Skip == /\ pc = "pairs" /\ asg # {} /\ ZeroPairs = "split"
        /\ LET p == NextPair IN W[p[1]][p[2]] = 0 /\ asg' = asg \ {p}
        /\ UNCHANGED <<c, pc, W, rows, cols, out>>
PairsDone == pc = "pairs" /\ asg = {} /\ pc' = "rows" /\ UNCHANGED <<c, W, asg, rows, cols, out>>
Row == /\ pc = "rows" /\ \E r \in rows : out' = Append(out, Rec(<<r>>, <<>>, 0)) /\ rows' = rows \ {r}
       /\ UNCHANGED <<c, pc, W, asg, cols>>
RowsDone == pc = "rows" /\ rows = {} /\ pc' = "cols" /\ UNCHANGED <<c, W, asg, rows, cols, out>>
Col == /\ pc = "cols" /\ \E k \in cols : out' = Append(out, Rec(<<>>, <<k>>, 0)) /\ cols' = cols \ {k}
       /\ UNCHANGED <<c, pc, W, asg, rows>>
ColsDone == pc = "cols" /\ cols = {} /\ pc' = "done" /\ UNCHANGED <<c, W, asg, rows, cols, out>>
Next == Matrix \/ Solve \/ Pair \/ Skip \/ PairsDone \/ Row \/ RowsDone \/ Col \/ ColsDone
Spec == Init /\ [][Next]_vars /\ WF_vars(Next)

\* exhaustive runs print every initial state; -simulate runs (ExportAt = "solve") only the behaviours actually sampled
Export == /\ pc = ExportAt => PrintT(<<"CASE", ToJson([kind |-> "lat", src |-> Src, tgt |-> Tgt, tb |-> TB, fb |-> FB,
                                                         sp |-> Prov(c.src, Len(c.tgt)), tp |-> Prov(c.tgt, 1 + Len(c.src))])>>)
          /\ pc = "twin" => PrintT(<<"CASE", ToJson([kind |-> "twin", src |-> [k \in DOMAIN c.src |-> TwinGeoms[c.src[k]]],
                                                     tgt |-> [k \in DOMAIN c.tgt |-> TwinGeoms[c.tgt[k]]],
                                                     sp |-> Prov(c.src, Len(c.tgt)), tp |-> Prov(c.tgt, 1 + Len(c.src))])>>)

(* ---- Impl => Req ---- *)
Done == pc = "done"
ImplCover        == Done => CoverOf(out, n, m)
ImplPositiveOnly == Done => PositiveOf(out, W, n, m)
ImplOptimal      == Done => OptimalOf(out, W, n, m, 0)
ImplReported     == Done => \A k \in DOMAIN out : out[k].a = IF IsPair(out[k]) THEN W[Some(out[k].s)][Some(out[k].t)] ELSE 0
\* the lemma the algorithm rests on: a best complete assignment is worth as much as the best partial pairing of positive entries
LawCompleteIsOptimal == pc = "solve" => \A P \in BestComplete : Val(W, P) = OptVal(W, n, m)
\* the repair does not change the value: dropping zero pairs from a pairing leaves its value
LawRecursionIsOptVal == pc = "solve" => OptValRec(W, n, m) = OptVal(W, n, m)
LawZeroPairsAreFree == pc = "solve" => \A P \in BestComplete : Val(W, {p \in P : W[p[1]][p[2]] > 0}) = Val(W, P)
LawSelfIsOne == pc = "solve" => \A i \in 1..n, j \in 1..m : (Src[i] = Tgt[j]) => AffRatB(Src[i], Tgt[j], TB)[1] = AffRatB(Src[i], Tgt[j], TB)[2]
\* a zero-extent geometry has affinity 0 with everything (ratio 0/u, or 0/0 guarded): it always ends up unpaired
LawZeroExtentUnpaired == (Done /\ TB = 0) => \A k \in DOMAIN out : IsPair(out[k]) =>
    LET a == Src[Some(out[k].s)]  b == Tgt[Some(out[k].t)]
    IN  TimeExtent(a, Aff!FMAXT)[1] < TimeExtent(a, Aff!FMAXT)[2] /\ TimeExtent(b, Aff!FMAXT)[1] < TimeExtent(b, Aff!FMAXT)[2]
Terminates == <>(Done \/ pc = "twin")
=============================================================================
