SPECIFICATION Spec
CONSTANTS
  Tier = "cov"
INVARIANT FineCoding
INVARIANT WellFormedCases
INVARIANT ParserAgrees
INVARIANT MissingIsInvalid
INVARIANT ImplIffValid
INVARIANT ImplIsFunction
INVARIANT ImplValueNormal
INVARIANT SecondNeedsFirst
INVARIANT LawReadings
INVARIANT LawNormalIdem
INVARIANT LawNormalValid
INVARIANT LawNormalAllowed
INVARIANT LawNormalKeepsPoints
INVARIANT LawStrictOnlyMulti
INVARIANT LawLooseIsDoc
INVARIANT LawRinglessInvalid
INVARIANT NeverStuck
PROPERTY RankDecreases
PROPERTY Terminates
CHECK_DEADLOCK FALSE
