------------------------------ MODULE T_AoefC01 ------------------------------
(* Trace validator for C01: observations of real save/load cycles (checks/aoef_common.py). *)
EXTENDS Aoef, TraceKit
VARIABLE l
Failing(o) == IF Crashed(o) THEN {"NoCrash"} ELSE {cl \in C01Clauses : ~HoldsC01(cl, o)}
TInit == l = 1
TNext == l <= Len(Obs) /\ l' = l + 1
Report == l <= Len(Obs) =>
            LET bad == Failing(Obs[l])
            IN  bad = {} \/ PrintT(<<"REJECT", ToJson([id |-> Obs[l].id, bad |-> bad])>>)
=============================================================================
