SPECIFICATION Spec
CONSTANT Stride = 13
CONSTRAINT Export
INVARIANT ImplRefinesReq
INVARIANT NoFaultOk
PROPERTY Terminates
CHECK_DEADLOCK FALSE
