------------------------------ MODULE MC_Affinity ------------------------------
(***************************************************************************)
(* Enumeration machine for C06.  Every initial state is one session        *)
(* (unordered catalogue pair, buffer pair, shift offsets); the actions     *)
(* transcribe the dispatch of compute_affinity (Impl): prepare both        *)
(* geometries, choose the time-only or the area branch, zero-union guard.  *)
(* Invariants: the laws of the closed forms (range, symmetry, self = 1,    *)
(* disjoint = 0, shift invariance away from 0) and Impl = Req wherever Req  *)
(* is a closed form.                                                        *)
(***************************************************************************)
EXTENDS Affinity, TLC, Json
CONSTANTS BufPairs,     \* set of <<tb, fb>> in ticks, both > 0 (powers of two: exact factors)
          Offsets,      \* sequence of shift offsets, Offsets[1] = 0
          Stride,       \* take every Stride-th pair (1 = all)
          FarBases      \* far sessions: origins as exponents E of 2^E s (0 = no origin); FarBases[1] is where Self / TimeOnly / Sym are observed
VARIABLES c, pc, p1, p2, res

\* values for the cfg files (a cfg cannot write tuples)
QuickBufs == {<<1, 1>>, <<2, 1>>}
QuickOffsets == <<0, 3>>
ThoroughBufs == {<<1, 1>>, <<2, 1>>, <<1, 2>>, <<4, 2>>, <<2, 4>>}
ThoroughOffsets == <<0, 3, 5>>
QuickFarBases == <<27, 0, 22>>
ThoroughFarBases == <<27, 0, 22, 18, 25>>

Cat == Catalogue(FMAXT) \o <<
  G("LineString", <<<<3, 1>>, <<3, 4>>>>),                       \* vertical segment
  G("LineString", <<<<0, 3>>, <<2, 3>>>>),                       \* horizontal segment touching time 0
  G("MultiLineString", <<<<<<1, 3>>, <<2, 3>>>>, <<<<4, 2>>, <<6, 2>>>>>>),
  G("BoundingBox", <<1, 0, 5, 3>>),
  G("TimeInterval", <<1, 5>>),
  \* bent lines (a long shallow stroke then a short steep one; a fall then a slow rise) and a two-part line of mixed slopes
  G("LineString", <<<<0, 1>>, <<3, 2>>, <<4, 4>>>>),
  G("LineString", <<<<1, 4>>, <<2, 1>>, <<6, 2>>>>),
  G("MultiLineString", <<<<<<0, 0>>, <<3, 1>>>>, <<<<4, 4>>, <<5, 1>>>>>>),
  \* a ring of points one tick apart on the border of [1,7] x [1,7]: buffered by one tick their union encloses a hole, in
  \* which box (3,3,5,5) and point (4,4) lie without touching anything
  G("MultiPoint", [k \in 1..24 |-> CASE k <= 6 -> <<k, 1>> [] k <= 12 -> <<7, k - 6>> [] k <= 18 -> <<20 - k, 7>> [] OTHER -> <<1, 26 - k>>]),
  G("Point", <<4, 4>>),
  G("Polygon", <<<<<<1, 1>>, <<2, 3>>, <<4, 2>>>>>>),              \* a ring written unclosed whose LAST vertex is the latest in time
  G("Polygon", <<<<<<3, 3>>, <<5, 1>>, <<1, 2>>>>>>),              \* ... and one whose last vertex is the earliest
  G("BoundingBox", <<3, 3, 5, 5>>),                              \* apart from box (0,0,2,2) on BOTH axes (a diagonal neighbour)
  G("BoundingBox", <<1, 2, 4, 2>>),                              \* a flat box (low = high): zero area, positive duration
  G("TimeInterval", <<6, 6>>),                                   \* a second zero-length interval, at another instant than <<3, 3>>
  G("Point", <<3, 2>>),
  \* regions with interior rings, and geometries strictly inside / across the hole
  G("MultiPolygon", <<<<<<<<0, 0>>, <<6, 0>>, <<6, 8>>, <<0, 8>>, <<0, 0>>>>, <<<<1, 1>>, <<5, 1>>, <<5, 7>>, <<1, 7>>, <<1, 1>>>>>>>>),
  G("MultiPolygon", <<<<<<<<0, 0>>, <<3, 0>>, <<3, 4>>, <<0, 4>>, <<0, 0>>>>, <<<<1, 1>>, <<2, 1>>, <<2, 3>>, <<1, 3>>, <<1, 1>>>>>>,
                      <<<<<<4, 0>>, <<6, 0>>, <<6, 2>>, <<4, 2>>, <<4, 0>>>>>>>>),
  G("BoundingBox", <<2, 2, 4, 6>>),
  G("Polygon", <<<<<<2, 2>>, <<4, 2>>, <<4, 6>>, <<2, 6>>, <<2, 2>>>>>>),
  G("Polygon", <<<<<<0, 0>>, <<6, 0>>, <<6, 8>>, <<0, 8>>, <<0, 0>>>>, <<<<1, 1>>, <<5, 1>>, <<5, 7>>, <<1, 7>>, <<1, 1>>>>>>) >>

Pairs == {<<i, j>> \in (1..Len(Cat)) \X (1..Len(Cat)) : i <= j /\ (i * Len(Cat) + j) % Stride = 0}
Bufs(i, j) == BufPairs \cup (IF Cat[i].type \in AreaKinds /\ Cat[j].type \in AreaKinds THEN {<<0, 0>>} ELSE {})
Cases == {[far |-> FALSE, iso |-> FALSE, i |-> p[1], j |-> p[2], tb |-> b[1], fb |-> b[2]] : p \in Pairs, b \in BufPairs \cup {<<0, 0>>}}
\* "far" sessions: the same catalogue in ticks of 2^-10 s, FarPad ticks after an origin of 2^E s (FarBases, 0 = none):
\* short events far along the time axis.  Only pairs whose result is a closed form (time-only or two boxes) and whose
\* extents are exact, so that every clause stays exact; the common shift is the change of origin.
FarPad == 16
FarOk(i) == ClosedExtent(Cat[i])
FarCases == {[far |-> TRUE, iso |-> FALSE, i |-> p[1], j |-> p[2], tb |-> b[1], fb |-> b[2]] :
                p \in {q \in Pairs : FarOk(q[1]) /\ FarOk(q[2]) /\
                                      (TimeOnlyPair(Cat[q[1]].type, Cat[q[2]].type) \/ BoxPair(Cat[q[1]].type, Cat[q[2]].type))},
                b \in BufPairs}
\* bracketed lines against time-only geometries, at the fine unit (1 ms ticks: the buffer is a few ms, so anything that
\* displaces the buffered shape by a fraction of a ms shows) and at origin 0 only (oblique caps are not exact far away)
BentCases == {[far |-> TRUE, iso |-> FALSE, i |-> p[1], j |-> p[2], tb |-> b[1], fb |-> b[2]] :
                 p \in {q \in Pairs : /\ TimeOnlyPair(Cat[q[1]].type, Cat[q[2]].type)
                                       /\ \E b \in BufPairs : Bracketed(Cat[q[1]], b[1], b[2]) \/ Bracketed(Cat[q[2]], b[1], b[2])},
                 b \in BufPairs}
\* "iso" sessions: their own small catalogue, one numeric unit on both axes, equal buffers; time-only against grown kinds
IsoCat == << G("TimeStamp", 2), G("TimeStamp", 5), G("TimeInterval", <<1, 2>>), G("TimeInterval", <<4, 6>>), G("TimeInterval", <<0, 3>>),
             G("Point", <<1, 2>>), G("Point", <<3, 1>>), G("Point", <<7, 2>>), G("MultiPoint", <<<<0, 0>>, <<2, 4>>>>),
             G("LineString", <<<<3, 2>>, <<6, 2>>>>), G("MultiLineString", <<<<<<1, 3>>, <<2, 3>>>>, <<<<4, 2>>, <<6, 2>>>>>>) >>
IsoCases == {[far |-> FALSE, iso |-> TRUE, i |-> p[1], j |-> p[2], tb |-> b, fb |-> b] :
                p \in {q \in (1..Len(IsoCat)) \X (1..Len(IsoCat)) : q[1] <= q[2] /\ TimeOnlyPair(IsoCat[q[1]].type, IsoCat[q[2]].type)},
                b \in {1, 2}}
IsBent(k) == k.far /\ (~ClosedExtent(Cat[k.i]) \/ ~ClosedExtent(Cat[k.j]))
GA(k) == IF k.iso THEN IsoCat[k.i] ELSE IF k.far THEN Shift(Cat[k.i], FarPad) ELSE Cat[k.i]
GB(k) == IF k.iso THEN IsoCat[k.j] ELSE IF k.far THEN Shift(Cat[k.j], FarPad) ELSE Cat[k.j]
\* where the two geometry objects of a session come from (0 constructed, 1 model_copy(update = coordinates) of a used
\* geometry elsewhere, 2 the same by attribute assignment, 3 deep copy of a used geometry), spread over the sessions.
\* The affinity is a function of the geometries as values: no clause depends on it.
ProvOf(k) == <<(k.i + k.tb) % 4, (k.j + 2 * k.fb + 1) % 4>>
Concrete(k) == IF k.iso THEN [kind |-> "iso", g1 |-> GA(k), g2 |-> GB(k), tb |-> k.tb, fb |-> k.fb, ds |-> Offsets, prov |-> ProvOf(k)]
               ELSE IF k.far
               THEN [kind |-> "far", g1 |-> GA(k), g2 |-> GB(k), tb |-> k.tb, fb |-> k.fb,
                     ds |-> IF IsBent(k) THEN <<0>> ELSE [x \in DOMAIN FarBases |-> 0],
                     bases |-> IF IsBent(k) THEN <<0>> ELSE FarBases, prov |-> ProvOf(k)]
               ELSE [kind |-> "lat", g1 |-> Cat[k.i], g2 |-> Cat[k.j], tb |-> k.tb, fb |-> k.fb, ds |-> Offsets, prov |-> ProvOf(k)]

(* ---- Impl: the dispatch of compute_affinity ---- *)
\* _prepare_geometry: BUFFER_GEOMETRY_TYPES are buffered (TimeStamp -> TimeInterval, the others -> (Multi)Polygon)
ImplBuffered == {"TimeStamp", "Point", "MultiPoint", "LineString", "MultiLineString"}
Prepare(g, tb) ==
    IF g.type \in ImplBuffered
    THEN [type |-> IF g.type = "TimeStamp" THEN "TimeInterval" ELSE "Polygon", src |-> g, grown |-> TRUE]
    ELSE [type |-> g.type, src |-> g, grown |-> FALSE]
PrepExt(p, tb) == IF p.grown THEN Grow(TimeExtent(p.src, FMAXT), tb) ELSE TimeExtent(p.src, FMAXT)
ImplTimeTypes == {"TimeStamp", "TimeInterval"}
Guard(iu) == IF iu[2] = 0 THEN <<0, 1>> ELSE iu
Opaque == <<-1, 1>>            \* an area ratio computed by shapely: not predicted by the model

Init == /\ c \in {k \in Cases : <<k.tb, k.fb>> \in Bufs(k.i, k.j)} \cup FarCases \cup BentCases \cup IsoCases
        /\ pc = "prep1" /\ p1 = <<>> /\ p2 = <<>> /\ res = <<>>
Prep1 == pc = "prep1" /\ p1' = Prepare(GA(c), c.tb) /\ pc' = "prep2" /\ UNCHANGED <<c, p2, res>>
Prep2 == pc = "prep2" /\ p2' = Prepare(GB(c), c.tb) /\ pc' = "branch" /\ UNCHANGED <<c, p1, res>>
Branch == /\ pc = "branch"
          /\ pc' = IF p1.type \in ImplTimeTypes \/ p2.type \in ImplTimeTypes THEN "time" ELSE "area"
          /\ UNCHANGED <<c, p1, p2, res>>
TimeBranch == /\ pc = "time"
              /\ res' = Guard(TimeIoU(PrepExt(p1, c.tb), PrepExt(p2, c.tb)))
              /\ pc' = "done" /\ UNCHANGED <<c, p1, p2>>
AreaBoxes == /\ pc = "area" /\ BoxPair(p1.type, p2.type)
             /\ res' = Guard(BoxIoU(p1.src.coordinates, p2.src.coordinates))
             /\ pc' = "done" /\ UNCHANGED <<c, p1, p2>>
AreaOther == /\ pc = "area" /\ ~BoxPair(p1.type, p2.type)
             /\ res' = Opaque /\ pc' = "done" /\ UNCHANGED <<c, p1, p2>>
Next == Prep1 \/ Prep2 \/ Branch \/ TimeBranch \/ AreaBoxes \/ AreaOther
vars == <<c, pc, p1, p2, res>>
Spec == Init /\ [][Next]_vars /\ WF_vars(Next)

Export == pc = "prep1" => PrintT(<<"CASE", ToJson(Concrete(c))>>)

(* ---- Impl against Req ---- *)
g1 == GA(c)
g2 == GB(c)
Closed == ClosedExtent(g1) /\ ClosedExtent(g2)
ImplTimeOnly == (pc = "done" /\ TimeOnlyPair(g1.type, g2.type)) =>
    LET iu == TimeIoU(PExt(g1, c.tb, 0), PExt(g2, c.tb, 0))          \* the implementation follows reading 0
    IN  res # Opaque /\ (iu[2] > 0 => REq(res, iu)) /\ (iu[2] = 0 => res = <<0, 1>>)
ImplBoxes == (pc = "done" /\ BoxPair(g1.type, g2.type)) =>
    LET iu == BoxIoU(g1.coordinates, g2.coordinates)
    IN  res # Opaque /\ (iu[2] > 0 => REq(res, iu)) /\ (iu[2] = 0 => res = <<0, 1>>)
ImplDispatch == pc = "done" => (res = Opaque <=> (~TimeOnlyPair(g1.type, g2.type) /\ ~BoxPair(g1.type, g2.type)))
ImplRange == (pc = "done" /\ res # Opaque) => (0 <= res[1] /\ res[1] <= res[2] /\ res[2] > 0)
\* every kind that has no area of its own is buffered by the implementation (it must acquire one)
ASSUME ImplBuffersWhatNeedsIt == \A k \in Kinds : (k \in GrownKinds) <=> (k \in ImplBuffered)
Terminates == <>(pc = "done")

(* ---- laws of the closed forms (all readings, all offsets) ---- *)
TIoU(a, b, d, r) == TimeIoU(PExt(Shift(a, d), c.tb, r), PExt(Shift(b, d), c.tb, r))
Ds == Range(Offsets)
LawRange == \A r \in Readings, d \in Ds : LET iu == TIoU(g1, g2, d, r) IN 0 <= iu[1] /\ iu[1] <= iu[2]
LawSym   == \A r \in Readings, d \in Ds : TIoU(g1, g2, d, r) = TIoU(g2, g1, d, r)
LawSelf  == \A r \in Readings : LET iu == TIoU(g1, g1, 0, r) IN iu[1] = iu[2]
LawDisjoint == \A r \in Readings :
    LET x == PExt(g1, c.tb, r)  y == PExt(g2, c.tb, r)
    IN  /\ (x[2] <= y[1] \/ y[2] <= x[1]) => TimeIoU(x, y)[1] = 0
        /\ (TimeIoU(x, y)[1] = 0 /\ x[1] < x[2] /\ y[1] < y[2]) => (x[2] <= y[1] \/ y[2] <= x[1])
LawShift == \A r \in Readings, d \in Ds :                          \* growth is clipped at 0 only: away from 0 extents move rigidly
    (PExt(g1, c.tb, r)[1] > 0 /\ PExt(g2, c.tb, r)[1] > 0) => TIoU(g1, g2, d, r) = TIoU(g1, g2, 0, r)
\* far sessions: no growth is clipped (FarPad > every buffer), so the value does not depend on the origin
LawOriginFree == c.far => \A r \in Readings, d \in {1, 7, 1000, 1000000} :
    /\ PExt(g1, c.tb, r)[1] > 0 /\ PExt(g2, c.tb, r)[1] > 0
    /\ TIoU(g1, g2, d, r) = TIoU(g1, g2, 0, r)
    /\ BoxPair(g1.type, g2.type) => BoxIoU(Shift(g1, d).coordinates, Shift(g2, d).coordinates) = BoxIoU(g1.coordinates, g2.coordinates)
BoxLaws == BoxPair(g1.type, g2.type) =>
    LET a == g1.coordinates  b == g2.coordinates  iu == BoxIoU(a, b) IN
    /\ 0 <= iu[1] /\ iu[1] <= iu[2] /\ iu = BoxIoU(b, a)
    /\ BoxIoU(a, a)[1] = BoxIoU(a, a)[2]
    /\ (a[3] < b[1] \/ b[3] < a[1]) => iu[1] = 0
    /\ \A d \in Ds : BoxIoU(Shift(g1, d).coordinates, Shift(g2, d).coordinates) = iu
    /\ iu[2] <= 32767                                              \* the validator's exact comparison stays in range
RectLaws == RectPair(g1, g2) =>
    LET iu == RectIoU(g1, g2) IN
    /\ 0 <= iu[1] /\ iu[1] <= iu[2] /\ iu = RectIoU(g2, g1) /\ iu[2] <= 32767
    /\ RectIoU(g1, g1)[1] = RectIoU(g1, g1)[2] /\ RectArea(g1) >= 0
    /\ BoxPair(g1.type, g2.type) => iu = BoxIoU(g1.coordinates, g2.coordinates)
    /\ \A d \in Ds : RectIoU(Shift(g1, d), Shift(g2, d)) = iu
    \* a box strictly inside an interior ring does not intersect the region
    /\ (g1.type = "BoundingBox" /\ \E h \in Range(Holes(g2)) :
            h[1] < g1.coordinates[1] /\ g1.coordinates[3] < h[3] /\ h[2] < g1.coordinates[2] /\ g1.coordinates[4] < h[4]) => iu[1] = 0
\* the catalogue does contain a region with a hole and a box strictly inside it (and one across it)
ASSUME HoleCasesPresent ==
    \E i, j \in 1..Len(Cat) : /\ Cat[i].type = "BoundingBox" /\ Cat[j].type = "MultiPolygon" /\ Holes(Cat[j]) # <<>>
                               /\ RectPair(Cat[i], Cat[j]) /\ RectIoU(Cat[i], Cat[j])[1] = 0
                               /\ TimeIoU(TimeExtent(Cat[i], FMAXT), TimeExtent(Cat[j], FMAXT))[1] > 0
\* the bracket is an interval of admissible values around the closed form with exact end caps
LawBracket == \A r \in Readings :
    LET A == PExt128(g1, c.tb, c.fb, r)  B == PExt128(g2, c.tb, c.fb, r) IN
    /\ A[1][1] <= A[2][1] /\ A[2][2] <= A[1][2] /\ B[1][1] <= B[2][1] /\ B[2][2] <= B[1][2]
    /\ Inter1(A[2], B[2]) <= Inter1(A[1], B[1])
    /\ Len1(A[1]) + Len1(B[1]) <= 32000
ASSUME BentLinesPresent == \E i \in 1..Len(Cat) : Cat[i].type = "LineString" /\ Len(Cat[i].coordinates) >= 3 /\ Bracketed(Cat[i], 1, 1)
\* the catalogue has a ring of points enclosing a box and a point, separate from them although they overlap in time
ASSUME RingPresent == \E i, j, k \in 1..Len(Cat) :
    /\ Cat[i].type = "MultiPoint" /\ Cat[j].type = "BoundingBox" /\ Cat[k].type = "Point"
    /\ Separate(Cat[i], Cat[j], 1, 1) /\ Separate(Cat[i], Cat[k], 1, 1)
    /\ LET r == Bounds(Cat[i], FMAXT)  b == Cat[j].coordinates  p == Cat[k].coordinates
       IN  r[1] < b[1] /\ b[3] < r[3] /\ r[2] < b[2] /\ b[4] < r[4] /\ r[1] < p[1] /\ p[1] < r[3] /\ r[2] < p[2] /\ p[2] < r[4]
LawSeparateSym == Separate(g1, g2, c.tb, c.fb) = Separate(g2, g1, c.tb, c.fb)
\* the iso catalogue has two kinds with one coordinate list
ASSUME IsoTwinsPresent == \E i, j \in 1..Len(IsoCat) : IsoCat[i].type = "TimeInterval" /\ IsoCat[j].type = "Point" /\ IsoCat[i].coordinates = IsoCat[j].coordinates
\* some catalogue pair overlaps ONLY through the buffer (the raw point lies outside the box)
ASSUME BufferOnlyOverlapPresent == \E i, j \in 1..Len(Cat) :
    /\ Cat[i].type = "Point" /\ Cat[j].type = "BoundingBox" /\ Overlapping(Cat[i], Cat[j], 2, 1)
    /\ Gap1(Cat[j].coordinates[1], Cat[j].coordinates[3], Cat[i].coordinates[1]) > 0
LawOverlapNotSeparate == ~(Overlapping(g1, g2, c.tb, c.fb) /\ Separate(g1, g2, c.tb, c.fb))
ExtentsInRange == \A r \in Readings, d \in Ds : TIoU(g1, g2, d, r)[2] <= 32767
=============================================================================
