---------------------------- MODULE GeomFeatures ----------------------------
(***************************************************************************)
(* C05 -- bounds, geometric features and anchor points agree with the      *)
(* coordinates.                                                            *)
(*                                                                         *)
(* Geometries are GeomModel records [type, coordinates] on an integer      *)
(* lattice (time ticks of the binder's dyadic time unit, frequency ticks   *)
(* of 1000 Hz, FMAXT = MAX_FREQUENCY).  Anchor points are in DOUBLED ticks *)
(* so that midpoints stay integral.                                        *)
(***************************************************************************)
EXTENDS GeomModel

FMAXT  == 5000        \* MAX_FREQUENCY in frequency ticks
HZ     == 1000        \* hertz per frequency tick (centroid / point-on-surface frequencies are observed in Hz)
MultiKinds   == {"MultiPoint", "MultiLineString", "MultiPolygon"}
MemberKind(k) == CASE k = "MultiPoint" -> "Point" [] k = "MultiLineString" -> "LineString" [] k = "MultiPolygon" -> "Polygon" [] OTHER -> ""
GeoJsonKinds == {"Point", "LineString", "Polygon", "MultiPoint", "MultiLineString", "MultiPolygon"}

(* ------------------------------- Req ------------------------------------ *)
\* <<start, low, end, high>>: min/max over the coordinates; time-only kinds span the full band
B2(g, fm) == Bounds(g, fm)             \* fm = MAX_FREQUENCY in the frequency ticks of the case
B(g) == B2(g, FMAXT)

\* the features and the values the statement gives them
FeatOf(g, b) == [duration |-> b[3] - b[1], low_freq |-> b[2], high_freq |-> b[4], bandwidth |-> b[4] - b[2], num_segments |-> NumParts(g)]
Feat(g) == FeatOf(g, B(g))
FeatNames == {"duration", "low_freq", "high_freq", "bandwidth", "num_segments"}
\* which features must be reported (others may be: then they must be right)
Required(g) == {"duration"}
               \cup (IF g.type \in TimeOnlyKinds THEN {} ELSE {"low_freq", "high_freq", "bandwidth"})
               \cup (IF g.type \in MultiKinds THEN {"num_segments"} ELSE {})

\* the nine named positions, "<frequency selector>-<time selector>" ("center" = both centres)
Positions == <<"bottom-left", "bottom-right", "top-left", "top-right",
               "center-left", "center-right", "top-center", "bottom-center", "center">>
Sel(pos) == CASE pos = "bottom-left"   -> <<"bottom", "left">>
              [] pos = "bottom-right"  -> <<"bottom", "right">>
              [] pos = "top-left"      -> <<"top", "left">>
              [] pos = "top-right"     -> <<"top", "right">>
              [] pos = "center-left"   -> <<"center", "left">>       \* midpoint of the left edge
              [] pos = "center-right"  -> <<"center", "right">>      \* midpoint of the right edge
              [] pos = "top-center"    -> <<"top", "center">>        \* midpoint of the top edge
              [] pos = "bottom-center" -> <<"bottom", "center">>     \* midpoint of the bottom edge
              [] pos = "center"        -> <<"center", "center">>
TimeSel2(b, x) == CASE x = "left" -> 2 * b[1] [] x = "right" -> 2 * b[3] [] x = "center" -> b[1] + b[3]
FreqSel2(b, y) == CASE y = "bottom" -> 2 * b[2] [] y = "top" -> 2 * b[4] [] y = "center" -> b[2] + b[4]
\* <<2*time, 2*frequency>> of a named position
AnchorOf(b, pos) == <<TimeSel2(b, Sel(pos)[2]), FreqSel2(b, Sel(pos)[1])>>         \* from the bounds b
Anchor2(g, pos)  == AnchorOf(B(g), pos)

(* A converted shape, in one uniform encoding for every shapely kind:      *)
(*   [kind |-> shapely geom_type, parts |-> <<part, ...>>], part = <<path, ...>>, path = <<<<t, f>>, ...>> *)
(*   Point: one part, one path, one vertex.  LineString: one part, one path.  Polygon: one part,        *)
(*   paths = exterior, holes...  Multi*: one part per member.                                            *)
PathVerts(p)   == Range(p)
ShapeVerts(sh) == UNION {UNION {PathVerts(sh.parts[i][j]) : j \in DOMAIN sh.parts[i]} : i \in DOMAIN sh.parts}
\* a ring as a closed curve: closing repetitions of the first point do not count, nor do start point and direction
Strip(r) == SubSeq(r, 1, SetMax({j \in 1..Len(r) : j = 1 \/ r[j] # r[1]}))
SameRing(a, b) ==
    /\ Len(a) >= 1 /\ Len(b) >= 1
    /\ LET x == Strip(a)  y == Strip(b)  n == Len(x) IN
       /\ Len(y) = n
       /\ \E k \in 0..(n - 1) : \/ \A i \in 1..n : x[i] = y[((k + (i - 1)) % n) + 1]
                                \/ \A i \in 1..n : x[i] = y[((k + n - (i - 1)) % n) + 1]
\* what the conversion of g must preserve
ShapePreserves(g, sh) ==
    LET c == g.coordinates IN
    CASE g.type = "TimeStamp"    -> {v[1] : v \in ShapeVerts(sh)} = {c}
      [] g.type = "TimeInterval" -> {v[1] : v \in ShapeVerts(sh)} = {c[1], c[2]}
      [] g.type = "BoundingBox"  -> ShapeVerts(sh) = {<<c[1], c[2]>>, <<c[1], c[4]>>, <<c[3], c[2]>>, <<c[3], c[4]>>}
      [] g.type = "Point"        -> sh.parts = << << <<c>> >> >>
      [] g.type = "LineString"   -> sh.parts = << <<c>> >>
      [] g.type = "MultiPoint"   -> sh.parts = [i \in DOMAIN c |-> << <<c[i]>> >>]
      [] g.type = "MultiLineString" -> sh.parts = [i \in DOMAIN c |-> <<c[i]>>]
      [] g.type = "Polygon"      -> /\ Len(sh.parts) = 1 /\ Len(sh.parts[1]) = Len(c)
                                    /\ \A j \in DOMAIN c : SameRing(sh.parts[1][j], c[j])
      [] g.type = "MultiPolygon" -> /\ Len(sh.parts) = Len(c)
                                    /\ \A i \in DOMAIN c : /\ Len(sh.parts[i]) = Len(c[i])
                                                           /\ \A j \in DOMAIN c[i] : SameRing(sh.parts[i][j], c[i][j])

(* ------------------- Impl: the four code paths as written ------------------- *)
\* shapely closes a ring that is open (or has fewer than 4 coordinates) by repeating its first point
Close(r) == IF r[1] = r[Len(r)] /\ Len(r) >= 4 THEN r ELSE Append(r, r[1])
\* shapely.geometry.box(minx, miny, maxx, maxy): counter-clockwise from (maxx, miny)
BoxRing(s, l, e, h) == Close(<<<<e, l>>, <<e, h>>, <<s, h>>, <<s, l>>>>)
\* conversion.py: one function per type
ImplShape2(g, fm) ==
    LET c == g.coordinates IN
    CASE g.type = "TimeStamp"    -> [kind |-> "LineString", parts |-> << << <<<<c, 0>>, <<c, fm>>>> >> >>]
      [] g.type = "TimeInterval" -> [kind |-> "Polygon", parts |-> << <<BoxRing(c[1], 0, c[2], fm)>> >>]
      [] g.type = "BoundingBox"  -> [kind |-> "Polygon", parts |-> << <<BoxRing(c[1], c[2], c[3], c[4])>> >>]
      [] g.type = "Point"        -> [kind |-> "Point", parts |-> << << <<c>> >> >>]
      [] g.type = "LineString"   -> [kind |-> "LineString", parts |-> << <<c>> >>]
      [] g.type = "Polygon"      -> [kind |-> "Polygon", parts |-> <<[j \in DOMAIN c |-> Close(c[j])]>>]       \* shell = c[0], holes = c[1:]
      [] g.type = "MultiPoint"   -> [kind |-> "MultiPoint", parts |-> [i \in DOMAIN c |-> << <<c[i]>> >>]]
      [] g.type = "MultiLineString" -> [kind |-> "MultiLineString", parts |-> [i \in DOMAIN c |-> <<c[i]>>]]
      [] g.type = "MultiPolygon" -> [kind |-> "MultiPolygon", parts |-> [i \in DOMAIN c |-> [j \in DOMAIN c[i] |-> Close(c[i][j])]]]
ImplShape(g) == ImplShape2(g, FMAXT)
\* operations.compute_bounds: the bounds of the converted shape; shapely takes a polygon's envelope from its SHELL
EnvVerts(sh) == IF sh.kind \in {"Polygon", "MultiPolygon"}
                THEN UNION {PathVerts(sh.parts[i][1]) : i \in DOMAIN sh.parts}
                ELSE ShapeVerts(sh)
ImplBounds(sh) == LET V == EnvVerts(sh)  T == {v[1] : v \in V}  F == {v[2] : v \in V}
                  IN  <<SetMin(T), SetMin(F), SetMax(T), SetMax(F)>>
\* features.py: _COMPUTE_FEATURES, one function per type; a feature is <<name, value>>
ImplFeat(g, sb) ==         \* sb = bounds of the converted shape
    LET c == g.coordinates
        four(d, lo, hi, bw) == <<<<"duration", d>>, <<"low_freq", lo>>, <<"high_freq", hi>>, <<"bandwidth", bw>>>>
    IN
    CASE g.type = "TimeStamp"    -> <<<<"duration", 0>>>>
      [] g.type = "TimeInterval" -> <<<<"duration", c[2] - c[1]>>>>
      [] g.type = "BoundingBox"  -> four(c[3] - c[1], c[2], c[4], c[4] - c[2])                  \* straight from the coordinates
      [] g.type = "Point"        -> four(0, sb[2], sb[4], 0)
      [] g.type \in {"LineString", "Polygon"} -> four(sb[3] - sb[1], sb[2], sb[4], sb[4] - sb[2])
      [] g.type \in MultiKinds   -> Append(four(sb[3] - sb[1], sb[2], sb[4], sb[4] - sb[2]), <<"num_segments", NumParts(g)>>)
\* operations.get_geometry_point: "center" is special-cased, otherwise  y, x = position.split("-")
ImplAnchor2(pos, sb) ==
    IF pos = "center" THEN <<sb[1] + sb[3], sb[2] + sb[4]>>
    ELSE LET y == Sel(pos)[1]  x == Sel(pos)[2]                                               \* Sel = the split of the name
         IN  <<CASE x = "left" -> 2 * sb[1] [] x = "center" -> sb[1] + sb[3] [] x = "right" -> 2 * sb[3],
               CASE y = "bottom" -> 2 * sb[2] [] y = "center" -> sb[2] + sb[4] [] y = "top" -> 2 * sb[4]>>

(***************************************************************************)
(* Acceptance of one observation.  A case is a HISTORY: o.in.gs is a short *)
(* sequence of geometries converted one after the other in ONE process     *)
(* (most histories have length 1; the others are regroupings of one vertex *)
(* sequence -- same type, same flattened numbers, different nesting), and  *)
(* o.out.steps[i].runs is what was observed for o.in.gs[i].  Every clause  *)
(* must hold at every step: nothing may be carried over from an earlier    *)
(* conversion.  runs is a sequence, one record per exact time unit:        *)
(*  [bounds: <<s,l,e,h>> ticks, shape: [kind, parts], stype: [tname: class *)
(*   name, pkinds: <<<<geom_type, class name>> of each member>>],           *)
(*                        *)
(*   feat: <<[name, unit, dup: BOOLEAN, v: ticks], ...>> (known terms),    *)
(*   anchors: <<<<2t, 2f>>, ...>> in the order of Positions,               *)
(*   centroid, surface: <<limbs(time in ticks), limbs(frequency in Hz)>>,  *)
(*   raised: <<"function:Exception", ...>> (a call that raised leaves a    *)
(*   fixed-shape placeholder in its field)]                                *)
(* Off-lattice values arrive as the integer -777777 (never an expected one)*)
(***************************************************************************)
(***************************************************************************)
(* DECIMAL cases.  On the dyadic lattice every double is a tick and the    *)
(* clauses above are exact.  Coordinates such as 0.3 s or 1234.56 Hz are   *)
(* no ticks of a dyadic unit; for them a case carries o.in.dec = <<[tq,    *)
(* fq]>> (time = tick / tq seconds, frequency = tick / fq hertz, one       *)
(* correctly rounded division each) and o.out.steps[i].dec = <<d>> with    *)
(*   d.tmap, d.fmap : <<<<tick, float.hex() of the double handed in>>..>>  *)
(*   d.bhex, d.blimbs : compute_bounds as hex strings / limb numbers       *)
(*   d.ahex, d.alimbs : the nine named positions, <<time, frequency>> each *)
(* What is demanded: the bounds ARE four of the coordinates' doubles; a    *)
(* corner / edge coordinate of a named position IS a bound (the same       *)
(* double: no rounding can excuse a difference); a midpoint lies within    *)
(* the bounds and within 2^-32 / q of the exact rational midpoint.         *)
(***************************************************************************)
FMAXHZ  == 5000000
HexZero == "0x0.0p+0"
HexFmax == "0x1.312d000000000p+22"                  \* float(5000000).hex()
Lookup(map, k) == IF \E i \in DOMAIN map : map[i][1] = k THEN map[CHOOSE i \in DOMAIN map : map[i][1] = k][2] ELSE "?"
DecFm(dc) == FMAXHZ * dc.fq                          \* MAX_FREQUENCY in the case's frequency ticks
DecClauses == {"DecNoRaise", "DecBoundsExact", "CornerIsBound", "MidpointInside", "MidpointNear"}
HoldsD(cl, g, dc, d) ==
    LET b == B2(g, DecFm(dc))
        HexT(k) == Lookup(d.tmap, k)
        HexF(k) == IF g.type \in TimeOnlyKinds THEN (IF k = 0 THEN HexZero ELSE HexFmax) ELSE Lookup(d.fmap, k)
        sel(i)  == Sel(Positions[i])                 \* <<frequency selector, time selector>>
    IN
    CASE cl = "DecNoRaise"     -> d.raised = <<>>
      [] cl = "DecBoundsExact" -> d.bhex = <<HexT(b[1]), HexF(b[2]), HexT(b[3]), HexF(b[4])>>
      [] cl = "CornerIsBound"  -> /\ Len(d.ahex) = Len(Positions)
                                  /\ \A i \in DOMAIN Positions :
                                        /\ sel(i)[2] = "left"   => d.ahex[i][1] = d.bhex[1]
                                        /\ sel(i)[2] = "right"  => d.ahex[i][1] = d.bhex[3]
                                        /\ sel(i)[1] = "bottom" => d.ahex[i][2] = d.bhex[2]
                                        /\ sel(i)[1] = "top"    => d.ahex[i][2] = d.bhex[4]
      [] cl = "MidpointInside" -> /\ Len(d.alimbs) = Len(Positions)
                                  /\ \A i \in DOMAIN Positions :
                                        /\ sel(i)[2] = "center" => LLe(d.blimbs[1], d.alimbs[i][1]) /\ LLe(d.alimbs[i][1], d.blimbs[3])
                                        /\ sel(i)[1] = "center" => LLe(d.blimbs[2], d.alimbs[i][2]) /\ LLe(d.alimbs[i][2], d.blimbs[4])
      [] cl = "MidpointNear"   -> /\ Len(d.alimbs) = Len(Positions)
                                  /\ \A i \in DOMAIN Positions :
                                        /\ sel(i)[2] = "center" => LFinite(d.alimbs[i][1]) /\ LApproxRat(d.alimbs[i][1], b[1] + b[3], 2 * dc.tq)
                                        /\ sel(i)[1] = "center" => LFinite(d.alimbs[i][2]) /\ LApproxRat(d.alimbs[i][2], b[2] + b[4], 2 * dc.fq)

Clauses == DecClauses \cup {"NoRaise", "BoundsExact", "ShapelyKind", "ShapelyCoords", "FeaturesPresent", "FeatureValues",
            "AnchorExact", "CentroidInside", "SurfaceInside",
            "Drift/Shape", "Drift/Features"}   \* not verdicts: the code still is what Impl transcribes (reported as MODEL-DRIFT)
Inside(p, b) == LIn(p[1], b[1], b[3]) /\ LIn(p[2], b[2] * HZ, b[4] * HZ)
HoldsG(cl, g, R) ==
    LET b == B(g) IN
    \A u \in DOMAIN R :
      LET r == R[u] IN
      CASE cl = "NoRaise"       -> r.raised = <<>>            \* "for every geometry ... returns": none of the four functions raises
        [] cl = "BoundsExact"   -> r.bounds = b
        \* the kind is preserved where the geometry has a shapely namesake
        \* and exactly so: geom_type and class name say the kind's name, every member of a collection the member kind's name
        [] cl = "ShapelyKind"   -> g.type \in GeoJsonKinds =>
                                     /\ r.shape.kind = g.type /\ r.stype.tname = g.type
                                     /\ IF g.type \in MultiKinds
                                        THEN /\ Len(r.stype.pkinds) = NumParts(g)
                                             /\ \A i \in DOMAIN r.stype.pkinds : r.stype.pkinds[i] = <<MemberKind(g.type), MemberKind(g.type)>>
                                        ELSE r.stype.pkinds = <<>>
        [] cl = "ShapelyCoords" -> ShapePreserves(g, r.shape)
        [] cl = "FeaturesPresent" -> \A n \in Required(g) : \E i \in DOMAIN r.feat : r.feat[i].name = n
        [] cl = "FeatureValues" -> \A i \in DOMAIN r.feat : r.feat[i].name \in FeatNames => r.feat[i].v = FeatOf(g, b)[r.feat[i].name]
        [] cl = "AnchorExact"   -> Len(r.anchors) = Len(Positions) /\ \A i \in DOMAIN Positions : r.anchors[i] = AnchorOf(b, Positions[i])
        [] cl = "Drift/Shape"    -> r.shape = ImplShape(g)                 \* same shapely kind, same vertex sequences incl. closure
        [] cl = "Drift/Features" -> [i \in DOMAIN r.feat |-> <<r.feat[i].name, r.feat[i].v>>] = ImplFeat(g, b)
        [] cl = "CentroidInside" -> Inside(r.centroid, b)
        [] cl = "SurfaceInside"  -> Inside(r.surface, b)
Holds(cl, o) == /\ Len(o.out.steps) = Len(o.in.gs)
                /\ \A i \in DOMAIN o.in.gs :
                      IF cl \in DecClauses
                      THEN \A j \in DOMAIN o.out.steps[i].dec : HoldsD(cl, o.in.gs[i], o.in.dec[1], o.out.steps[i].dec[j])
                      ELSE HoldsG(cl, o.in.gs[i], o.out.steps[i].runs)
=============================================================================
