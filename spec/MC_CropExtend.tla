---------------------------- MODULE MC_CropExtend ----------------------------
(***************************************************************************)
(* C17: crop_dim, extend_dim and adjust_dim_width as state machines (Impl) *)
(* model-checked against Req (CropExtend) on the quarter-step lattice.     *)
(*                                                                         *)
(* Two things the real code does in floating point are made explicit:      *)
(*  eps    the open-end epsilon (1e-5) is an infinitesimal: positions are  *)
(*         doubled (X = 2 * quarter steps, coordinates at 8*j) and eps = 1 *)
(*         (quantifier: steps are large against eps);                      *)
(*  arange np.arange(x, y, d) has ceil((y - x)/d) elements, computed in    *)
(*         floating point.  When the quotient is nominally a whole number  *)
(*         q and the step is not representable it comes out as q or q+1    *)
(*         (ArangeLens).                                                   *)
(*                                                                         *)
(* Algo = "arange_float" is extend_dim_width as found:                     *)
(*      arange(end + s, end + s + extra*s, s)   -> extra or extra + 1      *)
(*   history/MC_CropExtend_prefix.cfg: TLC violates ImplExactlyWidth (F14) *)
(* Algo = "arange_int" is the repaired algorithm:                          *)
(*      end + s * arange(1, extra + 1)          -> exactly extra           *)
(* extend_dim keeps float arange; there the extra point is the lattice     *)
(* point nominally AT an open end, which Req accepts (boundary guard) as    *)
(* long as the double produced is strictly inside the interval.            *)
(* ExtFilter = FALSE is extend_dim as found: the point is kept even when it *)
(* equals or exceeds the open end (history/MC_CropExtend_openend.cfg);      *)
(* ExtFilter = TRUE is the repaired code (new coordinates filtered).        *)
(***************************************************************************)
EXTENDS CropExtend, TLC, Json
CONSTANTS NU, NS,     \* first NU units / NS starts of the lists
          MaxN,       \* axis lengths 1..MaxN for adjust_dim_width
          CropN,      \* axis lengths 1..CropN for crop_dim
          Sub,        \* interval ends on multiples of Sub quarter steps (1: quarters, 2: halves)
          Ext,        \* extension up to Ext quarter steps beyond either end
          ExtNs,      \* axis lengths used for extend_dim
          ChainNU, ChainNs,   \* units / axis lengths for chains of two operations
          Algo,
          ExtFilter,  \* extend_dim drops generated coordinates that are not strictly inside (start, stop)  [repaired] / keeps them [as found]
          CoordDtype, \* extend_dim builds the new coordinates with the dtype of the "axis" [the code] / of the "data" [history: seeded defect r7sb2]
          StopDefault,\* extend_dim with stop omitted: "last" = the last coordinate [the code] / "next" = last + step [history: seeded defect r8sb1]
          FillBy,     \* extend_dim: "reindex" = reindex(fill_value=...) [the code] / "fillna" = reindex().fillna(...) [history: seeded defect r4sb1]
          LenBy,      \* crop_dim_width centre offset from "sizes" = array.sizes[dim] [the code] / "len" = len(array) [history: seeded defect r4sb2]
          RangeFrom   \* get_dim_range: "index" = min / max of the coordinates [the code]
                      \*                "attrs" = the start/stop attributes when present [history: seeded defect r2sb1]
VARIABLES c, pc, r
vars == <<c, pc, r>>

UnitList  == << <<1, 1>>, <<1, 10>>, <<1, 4>>, <<1, 3>>, <<1, 100>>, <<1, 44100>>, <<2, 1>>, <<1, 2>>, <<250, 1>>, <<1, 8>> >>
StartList == <<0, 14, -8, 4>>
Units  == {UnitList[k] : k \in 1..NU}
IvUnits == {u \in Units : u[2] <= 1000}       \* crop/extend use eps = 1e-5: the step must be large against it
Starts == {StartList[k] : k \in 1..NS}
OnSub(x) == x % Sub = 0

CropCases == {x \in [kind : {"crop"}, s : IvUnits, a4 : Starts, n : 1..CropN, ms : 0..(4 * CropN), me : 0..(4 * CropN),
                     lc : BOOLEAN, rc : BOOLEAN] :
                /\ x.ms <= x.me /\ x.me <= 4 * (x.n - 1) /\ OnSub(x.ms) /\ OnSub(x.me)}
ExtendCases == {x \in [kind : {"extend"}, s : IvUnits, a4 : Starts, n : ExtNs, src : {"attr", "est"},
                       ms : (-Ext)..0, de : 0..Ext, lc : BOOLEAN, rc : BOOLEAN] :
                /\ OnSub(x.ms) /\ OnSub(x.de)
                /\ (x.src = "est" => x.n >= 2)                              \* a step can only be estimated from >= 2 points
                /\ (~x.lc => x.ms < 0) /\ (~x.rc => x.de > 0)}             \* the interval contains the axis
\* sv: which original samples hold NaN (1), +inf (2), -inf (3) instead of a number (0)
Zeros == <<0, 0, 0, 0, 0, 0, 0, 0, 0, 0, 0, 0>>
SvPatterns(n) == {<<1>> \o SubSeq(Zeros, 1, n - 1), <<3>> \o SubSeq(Zeros, 1, n - 1)}
                 \cup (IF n >= 2 THEN {<<2>> \o SubSeq(Zeros, 1, n - 2) \o <<1>>} ELSE {})
MkExtendSv(x, sv) == [kind |-> "extend", s |-> x.s, a4 |-> x.a4, n |-> x.n, src |-> x.src, ms |-> x.ms, me |-> 4 * (x.n - 1) + x.de,
                      lc |-> x.lc, rc |-> x.rc, fill |-> IF x.rc THEN -7 ELSE 0, sv |-> sv]
MkExtend(x) == MkExtendSv(x, SubSeq(Zeros, 1, x.n))
\* non-numeric originals on a sub-universe: first two units, first start, step attribute, ends on whole steps
\* start and / or stop omitted (sn, en): that side of the requested interval is the axis end itself
MkExtendNone(x, sn, en) == [MkExtend(x) EXCEPT !.ms = IF sn THEN 0 ELSE x.ms, !.me = IF en THEN 4 * (x.n - 1) ELSE 4 * (x.n - 1) + x.de] @@ [sn |-> sn, en |-> en]
ExtendNoneCases == {MkExtendNone(x, sn, en) : x \in {y \in ExtendCases : y.s \in {UnitList[1], UnitList[2], UnitList[3]} /\ y.a4 = StartList[1] /\ y.src = "attr"},
                                              sn \in BOOLEAN, en \in BOOLEAN}
ExtendNoneOK(c0) == (c0.sn \/ c0.en)
ExtendNanOK(x) == x.s \in {UnitList[1], UnitList[2]} /\ x.a4 = StartList[1] /\ x.src = "attr" /\ x.ms % 4 = 0 /\ x.de % 4 = 0
\* od = 0: a 1-D array.  od > 0: a 2-D array whose other dimension has od samples; ax = 1 / 2: the operated dimension is the
\* first / second one (the time axis of a frequency x time spectrogram is the second)
WidthCases == {x \in [kind : {"width"}, fn : {"adjust", "direct"}, s : Units, a4 : Starts, n : 1..MaxN, src : {"attr", "est"},
                      w : 1..(2 * MaxN + 3), pos : {"start", "center", "end"}, od : {0, 2, 9}, ax : {1, 2}] :
                /\ (x.od = 0 => x.ax = 1)
                /\ (x.od > 0 => x.s = UnitList[1] /\ x.a4 = StartList[1] /\ x.src = "attr")      \* 2-D arrays: a sub-universe
                /\ x.w <= 2 * x.n + 3
                /\ (x.src = "est" => x.n >= 2)
                /\ (x.fn = "direct" => x.w # x.n /\ x.a4 = 0)}             \* crop_dim_width / extend_dim_width called directly

(* ---- histories: two operations on the same data (uniform operation records, see CropExtend!ApplyOp) ---- *)
OpE(ms, me, lc, rc) == [op |-> "extend", ms |-> ms, me |-> me, lc |-> lc, rc |-> rc, w |-> 0, pos |-> ""]
OpC(ms, me, lc, rc) == [op |-> "crop",   ms |-> ms, me |-> me, lc |-> lc, rc |-> rc, w |-> 0, pos |-> ""]
OpW(w, pos)         == [op |-> "width",  ms |-> 0, me |-> 0, lc |-> TRUE, rc |-> TRUE, w |-> w, pos |-> pos]
LastQ(n) == 4 * (n - 1)
\* extend, then extend further out (the lower end moves by dl, the upper by dr); the second interval contains the first result
ChainEE(n) == {<<OpE(ms1, LastQ(n) + de1, lc1, TRUE), OpE(ms1 - dl, LastQ(n) + de1 + dr, lc2, TRUE)>> :
                 ms1 \in {-4, -2, 0}, lc1 \in BOOLEAN, de1 \in {0, 2}, dl \in {0, 2, 4, 6}, lc2 \in BOOLEAN, dr \in {0, 4}}
ChainEEOK(o) == (~o[1].lc => o[1].ms < 0) /\ (o[2].ms = o[1].ms => o[2].lc)
\* extend, then crop inside what the extension certainly produced; crop ends are original coordinates or off-lattice
ChainEC(n) == {<<OpE(ms1, LastQ(n) + de1, TRUE, TRUE), OpC(ms2, me2, lc2, rc2)>> :
                 ms1 \in {-6, -4}, de1 \in {2, 4}, ms2 \in {-2, 0, 2}, me2 \in {LastQ(n) - 2, LastQ(n), LastQ(n) + 2},
                 lc2 \in BOOLEAN, rc2 \in BOOLEAN}
ChainECOK(o) == /\ o[2].ms <= o[2].me /\ o[2].ms >= 4 * ExtLo(o[1].ms, TRUE) /\ o[2].me <= 4 * ExtHi(o[1].me, TRUE)
                /\ (o[2].lc = o[2].rc)
\* crop (non-empty), then extend over an interval that contains what was kept: the cropped samples come back as fill
ChainCE(n) == {<<OpC(ms1, me1, lc1, ~lc1), OpE(ms1 - dl, me1 + dr, c2, c2)>> :
                 ms1 \in {x \in 0..LastQ(n) : x % 2 = 0}, me1 \in {x \in 0..LastQ(n) : x % 2 = 0},
                 lc1 \in BOOLEAN, dl \in {0, 4}, dr \in {0, 4}, c2 \in BOOLEAN}
ChainCEOK(n, o) == /\ o[1].ms <= o[1].me /\ CropIdx(n, o[1].ms, o[1].me, o[1].lc, o[1].rc) # {}
                   /\ (o[2].ms = o[1].ms => (o[2].lc \/ ~o[1].lc \/ o[1].ms % 4 # 0))
                   /\ (o[2].me = o[1].me => (o[2].rc \/ ~o[1].rc \/ o[1].me % 4 # 0))
\* extend, then adjust_dim_width
ChainEW(n) == {<<OpE(ms1, LastQ(n) + de1, lc1, TRUE), OpW(w, pos)>> :
                 ms1 \in {-4, -2, 0}, lc1 \in BOOLEAN, de1 \in {0, 2}, w \in {1, n + 1, n + 2, n + 4}, pos \in {"start", "center", "end"}}
Chains(n) == {o \in ChainEE(n) : ChainEEOK(o)} \cup {o \in ChainEC(n) : ChainECOK(o)}
             \cup {o \in ChainCE(n) : ChainCEOK(n, o)} \cup {o \in ChainEW(n) : ~o[1].lc => o[1].ms < 0}
ChainUnits == {UnitList[k] : k \in 1..ChainNU}
ChainCases == UNION {{[kind |-> "chain", s |-> s, a4 |-> a4, n |-> n, src |-> "attr", fill |-> IF o[2].lc THEN 0 ELSE -7, ops |-> o] :
                        o \in Chains(n)} : s \in ChainUnits, a4 \in Starts, n \in ChainNs}

R0 == [lost |-> FALSE, step |-> 1, lo |-> 0, hi |-> -1, bad |-> FALSE, ha |-> FALSE, at0 |-> 0, at1 |-> 0,
       set |-> {}, nl |-> 0, nr |-> 0, off |-> 0, len |-> 0, lrel |-> "none", rrel |-> "none"]
\* every surplus / deficit 0..12 (all residues mod 4) for the three positions: short axes widened, a 14-sample axis narrowed
SurplusCases == {[kind |-> "width", fn |-> "adjust", s |-> UnitList[u], a4 |-> StartList[1], n |-> n, src |-> "attr", w |-> w, pos |-> pos, od |-> 0, ax |-> 1] :
                   u \in 1..2, n \in {2, 5, 14}, w \in 2..17, pos \in {"start", "center", "end"}}
SurplusOK(x) == IF x.n = 14 THEN x.w <= 14 ELSE x.w >= x.n /\ x.w <= x.n + 12
\* dtype of the samples (dd) and of the axis (ad), independent of each other.  Everything above runs on float64 / float64;
\* the other combinations on a strided subset: first two units (integer axes: the first), first start, step attribute.
\* (fills must be representable in the sample dtype: 0)
DtypeVars(s) == {<<d, "f8">> : d \in {"i2", "i4", "u1", "f4", "b1"}}
                \cup (IF s = UnitList[1] THEN {<<"f8", "f4">>, <<"f8", "i8">>, <<"i2", "i8">>, <<"u1", "i8">>} ELSE {})
DtypeSub(x) == /\ x.s \in {UnitList[1], UnitList[2]} /\ x.a4 = StartList[1]
               /\ CASE x.kind = "crop"   -> x.n = 3
                    [] x.kind = "extend" -> x.n = 2 /\ x.src = "attr" /\ x.lc # x.rc
                    [] x.kind = "width"  -> x.n \in {2, 3} /\ x.src = "attr" /\ x.fn = "adjust" /\ x.od = 0
                    [] OTHER -> FALSE
Typed(x, dd, ad) == x @@ [dd |-> dd, ad |-> ad]
Plain(x) == Typed(x, "f8", "f8")
Base == CropCases \cup {MkExtend(x) : x \in ExtendCases} \cup WidthCases
Init == /\ pc = "start"
        /\ \/ \E x \in Base : c = Plain(x)
           \/ \E x \in {y \in ExtendCases : ExtendNanOK(y)} : \E sv \in SvPatterns(x.n) : c = Plain(MkExtendSv(x, sv))
           \/ \E x \in {y \in SurplusCases : SurplusOK(y)} : c = Plain(x)
           \/ \E x \in ChainCases : c = Plain(x)
           \/ \E x \in {y \in ExtendNoneCases : ExtendNoneOK(y)} : c = Plain(x)
           \* a non-zero fill_value for the width calls (first unit, first start, step attribute, 1-D): what the added samples hold
           \/ \E x \in {y \in WidthCases : y.s = UnitList[1] /\ y.a4 = StartList[1] /\ y.src = "attr" /\ y.od = 0 /\ y.n \in {2, 3} /\ y.w > y.n} :
                 \E f \in {-1, 7} : c = Plain(x @@ [fill |-> f])
           \/ \E x \in {y \in Base : DtypeSub(y)} : \E v \in DtypeVars(x.s) : c = Typed(IF "fill" \in DOMAIN x THEN [x EXCEPT !.fill = 0] ELSE x, v[1], v[2])
        /\ r = [R0 EXCEPT !.hi = c.n - 1]

\* the operation being executed, and the axis it is applied to (lattice indices r.lo .. r.hi of the ORIGINAL lattice)
NOps == IF c.kind = "chain" THEN Len(c.ops) ELSE 1
O == CASE c.kind = "chain"  -> c.ops[r.step]
       [] c.kind = "crop"   -> OpC(c.ms, c.me, c.lc, c.rc)
       [] c.kind = "extend" -> OpE(c.ms, c.me, c.lc, c.rc)
       [] c.kind = "width"  -> OpW(c.w, c.pos)
CurLen == r.hi - r.lo + 1
\* get_dim_range(arr, dim).  extend_dim records start (eps-shifted) and stop as attributes of the coordinate of its
\* result; the code never reads them back.  Reading them back (RangeFrom = "attrs") is the seeded defect.
CurStart8 == IF RangeFrom = "attrs" /\ r.ha THEN r.at0 ELSE 8 * r.lo
CurStop8  == IF RangeFrom = "attrs" /\ r.ha THEN r.at1 ELSE 8 * r.hi

(* number of elements of np.arange over a span of num8/8 steps *)
ArangeLens(num8, s, samebase) ==
    IF num8 < 0 THEN {0}
    ELSE IF num8 % 8 # 0 \/ Dyadic(s) THEN {CeilDiv(num8, 8)}
    ELSE IF num8 = 0 /\ samebase THEN {0}          \* arange(x, x, d): exactly empty
    ELSE {num8 \div 8, num8 \div 8 + 1}

\* The q+1-th element only exists through rounding; it is the lattice point nominally AT the open end.  As a double it
\* is strictly inside the interval ("in") or equal to / beyond the end ("out").  extend_dim as found keeps it either way;
\* repaired, it keeps new coordinates only if  start < c < stop  (an "out" element is dropped: same outcome as length q).
IsFuzz(num8, s, k) == num8 >= 0 /\ num8 % 8 = 0 /\ Stress(s) /\ k = num8 \div 8 + 1
Rels(num8, s, k)   == IF IsFuzz(num8, s, k) THEN (IF ExtFilter THEN {"in"} ELSE {"in", "out"}) ELSE {"none"}

(* -------------------------------------------------------------- crop: Impl *)
\* range check against get_dim_range, then arr.sel(slice(start (+eps), stop (-eps))): label slice, both bounds inclusive
Slice == /\ pc = "start" /\ O.op = "crop"
         /\ LET lo8 == 2 * O.ms + (IF O.lc THEN 0 ELSE 1)
                hi8 == 2 * O.me - (IF O.rc THEN 0 ELSE 1)
                X   == {j \in r.lo..r.hi : lo8 <= 8 * j /\ 8 * j <= hi8}
            IN  IF 2 * O.ms < CurStart8 \/ 2 * O.me > CurStop8
                THEN r' = [r EXCEPT !.bad = TRUE]                                          \* ValueError: outside the axis range
                ELSE r' = [r EXCEPT !.set = X, !.lo = IF X = {} THEN r.lo ELSE SetMin(X), !.hi = IF X = {} THEN r.lo - 1 ELSE SetMax(X)]
         /\ pc' = "fin" /\ UNCHANGED c

(* ------------------------------------------------------------ extend: Impl *)
\* left_closed: start -= eps ; right_closed: stop += eps
Start8 == 2 * O.ms - (IF O.lc THEN 1 ELSE 0)
Stop8  == 2 * O.me + (IF O.rc THEN 1 ELSE 0)
\* seeded: np.arange(..., dtype=arr.dtype): new coordinates are cast to the dtype of the SAMPLES.  That breaks the lattice when
\* the samples are integers (or bool) and the lattice is not made of integers, when they are float32 and the step is not
\* representable, and (unsigned) below zero; the axis dtype is what the code uses.
IntLattice == c.s[2] = 1 /\ c.a4 % 4 = 0
CastBreaks == /\ CoordDtype = "data" /\ c.dd # c.ad
              /\ \/ c.dd \in {"i2", "i4"} /\ ~IntLattice
                 \/ c.dd \in {"u1", "b1"}
                 \/ c.dd = "f4" /\ Stress(c.s)
\* if start <= current_start - step: arange(current_start - step, start, -step)[::-1]
\* the new coordinates continue the lattice only if current_start IS the first coordinate
ExtendLeft == /\ pc = "start" /\ O.op = "extend"
              /\ LET num8 == (CurStart8 - 8) - Start8 IN
                 \E k \in ArangeLens(num8, c.s, FALSE) : \E rel \in Rels(num8, c.s, k) :
                    r' = [r EXCEPT !.nl = k, !.lrel = rel, !.bad = r.bad \/ (k > 0 /\ (CurStart8 # 8 * r.lo \/ CastBreaks))]
              /\ pc' = "right" /\ UNCHANGED c
\* stop omitted: stop = current_stop (seeded: current_stop + step), then + eps if right_closed
StopNow == IF c.kind = "extend" /\ "en" \in DOMAIN c /\ c.en /\ StopDefault = "next" THEN 8 * (r.hi + 1) + (IF O.rc THEN 1 ELSE 0) ELSE Stop8
\* if stop >= current_stop: arange(coords[-1], stop, step)[1:]
ExtendRight == /\ pc = "right"
               /\ IF StopNow >= CurStop8
                  THEN LET num8 == StopNow - 8 * r.hi IN
                       \E k \in ArangeLens(num8, c.s, FALSE) : \E rel \in Rels(num8, c.s, k) :
                          r' = [r EXCEPT !.nr = Max(k - 1, 0), !.rrel = rel, !.bad = r.bad \/ (k > 1 /\ CastBreaks)]
                  ELSE r' = [r EXCEPT !.nr = 0]
               /\ pc' = "reindex" /\ UNCHANGED c
\* reindex onto the new coordinates; extend_dim then records attrs start / stop on the coordinate
Reindex == /\ pc = "reindex"
           /\ r' = [r EXCEPT !.off = r.nl, !.len = CurLen + r.nl + r.nr, !.lo = r.lo - r.nl, !.hi = r.hi + r.nr,
                             \* seeded: reindex() leaves NaN in the new positions and fillna() then also overwrites original NaNs
                             !.lost = r.lost \/ (FillBy = "fillna" /\ c.kind = "extend" /\ \E j \in 1..c.n : c.sv[j] = 1),
                             !.ha = IF O.op = "extend" THEN TRUE ELSE r.ha,
                             !.at0 = IF O.op = "extend" THEN Start8 ELSE r.at0,
                             !.at1 = IF O.op = "extend" THEN StopNow ELSE r.at1]
           /\ pc' = "fin" /\ UNCHANGED c

(* ------------------------------------------------------------- width: Impl *)
Same  == /\ pc = "start" /\ O.op = "width" /\ O.w = CurLen
         /\ r' = [r EXCEPT !.len = CurLen, !.off = 0] /\ pc' = "fin" /\ UNCHANGED c
\* centre: start = max(0, sizes[dim] // 2 - width // 2); coords[start : start + width]  (a slice: it may come out shorter)
Lead  == IF LenBy = "len" /\ c.kind = "width" /\ c.od > 0 /\ c.ax = 2 THEN c.od ELSE CurLen      \* len(array) = size of the FIRST dimension
CropW == /\ pc = "start" /\ O.op = "width" /\ O.w < CurLen
         /\ LET off == CASE O.pos = "start"  -> 0
                         [] O.pos = "end"    -> CurLen - O.w
                         [] O.pos = "center" -> Max(0, Lead \div 2 - O.w \div 2)
                got == Max(0, Min(O.w, CurLen - off))
            IN  r' = [r EXCEPT !.len = got, !.off = off, !.lo = r.lo + off, !.hi = r.lo + off + got - 1]
         /\ pc' = "fin" /\ UNCHANGED c
New(x) == IF Algo = "arange_float" THEN ArangeLens(8 * x, c.s, TRUE) ELSE {x}
ExtendW == /\ pc = "start" /\ O.op = "width" /\ O.w > CurLen
           /\ LET extra == O.w - CurLen
                  xl == CASE O.pos = "start" -> 0 [] O.pos = "end" -> extra [] O.pos = "center" -> extra \div 2
                  xr == extra - xl
              IN  \E kl \in New(xl), kr \in New(xr) : r' = [r EXCEPT !.nl = kl, !.nr = kr]
           /\ pc' = "reindex" /\ UNCHANGED c

\* the next operation of a history starts from the output of this one: the axis and the data, nothing else
Finish == /\ pc = "fin"
          /\ IF r.step < NOps /\ ~r.bad
             THEN pc' = "start" /\ r' = [r EXCEPT !.step = r.step + 1, !.nl = 0, !.nr = 0, !.lrel = "none", !.rrel = "none"]
             ELSE pc' = "done" /\ r' = r
          /\ UNCHANGED c

Next == Slice \/ ExtendLeft \/ ExtendRight \/ Reindex \/ Same \/ CropW \/ ExtendW \/ Finish
Spec == Init /\ [][Next]_vars /\ WF_vars(Next)
Export == (pc = "start" /\ r.step = 1) => PrintT(<<"CASE", ToJson(c)>>)

(* ------------------------------------------------- Impl => Req, and laws *)
Done == pc = "done"
ImplKeepsSamples == ~r.lost                      \* every original sample keeps its value, NaN included
NeverOffLattice == ~r.bad                         \* no sample off the lattice, no hole, no spurious range error
ImplCrop   == (c.kind = "crop" /\ Done) => r.set = CropIdx(c.n, c.ms, c.me, c.lc, c.rc)
LawCropContiguous == c.kind = "crop" =>
    LET S == CropIdx(c.n, c.ms, c.me, c.lc, c.rc) IN \A x \in S, y \in S : \A z \in x..y : z \in S
LawCropClosedness == c.kind = "crop" =>       \* an end that is a coordinate is kept iff that end is closed
    LET S == CropIdx(c.n, c.ms, c.me, c.lc, c.rc) IN
    /\ (c.ms % 4 = 0 /\ c.ms < c.me) => ((c.ms \div 4) \in S <=> c.lc)
    /\ (c.me % 4 = 0 /\ c.ms < c.me) => ((c.me \div 4) \in S <=> c.rc)
ImplExtend == (c.kind = "extend" /\ Done) => <<r.lo, r.hi>> \in Extents(c.s, c.ms, c.me, ELc(c), ERc(c))
ImplOpenEndExcluded == (c.kind \in {"extend", "chain"} /\ Done) => r.lrel # "out" /\ r.rrel # "out"
LawExtendContains == c.kind = "extend" =>    \* every accepted extent contains the axis and lies inside the interval (guard aside)
    \A w \in Extents(c.s, c.ms, c.me, ELc(c), ERc(c)) :
        /\ w[1] <= 0 /\ w[2] >= c.n - 1
        /\ \A j \in w[1]..w[2] : InIv(4 * j, c.ms, c.me, TRUE, TRUE)
LawExtendExact == (c.kind = "extend" /\ Dyadic(c.s)) =>
    Extents(c.s, c.ms, c.me, ELc(c), ERc(c)) = {<<ExtLo(c.ms, ELc(c)), ExtHi(c.me, ERc(c))>>}
LawExtendIsInterval == c.kind = "extend" =>
    {j \in (-Ext - 2)..(c.n + Ext + 2) : InIv(4 * j, c.ms, c.me, ELc(c), ERc(c))} = ExtLo(c.ms, ELc(c))..ExtHi(c.me, ERc(c))
ImplExactlyWidth == (c.kind = "width" /\ Done) => r.len = c.w
ImplPlacement    == (c.kind = "width" /\ Done) => r.off \in Offs(c.pos, IF r.len >= c.n THEN r.len - c.n ELSE c.n - r.len)
LawOffs == c.kind = "width" => \A d \in 0..(2 * MaxN + 3) : \A o \in Offs(c.pos, d) : 0 <= o /\ o <= d
\* histories: the second operation, started from the first one's output, ends on an axis Req accepts for the composition
ImplChain == (c.kind = "chain" /\ Done) => /\ ~r.bad
                                           /\ \E st \in Final(c) : st.lo = r.lo /\ st.hi = r.hi
\* on dyadic steps the composition is a function; a single operation is the chain with a neutral second step
LawChainExact == (c.kind = "chain" /\ Dyadic(c.s)) => Cardinality({<<st.lo, st.hi>> : st \in Final(c)}) = 1 \/ c.ops[2].op = "width"
LawChainKeepsOriginals == c.kind = "chain" => \A st \in Final(c) : st.K \subseteq (st.lo..st.hi) /\ st.K \subseteq 0..(c.n - 1)
Terminates == <>(pc = "done")
=============================================================================
