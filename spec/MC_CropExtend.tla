---------------------------- MODULE MC_CropExtend ----------------------------
(***************************************************************************)
(* C17: crop_dim, extend_dim and adjust_dim_width as state machines (Impl) *)
(* model-checked against Req (CropExtend) on the quarter-step lattice.     *)
(*                                                                         *)
(* Two things the real code does in floating point are made explicit:      *)
(*  eps    the open-end epsilon (1e-5) is an infinitesimal: positions are  *)
(*         doubled (X = 2 * quarter steps, coordinates at 8*j) and eps = 1 *)
(*         (quantifier: steps are large against eps);                      *)
(*  arange np.arange(x, y, d) has ceil((y - x)/d) elements, computed in    *)
(*         floating point.  When the quotient is nominally a whole number  *)
(*         q and the step is not representable it comes out as q or q+1    *)
(*         (ArangeLens).                                                   *)
(*                                                                         *)
(* Algo = "arange_float" is extend_dim_width as found:                     *)
(*      arange(end + s, end + s + extra*s, s)   -> extra or extra + 1      *)
(*   history/MC_CropExtend_prefix.cfg: TLC violates ImplExactlyWidth (F14) *)
(* Algo = "arange_int" is the repaired algorithm:                          *)
(*      end + s * arange(1, extra + 1)          -> exactly extra           *)
(* extend_dim keeps float arange; there the extra point is the lattice     *)
(* point nominally AT an open end, which Req accepts (boundary guard) as    *)
(* long as the double produced is strictly inside the interval.            *)
(* ExtFilter = FALSE is extend_dim as found: the point is kept even when it *)
(* equals or exceeds the open end (history/MC_CropExtend_openend.cfg);      *)
(* ExtFilter = TRUE is the repaired code (new coordinates filtered).        *)
(***************************************************************************)
EXTENDS CropExtend, TLC, Json
CONSTANTS NU, NS,     \* first NU units / NS starts of the lists
          MaxN,       \* axis lengths 1..MaxN
          Sub,        \* interval ends on multiples of Sub quarter steps (1: quarters, 2: halves)
          Ext,        \* extension up to Ext quarter steps beyond either end
          ExtNs,      \* axis lengths used for extend_dim
          Algo,
          ExtFilter   \* extend_dim drops generated coordinates that are not strictly inside (start, stop)  [repaired] / keeps them [as found]
VARIABLES c, pc, r
vars == <<c, pc, r>>

UnitList  == << <<1, 1>>, <<1, 10>>, <<1, 4>>, <<1, 3>>, <<1, 100>>, <<1, 44100>>, <<2, 1>>, <<1, 2>>, <<250, 1>>, <<1, 8>> >>
StartList == <<0, 14, -8, 4>>
Units  == {UnitList[k] : k \in 1..NU}
IvUnits == {u \in Units : u[2] <= 1000}       \* crop/extend use eps = 1e-5: the step must be large against it
Starts == {StartList[k] : k \in 1..NS}
OnSub(x) == x % Sub = 0

CropCases == {x \in [kind : {"crop"}, s : IvUnits, a4 : Starts, n : 1..MaxN, ms : 0..(4 * MaxN), me : 0..(4 * MaxN),
                     lc : BOOLEAN, rc : BOOLEAN] :
                /\ x.ms <= x.me /\ x.me <= 4 * (x.n - 1) /\ OnSub(x.ms) /\ OnSub(x.me)}
ExtendCases == {x \in [kind : {"extend"}, s : IvUnits, a4 : Starts, n : ExtNs, src : {"attr", "est"},
                       ms : (-Ext)..0, de : 0..Ext, lc : BOOLEAN, rc : BOOLEAN] :
                /\ OnSub(x.ms) /\ OnSub(x.de)
                /\ (x.src = "est" => x.n >= 2)                              \* a step can only be estimated from >= 2 points
                /\ (~x.lc => x.ms < 0) /\ (~x.rc => x.de > 0)}             \* the interval contains the axis
MkExtend(x) == [kind |-> "extend", s |-> x.s, a4 |-> x.a4, n |-> x.n, src |-> x.src, ms |-> x.ms, me |-> 4 * (x.n - 1) + x.de,
                lc |-> x.lc, rc |-> x.rc, fill |-> IF x.rc THEN -7 ELSE 0]
WidthCases == {x \in [kind : {"width"}, fn : {"adjust", "direct"}, s : Units, a4 : Starts, n : 1..MaxN, src : {"attr", "est"},
                      w : 1..(2 * MaxN + 3), pos : {"start", "center", "end"}] :
                /\ x.w <= 2 * x.n + 3
                /\ (x.src = "est" => x.n >= 2)
                /\ (x.fn = "direct" => x.w # x.n /\ x.a4 = 0)}             \* crop_dim_width / extend_dim_width called directly

R0 == [set |-> {}, nl |-> 0, nr |-> 0, off |-> 0, len |-> 0, lrel |-> "none", rrel |-> "none"]
Init == /\ pc = "start" /\ r = R0
        /\ \/ c \in CropCases
           \/ \E x \in ExtendCases : c = MkExtend(x)
           \/ c \in WidthCases

(* number of elements of np.arange over a span of num8/8 steps *)
ArangeLens(num8, s, samebase) ==
    IF num8 < 0 THEN {0}
    ELSE IF num8 % 8 # 0 \/ Dyadic(s) THEN {CeilDiv(num8, 8)}
    ELSE IF num8 = 0 /\ samebase THEN {0}          \* arange(x, x, d): exactly empty
    ELSE {num8 \div 8, num8 \div 8 + 1}

\* The q+1-th element only exists through rounding; it is the lattice point nominally AT the open end.  As a double it
\* is strictly inside the interval ("in") or equal to / beyond the end ("out").  extend_dim as found keeps it either way;
\* repaired, it keeps new coordinates only if  start < c < stop  (an "out" element is dropped: same outcome as length q).
IsFuzz(num8, s, k) == num8 >= 0 /\ num8 % 8 = 0 /\ Stress(s) /\ k = num8 \div 8 + 1
Rels(num8, s, k)   == IF IsFuzz(num8, s, k) THEN (IF ExtFilter THEN {"in"} ELSE {"in", "out"}) ELSE {"none"}

(* -------------------------------------------------------------- crop: Impl *)
\* arr.sel(slice(start (+eps), stop (-eps))): label slice, both bounds inclusive
Slice == /\ c.kind = "crop" /\ pc = "start"
         /\ LET lo8 == 2 * c.ms + (IF c.lc THEN 0 ELSE 1)
                hi8 == 2 * c.me - (IF c.rc THEN 0 ELSE 1)
            IN  r' = [r EXCEPT !.set = {j \in 0..(c.n - 1) : lo8 <= 8 * j /\ 8 * j <= hi8}]
         /\ pc' = "done" /\ UNCHANGED c

(* ------------------------------------------------------------ extend: Impl *)
\* left_closed: start -= eps ; right_closed: stop += eps
Start8 == 2 * c.ms - (IF c.lc THEN 1 ELSE 0)
Stop8  == 2 * c.me + (IF c.rc THEN 1 ELSE 0)
\* if start <= current_start - step: arange(current_start - step, start, -step)[::-1]
ExtendLeft == /\ c.kind = "extend" /\ pc = "start"
              /\ \E k \in ArangeLens(-8 - Start8, c.s, FALSE) : \E rel \in Rels(-8 - Start8, c.s, k) :
                    r' = [r EXCEPT !.nl = k, !.lrel = rel]
              /\ pc' = "right" /\ UNCHANGED c
\* if stop >= current_stop: arange(coords[-1], stop, step)[1:]
ExtendRight == /\ c.kind = "extend" /\ pc = "right"
               /\ \E k \in ArangeLens(Stop8 - 8 * (c.n - 1), c.s, FALSE) : \E rel \in Rels(Stop8 - 8 * (c.n - 1), c.s, k) :
                    r' = [r EXCEPT !.nr = Max(k - 1, 0), !.rrel = rel]
               /\ pc' = "reindex" /\ UNCHANGED c
Reindex == /\ c.kind \in {"extend", "width"} /\ pc = "reindex"
           /\ r' = [r EXCEPT !.off = r.nl, !.len = c.n + r.nl + r.nr]
           /\ pc' = "done" /\ UNCHANGED c

(* ------------------------------------------------------------- width: Impl *)
Same  == /\ c.kind = "width" /\ pc = "start" /\ c.w = c.n
         /\ r' = [r EXCEPT !.len = c.n] /\ pc' = "done" /\ UNCHANGED c
CropW == /\ c.kind = "width" /\ pc = "start" /\ c.w < c.n
         /\ r' = [r EXCEPT !.len = c.w,
                           !.off = CASE c.pos = "start"  -> 0
                                     [] c.pos = "end"    -> c.n - c.w
                                     [] c.pos = "center" -> Max(0, c.n \div 2 - c.w \div 2)]
         /\ pc' = "done" /\ UNCHANGED c
New(x) == IF Algo = "arange_float" THEN ArangeLens(8 * x, c.s, TRUE) ELSE {x}
ExtendW == /\ c.kind = "width" /\ pc = "start" /\ c.w > c.n
           /\ LET extra == c.w - c.n
                  xl == CASE c.pos = "start" -> 0 [] c.pos = "end" -> extra [] c.pos = "center" -> extra \div 2
                  xr == extra - xl
              IN  \E kl \in New(xl), kr \in New(xr) : r' = [r EXCEPT !.nl = kl, !.nr = kr]
           /\ pc' = "reindex" /\ UNCHANGED c

Next == Slice \/ ExtendLeft \/ ExtendRight \/ Reindex \/ Same \/ CropW \/ ExtendW
Spec == Init /\ [][Next]_vars /\ WF_vars(Next)
Export == pc = "start" => PrintT(<<"CASE", ToJson(c)>>)

(* ------------------------------------------------- Impl => Req, and laws *)
Done == pc = "done"
ImplCrop   == (c.kind = "crop" /\ Done) => r.set = CropIdx(c.n, c.ms, c.me, c.lc, c.rc)
LawCropContiguous == c.kind = "crop" =>
    LET S == CropIdx(c.n, c.ms, c.me, c.lc, c.rc) IN \A x \in S, y \in S : \A z \in x..y : z \in S
LawCropClosedness == c.kind = "crop" =>       \* an end that is a coordinate is kept iff that end is closed
    LET S == CropIdx(c.n, c.ms, c.me, c.lc, c.rc) IN
    /\ (c.ms % 4 = 0 /\ c.ms < c.me) => ((c.ms \div 4) \in S <=> c.lc)
    /\ (c.me % 4 = 0 /\ c.ms < c.me) => ((c.me \div 4) \in S <=> c.rc)
ImplExtend == (c.kind = "extend" /\ Done) => <<-r.nl, c.n - 1 + r.nr>> \in Extents(c.s, c.ms, c.me, c.lc, c.rc)
ImplOpenEndExcluded == (c.kind = "extend" /\ Done) => r.lrel # "out" /\ r.rrel # "out"
LawExtendContains == c.kind = "extend" =>    \* every accepted extent contains the axis and lies inside the interval (guard aside)
    \A w \in Extents(c.s, c.ms, c.me, c.lc, c.rc) :
        /\ w[1] <= 0 /\ w[2] >= c.n - 1
        /\ \A j \in w[1]..w[2] : InIv(4 * j, c.ms, c.me, TRUE, TRUE)
LawExtendExact == (c.kind = "extend" /\ Dyadic(c.s)) =>
    Extents(c.s, c.ms, c.me, c.lc, c.rc) = {<<ExtLo(c.ms, c.lc), ExtHi(c.me, c.rc)>>}
LawExtendIsInterval == c.kind = "extend" =>
    {j \in (-Ext - 2)..(c.n + Ext + 2) : InIv(4 * j, c.ms, c.me, c.lc, c.rc)} = ExtLo(c.ms, c.lc)..ExtHi(c.me, c.rc)
ImplExactlyWidth == (c.kind = "width" /\ Done) => r.len = c.w
ImplPlacement    == (c.kind = "width" /\ Done) => r.off \in Offs(c.pos, IF r.len >= c.n THEN r.len - c.n ELSE c.n - r.len)
LawOffs == c.kind = "width" => \A d \in 0..(2 * MaxN + 3) : \A o \in Offs(c.pos, d) : 0 <= o /\ o <= d
Terminates == <>(pc = "done")
=============================================================================
