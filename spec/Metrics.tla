------------------------------- MODULE Metrics -------------------------------
(***************************************************************************)
(* C09 -- evaluation metrics are what their terms say.                     *)
(*                                                                         *)
(* Pure module: exact rational definitions of the seven metrics the        *)
(* statement names, as SETS OF ALLOWED VALUES where ties or undefined      *)
(* cases leave freedom; the (term, metric) tables of the four tasks;       *)
(* acceptance clauses for one observation of the real code.                *)
(*                                                                         *)
(* A case c:                                                               *)
(*   task  "cc" | "cml" | "sec" | "sed"                                    *)
(*   C     vocabulary size (classes 1..C; the extra 'none' class is C+1)   *)
(*   u     score unit: a score tick k means k/u  (u = 4: quarter lattice)  *)
(*   items sequence of [t, y, s]:  t in 0..C single-label truth (0 = no    *)
(*         label), y 0/1 indicator sequence (multilabel task only, else    *)
(*         <<>>), s sequence of C score ticks                              *)
(*         and, for sound_event_detection, m: how the event pair exists -- *)
(*         "both" a prediction and an annotation that overlap fully (one   *)
(*         matched item), "pred"/"pred0" a prediction nothing annotated    *)
(*         overlaps (0: it has no geometry), "ann"/"ann0" an annotation    *)
(*         nothing predicted overlaps.  Absent m = "both".                 *)
(*         and optionally f: sequence of C fine codes -- the score of      *)
(*         class k is s[k]/u PLUS a tiny offset: 0 none, 2: +4e-7,         *)
(*         3: +8e-7 (distinct float32 values: really larger, NOT ties),    *)
(*         1: +1e-9 or the next double (below float32 resolution: the      *)
(*         encoder's float32 vector cannot tell it from 0 -- either reading*)
(*         is accepted).  Only on non-zero ticks.  Absent f = all 0.       *)
(*         and optionally conf: the detection confidence of the item's     *)
(*         sound event prediction in quarters (4: 1.0, 2: 0.5, 1: 0.25,    *)
(*         0: left at its default).  No meaning for Req: every metric is   *)
(*         defined on the truths and the TAG scores only.                  *)
(*   clips sequence of sequences of item indices (cc/cml: one item each;   *)
(*         sec/sed: the sound events of each clip, possibly none)          *)
(*   extras sequence of [pos, side]: clips that are in ONE input only      *)
(*         (side "pred": predicted but not annotated, "ann": annotated but *)
(*         not predicted), placed after `pos` of the clips above (0 =      *)
(*         first, Len(clips) = last).  They are not evaluated: the         *)
(*         evaluated clips are those present in both inputs, i.e. `clips`. *)
(*   perm  sound-event tasks: order of a clip's predictions relative to its *)
(*         annotations: 0 same order, 1 reversed, 2 rotated by one.  No    *)
(*         meaning for Req: a prediction belongs to the annotation of the  *)
(*         SAME sound event (classification) / overlapping one (detection)*)
(*   style how the binder spells the tags (no meaning for Req: an item's   *)
(*         class is the index of the vocabulary tag its tag EQUALS, and    *)
(*         only scores of tags equal to a vocabulary tag count):           *)
(*         0 minimal; 1 extra out-of-vocabulary tags and explicit zero     *)
(*         scores; 2 / 3 look-alike tags -- a different term sharing its   *)
(*         label (2) or its name (3) and the value with a vocabulary tag   *)
(*         -- as a true tag and as a predicted tag with a score            *)
(* Rationals are <<p, q>>, q > 0; every denominator stays below 32768.     *)
(***************************************************************************)
EXTENDS Lattice

\* (the ladder spares TLC the construction of a recursive function for the short sequences used everywhere)
SumSeq(s) == CASE Len(s) = 0 -> 0
               [] Len(s) = 1 -> s[1]
               [] Len(s) = 2 -> s[1] + s[2]
               [] Len(s) = 3 -> s[1] + s[2] + s[3]
               [] Len(s) = 4 -> s[1] + s[2] + s[3] + s[4]
               [] Len(s) = 5 -> s[1] + s[2] + s[3] + s[4] + s[5]
               [] OTHER -> LET S[k \in 0..Len(s)] == IF k = 0 THEN 0 ELSE S[k - 1] + s[k] IN S[Len(s)]
Count(n, P(_)) == Cardinality({i \in 1..n : P(i)})
\* least common multiple of 1..m (m <= 9), so that D(m)/k is an integer for every k <= m
D(m) == CASE m <= 1 -> 1 [] m = 2 -> 2 [] m = 3 -> 6 [] m = 4 -> 12 [] m \in {5, 6} -> 60
          [] m = 7 -> 420 [] m = 8 -> 840 [] m = 9 -> 2520

SingleLabel(task) == task \in {"cc", "sec", "sed"}

(* ---------------- allowed-value descriptors ---------------- *)
NoDemand == [kind |-> "any",  vals |-> {}]      \* the statement says nothing here
Free     == [kind |-> "free", vals |-> {}]      \* metric undefined on this input: any finite value of [0,1]
Vals(S)  == [kind |-> "vals", vals |-> S]
Join(a, b) == IF a.kind = "any" \/ b.kind = "any" THEN NoDemand
              ELSE IF a.kind = "free" \/ b.kind = "free" THEN Free
              ELSE Vals(a.vals \cup b.vals)

(* ---------------- single-label items: the accuracy family ---------------- *)
\* scores extended by the 'none' column: what is left of the unit mass
Ext(it, C, u)  == [k \in 1..(C + 1) |-> IF k <= C THEN it.s[k] ELSE u - SumSeq(it.s)]
Truth(it, C)   == IF it.t = 0 THEN C + 1 ELSE it.t
ArgMaxSet(e)   == {k \in DOMAIN e : \A j \in DOMAIN e : e[j] <= e[k]}
\* every way of breaking argmax ties, item by item
Preds(its, C, u) == {p \in [1..Len(its) -> 1..(C + 1)] : \A i \in 1..Len(its) : p[i] \in ArgMaxSet(Ext(its[i], C, u))}

AccOf(its, C, p)  == <<Count(Len(its), LAMBDA i : p[i] = Truth(its[i], C)), Len(its)>>
AccSet(its, C, u) == {AccOf(its, C, p) : p \in Preds(its, C, u)}

\* balanced accuracy: mean recall over the classes present among the truths ('none' included)
BaccOf(its, C, p) ==
    LET n == Len(its)
        nk(k) == Count(n, LAMBDA i : Truth(its[i], C) = k)
        hk(k) == Count(n, LAMBDA i : Truth(its[i], C) = k /\ p[i] = k)
        K == Cardinality({Truth(its[i], C) : i \in 1..n})
        terms == [k \in 1..(C + 1) |-> IF nk(k) = 0 THEN 0 ELSE hk(k) * (D(n) \div nk(k))]
    IN  <<SumSeq(terms), D(n) * K>>
BaccSet(its, C, u) == {BaccOf(its, C, p) : p \in Preds(its, C, u)}

\* top-3: the true class is among the three best-scored classes; a tie at the border leaves the item free
TopStatus(it, C, u, k) ==
    LET e == Ext(it, C, u)  t == Truth(it, C)
        g == Cardinality({j \in DOMAIN e : e[j] > e[t]})
        q == Cardinality({j \in DOMAIN e : j # t /\ e[j] = e[t]})
    IN  IF g + q < k THEN "hit" ELSE IF g >= k THEN "miss" ELSE "free"
TopKSet(its, C, u, k) ==
    LET n  == Len(its)
        lo == Count(n, LAMBDA i : TopStatus(its[i], C, u, k) = "hit")
        hi == Count(n, LAMBDA i : TopStatus(its[i], C, u, k) # "miss")
    IN  {<<h, n>> : h \in lo..hi}
Top3Set(its, C, u) == TopKSet(its, C, u, 3)

\* probability the model gave to the true class ('none': the mass left over)
TcpOf(it, C, u) == <<Ext(it, C, u)[Truth(it, C)], u>>

(* ---------------- average precision ---------------- *)
\* Binary problem ys[j] in {0,1}, score ticks ss[j] in 0..u, j in 1..m.
\* AP = sum over distinct thresholds th of (R(th) - R(previous)) * P(th)
\*    = (1/P) * sum_th  #{positives scored exactly th} * tp(th) / pp(th).
\* Returned as [def, num, den] with AP = num/den, den = P * D(m); def = FALSE when there is no positive.
BinAP(ys, ss, u) ==
    LET m == Len(ys)
        P == Count(m, LAMBDA j : ys[j] = 1)
        tp(th) == Count(m, LAMBDA j : ss[j] >= th /\ ys[j] = 1)
        pp(th) == Count(m, LAMBDA j : ss[j] >= th)
        at(th) == Count(m, LAMBDA j : ss[j] = th /\ ys[j] = 1)
        \* one term per distinct threshold: the score of item j, unless an earlier item has the same score
        terms == [j \in 1..m |-> IF (\E i \in 1..(j - 1) : ss[i] = ss[j]) \/ at(ss[j]) = 0 THEN 0
                                  ELSE at(ss[j]) * tp(ss[j]) * (D(m) \div pp(ss[j]))]
    IN  [def |-> P > 0, num |-> SumSeq(terms), den |-> Max(P, 1) * D(m), pos |-> P]

\* rows: sequence of [y (indicator over 1..C), s]; macro mean over classes of the per-class AP over the rows.
\* A class without positives has no AP: it may be counted as 0 or left out of the mean (both accepted).
MacroSet(rows, C, u) ==
    LET m == Len(rows)
        ap(k) == BinAP([i \in 1..m |-> rows[i].y[k]], [i \in 1..m |-> rows[i].s[k]], u)
        def == {k \in 1..C : ap(k).def}
        \* ap(k) = num / (pos * D)  =  num * (D / pos) / D^2
        S == SumSeq([k \in 1..C |-> IF k \in def THEN ap(k).num * (D(m) \div ap(k).pos) ELSE 0])
    IN  IF m = 0 \/ def = {} THEN Free
        ELSE Vals({<<S, D(m) * D(m) * C>>, <<S, D(m) * D(m) * Cardinality(def)>>})

OneHot(t, C) == [k \in 1..C |-> IF k = t THEN 1 ELSE 0]
\* single-label: unlabelled items are left out
MapSL(its, C, u) ==
    LET lab == SelectSeq(its, LAMBDA it : it.t # 0)
    IN  MacroSet([i \in 1..Len(lab) |-> [y |-> OneHot(lab[i].t, C), s |-> lab[i].s]], C, u)
\* multilabel: an item without any label is an all-negative row, or (reading "unlabelled items are left out") dropped
HasLabel(it) == \E k \in DOMAIN it.y : it.y[k] = 1
MapML(its, C, u) ==
    Join(MacroSet([i \in 1..Len(its) |-> [y |-> its[i].y, s |-> its[i].s]], C, u),
         LET lab == SelectSeq(its, HasLabel)
         IN  MacroSet([i \in 1..Len(lab) |-> [y |-> lab[i].y, s |-> lab[i].s]], C, u))

\* Impl: what metrics.mean_average_precision computes for the multilabel task.
\*   "fixed": scikit-learn's macro average over the rows (a class without positives counts 0)
\*   "found": the 2-D no-class mask flattened y_true and y_score, so average_precision_score saw ONE binary problem
\*            over all (item, class) pairs -- a micro average (history/MC_Metrics_asfound_map.cfg)
\* Result <<>> (undefined, scikit-learn warns and gives 0) or <<rational>>.
ImplMapML(its, C, u, variant) ==
    LET n == Len(its) IN
    IF variant = "found"
    THEN LET a == BinAP([j \in 1..(n * C) |-> its[1 + ((j - 1) \div C)].y[1 + ((j - 1) % C)]],
                        [j \in 1..(n * C) |-> its[1 + ((j - 1) \div C)].s[1 + ((j - 1) % C)]], u)
         IN  IF a.def THEN << <<a.num, a.den>> >> ELSE <<>>
    ELSE LET ap(k) == BinAP([i \in 1..n |-> its[i].y[k]], [i \in 1..n |-> its[i].s[k]], u)
             S == SumSeq([k \in 1..C |-> IF ap(k).def THEN ap(k).num * (D(n) \div ap(k).pos) ELSE 0])
         IN  << <<S, D(n) * D(n) * C>> >>
ImplMapMLRefinesReq(its, C, u, variant) ==
    LET impl == ImplMapML(its, C, u, variant)  req == MapML(its, C, u) IN
    (Len(impl) = 1 /\ req.kind = "vals") => \E r \in req.vals : REq(impl[1], r)

\* one multilabel item: AP of ranking its classes (labels of the item = positives)
ClipAP(it, u) ==
    LET a == BinAP(it.y, it.s, u) IN IF a.def THEN Vals({<<a.num, a.den>>}) ELSE Free

\* Jaccard index of the label set and the classes scored above 1/2 (exactly 1/2: either side); 0/0 is 0 or 1
JaccardSet(it, u) ==
    LET T   == {k \in DOMAIN it.y : it.y[k] = 1}
        lo  == {k \in DOMAIN it.s : 2 * it.s[k] > u}
        hi  == {k \in DOMAIN it.s : 2 * it.s[k] >= u}
        one(P) == IF T \cup P = {} THEN {<<0, 1>>, <<1, 1>>}
                  ELSE {<<Cardinality(T \cap P), Cardinality(T \cup P)>>}
    IN  UNION {one(lo \cup X) : X \in SUBSET (hi \ lo)}

(* ---------------- which metric a term names ---------------- *)
MetricOfName(name) ==
    CASE name = "soundevent_metrics:balancedAccuracy"      -> "bacc"
      [] name = "stato:accuracy"                            -> "acc"
      [] name = "soundevent_metrics:top3Accuracy"           -> "top3"
      [] name = "soundevent_metrics:trueClassProbability"   -> "tcp"
      [] name = "soundevent_metrics:averagePrecision"       -> "ap"
      [] name = "soundevent_metrics:meanAveragePrecision"   -> "map"
      [] name = "soundevent_metrics:jaccard"                -> "jac"
      [] OTHER -> "unknown"
MetricOfLabel(label) ==
    CASE label = "Balanced Accuracy"      -> "bacc"
      [] label = "Accuracy"               -> "acc"
      [] label = "Top 3 Accuracy"         -> "top3"
      [] label = "True Class Probability" -> "tcp"
      [] label = "Average Precision"      -> "ap"
      [] label = "Mean Average Precision" -> "map"
      [] label = "Jaccard Index"          -> "jac"
      [] OTHER -> "unknown"
MetricOf(m) == IF MetricOfName(m.name) # "unknown" THEN MetricOfName(m.name) ELSE MetricOfLabel(m.label)

\* Detection: the evaluated items include the events the matching leaves alone.  An unmatched prediction is an item
\* with its scores and no true class ('none'); an unmatched annotation is an item with its class for which nothing
\* was predicted (every score 0, so all the mass is on 'none').
MatchKind(it) == IF "m" \in DOMAIN it THEN it.m ELSE "both"
PredOnly(it)  == MatchKind(it) \in {"pred", "pred0"}
AnnOnly(it)   == MatchKind(it) \in {"ann", "ann0"}
FineOf(it) == IF "f" \in DOMAIN it THEN it.f ELSE [k \in DOMAIN it.s |-> 0]
Eff(it) == IF PredOnly(it) THEN [t |-> 0, y |-> it.y, s |-> it.s, f |-> FineOf(it)]
           ELSE IF AnnOnly(it) THEN [t |-> it.t, y |-> it.y, s |-> [k \in DOMAIN it.s |-> 0], f |-> [k \in DOMAIN it.s |-> 0]]
           ELSE [t |-> it.t, y |-> it.y, s |-> it.s, f |-> FineOf(it)]
EffSeq(its) == [i \in DOMAIN its |-> Eff(its[i])]

\* Near-equal scores.  Every definition above depends on the scores only through their ORDER (argmax, top-3, the
\* thresholds of average precision, the side of 1/2) and through sums of ticks -- except true-class probability.
\* A score s/u + offset(f) is therefore replaced by the integer key s*FF + f on the unit u*FF: comparisons between
\* keys, and between a key and the 'none' mass u*FF - sum of keys, come out as for the real numbers (offsets are
\* positive and tiny, at most 3 per class, 3*(C+1) < FF).  Code 1 is read both ways ("tie": as 0, "above": as 1).
FF == 16
HasFine(its) == \E i \in DOMAIN its : \E k \in DOMAIN its[i].s : FineOf(its[i])[k] # 0
FineKey(f, soft) == IF f = 1 /\ soft = "tie" THEN 0 ELSE f
KeySeq(its, soft) ==
    [i \in DOMAIN its |-> [t |-> its[i].t, y |-> its[i].y,
                            s |-> [k \in DOMAIN its[i].s |-> its[i].s[k] * FF + FineKey(FineOf(its[i])[k], soft)]]]

\* what metric `mid` may be worth over the items `its` of one unit (evaluation: all; clip: its items; match: one)
AllowedOn(mid, task, its, C, u) ==
    IF Len(its) = 0 THEN NoDemand
    ELSE IF SingleLabel(task) THEN
        CASE mid = "acc"  -> Vals(AccSet(its, C, u))
          [] mid = "bacc" -> Vals(BaccSet(its, C, u))
          [] mid = "top3" -> Vals(Top3Set(its, C, u))
          [] mid = "map"  -> MapSL(its, C, u)
          [] mid = "tcp"  -> IF Len(its) = 1 THEN Vals({TcpOf(its[1], C, u)}) ELSE NoDemand
          [] OTHER -> NoDemand
    ELSE
        CASE mid = "map"  -> MapML(its, C, u)
          [] mid = "ap"   -> IF Len(its) = 1 THEN ClipAP(its[1], u) ELSE NoDemand
          [] mid = "jac"  -> IF Len(its) = 1 THEN Vals(JaccardSet(its[1], u)) ELSE NoDemand
          [] OTHER -> NoDemand

Allowed(mid, task, its, C, u) ==
    LET e == EffSeq(its) IN
    IF ~HasFine(e) THEN AllowedOn(mid, task, e, C, u)
    ELSE IF mid = "tcp" THEN NoDemand          \* its value is a score plus an offset that is not on the lattice
    ELSE Join(AllowedOn(mid, task, KeySeq(e, "above"), C, u * FF), AllowedOn(mid, task, KeySeq(e, "tie"), C, u * FF))

(* ---------------- the tables of the four task modules (Impl) ---------------- *)
T_bacc == "soundevent_metrics:balancedAccuracy"
T_acc  == "stato:accuracy"
T_top3 == "soundevent_metrics:top3Accuracy"
T_tcp  == "soundevent_metrics:trueClassProbability"
T_ap   == "soundevent_metrics:averagePrecision"
T_map  == "soundevent_metrics:meanAveragePrecision"
T_jac  == "soundevent_metrics:jaccard"
\* rows <<term name, metric function>>; levels: run (Evaluation), clip (ClipEvaluation), ev (Match)
\* sound_event_classification as found labelled all three run metrics Balanced Accuracy
\* (SecRunFound; TableVariant = "found" in history/MC_Metrics_asfound_terms.cfg makes TLC refute LawDistinctTerms,
\* counterexample in history/MC_Metrics_asfound.txt); SecRunFixed is the table after the fix.
SecRunFixed == <<<<T_bacc, "bacc">>, <<T_acc, "acc">>, <<T_top3, "top3">>>>
SecRunFound == <<<<T_bacc, "bacc">>, <<T_bacc, "acc">>, <<T_bacc, "top3">>>>
Table(task, variant) ==
    CASE task = "cc"  -> [run  |-> <<<<T_bacc, "bacc">>, <<T_acc, "acc">>, <<T_top3, "top3">>>>,
                          clip |-> <<<<T_tcp, "tcp">>>>, ev |-> <<>>]
      [] task = "cml" -> [run  |-> <<<<T_map, "map">>>>,
                          clip |-> <<<<T_jac, "jac">>, <<T_ap, "ap">>>>, ev |-> <<>>]
      [] task = "sec" -> [run  |-> IF variant = "found" THEN SecRunFound ELSE SecRunFixed,
                          clip |-> <<>>, ev |-> <<<<T_tcp, "tcp">>>>]
      [] task = "sed" -> [run  |-> <<<<T_map, "map">>, <<T_bacc, "bacc">>, <<T_acc, "acc">>, <<T_top3, "top3">>>>,
                          clip |-> <<>>, ev |-> <<<<T_tcp, "tcp">>>>]
Distinct(seq, f(_)) == \A i, j \in DOMAIN seq : i # j => f(seq[i]) # f(seq[j])
TableDistinctTerms(task, variant) ==
    LET t == Table(task, variant) IN
    Distinct(t.run, LAMBDA r : r[1]) /\ Distinct(t.clip, LAMBDA r : r[1]) /\ Distinct(t.ev, LAMBDA r : r[1])
TableTermNamesFunction(task, variant) ==
    LET t == Table(task, variant) IN
    \A lev \in {t.run, t.clip, t.ev} : \A i \in DOMAIN lev : MetricOfName(lev[i][1]) = lev[i][2]

(* ---------------- which clips are evaluated ---------------- *)
\* The two inputs as sequences of clip slots: k in 1..Len(clips) = the k-th clip of the case (in both inputs),
\* 0 = a clip of this input only.  Req: the evaluated clips are exactly the clips present in both inputs,
\* each once, whatever the order.  Impl (evaluation/tasks/common.py): walk the predictions, keep the annotated ones.
FlattenSeq(ss) == LET F[k \in 0..Len(ss)] == IF k = 0 THEN <<>> ELSE F[k - 1] \o ss[k] IN F[Len(ss)]
Extras(c) == IF "extras" \in DOMAIN c THEN c.extras ELSE <<>>
InputOrder(c, side) ==
    LET m == Len(c.clips)
        here(p) == SelectSeq(Extras(c), LAMBDA e : e.pos = p /\ e.side = side)
    IN  FlattenSeq([q \in 1..(m + 1) |-> [j \in 1..Len(here(q - 1)) |-> 0] \o (IF q <= m THEN <<q>> ELSE <<>>)])
Reverse(s) == [i \in 1..Len(s) |-> s[Len(s) + 1 - i]]
ReqEvaluated(c) == 1..Len(c.clips)
ImplIterate(preds, anns) == SelectSeq(preds, LAMBDA k : k # 0 /\ \E j \in DOMAIN anns : anns[j] = k)
ImplIterateRefinesReq(c) ==
    \A rev \in BOOLEAN :
        LET P == IF rev THEN Reverse(InputOrder(c, "pred")) ELSE InputOrder(c, "pred")
            A == IF rev THEN Reverse(InputOrder(c, "ann")) ELSE InputOrder(c, "ann")
            out == ImplIterate(P, A)
        IN  Len(out) = Len(c.clips) /\ {out[i] : i \in DOMAIN out} = ReqEvaluated(c)

(* ---------------- limb arithmetic on observed non-negative doubles ---------------- *)
LAddMag(a, b) ==
    LET s6 == a[6] + b[6]       c6 == s6 \div B16
        s5 == a[5] + b[5] + c6  c5 == s5 \div B16
        s4 == a[4] + b[4] + c5  c4 == s4 \div B16
        s3 == a[3] + b[3] + c4  c3 == s3 \div B16
    IN  <<1, a[2] + b[2] + c3, s3 % B16, s4 % B16, s5 % B16, s6 % B16, 1>>
LZero == <<0, 0, 0, 0, 0, 0, 1>>
LSum(vs) == LET S[k \in 0..Len(vs)] == IF k = 0 THEN LZero ELSE LAddMag(S[k - 1], vs[k]) IN S[Len(vs)]
LEps(n) == <<1, 0, 0, n, 0, 0, 1>>                        \* n * 2^-32
NonNeg(v) == LFinite(v) /\ v[1] >= 0
LCloseMag(a, b, n) == LMagLe(a, LAddMag(b, LEps(n))) /\ LMagLe(b, LAddMag(a, LEps(n)))
\* two observed doubles agree within 2^-32 (non-finite: same code; negative: identical)
LClose(a, b) == IF NonNeg(a) /\ NonNeg(b) THEN LCloseMag(a, b, 1) ELSE a = b
InUnit(v) == NonNeg(v) /\ LLeIntSlack(v, 1)
\* m is the mean of the non-empty sequence vs of non-negative doubles (|n*m - sum| <= n * 2^-32)
IsMean(m, vs) == /\ NonNeg(m) /\ \A i \in DOMAIN vs : NonNeg(vs[i])
                 /\ LCloseMag(LMulMag(m, Len(vs)), LSum(vs), Len(vs))

Accepts(a, v) ==
    CASE a.kind = "any"  -> TRUE
      [] a.kind = "free" -> InUnit(v)
      [] OTHER -> InUnit(v) /\ \E r \in a.vals : LApproxRat(v, r[1], r[2])

(***************************************************************************)
(* Acceptance of one observation o = [in |-> case, out |-> [fwd, rev,      *)
(* aoef]].  A run is                                                       *)
(*   [raised (string, "" = returned), score (<<>> or <<limb>>),            *)
(*    metrics <<[label, name, v]...>>, extra (clip evaluations of unknown  *)
(*    clips), clips <<per abstract clip: [n, score, metrics, matches]>>]   *)
(* a match is [item (0 = unknown), src, tgt, score, metrics].              *)
(* fwd: clips (with the extras interleaved) in case order; rev: both input *)
(* lists reversed; aoef: fwd saved                                         *)
(* with soundevent.io.save and loaded again.                               *)
(***************************************************************************)
Clauses == {"Evaluates", "EvaluatedClipsAreIntersection", "DistinctTerms", "ValueIsNamedMetric", "NoneClassHandling",
            "BalancedEqualsAccuracyOnBalanced",
            "ScoresAreMeans", "OrderIndependent", "SurvivesAoef"}

\* one clip evaluation for every clip present in both inputs (the binder maps clip evaluations to the clips of the
\* case by uuid: n = how many for clip k, extra = how many for any other clip), none for a clip of one input only
RunEvaluatesIntersection(c, r) ==
    /\ r.extra = 0
    /\ Len(r.clips) = Cardinality(ReqEvaluated(c))
    /\ \A k \in DOMAIN r.clips : r.clips[k].n = 1

ClipItems(c, k) == [j \in 1..Len(c.clips[k]) |-> c.items[c.clips[k][j]]]
Returned(r) == r.raised = ""
ListDistinct(ms) == \A i, j \in DOMAIN ms : i # j => ms[i].name # ms[j].name

RunDistinct(r) ==
    /\ ListDistinct(r.metrics)
    /\ \A k \in DOMAIN r.clips :
          /\ ListDistinct(r.clips[k].metrics)
          /\ \A x \in DOMAIN r.clips[k].matches : ListDistinct(r.clips[k].matches[x].metrics)

\* The term's own definition of balanced accuracy ends: "Thus for balanced datasets, the score is equal to accuracy."
\* Balanced: every class that OCCURS among the truths ('none' included) occurs equally often; classes that never
\* occur do not matter (balanced accuracy averages the recall over the occurring classes).  Then, however ties are
\* broken, one and the same prediction per item gives mean recall = (1/K) sum_k h_k/(n/K) = sum_k h_k / n = accuracy.
Balanced(its, C) ==
    LET n == Len(its)
        cnt(k) == Cardinality({i \in 1..n : Truth(its[i], C) = k})
        present == {Truth(its[i], C) : i \in 1..n}
    IN  \A k1, k2 \in present : cnt(k1) = cnt(k2)
\* within one metric list computed over the items `its`: a balanced-accuracy value equals an accuracy value next to it
ListBalancedEq(c, ms, its) ==
    (SingleLabel(c.task) /\ Len(its) > 0 /\ Balanced(EffSeq(its), c.C)) =>
        \A i, j \in DOMAIN ms : (MetricOf(ms[i]) = "bacc" /\ MetricOf(ms[j]) = "acc") => LClose(ms[i].v, ms[j].v)
RunBalancedEq(c, r) ==
    /\ ListBalancedEq(c, r.metrics, c.items)
    /\ \A k \in DOMAIN r.clips : ListBalancedEq(c, r.clips[k].metrics, ClipItems(c, k))

\* sel(mid): which metrics this clause looks at
RunValues(c, r, sel(_)) ==
    LET ok(m, its) == sel(MetricOf(m)) => Accepts(Allowed(MetricOf(m), c.task, its, c.C, c.u), m.v) IN
    /\ \A i \in DOMAIN r.metrics : ok(r.metrics[i], c.items)
    /\ \A k \in DOMAIN r.clips :
          /\ \A i \in DOMAIN r.clips[k].metrics : ok(r.clips[k].metrics[i], ClipItems(c, k))
          /\ \A x \in DOMAIN r.clips[k].matches :
                LET mt == r.clips[k].matches[x] IN
                (mt.item \in 1..Len(c.items) /\ mt.src /\ mt.tgt) =>
                    \A i \in DOMAIN mt.metrics : ok(mt.metrics[i], <<c.items[mt.item]>>)

HasUnlabelled(c) == SingleLabel(c.task) /\ \E i \in DOMAIN c.items : Eff(c.items[i]).t = 0

\* scores of a level that are present
Present(opts) == LET idx == SelectSeq([i \in 1..Len(opts) |-> i], LAMBDA i : ~IsNone(opts[i]))
                 IN  [j \in 1..Len(idx) |-> Some(opts[idx[j]])]
Flatten(ss) == LET F[k \in 0..Len(ss)] == IF k = 0 THEN <<>> ELSE F[k - 1] \o ss[k] IN F[Len(ss)]
RunMeans(c, r) ==
    LET clipScores  == Present([k \in 1..Len(r.clips) |-> r.clips[k].score])
        matchScores(k) == Present([x \in 1..Len(r.clips[k].matches) |-> r.clips[k].matches[x].score])
    IN  \* match -> clip -> evaluation, one mean per level (NOT a pooled mean over all matches: clips count equally)
        \* a clip evaluation's score is the mean of its matches' scores (nothing to average: no demand)
        /\ \A k \in DOMAIN r.clips :
              Len(matchScores(k)) > 0 => (~IsNone(r.clips[k].score) /\ IsMean(Some(r.clips[k].score), matchScores(k)))
        \* the evaluation's score is the mean of the clip scores that exist
        /\ Len(clipScores) > 0 => (~IsNone(r.score) /\ IsMean(Some(r.score), clipScores))

OptClose(a, b) == (IsNone(a) /\ IsNone(b)) \/ (~IsNone(a) /\ ~IsNone(b) /\ LClose(Some(a), Some(b)))
\* same metric lists: position by position by `key` ("name" between two runs of the code)
SameMetricsByPos(a, b) ==
    Len(a) = Len(b) /\ \A i \in DOMAIN a : a[i].name = b[i].name /\ LClose(a[i].v, b[i].v)
\* same metric lists as label-keyed collections (AOEF stores a label-keyed mapping; order is not promised)
SameMetricsByLabel(a, b) ==
    /\ Len(a) = Len(b)
    /\ \A i \in DOMAIN a : \E j \in DOMAIN b : a[i].label = b[j].label /\ LClose(a[i].v, b[j].v)
    /\ \A j \in DOMAIN b : \E i \in DOMAIN a : a[i].label = b[j].label /\ LClose(a[i].v, b[j].v)
SameRun(a, b, same(_, _)) ==
    /\ a.raised = b.raised
    /\ OptClose(a.score, b.score) /\ same(a.metrics, b.metrics) /\ a.extra = b.extra
    /\ Len(a.clips) = Len(b.clips)
    /\ \A k \in DOMAIN a.clips :
          LET p == a.clips[k]  q == b.clips[k] IN
          /\ p.n = q.n /\ OptClose(p.score, q.score) /\ same(p.metrics, q.metrics)
          /\ Len(p.matches) = Len(q.matches)
          /\ \A x \in DOMAIN p.matches : \E y \in DOMAIN q.matches :
                LET f == p.matches[x]  g == q.matches[y] IN
                f.item = g.item /\ f.src = g.src /\ f.tgt = g.tgt /\ OptClose(f.score, g.score) /\ same(f.metrics, g.metrics)
          /\ \A y \in DOMAIN q.matches : \E x \in DOMAIN p.matches : p.matches[x].item = q.matches[y].item

Holds(cl, o) ==
    LET c == o.in  f == o.out.fwd  v == o.out.rev  a == o.out.aoef  rs == <<o.out.fwd, o.out.rev>> IN
    CASE cl = "Evaluates"          -> Returned(f) /\ Returned(v)
      [] cl = "EvaluatedClipsAreIntersection" -> \A ri \in 1..2 : Returned(rs[ri]) => RunEvaluatesIntersection(c, rs[ri])
      [] cl = "DistinctTerms"      -> (Returned(f) => RunDistinct(f)) /\ (Returned(v) => RunDistinct(v))
      [] cl = "ValueIsNamedMetric" -> \A ri \in 1..2 : Returned(rs[ri]) => RunValues(c, rs[ri], LAMBDA mid : TRUE)
      [] cl = "BalancedEqualsAccuracyOnBalanced" -> \A ri \in 1..2 : Returned(rs[ri]) => RunBalancedEq(c, rs[ri])
      [] cl = "NoneClassHandling"  -> HasUnlabelled(c) =>
                                        \A ri \in 1..2 : Returned(rs[ri]) =>
                                            RunValues(c, rs[ri], LAMBDA mid : mid \in {"acc", "bacc", "top3", "map", "tcp"})
      [] cl = "ScoresAreMeans"     -> \A ri \in 1..2 : Returned(rs[ri]) => RunMeans(c, rs[ri])
      [] cl = "OrderIndependent"   -> (Returned(f) \/ Returned(v)) => SameRun(f, v, SameMetricsByPos)
      [] cl = "SurvivesAoef"       -> Returned(f) => SameRun(f, a, SameMetricsByLabel)
=============================================================================
