------------------------------ MODULE T_Raster ------------------------------
(* Trace validator for C20: every recorded observation must be accepted.     *)
(* Raster!FailingClauses(o) = {cl \in Clauses : ~Holds(cl, o)}, with the      *)
(* status tables of the case computed once.                                  *)
EXTENDS Raster, TraceKit
VARIABLE l
Failing(o) == IF Crashed(o) THEN {"NoCrash"} ELSE FailingClauses(o)
TInit == l = 1
TNext == l <= Len(Obs) /\ l' = l + 1
Report == l <= Len(Obs) =>
            LET bad == Failing(Obs[l])
            IN  bad = {} \/ PrintT(<<"REJECT", ToJson([id |-> Obs[l].id, bad |-> bad])>>)
=============================================================================
