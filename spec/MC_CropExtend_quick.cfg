SPECIFICATION Spec
CONSTANTS
  NU = 6
  NS = 2
  MaxN = 6
  CropN = 5
  Sub = 2
  Ext = 10
  ExtNs = {1, 2, 3}
  ChainNU = 4
  ChainNs = {1, 3}
  Algo = "arange_int"
  ExtFilter = TRUE
  CoordDtype = "axis"
  StopDefault = "last"
  FillBy = "reindex"
  LenBy = "sizes"
  RangeFrom = "index"
CONSTRAINT Export
INVARIANT ImplCrop
INVARIANT LawCropContiguous
INVARIANT LawCropClosedness
INVARIANT ImplExtend
INVARIANT ImplOpenEndExcluded
INVARIANT LawExtendContains
INVARIANT LawExtendExact
INVARIANT LawExtendIsInterval
INVARIANT ImplExactlyWidth
INVARIANT ImplPlacement
INVARIANT LawOffs
INVARIANT NeverOffLattice
INVARIANT ImplKeepsSamples
INVARIANT ImplChain
INVARIANT LawChainExact
INVARIANT LawChainKeepsOriginals
PROPERTY Terminates
CHECK_DEADLOCK FALSE
