SPECIFICATION Spec
CONSTANTS
  NU = 6
  NS = 2
  MaxN = 6
  Sub = 2
  Ext = 10
  ExtNs = {1, 2, 3, 5}
  Algo = "arange_int"
  ExtFilter = TRUE
CONSTRAINT Export
INVARIANT ImplCrop
INVARIANT LawCropContiguous
INVARIANT LawCropClosedness
INVARIANT ImplExtend
INVARIANT ImplOpenEndExcluded
INVARIANT LawExtendContains
INVARIANT LawExtendExact
INVARIANT LawExtendIsInterval
INVARIANT ImplExactlyWidth
INVARIANT ImplPlacement
INVARIANT LawOffs
PROPERTY Terminates
CHECK_DEADLOCK FALSE
