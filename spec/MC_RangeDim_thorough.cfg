SPECIFICATION Spec
CONSTANTS
  NU = 10
  NSU = 4
  NS = 4
  MaxM = 48
  MaxN = 12
  MaxSize = 3
  MaxDims = 3
  Trim = TRUE
  TrOnly = TRUE
  AxisBy = "dims"
  Memo = FALSE
  SweepStride = 1
  WriteVia = "data"
  ClampBy = "dim"
  RangeBy = "coords"
  LookupBy = "search"
  StepPrec = "step"
  QueryCast = "none"
CONSTRAINT Export
INVARIANT ImplFresh
INVARIANT ImplStep
INVARIANT LawDenoted
INVARIANT ImplCountWhenWhole
INVARIANT ImplCountFloorCeil
INVARIANT ImplInside
INVARIANT LawRange
INVARIANT ScanInv
INVARIANT ImplLookup
INVARIANT LawBracketUnique
INVARIANT LawUpperEdge
INVARIANT LawOwnBin
INVARIANT ImplSet
INVARIANT LawSlice
PROPERTY Terminates
CHECK_DEADLOCK FALSE
