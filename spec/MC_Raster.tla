------------------------------ MODULE MC_Raster ------------------------------
(***************************************************************************)
(* Enumeration machine for C20.                                            *)
(*                                                                         *)
(* Initial states: every call of a bounded universe (templates T x F in    *)
(* 1..MaxN, both dimension orders, three axis spacings; boxes on every     *)
(* tick around the template, time intervals, time stamps, the GeomModel    *)
(* catalogue at two scales, lists of two geometries, value lists of the    *)
(* wrong length), each in both all_touched modes.                          *)
(*                                                                         *)
(* Actions: rasterize as the implementation does it (Impl), one action per *)
(* step: length check, one Burn per geometry (painter's order) into an     *)
(* array of OutShape = <<rows, cols>>, then transposition + relabelling    *)
(* with the template's coordinates.                                        *)
(*   ShapeFrom = "array.shape"  the code as found: rows/cols are the       *)
(*                              template's shape in ITS dimension order    *)
(*   ShapeFrom = "named dims"   repaired: rows = sizes[ydim], cols = sizes[xdim] *)
(* Invariants: Impl => Req (every clause of Raster!RunClauses), and laws   *)
(* of the specification itself.  spec/history/MC_Raster_prefix.cfg shows   *)
(* TLC's counterexample for the code as found (F15).                       *)
(***************************************************************************)
EXTENDS Raster, Json
CONSTANTS MaxN, BoxStride, CatStride, PairStride, SameStride, AttrStride, TripleStride, ValueStride, PointStride, LightStride, ShapeFrom
VARIABLES c, pc, k, rast, res
vars == <<c, pc, k, rast, res>>

\* the shared catalogue plus shapes with HOLES wide enough to contain cell centres: a cell under a hole has its centre
\* outside the geometry and must stay unmarked, in a Polygon and in every part of a MultiPolygon alike
RectR(s, l, e, h) == <<<<s, l>>, <<e, l>>, <<e, h>>, <<s, h>>, <<s, l>>>>
Holed == <<
  G("MultiPolygon", <<<<RectR(0, 0, 6, 4), RectR(2, 1, 4, 3)>>, <<RectR(7, 0, 8, 2)>>>>),
  G("MultiPolygon", <<<<RectR(0, 0, 4, 8), RectR(1, 2, 3, 6)>>, <<RectR(5, 0, 12, 8), RectR(6, 1, 11, 7)>>>>),
  G("MultiPolygon", <<<<RectR(1, 1, 12, 9), RectR(3, 3, 9, 7)>>>>),
  G("Polygon", <<RectR(0, 0, 12, 8), RectR(2, 2, 10, 6)>>),
  \* several holes in one polygon: every one of them is outside
  G("Polygon", <<RectR(0, 0, 12, 8), RectR(1, 2, 4, 6), RectR(5, 2, 8, 6), RectR(9, 2, 11, 6)>>),
  G("Polygon", <<RectR(0, 0, 8, 10), RectR(2, 1, 6, 4), RectR(2, 6, 6, 9)>>)
>>
\* rings written WITHOUT the closing point (legal: a ring needs >= 3 points): a four-cornered box, a frame whose hole is
\* unclosed, a multipolygon with unclosed parts and hole -- every corner counts
OpenR(s, l, e, h) == <<<<s, l>>, <<e, l>>, <<e, h>>, <<s, h>>>>
Unclosed == <<
  G("Polygon", <<OpenR(1, 1, 7, 7)>>),
  G("Polygon", <<OpenR(0, 0, 12, 8), OpenR(2, 2, 10, 6)>>),
  G("Polygon", <<<<<<0, 0>>, <<8, 0>>, <<8, 4>>, <<4, 8>>, <<0, 8>>>>>>),
  G("MultiPolygon", <<<<OpenR(0, 0, 4, 8), OpenR(1, 2, 3, 6)>>, <<OpenR(5, 1, 11, 7)>>>>)
>>
NBase == Len(Catalogue(FMAXT))
Cat == Catalogue(FMAXT) \o Holed \o Unclosed
Spacings == <<[t0 |-> 2, ts |-> 2, f0 |-> 0, fs |-> 2],
              [t0 |-> 0, ts |-> 3, f0 |-> 2, fs |-> 2],
              [t0 |-> 1, ts |-> 2, f0 |-> 3, fs |-> 3]>>
\* fu = Hz per frequency tick.  250: a frequency value never equals a time value (except 0).  1 (descriptor su = 1): one
\* time tick is 1 s and one frequency tick 1 Hz, so EQUAL TICK NUMBERS ARE EQUAL NUMBERS on the two axes although they lie
\* in different bins (every spacing has different origins/steps on the two axes) -- a lookup must depend on the axis.
\* tstep / fstep = the 'step' ATTRIBUTE stored on the coordinate (<<>> = no such attribute), as opposed to the actual
\* spacing ts / fs.  Descriptor sa: 0 both attributes truthful (a fresh range axis); 1 both STALE -- the template was
\* subsampled by ts (fs) from an axis of step 1 and kept its attributes; 2 no step attributes; 3 time stale, frequency none.
\* rasterize must follow the actual coordinates: Req (Raster!Bin) is defined on t0, ts, f0, fs only.
StepAttr(sa, axis, s) == CASE sa = 0 -> <<s>>  [] sa = 1 -> <<1>>  [] sa = 2 -> <<>>  [] OTHER -> IF axis = "t" THEN <<1>> ELSE <<>>
Tpl(d) == [T |-> d.T, F |-> d.F, order |-> d.order, t0 |-> Spacings[d.sp].t0, ts |-> Spacings[d.sp].ts,
           f0 |-> Spacings[d.sp].f0, fs |-> Spacings[d.sp].fs, fu |-> IF d.su = 1 THEN 1 ELSE 250,
           tstep |-> StepAttr(d.sa, "t", Spacings[d.sp].ts), fstep |-> StepAttr(d.sa, "f", Spacings[d.sp].fs)]
Lo(ax) == Max(0, ax.a - 1)                       \* one tick below the first coordinate (coordinates are >= 0)
Hi(ax) == ax.a + ax.n * ax.s + 1                 \* one tick beyond the end of the last bin
Ticks(ax) == Lo(ax)..Hi(ax)
Pairs(ax) == UNION {{<<s, e>> : e \in s..Hi(ax)} : s \in Ticks(ax)}        \* every start <= end on the ticks
\* the n-th pair, n any natural number (used to give each pair on one axis a varying partner on the other)
Pick(ax, n) == LET w == Hi(ax) - Lo(ax) + 1
                   s == Lo(ax) + (n % w)
               IN  <<s, s + ((n \div w) % (Hi(ax) - s + 1))>>

(* ---- descriptors (integers and strings only, so that they form one set) ---- *)
TplD == [T : 1..MaxN, F : 1..MaxN, order : {"ft", "tf"}, sp : 1..3, su : {0}, sa : {0}]
D(td, gk, a, b, d, e, g2, mm) ==
    [T |-> td.T, F |-> td.F, order |-> td.order, sp |-> td.sp, su |-> 0, sa |-> 0, gk |-> gk, a |-> a, b |-> b, d |-> d, e |-> e, g2 |-> g2, g3 |-> 0, sv |-> 0, mm |-> mm]
Hash(x) == x.a * 31 + x.d * 17 + x.b * 7 + x.e * 3 + x.T + 2 * x.F + x.sp + (IF x.order = "ft" THEN 0 ELSE 5)
\* boxes: every time pair with a varying frequency pair, and every frequency pair with a varying time pair
BoxD(td) == LET ta == TAxis(Tpl(td))  fa == FAxis(Tpl(td)) IN
            {LET q == Pick(fa, 7 * p[1] + 13 * p[2] + 3 * td.T + td.sp) IN D(td, "box", p[1], q[1], p[2], q[2], 0, 0) : p \in Pairs(ta)}
      \cup {LET p == Pick(ta, 7 * q[1] + 13 * q[2] + 3 * td.F + td.sp) IN D(td, "box", p[1], q[1], p[2], q[2], 0, 0) : q \in Pairs(fa)}
IvD(td)  == {D(td, "iv", p[1], 0, p[2], 0, 0, 0) : p \in Pairs(TAxis(Tpl(td)))}
TsD(td)  == {D(td, "ts", s, 0, 0, 0, 0, 0) : s \in Ticks(TAxis(Tpl(td)))}
\* no geometry at all: a = index of the fill value, b = 1 scalar value / 0 empty value list
\* b = 2, 3: a value LIST of length 1 / 2 although there is no geometry: the lengths differ, the call must be rejected
NoneD(td) == {D(td, "none", q, sc, 0, 0, 0, 0) : q \in 1..3, sc \in 0..3}
DenseRings == <<<<<<0, 3>>, <<2, 0>>, <<4, 0>>, <<4, 4>>, <<0, 4>>>>,
                <<<<0, 2>>, <<2, 3>>, <<4, 3>>, <<4, 4>>, <<0, 4>>>>,
                <<<<0, 3>>, <<1, 1>>, <<4, 1>>, <<4, 4>>, <<0, 4>>>>>>
\* zero-extent and one-bin shapes in bin 0 of either axis: points in the first column / first row, short lines inside them
PtD(td)  == LET ta == TAxis(Tpl(td))  fa == FAxis(Tpl(td)) IN
            {D(td, "pt", t, f, 0, 0, 0, 0) : t \in {ta.a, ta.a + 1}, f \in Ticks(fa)} \cup {D(td, "pt", t, f, 0, 0, 0, 0) : t \in Ticks(ta), f \in {fa.a, fa.a + 1}}
LnD(td)  == LET ta == TAxis(Tpl(td))  fa == FAxis(Tpl(td)) IN
            {D(td, "ln", ta.a, q[1], ta.a + ta.s - 1, q[2], 0, 0) : q \in Pairs(fa)} \cup {D(td, "ln", p[1], fa.a, p[2], fa.a + fa.s - 1, 0, 0) : p \in Pairs(ta)}
\* densely traced polygons (more than 32 coordinates) whose edges pass close to cell centres: 4 x 4 templates only
DenseD(td) == IF td.T = 4 /\ td.F = 4 THEN {D(td, "dense", q, 0, 0, 0, 0, 0) : q \in 1..Len(DenseRings)} ELSE {}
CatD(td) == {D(td, "cat", i, m, 0, 0, 0, 0) : i \in 1..Len(Cat), m \in 1..2}
\* a time coordinate of the box equals one of its frequency coordinates as a number and falls into a different bin there
Coincide(y) == LET tp == Tpl([y EXCEPT !.su = 1]) IN
    \E v \in {y.a, y.d} \cap {y.b, y.e} : BinClamp(TAxis(tp), v) # BinClamp(FAxis(tp), v)
\* dtype / values / fill that a float32 raster cannot carry: decimals in float64, labels beyond 2^24 in int32 and uint32,
\* the top of uint8, and decimals in float32 itself (there the float32 rounding IS the content: Raster!Cast)
Special == <<[dt |-> "float64", vals |-> <<"0.1", "0.7", "1/3">>, fill |-> "0.3"],
             [dt |-> "float64", vals |-> <<"1/3", "0.3", "0.1">>, fill |-> "0"],
             [dt |-> "int32",   vals |-> <<"16777217", "2147483647", "5">>, fill |-> "-1"],
             [dt |-> "uint32",  vals |-> <<"4294967295", "16777217", "3">>, fill |-> "0"],
             [dt |-> "uint8",   vals |-> <<"255", "1", "2">>, fill |-> "7"],
             [dt |-> "float32", vals |-> <<"0.1", "0.7", "0.3">>, fill |-> "1/3"]>>
MarksCells(y) == BoxCells(Tpl(y), <<"clamp", "clamp">>, <<y.a, y.b, y.d, y.e>>) # {}
Descriptors ==
    UNION {LET bx == BoxD(td)  ct == CatD(td) IN
               {x \in bx : Hash(x) % BoxStride = 0}
         \cup  {x \in IvD(td) : Hash(x) % BoxStride = 0}
         \cup  {x \in TsD(td) : Hash(x) % (2 * LightStride) = 0}
         \cup  {x \in ct : Hash(x) % CatStride = 0}
         \cup  (IF (td.T + td.F + td.sp) % LightStride = 0 THEN NoneD(td) ELSE {})
         \cup  {x \in TsD(td) : x.a \in {Tpl(td).t0, Tpl(td).t0 + 1}}                  \* a time stamp in the FIRST time bin, always
         \cup  {x \in PtD(td) : Hash(x) % PointStride = 0}
         \cup  {x \in LnD(td) : Hash(x) % (3 * PointStride) = 0}
         \cup  DenseD(td)
         \cup  {[x EXCEPT !.g2 = j] : x \in {y \in bx : Hash(y) % PairStride = 1}, j \in 1..2}
         \cup  {[x EXCEPT !.g2 = j] : x \in {y \in ct : Hash(y) % (2 * CatStride) = 1}, j \in 1..2}
         \cup  {[x EXCEPT !.g2 = j, !.mm = m] : x \in {y \in bx : y.a < y.d /\ y.b < y.e /\ Hash(y) % (4 * PairStride) = 2},
                                                j \in 0..1, m \in 1..2}
         \* same numbers on both axes (su = 1): boxes one of whose time coordinates EQUALS one of its frequency coordinates
         \* but lies in another bin; lists whose second box has the FIRST box's frequency coordinates as its time coordinates
         \* (j = 3) or the usual second shapes; catalogue shapes (their vertices repeat the same few numbers on both axes)
         \cup  {[x EXCEPT !.su = 1] : x \in {y \in bx : Coincide(y) /\ Hash(y) % SameStride = 0}}
         \cup  {[x EXCEPT !.su = 1, !.g2 = j] : x \in {y \in bx : Hash(y) % (2 * SameStride) = 1}, j \in {1, 3}}
         \cup  {[x EXCEPT !.su = 1] : x \in {y \in ct : Hash(y) % (2 * CatStride) = 0}}
         \* the holed shapes, on every second template and scale
         \cup  {x \in ct : x.a > NBase /\ Hash(x) % (2 * LightStride) = 0}
         \* lists of three (A, B, A'): A' is A again (g3 = 1) or another box in the same bins (g3 = 2), B overlaps them;
         \* three distinct values, so the cells of A under B must end up with the value of A' -- painter's order
         \cup  {[x EXCEPT !.g2 = j, !.g3 = q] : x \in {y \in bx : Hash(y) % TripleStride = 1 /\ MarksCells(y)}, j \in 1..2, q \in 1..2}
         \* values, fill and dtype where "the value" and "the value as a float32" differ (sv = 1..6, see Special): single boxes,
         \* lists of two and of three
         \cup  {[x EXCEPT !.sv = q] : x \in {y \in bx : Hash(y) % ValueStride = 2 /\ MarksCells(y)}, q \in 1..Len(Special)}
         \cup  {[x EXCEPT !.sv = q, !.g2 = 1] : x \in {y \in bx : Hash(y) % (2 * ValueStride) = 3 /\ MarksCells(y)}, q \in 1..Len(Special)}
         \cup  {[x EXCEPT !.sv = q, !.g2 = 2, !.g3 = 1] : x \in {y \in bx : Hash(y) % (2 * ValueStride) = 5 /\ MarksCells(y)}, q \in 1..Len(Special)}
         \* stale or missing step attributes (sa = 1, 2, 3): boxes, and a few catalogue shapes
         \cup  {[x EXCEPT !.sa = q] : x \in {y \in bx : Hash(y) % AttrStride = 3}, q \in 1..3}
         \cup  {[x EXCEPT !.sa = q] : x \in {y \in ct : Hash(y) % (4 * CatStride) = 3}, q \in 1..2}
         : td \in TplD}

(* ---- the call as the binder sees it ---- *)
ScPt(p, m) == <<p[1] * m, IF p[2] = FMAXT THEN FMAXT ELSE p[2] * m>>
ScPts(s, m) == [i \in DOMAIN s |-> ScPt(s[i], m)]
ScaleG(g, m) ==
  LET x == g.coordinates IN
  CASE g.type = "TimeStamp"    -> G(g.type, x * m)
    [] g.type = "TimeInterval" -> G(g.type, <<x[1] * m, x[2] * m>>)
    [] g.type = "Point"        -> G(g.type, ScPt(x, m))
    [] g.type = "BoundingBox"  -> G(g.type, <<x[1] * m, ScPt(<<0, x[2]>>, m)[2], x[3] * m, ScPt(<<0, x[4]>>, m)[2]>>)
    [] g.type \in {"LineString", "MultiPoint"} -> G(g.type, ScPts(x, m))
    [] g.type \in {"Polygon", "MultiLineString"} -> G(g.type, [i \in DOMAIN x |-> ScPts(x[i], m)])
    [] g.type = "MultiPolygon" -> G(g.type, [i \in DOMAIN x |-> [j \in DOMAIN x[i] |-> ScPts(x[i][j], m)]])
\* Index-space outlines (bin indices 0..4) whose slanted edges pass within 0.15 .. 0.3 bin of a cell centre, traced tick by
\* tick along their axis-parallel edges, which run 6 ticks beyond the template (all of that maps to index 4): 40 - 60
\* coordinates.  The mapped shape is the five-cornered outline; CentreRule decides every cell but those cut through the centre.
TickOf(ax, i) == IF i < 4 THEN Coord(ax, i + 1) ELSE Coord(ax, ax.n) + ax.s + 6       \* index 4 = beyond the last bin
\* the points from a (inclusive) to b (exclusive), every tick when the edge is axis-parallel
Trace(a, b) ==
    IF a[1] = b[1] /\ a[2] # b[2] THEN [q \in 1..Abs(b[2] - a[2]) |-> <<a[1], a[2] + (IF b[2] > a[2] THEN q - 1 ELSE 1 - q)>>]
    ELSE IF a[2] = b[2] /\ a[1] # b[1] THEN [q \in 1..Abs(b[1] - a[1]) |-> <<a[1] + (IF b[1] > a[1] THEN q - 1 ELSE 1 - q), a[2]>>]
    ELSE <<a>>
DensePoly(tp, ring) ==
    LET v == [q \in 1..5 |-> <<TickOf(TAxis(tp), ring[q][1]), TickOf(FAxis(tp), ring[q][2])>>]
    IN  G("Polygon", <<Trace(v[1], v[2]) \o Trace(v[2], v[3]) \o Trace(v[3], v[4]) \o Trace(v[4], v[5]) \o Trace(v[5], v[1]) \o <<v[1]>>>>)
First(x) ==
    CASE x.gk = "box" -> G("BoundingBox", <<x.a, x.b, x.d, x.e>>)
      [] x.gk = "iv"  -> G("TimeInterval", <<x.a, x.d>>)
      [] x.gk = "ts"  -> G("TimeStamp", x.a)
      [] x.gk = "cat" -> ScaleG(Cat[x.a], x.b)
      [] x.gk = "pt"  -> G("Point", <<x.a, x.b>>)
      [] x.gk = "ln"  -> G("LineString", <<<<x.a, x.b>>, <<x.d, x.e>>>>)
      [] x.gk = "dense" -> DensePoly(Tpl(x), DenseRings[x.a])
\* second geometry of a list: a box over the middle of the template, or a right triangle whose hypotenuse runs
\* through cell centres when the template is square
\* j = 3: a box whose TIME coordinates are the first box's FREQUENCY coordinates (same numbers when su = 1)
Second(x, tp, j) ==
    IF j = 3 THEN G("BoundingBox", <<x.b, tp.f0 + 1, x.e, tp.f0 + tp.fs + 1>>)
    ELSE IF j = 1 THEN G("BoundingBox", <<tp.t0 + tp.ts - 1, tp.f0, tp.t0 + 2 * tp.ts, tp.f0 + tp.fs + 1>>)
    ELSE G("Polygon", <<<<<<tp.t0, tp.f0>>, <<tp.t0 + tp.T * tp.ts, tp.f0>>, <<tp.t0, tp.f0 + tp.F * tp.fs>>, <<tp.t0, tp.f0>>>>>>)
\* a different box in the same bins as <<a, b, d, e>>: every coordinate inside the axis range moves to the coordinate
\* of its bin (LawSameBins: the mapped box is the same under both readings)
Snap(ax, v) == IF v < Coord(ax, 1) \/ v > Coord(ax, ax.n) THEN v ELSE Coord(ax, BinClamp(ax, v) + 1)
SameBins(x, tp) == G("BoundingBox", <<Snap(TAxis(tp), x.a), Snap(FAxis(tp), x.b), Snap(TAxis(tp), x.d), Snap(FAxis(tp), x.e)>>)
Third(x, tp) == IF x.g3 = 1 THEN First(x) ELSE SameBins(x, tp)
Fills == <<0, -1, 7>>
\* integers as numerals (a sequence, so that it is exported as a JSON array)
Numerals(v) == CASE Len(v) = 0 -> <<>>
                 [] Len(v) = 1 -> <<ToString(v[1])>>
                 [] Len(v) = 2 -> <<ToString(v[1]), ToString(v[2])>>
                 [] OTHER      -> <<ToString(v[1]), ToString(v[2]), ToString(v[3])>>
Concrete(x) ==
    LET tp == Tpl(x)
        n  == Hash(x)
        gs == IF x.gk = "none" THEN <<>> ELSE IF x.g2 = 0 THEN <<First(x)>>
              ELSE IF x.g3 = 0 THEN <<First(x), Second(x, tp, x.g2)>> ELSE <<First(x), Second(x, tp, x.g2), Third(x, tp)>>
        fl == IF x.gk = "none" THEN Fills[x.a] ELSE Fills[(n % 3) + 1]
        dt == IF fl < 0 THEN <<"float32", "int16">>[(n % 2) + 1] ELSE <<"float32", "uint8", "int32", "float64">>[((n \div 3) % 4) + 1]
        sc == IF x.gk = "none" THEN x.b = 1 ELSE x.mm = 0 /\ x.g3 = 0 /\ (n \div 2) % 3 = 0
        vs == CASE x.gk = "none" -> IF x.b = 1 THEN <<5>> ELSE IF x.b = 0 THEN <<>> ELSE IF x.b = 2 THEN <<1>> ELSE <<1, 2>>
                [] x.mm = 1 -> IF Len(gs) = 1 THEN <<>> ELSE <<4>>
                [] x.mm = 2 -> IF Len(gs) = 1 THEN <<1, 2>> ELSE <<1, 2, 3>>
                [] OTHER    -> IF sc /\ x.g3 = 0 THEN <<5>> ELSE IF Len(gs) = 1 THEN <<1 + (n % 3)>>
                               ELSE IF Len(gs) = 2 THEN <<2 + (n % 2), 4>> ELSE <<2 + (n % 2), 4, 6>>
    IN  IF x.sv = 0 THEN [tpl |-> tp, geoms |-> gs, values |-> Numerals(vs), scalar |-> sc, fill |-> ToString(fl), dt |-> dt]
        ELSE [tpl |-> tp, geoms |-> gs, values |-> SubSeq(Special[x.sv].vals, 1, Len(gs)), scalar |-> FALSE,
              fill |-> Special[x.sv].fill, dt |-> Special[x.sv].dt]

(* ---- Impl: rasterize as written ---- *)
Case == Concrete(c)
OutShape(tp) ==                                               \* <<rows, cols>> handed to rasterio.features.rasterize
    IF ShapeFrom = "array.shape" THEN (IF tp.order = "ft" THEN <<tp.F, tp.T>> ELSE <<tp.T, tp.F>>)
    ELSE <<tp.F, tp.T>>
Grid(tp) == (0..(OutShape(tp)[2] - 1)) \X (0..(OutShape(tp)[1] - 1))      \* <<col, row>>: x = column, y = row
CC == <<"clamp", "clamp">>
\* rasterio on the mapped shape: centre rule for polygons (a centre exactly on an edge is taken as outside);
\* all_touched: every cell the closed polygon meets; lines and points: rasterio's pixel chain is NOT modelled,
\* the model marks every cell near the mapped shape (the largest set Req allows)
BurnOne(cs, a, r, j) ==
    LET g == cs.geoms[j]
        mp == TLCEval(MParts(cs.tpl, CC, g))
        ix == IF BoxLike(g) THEN BoxIdx(cs.tpl, CC, BoxOf(g)) ELSE <<>>           \* boxes: closed form (LawBoxIsCentreRule)
    IN  [cell \in DOMAIN r |-> LET st == IF BoxLike(g) THEN BoxStatus(ix, a, cell) ELSE StatusM(mp, Areal(g), a, cell)
                               IN  IF st = "in" \/ (st = "either" /\ (a \/ ~Areal(g))) THEN Val(cs, j) ELSE r[cell]]
Blank(cs) == [cell \in Grid(cs.tpl) |-> FillOf(cs)]
Raised(e) == [raised |-> e, dims |-> <<>>, tc |-> <<>>, fc |-> <<>>, cells |-> <<>>]
\* xr.DataArray(data=rast.T, dims=(xdim, ydim), coords=template coords): sizes must agree
Label(tp, r) ==
    IF OutShape(tp)[2] = tp.T /\ OutShape(tp)[1] = tp.F
    THEN [raised |-> "", dims |-> <<"time", "frequency">>, tc |-> Coords(TAxis(tp)), fc |-> Coords(FAxis(tp)),
          cells |-> [i \in 1..tp.T |-> [j \in 1..tp.F |-> r[<<i - 1, j - 1>>]]]]
    ELSE Raised("CoordinateValidationError")
RECURSIVE ImplRast(_, _, _)
ImplRast(cs, a, j) == IF j = 0 THEN Blank(cs) ELSE BurnOne(cs, a, ImplRast(cs, a, j - 1), j)
ImplRun(cs, a) == IF ~LenOK(cs) THEN Raised("ValueError") ELSE Label(cs.tpl, ImplRast(cs, a, NG(cs)))

\* the machine runs the plain mode step by step; all_touched=True is checked on the closed form ImplRun(_, TRUE)
Init == /\ c \in Descriptors
        /\ pc = "check" /\ k = 0 /\ rast = <<>> /\ res = Raised("pending")
Reject == pc = "check" /\ ~LenOK(Case) /\ pc' = "raised" /\ res' = Raised("ValueError") /\ UNCHANGED <<c, k, rast>>
Enter  == pc = "check" /\ LenOK(Case) /\ pc' = "burn" /\ k' = 1 /\ rast' = Blank(Case) /\ UNCHANGED <<c, res>>
Burn   == pc = "burn" /\ k <= NG(Case) /\ rast' = BurnOne(Case, FALSE, rast, k) /\ k' = k + 1 /\ UNCHANGED <<c, pc, res>>
Relabel == /\ pc = "burn" /\ k > NG(Case)
           /\ res' = Label(Case.tpl, rast)
           /\ pc' = IF res'.raised = "" THEN "done" ELSE "raised"
           /\ UNCHANGED <<c, k, rast>>
Next == Reject \/ Enter \/ Burn \/ Relabel
Spec == Init /\ [][Next]_vars /\ WF_vars(Next)
Terminal == pc \in {"done", "raised"}
Terminates == <>Terminal

Export == Terminal => PrintT(<<"CASE", ToJson(Case)>>)

(* ---- Impl => Req ---- *)
ImplRefinesReq ==
    Terminal => LET cs == Case
                    tp == IF LenOK(cs) THEN Tab(cs, FALSE) ELSE <<>>
                    tt == IF LenOK(cs) THEN Tab(cs, TRUE) ELSE <<>>
                    rt == ImplRun(cs, TRUE)
                IN  /\ \A cl \in RunClauses : RunHolds(cl, cs, res, FALSE, tp) /\ RunHolds(cl, cs, rt, TRUE, tt)
                    /\ Superset(cs, res, rt, FALSE) /\ Superset(cs, res, rt, TRUE)
                    /\ res = ImplRun(cs, FALSE)                          \* the machine and its closed form agree
ImplOnTemplateAxes == Terminal => RunHolds("DimsAndCoordsOfTemplate", Case, res, FALSE, <<>>)     \* the clause F15 breaks, on its own line

(* ---- laws of the specification (evaluated once per call, in the state after the length check) ---- *)
LawAt == pc = "burn" /\ k = 1
AxesOf(tp) == {TAxis(tp), FAxis(tp)}
LawBin == LawAt => \A ax \in AxesOf(Case.tpl) : \A v \in Ticks(ax) :
    /\ (Coord(ax, 1) <= v /\ v <= Coord(ax, ax.n)) =>
          /\ BinClamp(ax, v) = (v - ax.a) \div ax.s                                        \* closed form of the lookup
          /\ Coord(ax, BinClamp(ax, v) + 1) <= v /\ v < Coord(ax, BinClamp(ax, v) + 1) + ax.s   \* the bin that contains v
    /\ \A r \in Readings : Bin(r, ax, v) \in 0..ax.n /\ (v + 1 \in Ticks(ax) => Bin(r, ax, v) <= Bin(r, ax, v + 1))
    /\ BinExtent(ax, v) <= BinClamp(ax, v)
    /\ (BinExtent(ax, v) # BinClamp(ax, v)) <=> Ambiguous(ax, v)
    /\ v >= Coord(ax, ax.n) + ax.s => \A r \in Readings : Bin(r, ax, v) = ax.n            \* beyond the last bin: all of it is covered
    /\ Coord(ax, ax.n) + ax.s < FMAXT                                                     \* FMAXT stands for any frequency beyond the template
\* for a box the centre rule on the mapped shape IS "from the bin of the start (incl.) to the bin of the end (excl.)",
\* and the closed cells the mapped rectangle touches are BoxTouches
LawBoxIsCentreRule == LawAt => LET cs == Case IN \A j \in 1..NG(cs) : BoxLike(cs.geoms[j]) =>
    \A rr \in RRFor(cs.tpl, cs.geoms[j]) :
        LET mp == TLCEval(MParts(cs.tpl, rr, cs.geoms[j]))  ix == BoxIdx(cs.tpl, rr, BoxOf(cs.geoms[j])) IN
        \A cell \in CellsOf(cs.tpl) : /\ StatusM(mp, TRUE, FALSE, cell) = BoxStatus(ix, FALSE, cell)
                                       /\ StatusM(mp, TRUE, TRUE, cell) = BoxStatus(ix, TRUE, cell)
\* Cells is monotone in the box (one tick of growth on any side never loses a cell)
Grow(b) == {<<Max(b[1] - 1, 0), b[2], b[3], b[4]>>, <<b[1], Max(b[2] - 1, 0), b[3], b[4]>>, <<b[1], b[2], b[3] + 1, b[4]>>, <<b[1], b[2], b[3], b[4] + 1>>}
LawCellsMonotone == LawAt => LET cs == Case IN \A j \in 1..NG(cs) : BoxLike(cs.geoms[j]) =>
    \A rr \in RR : \A b2 \in Grow(BoxOf(cs.geoms[j])) : BoxCells(cs.tpl, rr, BoxOf(cs.geoms[j])) \subseteq BoxCells(cs.tpl, rr, b2)
\* a cell whose centre is inside is touched; the acceptance relation is never empty
LawInIsTouched == LawAt => LET cs == Case IN \A j \in 1..NG(cs) : Areal(cs.geoms[j]) => \A rr \in RRFor(cs.tpl, cs.geoms[j]) :
    LET mp == TLCEval(MParts(cs.tpl, rr, cs.geoms[j])) IN
    \A cell \in CellsOf(cs.tpl) : StatusM(mp, Areal(cs.geoms[j]), FALSE, cell) = "in" => Touched(mp, cell)
\* the third box of a list (A, B, A') lies in the same bins as the first under every reading
LawSameBins == (LawAt /\ c.g3 # 0) => LET cs == Case IN
    \A rr \in RR : BoxIdx(cs.tpl, rr, BoxOf(cs.geoms[3])) = BoxIdx(cs.tpl, rr, BoxOf(cs.geoms[1]))
\* a dense outline has more than 32 coordinates and maps onto the five-cornered outline
LawDense == (LawAt /\ c.gk = "dense") => LET cs == Case  ring == cs.geoms[1].coordinates[1] IN
    /\ Len(ring) > 32 /\ Len(ring) <= 80
    /\ LET img == {MapPt(cs.tpl, CC, ring[q]) : q \in DOMAIN ring}
           cor == [q \in 1..6 |-> LET p == DenseRings[c.a][IF q = 6 THEN 1 ELSE q] IN <<2 * p[1], 2 * p[2]>>]
       IN  Range(cor) \subseteq img /\ \A p \in img : OnPath(cor, p)                  \* all corners, and nothing off the outline
LawSatisfiable == LawAt => LET cs == Case IN \A a \in BOOLEAN : LET tb == Tab(cs, a) IN
    \A cell \in CellsOf(cs.tpl) : Allowed(cs, tb, cell) # {}
=============================================================================
