------------------------------ MODULE MC_WavMeta ------------------------------
(***************************************************************************)
(* X01 (c, d): enumeration of Recording.from_file calls, header calls and  *)
(* checksum sizes; the laws of the header layout; the read loop of         *)
(* compute_md5_checksum / compute_sha2_checksum as a state machine (Impl): *)
(*   buffer = fp.read(B); while len(buffer) > 0: update(buffer); buffer =  *)
(*   fp.read(B)                                                            *)
(* with TLC checking that the bytes fed to the digest are exactly the file *)
(* (every byte once, in order), for every size around the buffer length.   *)
(***************************************************************************)
EXTENDS WavMeta, Json
CONSTANTS Rates, Frames, TEMode,         \* (c)
          HRates, HCounts,               \* (d)
          Sizes, B                       \* checksum: file sizes, BUFFER_SIZE
VARIABLES c, pc, pos, buf, fed, reads
\* time expansions <<p, q>> = p / q (a cfg file cannot hold tuples)
TEs == IF TEMode = "small" THEN {<<1, 1>>, <<10, 1>>, <<1, 2>>, <<3, 2>>, <<1, 10>>}
       ELSE {<<1, 1>>, <<10, 1>>, <<1, 2>>, <<3, 2>>, <<1, 10>>, <<2, 1>>, <<1, 4>>, <<5, 1>>}
vars == <<c, pc, pos, buf, fed, reads>>

RecCases == {[kind |-> "recfile", sr |-> sr, ch |-> ch, fr |-> fr, st |-> IF ch = 1 THEN "PCM_16" ELSE "FLOAT", te |-> te, hash |-> h,
              omit |-> (te = <<1, 1>> /\ h /\ fr % 2 = 1)] :       \* omit: time_expansion and compute_hash left at their defaults
                 sr \in Rates, ch \in {1, 2}, fr \in Frames, te \in TEs, h \in BOOLEAN}
HdrCases == {[kind |-> "header", sr |-> sr, ch |-> ch, n |-> n, bits |-> bits, omit |-> (bits = 16 /\ n % 2 = 0)] :   \* omit: bit_depth left at its default
                 sr \in HRates, ch \in 1..3, n \in HCounts, bits \in {8, 16, 24, 32}}
SumCases == {[kind |-> "checksum", size |-> s] : s \in Sizes}

Init == /\ c \in RecCases \cup HdrCases \cup SumCases
        /\ pc = "in" /\ pos = 0 /\ buf = 0 /\ fed = <<>> /\ reads = 0
\* (c), (d): nothing to compute step by step
Go == /\ pc = "in" /\ c.kind # "checksum" /\ pc' = "out" /\ UNCHANGED <<c, pos, buf, fed, reads>>
\* the read loop: a file is a range of byte positions, fed = sequence of <<first, last + 1>> ranges handed to update()
Read(n) == IF c.size - pos < n THEN c.size - pos ELSE n                   \* fp.read(n) returns what is left, at most n
First == /\ pc = "in" /\ c.kind = "checksum" /\ pc' = "loop"
         /\ buf' = Read(B) /\ pos' = pos + Read(B) /\ reads' = reads + 1 /\ UNCHANGED <<c, fed>>
Update == /\ pc = "loop" /\ buf > 0
          /\ fed' = Append(fed, <<pos - buf, pos>>)
          /\ buf' = Read(B) /\ pos' = pos + Read(B) /\ reads' = reads + 1 /\ UNCHANGED <<c, pc>>
Exit == /\ pc = "loop" /\ buf = 0 /\ pc' = "out" /\ UNCHANGED <<c, pos, buf, fed, reads>>
Next == Go \/ First \/ Update \/ Exit
Spec == Init /\ [][Next]_vars /\ WF_vars(Next)

Export == pc = "out" => PrintT(<<"CASE", ToJson(c)>>)

\* ---- Impl => Req for the read loop: the ranges fed tile [0, size) in order, nothing twice, nothing dropped
Tiles(f, size) == /\ (IF f = <<>> THEN size = 0 ELSE f[1][1] = 0 /\ f[Len(f)][2] = size)
                  /\ \A i \in DOMAIN f : f[i][1] < f[i][2] /\ (i > 1 => f[i][1] = f[i - 1][2])
ImplFeedsWholeFile == (pc = "out" /\ c.kind = "checksum") => Tiles(fed, c.size) /\ reads = c.size \div B + 1 + (IF c.size % B = 0 THEN 0 ELSE 1)
ImplFeedsPrefix    == (pc = "loop") => pos <= c.size /\ (fed = <<>> \/ Tiles(fed, pos - buf))
Terminates == <>(pc = "out")

\* ---- laws of the header layout
IsHdr == c.kind = "header" /\ pc = "in"
H == Header(c.sr, c.ch, c.n, c.bits)
LawLen44     == IsHdr => Len(H) = 44 /\ \A i \in 1..44 : H[i] \in 0..255
LawFields    == IsHdr => /\ SubSeq(H, 1, 4) = RIFF /\ SubSeq(H, 9, 12) = WAVE /\ SubSeq(H, 13, 16) = FMT /\ SubSeq(H, 37, 40) = DATA
                         /\ FromLE(SubSeq(H, 5, 8)) = FromLE(SubSeq(H, 41, 44)) + 36            \* file size - 8 = data + 36
                         /\ FromLE(SubSeq(H, 17, 20)) = 16 /\ FromLE(SubSeq(H, 21, 22)) = 1       \* PCM
                         /\ FromLE(SubSeq(H, 23, 24)) = c.ch /\ FromLE(SubSeq(H, 25, 28)) = c.sr /\ FromLE(SubSeq(H, 35, 36)) = c.bits
LawConsistent == IsHdr => /\ FromLE(SubSeq(H, 29, 32)) = c.sr * FromLE(SubSeq(H, 33, 34))         \* byte rate = rate x block align
                          /\ FromLE(SubSeq(H, 41, 44)) = c.n * FromLE(SubSeq(H, 33, 34))           \* data size = frames x block align
                          /\ FromLE(SubSeq(H, 33, 34)) * 8 = c.ch * c.bits
LawRoundTrip == IsHdr => \A x \in {c.sr, c.n, c.ch, ByteRate(c.sr, c.ch, c.bits)} : FromLE(LE(x, 4)) = x
\* ---- laws of the time-expansion arithmetic
IsRec == c.kind = "recfile" /\ pc = "in"
LawTeOne  == IsRec => (c.te = <<1, 1>> => TeRate(c.sr, c.te) = c.sr /\ TeIntegral(c.sr, c.te))
LawTeRate == IsRec => TeRate(c.sr, c.te) * c.te[2] <= c.sr * c.te[1] /\ c.sr * c.te[1] < (TeRate(c.sr, c.te) + 1) * c.te[2]
=============================================================================
