SPECIFICATION Spec
CONSTANTS
  MaxN = 4
  BoxStride = 9
  CatStride = 5
  PairStride = 20
  SameStride = 10
  AttrStride = 40
  TripleStride = 30
  ValueStride = 120
  PointStride = 12
  ShapeFrom = "named dims"
CONSTRAINT Export
INVARIANT ImplRefinesReq
INVARIANT ImplOnTemplateAxes
INVARIANT LawBin
INVARIANT LawBoxIsCentreRule
INVARIANT LawCellsMonotone
INVARIANT LawInIsTouched
INVARIANT LawSameBins
INVARIANT LawDense
INVARIANT LawSatisfiable
PROPERTY Terminates
CHECK_DEADLOCK FALSE
