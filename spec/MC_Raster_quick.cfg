SPECIFICATION Spec
CONSTANTS
  MaxN = 4
  BoxStride = 20
  CatStride = 6
  PairStride = 30
  SameStride = 20
  AttrStride = 90
  TripleStride = 30
  ValueStride = 120
  PointStride = 16
  LightStride = 2
  ShapeFrom = "named dims"
CONSTRAINT Export
INVARIANT ImplRefinesReq
INVARIANT ImplOnTemplateAxes
INVARIANT LawBin
INVARIANT LawBoxIsCentreRule
INVARIANT LawCellsMonotone
INVARIANT LawInIsTouched
INVARIANT LawSameBins
INVARIANT LawDense
INVARIANT LawSatisfiable
PROPERTY Terminates
CHECK_DEADLOCK FALSE
