SPECIFICATION Spec
CONSTANTS
  RootNames = {1, 2, 4}
  Stride = 7
  AncestorFollow = FALSE
  MaxWalkDepth = 2
CONSTRAINT Export
INVARIANT ImplRefinesReq
INVARIANT ImplPrefix
INVARIANT RaisedIffNotDir
INVARIANT LawBetween
INVARIANT LawFinite
INVARIANT LawTopLevel
INVARIANT LawStrict
INVARIANT LawFollow
INVARIANT LawFlatIgnoresFollow
INVARIANT LawDsBetween
INVARIANT WalkBounded
INVARIANT NoStuck
INVARIANT StepsExact
CHECK_DEADLOCK FALSE
