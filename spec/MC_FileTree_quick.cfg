SPECIFICATION Spec
CONSTANTS
  RootNames = {1, 2, 4}
  Stride = 11
  AncestorFollow = FALSE
  MaxWalkDepth = 2
CONSTRAINT Export
INVARIANT ImplRefinesReq
INVARIANT ImplPrefix
INVARIANT RaisedIffNotDir
INVARIANT Laws
INVARIANT WalkBounded
INVARIANT NoStuck
INVARIANT StepsExact
PROPERTY Terminates
CHECK_DEADLOCK FALSE
