SPECIFICATION Spec
CONSTANTS
  NU = 6
  NSU = 2
  NS = 3
  MaxM = 24
  MaxN = 6
  MaxSize = 2
  MaxDims = 3
  Trim = TRUE
  TrOnly = FALSE
  AxisBy = "dims"
  Memo = FALSE
  SweepStride = 7
  WriteVia = "data"
  ClampBy = "dim"
  RangeBy = "coords"
  LookupBy = "search"
  StepPrec = "step"
  QueryCast = "none"
CONSTRAINT Export
INVARIANT ImplFresh
INVARIANT ImplStep
INVARIANT LawDenoted
INVARIANT ImplCountWhenWhole
INVARIANT ImplCountFloorCeil
INVARIANT ImplInside
INVARIANT LawRange
INVARIANT ScanInv
INVARIANT ImplLookup
INVARIANT LawBracketUnique
INVARIANT LawUpperEdge
INVARIANT LawOwnBin
INVARIANT ImplSet
INVARIANT LawSlice
PROPERTY Terminates
CHECK_DEADLOCK FALSE
