---------------------------- MODULE GeomValidate ----------------------------
(***************************************************************************)
(* C03 -- geometry validation accepts exactly the valid geometries and     *)
(* normalises them.                                                        *)
(*                                                                         *)
(* A coordinate STRUCTURE (valid or malformed: wrong arity, wrong nesting, *)
(* scalars where lists belong ...) is a TOKEN STRING: a sequence of        *)
(* integers in which OPEN / CLOSE bracket a list and every other integer   *)
(* is a number, literally the value in seconds / hertz                     *)
(*      [[0, 1], [2, 5000000]]  =  <<O, O,0,1,C, O,2,5000000,C, C>>        *)
(* All structures therefore have ONE TLC type (Seq(Int)), can be put in    *)
(* sets, and Valid / Normal / Impl are computed from the tokens by the     *)
(* parser below.  Tree(s) rebuilds the nested value for the JSON export.   *)
(* Numbers are literal (frequency unit 1 Hz, time unit 1 s): no unit table.*)
(***************************************************************************)
EXTENDS GeomModel

FMAXHZ == 5000000           \* soundevent.data.MAX_FREQUENCY

(***************************************************************************)
(* Numbers.  In a "lit" case a number token IS the value (seconds / hertz).*)
(* In a "fine" case it is a CODE for a non-integer double: validity and    *)
(* normal forms are order facts (comparisons with 0, with MAX_FREQUENCY    *)
(* and between times), so any strictly increasing coding that keeps        *)
(* 0 |-> 0.0 and FMAXHZ |-> 5000000.0 leaves Valid / Normal / Impl as they *)
(* are.  FineTable is that coding (code, decimal literal), exported with   *)
(* every fine case; the binder parses the literals, checks that they       *)
(* increase strictly, and maps results back to codes by exact equality.    *)
(* The values: many-bit dyadic fractions, decimals that need more than six *)
(* digits, two times that differ in the seventh decimal only, and values a *)
(* hair inside / outside the frequency ceiling.                            *)
(***************************************************************************)
FineTable == << <<-1, "-0.00000095367431640625">>,            \* -2^-20
                <<0, "0.0">>,
                <<1, "0.00000095367431640625">>,              \* 2^-20
                <<2, "0.123456789">>,
                <<3, "1.0">>,
                <<4, "1.000000000931322574615478515625">>,    \* 1 + 2^-30
                <<5, "1.0000001">>,
                <<6, "1.0000004">>,
                <<7, "2.5">>,
                <<4999999, "4999999.9999999">>,               \* MAX_FREQUENCY - 1e-7
                <<5000000, "5000000.0">>,
                <<5000001, "5000000.0000001">> >>             \* MAX_FREQUENCY + 1e-7
FineCodes == {FineTable[i][1] : i \in DOMAIN FineTable}
FineTableOK == /\ \A i \in 1..(Len(FineTable) - 1) : FineTable[i][1] < FineTable[i + 1][1]     \* listed in increasing order
               /\ <<0, "0.0">> \in Range(FineTable) /\ <<FMAXHZ, "5000000.0">> \in Range(FineTable)
OPEN   == -98
CLOSE  == -99
ABSENT == -97               \* the one-token structure <<ABSENT>>: no coordinates given at all (no key / argument / attribute)
IsNum(t) == t # OPEN /\ t # CLOSE /\ t # ABSENT
Missing(s) == s = <<ABSENT>>

KindDepth(k) ==
    CASE k = "TimeStamp" -> 0
      [] k \in {"TimeInterval", "Point", "BoundingBox"} -> 1
      [] k \in {"LineString", "MultiPoint"} -> 2
      [] k \in {"Polygon", "MultiLineString"} -> 3
      [] k = "MultiPolygon" -> 4

(***************************************************************************)
(* Containers.  A structure is nested sequences; where Python containers   *)
(* are handed over (constructor, dict, attribute object -- JSON text has   *)
(* arrays only) the same structure can be built from lists or from tuples. *)
(* Validity, normal form and equality are about the numbers and their      *)
(* nesting, not about the container type, so every case is also built:     *)
(*   "tuple": every level a tuple;  "inner": a list of tuples (every level *)
(*   below the outermost one);  "outer": a tuple of lists.                 *)
(* Exported with every case; the binder builds each variant that differs.  *)
(***************************************************************************)
Containers == <<"list", "tuple", "inner", "outer">>
\* Attribute objects.  "From an attribute object" means any object with attributes `type` and `coordinates`; what kind of
\* object carries them is no part of validity either: a namespace, an instance of a plain class, a dataclass, a named
\* tuple, a pydantic model of somebody else's (with only those two fields, and with more).  Exported with every case;
\* the attributes mode is run once per guise and judged by the same clauses.
Guises == <<"namespace", "plain", "dataclass", "namedtuple", "pydantic", "pydantic_extra">>

(* ------------------------------ the parser ------------------------------ *)
Delta(t) == IF t = OPEN THEN 1 ELSE IF t = CLOSE THEN -1 ELSE 0
\* bracket depth after each of the tokens lo..hi, given the depth before lo (divide and conquer: recursion
\* depth log n, so that long observed structures do not exhaust TLC's stack)
RECURSIVE DSeq(_, _, _, _)
DSeq(s, lo, hi, base) ==
    IF lo > hi THEN <<>>
    ELSE IF lo = hi THEN <<base + Delta(s[lo])>>
    ELSE LET mid == (lo + hi) \div 2
             left == DSeq(s, lo, mid, base)
         IN  left \o DSeq(s, mid + 1, hi, left[Len(left)])
Depths(s) == DSeq(s, 1, Len(s), 0)
\* s is exactly one node (a number, or one bracketed list): every proper prefix is inside the root bracket
WellFormed(s) == Len(s) >= 1 /\ (\A i \in DOMAIN s : s[i] # ABSENT) /\ LET d == Depths(s) IN d[Len(s)] = 0 /\ s[Len(s)] # OPEN /\ \A j \in 1..(Len(s) - 1) : d[j] >= 1
IsScalar(s) == Len(s) = 1
IsList(s)   == Len(s) >= 2
Ord(S) == [k \in 1..Cardinality(S) |-> CHOOSE x \in S : Cardinality({y \in S : y < x}) = k - 1]
\* the children of a list node, each again a token string: the k-th child runs from the k-th position whose
\* predecessor is at depth 1 to the k-th position that returns to depth 1 (linear: structures may have hundreds of points)
Kids(s) == LET d  == Depths(s)
               ix == [i \in 1..Len(s) |-> i]
               IsStart(p) == p >= 2 /\ p <= Len(s) - 1 /\ d[p - 1] = 1 /\ s[p] # CLOSE
               IsEnd(q)   == q >= 2 /\ q <= Len(s) - 1 /\ d[q] = 1
               st == SelectSeq(ix, IsStart)
               en == SelectSeq(ix, IsEnd)
           IN  [k \in 1..Len(st) |-> SubSeq(s, st[k], en[k])]
\* the same, said declaratively (law ParserAgrees of MC_GeomValidate: both definitions coincide)
Bal(s, j) == Cardinality({i \in 1..j : s[i] = OPEN}) - Cardinality({i \in 1..j : s[i] = CLOSE})
WellFormedDecl(s) ==
    /\ Len(s) >= 1
    /\ IF Len(s) = 1 THEN IsNum(s[1])
       ELSE /\ s[1] = OPEN /\ s[Len(s)] = CLOSE /\ Bal(s, Len(s)) = 0
            /\ \A j \in 1..(Len(s) - 1) : Bal(s, j) >= 1
KidStarts(s) == {p \in 2..(Len(s) - 1) : Bal(s, p - 1) = 1 /\ s[p] # CLOSE}
KidEnd(s, p) == IF IsNum(s[p]) THEN p ELSE SetMin({q \in (p + 1)..(Len(s) - 1) : Bal(s, q) = 1})
KidsDecl(s)  == LET ps == Ord(KidStarts(s)) IN [k \in 1..Len(ps) |-> SubSeq(s, ps[k], KidEnd(s, ps[k]))]
RECURSIVE FlatR(_, _, _)
FlatR(ks, lo, hi) == IF lo > hi THEN <<>> ELSE IF lo = hi THEN ks[lo]
                     ELSE LET mid == (lo + hi) \div 2 IN FlatR(ks, lo, mid) \o FlatR(ks, mid + 1, hi)      \* recursion depth log n
Flat(ks) == FlatR(ks, 1, Len(ks))
Wrap(ks) == <<OPEN>> \o Flat(ks) \o <<CLOSE>>                 \* list node with the given children
Rev(q)   == [i \in 1..Len(q) |-> q[Len(q) + 1 - i]]
\* the nested value itself (heterogeneous: only ever printed, never compared)
RECURSIVE Tree(_)
Tree(s) == IF Len(s) = 1 THEN s[1] ELSE LET ks == Kids(s) IN [k \in 1..Len(ks) |-> Tree(ks[k])]

\* homogeneous nesting of depth d with numbers exactly at depth d (what List[...[float]] admits)
RECURSIVE Typed(_, _)
Typed(s, d) == IF d = 0 THEN IsScalar(s)
               ELSE IsList(s) /\ LET ks == Kids(s) IN \A i \in DOMAIN ks : Typed(ks[i], d - 1)

(* --------------------------- Req: Valid, Normal -------------------------- *)
\* for a FLAT list node <<O, a1, ..., an, C>>
Arity(p)  == Len(p) - 2
TimeOK(t) == t >= 0
FreqOK(f) == f >= 0 /\ f <= FMAXHZ
PointOK(p) == Arity(p) = 2 /\ TimeOK(p[2]) /\ FreqOK(p[3])
AllPoints(ps) == \A i \in DOMAIN ps : PointOK(ps[i])
FirstT(ps) == ps[1][2]
LastT(ps)  == ps[Len(ps)][2]

(***************************************************************************)
(* The statement leaves one thing open; r names the reading:                *)
(*  "strict": every step of a multi-line goes strictly forward in time;    *)
(*  "doc"   : a multi-line is forward when its first time < its last time  *)
(*            (the library's documented rule).                             *)
(* Valid == the "doc" reading; verdicts use strict => accept, ~loose =>    *)
(* reject, so an outcome is rejected only if no reading allows it.  The    *)
(* loosest reading now IS "doc".  (A polygon without any ring was once     *)
(* left to a looser reading.  It is not open: a polygon is an exterior     *)
(* ring plus holes, so without a ring it has no shape at all -- "the shape *)
(* the type requires" fails -- for a Polygon and for every member of a     *)
(* MultiPolygon alike, wherever the member stands.)                        *)
(***************************************************************************)
LineForward(ps, r) == IF r = "strict" THEN \A i \in 1..(Len(ps) - 1) : ps[i][2] < ps[i + 1][2]
                      ELSE FirstT(ps) < LastT(ps)
RingOK(ring)    == LET ps == Kids(ring) IN Len(ps) >= 3 /\ AllPoints(ps)
PolyOK(poly, r) == LET rs == Kids(poly) IN Len(rs) >= 1 /\ \A i \in DOMAIN rs : RingOK(rs[i])      \* under every reading
LineOK(line, r, ordered) == LET ps == Kids(line) IN Len(ps) >= 2 /\ AllPoints(ps) /\ (ordered => LineForward(ps, r))

ValidR(k, s, r) ==
    /\ k \in Kinds /\ WellFormed(s) /\ Typed(s, KindDepth(k))
    /\ CASE k = "TimeStamp"       -> TimeOK(s[1])
         [] k = "TimeInterval"    -> Arity(s) = 2 /\ TimeOK(s[2]) /\ TimeOK(s[3]) /\ s[2] <= s[3]
         [] k = "Point"           -> PointOK(s)
         [] k = "BoundingBox"     -> Arity(s) = 4 /\ TimeOK(s[2]) /\ FreqOK(s[3]) /\ TimeOK(s[4]) /\ FreqOK(s[5])
         [] k = "LineString"      -> LineOK(s, r, FALSE)
         [] k = "MultiPoint"      -> LET ps == Kids(s) IN Len(ps) >= 1 /\ AllPoints(ps)
         [] k = "Polygon"         -> PolyOK(s, r)
         [] k = "MultiLineString" -> LET ls == Kids(s) IN Len(ls) >= 1 /\ \A i \in DOMAIN ls : LineOK(ls[i], r, TRUE)
         [] k = "MultiPolygon"    -> LET ps == Kids(s) IN Len(ps) >= 1 /\ \A i \in DOMAIN ps : PolyOK(ps[i], r)
Valid(k, s)       == ValidR(k, s, "doc")
ValidStrict(k, s) == ValidR(k, s, "strict")
ValidLoose(k, s)  == ValidR(k, s, "doc")          \* the loosest reading the statement admits

\* normal form (arguments assumed Valid)
SortBox(s) == <<OPEN, Min(s[2], s[4]), Min(s[3], s[5]), Max(s[2], s[4]), Max(s[3], s[5]), CLOSE>>
RevLine(s) == Wrap(Rev(Kids(s)))
Normal(k, s) ==
    CASE k = "BoundingBox" -> SortBox(s)
      [] k = "LineString"  -> IF FirstT(Kids(s)) > LastT(Kids(s)) THEN RevLine(s) ELSE s
      [] OTHER -> s
InNormalForm(k, s) ==
    CASE k = "BoundingBox" -> s[2] <= s[4] /\ s[3] <= s[5]
      [] k = "LineString"  -> FirstT(Kids(s)) <= LastT(Kids(s))
      [] OTHER -> TRUE
\* every normalised result the statement allows for a valid input (a relation: a line whose first and
\* last time are equal may be kept or reversed; a box has exactly one sorted form; other kinds are kept)
AllowedNormals(k, s) ==
    CASE k = "BoundingBox" -> {SortBox(s)}
      [] k = "LineString"  -> {x \in {s, RevLine(s)} : InNormalForm(k, x)}
      [] OTHER -> {s}
\* the same test on an OBSERVED value of unknown quality: total, never throws
NormalFormObs(k, c) ==
    /\ k \in Kinds /\ WellFormed(c) /\ Typed(c, KindDepth(k))
    /\ CASE k = "BoundingBox" -> Arity(c) = 4 /\ c[2] <= c[4] /\ c[3] <= c[5]
         [] k = "LineString"  -> LET ps == Kids(c) IN Len(ps) >= 1 /\ Arity(ps[1]) >= 1 /\ Arity(ps[Len(ps)]) >= 1 /\ FirstT(ps) <= LastT(ps)
         [] OTHER -> TRUE
\* multiset of children of a list node
KidCount(s, x) == Cardinality({i \in DOMAIN Kids(s) : Kids(s)[i] = x})
SameKidBag(a, b) == Len(Kids(a)) = Len(Kids(b)) /\ \A x \in Range(Kids(a)) : KidCount(a, x) = KidCount(b, x)

(* ------------- Impl: the validator chains of data/geometries.py ------------- *)
(* Each step returns [ok, val, why]; the chain is: pydantic-core type layer    *)
(* (List[..[float]]), then the @field_validator functions in definition order; *)
(* a later validator does not run when an earlier one raised.                  *)
Fail(w) == [ok |-> FALSE, val |-> <<>>, why |-> w]
Pass(v) == [ok |-> TRUE, val |-> v, why |-> ""]
TypeLayer(k, s) == IF Missing(s) THEN Fail("missing")           \* coordinates: Field(...) -- required, no default
                   ELSE IF Typed(s, KindDepth(k)) THEN Pass(s) ELSE Fail("type")

\* `for time, frequency in v:` -- Python's unpacking raises ValueError unless the point has 2 values
PointFault(p) == IF Arity(p) # 2 THEN "unpack"
                 ELSE IF p[2] < 0 THEN "time"
                 ELSE IF p[3] < 0 \/ p[3] > FMAXHZ THEN "freq" ELSE ""
\* a loop raises at the FIRST element (in order) that raises
FirstFault(items, F(_)) == LET bad == {i \in DOMAIN items : F(items[i]) # ""}
                           IN  IF bad = {} THEN "" ELSE F(items[SetMin(bad)])
PointsFault(ps) == FirstFault(ps, PointFault)
RingFault(ring) == LET ps == Kids(ring) IN IF Len(ps) < 3 THEN "len" ELSE PointsFault(ps)
LineFault(line) == LET ps == Kids(line) IN IF Len(ps) < 2 THEN "len" ELSE PointsFault(ps)
PolyFault(poly) == LET rs == Kids(poly) IN IF Len(rs) < 1 THEN "len" ELSE FirstFault(rs, RingFault)

V1Why(k, s) ==
    CASE k = "TimeStamp"       -> IF s[1] < 0 THEN "time" ELSE ""                               \* _positive_times
      [] k = "TimeInterval"    -> IF Arity(s) # 2 THEN "len" ELSE IF s[2] > s[3] THEN "order" ELSE ""   \* _validate_time_interval
      [] k = "Point"           -> IF Arity(s) # 2 THEN "len" ELSE PointFault(s)
      [] k = "BoundingBox"     -> IF Arity(s) # 4 THEN "len"
                                  ELSE IF s[2] < 0 THEN "time"
                                  ELSE IF s[3] < 0 \/ s[3] > FMAXHZ THEN "freq"
                                  ELSE IF s[4] < 0 THEN "time"
                                  ELSE IF s[5] < 0 \/ s[5] > FMAXHZ THEN "freq" ELSE ""
      [] k = "LineString"      -> LineFault(s)
      [] k = "MultiPoint"      -> LET ps == Kids(s) IN IF Len(ps) < 1 THEN "len" ELSE PointsFault(ps)
      [] k = "Polygon"         -> PolyFault(s)
      [] k = "MultiLineString" -> LET ls == Kids(s) IN IF Len(ls) < 1 THEN "len" ELSE FirstFault(ls, LineFault)
      [] k = "MultiPolygon"    -> LET ps == Kids(s) IN IF Len(ps) < 1 THEN "len" ELSE FirstFault(ps, PolyFault)
V1(k, s) == LET w == V1Why(k, s)
            IN  IF w # "" THEN Fail(w) ELSE Pass(IF k = "BoundingBox" THEN SortBox(s) ELSE s)   \* the box validator returns the swapped list
HasV2(k) == k \in {"TimeInterval", "LineString", "MultiLineString"}
V2(k, s) ==
    CASE k = "TimeInterval"    -> IF s[2] < 0 \/ s[3] < 0 THEN Fail("time") ELSE Pass(s)        \* _positive_times
      [] k = "LineString"      -> Pass(IF FirstT(Kids(s)) > LastT(Kids(s)) THEN RevLine(s) ELSE s)   \* _is_ordered_by_time
      [] k = "MultiLineString" -> LET ls == Kids(s)                                              \* _each_line_is_ordered_by_time
                                  IN  IF \E i \in DOMAIN ls : ~(FirstT(Kids(ls[i])) < LastT(Kids(ls[i]))) THEN Fail("order") ELSE Pass(s)
\* the whole chain as a function (the machine MC_GeomValidate steps through it)
Impl(k, s) == LET t == TypeLayer(k, s) IN
              IF ~t.ok THEN t ELSE
              LET a == V1(k, t.val) IN
              IF ~a.ok \/ ~HasV2(k) THEN a ELSE V2(k, a.val)

(***************************************************************************)
(* Acceptance of one observation.  o.in = [kind, toks, c, num, vals]        *)
(* (num = "lit" | "fine", vals = FineTable for a fine case); o.out.runs is a *)
(* sequence, one record per (entry point, number rendering):               *)
(*   [entry, num, res: "ok" (a geometry object came back) | "raise" |      *)
(*    "other" (something else came back), exc: class name, verr: BOOLEAN   *)
(*    (the exception is a ValueError, as pydantic.ValidationError is),     *)
(*    cont: container variant, twin / dumpeq: "equal" | "differs" | "raise" *)
(*    | "" (== with the list-built twin, == of the two model_dump()s),     *)
(*    cls, tag, coords (tokens), eq: "equal" | "differs" | "raise" | "",   *)
(*    cls2, coords2]                                                       *)
(***************************************************************************)
Clauses == {"AcceptValid", "RejectInvalid", "RaisesValidationError", "NormalForm", "NormalOfInput",
            "ClassMatchesTag", "ModesAgree", "DumpRevalidateEqual", "TwinEqual",
            "Drift/ImplOutcome"}       \* not a verdict: the code still is the chain transcribed in Impl (reported as MODEL-DRIFT)
Acc(r) == r.res = "ok"
\* what a run observed, without the name of the entry point (most runs of a case observe the same)
Sig(r) == [res |-> r.res, verr |-> r.verr, cls |-> r.cls, tag |-> r.tag, coords |-> r.coords,
           eq |-> r.eq, cls2 |-> r.cls2, coords2 |-> r.coords2, twin |-> r.twin, dumpeq |-> r.dumpeq]
Holds(cl, o) ==
    LET k == o.in.kind  s == o.in.toks  R == {Sig(o.out.runs[i]) : i \in DOMAIN o.out.runs} IN
    CASE cl = "AcceptValid"   -> ValidStrict(k, s) => \A r \in R : Acc(r)
      \* otherwise an error is raised and no object exists (anything but an exception is an object)
      [] cl = "RejectInvalid" -> ~ValidLoose(k, s) => \A r \in R : r.res = "raise"
      \* ... and the error is a validation error (pydantic.ValidationError is a ValueError)
      [] cl = "RaisesValidationError" -> \A r \in R : r.res = "raise" => r.verr
      [] cl = "NormalForm"    -> \A r \in R : Acc(r) => NormalFormObs(k, r.coords)
      [] cl = "NormalOfInput" -> (\E r \in R : Acc(r)) => (ValidLoose(k, s) => \A r \in R : Acc(r) => r.coords \in AllowedNormals(k, s))
      [] cl = "ClassMatchesTag" -> \A r \in R : Acc(r) => r.cls = k /\ r.tag = k
      [] cl = "ModesAgree"    -> \A r1, r2 \in R : Acc(r1) = Acc(r2) /\ r1.cls = r2.cls
      [] cl = "Drift/ImplOutcome" -> LET m == Impl(k, s) IN \A r \in R : (Acc(r) <=> m.ok) /\ (Acc(r) => r.coords = m.val)
      \* the geometry built from the same numbers in plain lists through the same entry point is an equal geometry, with an
      \* equal model_dump() (both follow from the dump round trip: the JSON text of either is the same text)
      \* (observed for the tuple-built variants; "" on the list-built runs themselves)
      [] cl = "TwinEqual" -> \A r \in R : (Acc(r) /\ r.twin # "") => r.twin = "equal" /\ r.dumpeq = "equal"
      [] cl = "DumpRevalidateEqual" -> \A r \in R : Acc(r) => r.eq = "equal" /\ r.cls2 = r.cls /\ r.coords2 = r.coords
=============================================================================
