SPECIFICATION Spec
CONSTANTS
  U = 4
  Plan <- PlanThorough
  TableVariant = "fixed"
  MapVariant = "fixed"
CONSTRAINT Export
INVARIANT LawRange
INVARIANT LawPermInv
INVARIANT LawTopGeAcc
INVARIANT LawBalanced
INVARIANT LawNoneIsAClass
INVARIANT LawNoneLeftOut
INVARIANT LawPerfectAP
INVARIANT LawJaccardExtremes
INVARIANT LawDistinctTerms
INVARIANT LawTermNamesFunction
INVARIANT ImplMapRefinesReq
INVARIANT LawEvaluatedClips
INVARIANT LawExtrasWellFormed
INVARIANT LawUnmatched
INVARIANT LawFineWellFormed
INVARIANT LawFineOrders
INVARIANT LawConf
INVARIANT LawPerm
INVARIANT LawComputed
CHECK_DEADLOCK FALSE
