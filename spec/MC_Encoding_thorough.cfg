SPECIFICATION Spec
CONSTANTS
  MaxVocab = 3
  MaxTags = 3
  NTags = 6
  SmallTags = 3
  KeyMode = "term_value"
  DecodeMode = "stored"
  HashMode = "code"
  NearPairs = TRUE
  EqMode = "structural"
  ProvTags = 2
  FreshApart = 2
  WideProv = TRUE
CONSTRAINT Export
INVARIANT ImplEncoder
INVARIANT ImplDecode
INVARIANT ImplClassify
INVARIANT ImplMulti
INVARIANT ImplPred
INVARIANT ImplHashSound
INVARIANT Laws
PROPERTY Terminates
CHECK_DEADLOCK FALSE
