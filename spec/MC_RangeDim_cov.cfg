SPECIFICATION Spec
CONSTANTS
  NU = 2
  NSU = 1
  NS = 1
  MaxM = 8
  MaxN = 3
  MaxSize = 2
  MaxDims = 2
  Trim = TRUE
  TrOnly = FALSE
  AxisBy = "dims"
  Memo = FALSE
  SweepStride = 250
  WriteVia = "data"
  ClampBy = "dim"
  RangeBy = "coords"
  LookupBy = "search"
  StepPrec = "step"
  QueryCast = "none"
INVARIANT ImplFresh
INVARIANT ImplStep
INVARIANT LawDenoted
INVARIANT ImplCountWhenWhole
INVARIANT ImplCountFloorCeil
INVARIANT ImplInside
INVARIANT LawRange
INVARIANT ScanInv
INVARIANT ImplLookup
INVARIANT LawBracketUnique
INVARIANT LawUpperEdge
INVARIANT LawOwnBin
INVARIANT ImplSet
INVARIANT LawSlice
PROPERTY Terminates
CHECK_DEADLOCK FALSE
