-------------------------------- MODULE Aoef --------------------------------
(***************************************************************************)
(* C01 / C02 / C18 -- the AOEF registry: object graphs, the adapters'      *)
(* conversion programs, and what a written document must look like.        *)
(*                                                                         *)
(* Part 1  the WORLD: a family of object graphs indexed by a collection    *)
(*         type ct and a set of switches sw (which optional edges exist,   *)
(*         which objects are shared, which lists are empty).  TLC is the   *)
(*         single source of these graphs: MC_Aoef!Export prints them and   *)
(*         the binder builds the real pydantic objects from the printed    *)
(*         description without knowing the skeleton.                       *)
(* Part 2  Children / Reach: which adapter conversions one object triggers *)
(*         (in code order), and what is reachable from a collection.       *)
(* Part 3  the conversion PROGRAMS of the eight collection adapters        *)
(*         (save side and load side), transcribed from                     *)
(*         src/soundevent/io/aoef/*.py; Variant selects the algorithm as   *)
(*         found ("found") or as repaired ("fixed").                       *)
(* Part 4  Req: acceptance of observations of real save/load cycles.       *)
(***************************************************************************)
EXTENDS Lattice

CTypes == <<"recording_set", "dataset", "annotation_set", "annotation_project",
            "evaluation_set", "prediction_set", "model_run", "evaluation">>

Switches == {"rec_tags", "rec_notes", "rec_owner", "note_author", "user_roles",
             "ann_tags", "ann_notes", "ann_by", "clip_notes", "shared_tag",
             "tag_pred", "tag_list_only", "has_seq", "seq_depth1", "seq_depth2",
             "se_other_rec", "se_shared", "two_clips", "shared_clip", "empty_clip", "badges", "badge_owner"}

Kinds == <<"user", "tag", "recording", "clip", "sound_event", "sequence",
           "se_ann", "seq_ann", "clip_ann", "se_pred", "seq_pred", "clip_pred",
           "match", "clip_eval", "task">>

(* ------------------------------ Part 1: world ------------------------------ *)
Opt(b, x) == IF b THEN <<x>> ELSE <<>>

KindOf(o) ==
    CASE o \in {"u1", "u2", "u3"} -> "user"
      [] o \in {"t1", "t2", "t3", "t4", "t5"} -> "tag"
      [] o \in {"r1", "r2"} -> "recording"
      [] o \in {"c1", "c2"} -> "clip"
      [] o \in {"se1", "se2", "se3", "se4", "se5"} -> "sound_event"
      [] o \in {"q1", "q2", "q3"} -> "sequence"
      [] o \in {"sea1", "sea2", "sea3"} -> "se_ann"
      [] o \in {"sqa1"} -> "seq_ann"
      [] o \in {"ca1", "ca2"} -> "clip_ann"
      [] o \in {"sep1", "sep2"} -> "se_pred"
      [] o \in {"sqp1"} -> "seq_pred"
      [] o \in {"cp1", "cp2"} -> "clip_pred"
      [] o \in {"m1", "m2", "m3", "m4"} -> "match"
      [] o \in {"ce1", "ce2"} -> "clip_eval"
      [] o \in {"k1", "k2"} -> "task"

\* dependency order: leaves first (the binder builds objects in this order)
AllIds == <<"u1", "u2", "u3", "t1", "t2", "t3", "t4", "t5", "r1", "r2", "c1", "c2",
            "se1", "se2", "se3", "se4", "se5", "q1", "q2", "q3",
            "sea1", "sea2", "sea3", "sqa1", "ca1", "ca2", "sep1", "sep2", "sqp1", "cp1", "cp2",
            "m1", "m2", "m3", "m4", "ce1", "ce2", "k1", "k2">>

\* a note is inline (not registered); only its author is a reference
NoteBy(sw) == [by |-> Opt("note_author" \in sw, "u1")]
AnnUser(sw) == IF "user_roles" \in sw THEN "u1" ELSE "u3"     \* one user in several roles
DeepSeq(sw) == IF "seq_depth2" \in sw THEN "q3" ELSE IF "seq_depth1" \in sw \/ "seq_depth2" \in sw THEN "q2" ELSE "q1"
PredSE(sw) == IF "se_shared" \in sw THEN "se1" ELSE "se4"    \* prediction on the annotated sound event or on its own
Full(sw) == ~("empty_clip" \in sw)
\* two DISTINCT clip annotations / clip predictions of ONE clip (shared_clip) or of two clips
SecondClip(sw) == IF "shared_clip" \in sw THEN "c1" ELSE "c2"

\* description of object o: a record of named reference lists (optional single references are 0/1-sequences)
Desc(o, sw) ==
  CASE o \in {"u1", "u2", "u3", "t1", "t2", "t3", "t4", "t5"} -> [id |-> o, kind |-> KindOf(o)]
    [] o = "r1" -> [id |-> o, kind |-> "recording",
                    tags   |-> Opt("rec_tags" \in sw, "t1") \o Opt("shared_tag" \in sw, "t2"),
                    notes  |-> IF "rec_notes" \in sw THEN <<NoteBy(sw)>> ELSE <<>>,
                    owners |-> Opt("rec_owner" \in sw, "u2") \o Opt("user_roles" \in sw /\ "rec_owner" \in sw, "u1")]
    [] o = "r2" -> [id |-> o, kind |-> "recording", tags |-> <<>>, notes |-> <<>>, owners |-> <<>>]
    [] o \in {"c1", "c2"} -> [id |-> o, kind |-> "clip", recording |-> "r1"]
    [] o \in {"se1", "se2", "se4", "se5"} -> [id |-> o, kind |-> "sound_event", recording |-> "r1"]
    [] o = "se3" -> [id |-> o, kind |-> "sound_event", recording |-> "r2"]
    [] o = "q1" -> [id |-> o, kind |-> "sequence", parent |-> <<>>, sound_events |-> <<"se1">>]
    [] o = "q2" -> [id |-> o, kind |-> "sequence", parent |-> <<"q1">>, sound_events |-> <<"se2", "se1">>]
    [] o = "q3" -> [id |-> o, kind |-> "sequence", parent |-> <<"q2">>, sound_events |-> <<>>]
    [] o = "sea1" -> [id |-> o, kind |-> "se_ann", sound_event |-> "se1",
                      notes |-> IF "ann_notes" \in sw THEN <<NoteBy(sw), [by |-> <<>>]>> ELSE <<>>,
                      tags  |-> Opt("ann_tags" \in sw, "t2"),
                      by    |-> Opt("ann_by" \in sw, AnnUser(sw))]
    [] o = "sea2" -> [id |-> o, kind |-> "se_ann", sound_event |-> "se2", notes |-> <<>>, tags |-> <<>>, by |-> <<>>]
    [] o = "sea3" -> [id |-> o, kind |-> "se_ann", sound_event |-> "se3", notes |-> <<>>,
                      tags |-> Opt("ann_tags" \in sw, "t2") \o Opt("ann_tags" \in sw, "t5"), by |-> <<>>]
    [] o = "sqa1" -> [id |-> o, kind |-> "seq_ann", sequence |-> DeepSeq(sw),
                      notes |-> IF "ann_notes" \in sw THEN <<NoteBy(sw)>> ELSE <<>>,
                      tags  |-> Opt("ann_tags" \in sw, "t5"),
                      by    |-> Opt("ann_by" \in sw, AnnUser(sw))]
    [] o = "ca1" -> [id |-> o, kind |-> "clip_ann", clip |-> "c1",
                     tags |-> Opt("ann_tags" \in sw, "t5"),
                     sound_events |-> IF Full(sw) THEN <<"sea1", "sea2">> \o Opt("se_other_rec" \in sw, "sea3") ELSE <<>>,
                     sequences |-> Opt("has_seq" \in sw /\ Full(sw), "sqa1"),
                     notes |-> IF "clip_notes" \in sw THEN <<NoteBy(sw)>> ELSE <<>>]
    [] o = "ca2" -> [id |-> o, kind |-> "clip_ann", clip |-> SecondClip(sw), tags |-> <<>>, sound_events |-> <<>>,
                     sequences |-> <<>>, notes |-> <<>>]
    [] o = "sep1" -> [id |-> o, kind |-> "se_pred", sound_event |-> PredSE(sw),
                      tags |-> Opt("tag_pred" \in sw, "t3") \o Opt("shared_tag" \in sw, "t2")]
    [] o = "sep2" -> [id |-> o, kind |-> "se_pred", sound_event |-> "se5", tags |-> <<>>]
    [] o = "sqp1" -> [id |-> o, kind |-> "seq_pred", sequence |-> DeepSeq(sw), tags |-> Opt("tag_pred" \in sw, "t3")]
    [] o = "cp1" -> [id |-> o, kind |-> "clip_pred", clip |-> "c1",
                     sound_events |-> IF Full(sw) THEN <<"sep1", "sep2">> ELSE <<>>,
                     sequences |-> Opt("has_seq" \in sw /\ Full(sw), "sqp1"),
                     tags |-> Opt("tag_pred" \in sw, "t3") \o Opt("tag_pred" \in sw /\ "shared_tag" \in sw, "t1")]
    [] o = "cp2" -> [id |-> o, kind |-> "clip_pred", clip |-> SecondClip(sw), sound_events |-> <<>>, sequences |-> <<>>, tags |-> <<>>]
    [] o = "m1" -> [id |-> o, kind |-> "match", source |-> <<"sep1">>, target |-> <<"sea1">>]
    [] o = "m2" -> [id |-> o, kind |-> "match", source |-> <<"sep2">>, target |-> <<>>]
    [] o = "m3" -> [id |-> o, kind |-> "match", source |-> <<>>, target |-> <<"sea2">>]
    [] o = "m4" -> [id |-> o, kind |-> "match", source |-> <<>>, target |-> <<"sea3">>]
    [] o = "ce1" -> [id |-> o, kind |-> "clip_eval", annotations |-> "ca1", predictions |-> "cp1",
                     matches |-> IF Full(sw) THEN <<"m1", "m2", "m3">> \o Opt("se_other_rec" \in sw, "m4") ELSE <<>>]
    [] o = "ce2" -> [id |-> o, kind |-> "clip_eval", annotations |-> "ca2", predictions |-> "cp2", matches |-> <<>>]
    [] o = "k1" -> [id |-> o, kind |-> "task", clip |-> "c1",
                    \* an ownerless badge comes BEFORE the owned one and another after it; the owner may appear nowhere else
                    badges |-> IF "badges" \in sw \/ "badge_owner" \in sw
                               THEN <<[owner |-> <<>>], [owner |-> Opt("badge_owner" \in sw, AnnUser(sw))], [owner |-> <<>>]>> ELSE <<>>]
    [] o = "k2" -> [id |-> o, kind |-> "task", clip |-> "c2", badges |-> <<>>]

Second(sw) == "two_clips" \in sw
\* the root lists of the collection (what the data object itself holds)
Roots(ct, sw) ==
  CASE ct \in {"recording_set", "dataset"} ->
         [recordings |-> <<"r1">> \o Opt(Second(sw), "r2")]
    [] ct = "annotation_set" ->
         [clip_annotations |-> <<"ca1">> \o Opt(Second(sw), "ca2")]
    [] ct = "annotation_project" ->
         [clip_annotations |-> <<"ca1">> \o Opt(Second(sw), "ca2"),
          annotation_tags  |-> Opt("ann_tags" \in sw, "t2") \o Opt("tag_list_only" \in sw, "t4"),
          tasks            |-> <<"k1">> \o Opt(Second(sw), "k2")]
    [] ct = "evaluation_set" ->
         [clip_annotations |-> <<"ca1">> \o Opt(Second(sw), "ca2"),
          evaluation_tags  |-> Opt("ann_tags" \in sw, "t2") \o Opt("tag_list_only" \in sw, "t4")]
    [] ct \in {"prediction_set", "model_run"} ->
         [clip_predictions |-> <<"cp1">> \o Opt(Second(sw), "cp2")]
    [] ct = "evaluation" ->
         [clip_evaluations |-> <<"ce1">> \o Opt(Second(sw), "ce2")]

(* ------------------------- Part 2: children and reach ------------------------- *)
RECURSIVE Flat(_)
Flat(ss) == IF ss = <<>> THEN <<>> ELSE Head(ss) \o Flat(Tail(ss))
NoteAuthors(notes) == Flat([i \in DOMAIN notes |-> notes[i].by])

\* the adapter conversions that assemble_aoef performs for an object with description d, in code order (duplicates kept)
ChildrenOf(d) ==
  CASE d.kind \in {"user", "tag"} -> <<>>
    [] d.kind = "recording"   -> d.tags \o NoteAuthors(d.notes) \o d.owners
    [] d.kind = "clip"        -> <<d.recording>>
    [] d.kind = "sound_event" -> <<d.recording>>
    [] d.kind = "sequence"    -> d.parent \o d.sound_events
    [] d.kind = "se_ann"      -> <<d.sound_event>> \o NoteAuthors(d.notes) \o d.tags \o d.by
    [] d.kind = "seq_ann"     -> <<d.sequence>> \o NoteAuthors(d.notes) \o d.tags \o d.by
    [] d.kind = "clip_ann"    -> <<d.clip>> \o d.tags \o d.sound_events \o d.sequences \o NoteAuthors(d.notes)
    [] d.kind = "se_pred"     -> <<d.sound_event>> \o d.tags
    [] d.kind = "seq_pred"    -> <<d.sequence>> \o d.tags
    [] d.kind = "clip_pred"   -> <<d.clip>> \o d.sound_events \o d.sequences \o d.tags
    [] d.kind = "match"       -> d.source \o d.target
    [] d.kind = "clip_eval"   -> <<d.annotations, d.predictions>> \o d.matches
    [] d.kind = "task"        -> Flat([i \in DOMAIN d.badges |-> d.badges[i].owner]) \o <<d.clip>>
Children(o, sw) == ChildrenOf(Desc(o, sw))

RootIds(ct, sw) ==
  LET r == Roots(ct, sw) IN
  CASE ct \in {"recording_set", "dataset"} -> r.recordings
    [] ct = "annotation_set"     -> r.clip_annotations
    [] ct = "annotation_project" -> r.tasks \o r.annotation_tags \o r.clip_annotations
    [] ct = "evaluation_set"     -> r.clip_annotations \o r.evaluation_tags
    [] ct \in {"prediction_set", "model_run"} -> r.clip_predictions
    [] ct = "evaluation"         -> r.clip_evaluations

RECURSIVE ReachFrom(_, _, _)
ReachFrom(front, seen, sw) ==
  IF front = {} THEN seen
  ELSE LET nxt == UNION {Range(Children(o, sw)) : o \in front} \ (seen \cup front)
       IN  ReachFrom(nxt, seen \cup front, sw)
Reach(ct, sw) == ReachFrom(Range(RootIds(ct, sw)), {}, sw)
ReachKind(ct, sw, k) == {o \in Reach(ct, sw) : KindOf(o) = k}

\* the world as the binder sees it: reachable objects in dependency order, plus the roots
World(ct, sw) == [ctype |-> ct,
                  objs  |-> LET R == Reach(ct, sw)
                                keep == SelectSeq(AllIds, LAMBDA o : o \in R)
                            IN  [i \in DOMAIN keep |-> Desc(keep[i], sw)],
                  roots |-> Roots(ct, sw)]

(* ------------------------- Part 3: adapter programs -------------------------- *)
\* Save program = sequence of steps: <<"conv", ids>> convert these objects through their adapter (depth first);
\* <<"read", kind>> take values() of that adapter into the document; <<"list", kind, ids>> the document list is the
\* list of objects just converted (not a read-out of the adapter).
AnnReads == <<"user", "tag", "recording", "clip", "sound_event", "se_ann", "sequence", "seq_ann">>
Reads(ks) == [i \in DOMAIN ks |-> <<"read", ks[i]>>]
\* as found, PredictionSetAdapter.to_aoef never read the sequence and sequence-prediction adapters
PredReads(variant) == IF variant = "fixed"
                      THEN <<"user", "tag", "recording", "clip", "sound_event", "sequence", "se_pred", "seq_pred">>
                      ELSE <<"user", "tag", "recording", "clip", "sound_event", "se_pred">>

SaveProgram(ct, sw, variant) ==
  LET r == Roots(ct, sw) IN
  CASE ct \in {"recording_set", "dataset"} ->
         <<<<"conv", r.recordings>>>> \o Reads(<<"user", "tag">>) \o <<<<"list", "recording", r.recordings>>>>
    [] ct = "annotation_set" ->
         <<<<"conv", r.clip_annotations>>>> \o Reads(AnnReads) \o <<<<"list", "clip_ann", r.clip_annotations>>>>
    [] ct = "annotation_project" ->
         <<<<"conv", r.tasks>>, <<"conv", r.annotation_tags>>, <<"conv", r.clip_annotations>>>>
         \o Reads(AnnReads) \o <<<<"list", "clip_ann", r.clip_annotations>>>>             \* super().to_aoef
         \o Reads(<<"user", "tag", "recording", "sound_event", "sequence", "clip", "se_ann", "seq_ann">>)
         \o <<<<"list", "task", r.tasks>>>>
    [] ct = "evaluation_set" ->
         <<<<"conv", r.clip_annotations>>>> \o Reads(AnnReads) \o <<<<"list", "clip_ann", r.clip_annotations>>>>
         \o (IF variant = "fixed" THEN <<<<"conv", r.evaluation_tags>>>> ELSE <<>>)
         \o Reads(<<"user", "tag", "recording", "sound_event", "sequence", "clip", "se_ann", "seq_ann">>)
         \o (IF variant = "found" THEN <<<<"conv", r.evaluation_tags>>>> ELSE <<>>)      \* tags converted after tags were read
    [] ct = "prediction_set" ->
         <<<<"conv", r.clip_predictions>>>>
         \o Reads(PredReads(variant))
         \o <<<<"list", "clip_pred", r.clip_predictions>>>>
    [] ct = "model_run" ->
         <<<<"conv", r.clip_predictions>>>>
         \o Reads(PredReads(variant))
         \o <<<<"list", "clip_pred", r.clip_predictions>>>>                                 \* super().to_aoef
         \o Reads(<<"user", "tag", "recording", "sound_event", "sequence", "clip", "se_pred", "seq_pred">>)
    [] ct = "evaluation" ->
         <<<<"conv", r.clip_evaluations>>>>
         \o Reads(<<"user", "tag", "recording", "sound_event", "sequence", "clip", "se_ann", "seq_ann", "clip_ann",
                    "se_pred", "seq_pred", "clip_pred", "clip_eval", "match">>)

\* Load program: the order in which the top-level lists of the document are registered
LoadOrder(ct) ==
  CASE ct \in {"recording_set", "dataset"} -> <<"tag", "user", "recording">>
    [] ct = "annotation_set" -> <<"user", "tag", "recording", "clip", "sound_event", "sequence", "se_ann", "seq_ann", "clip_ann">>
    [] ct = "annotation_project" -> <<"user", "tag", "recording", "clip", "sound_event", "sequence", "se_ann", "seq_ann", "clip_ann", "task">>
    [] ct = "evaluation_set" -> <<"user", "tag", "recording", "clip", "sound_event", "sequence", "se_ann", "seq_ann", "clip_ann">>
    [] ct \in {"prediction_set", "model_run"} -> <<"tag", "user", "recording", "sound_event", "sequence", "clip", "se_pred", "seq_pred", "clip_pred">>
    [] ct = "evaluation" -> <<"user", "tag", "recording", "sound_event", "sequence", "clip", "se_ann", "seq_ann", "clip_ann",
                              "se_pred", "seq_pred", "clip_pred", "match", "clip_eval">>
\* references looked up when the collection object itself is assembled after the lists
FinalLookups(ct, sw) ==
  LET r == Roots(ct, sw) IN
  CASE ct = "annotation_project" -> r.annotation_tags
    [] ct = "evaluation_set"     -> r.evaluation_tags
    [] OTHER -> <<>>

(* -------------------- Part 4: acceptance of observations (Req) ------------------- *)
(*  An observation of one saved collection (binder checks/c01.py):              *)
(*   in : [ctype, objs, roots, pattern, audio, cycles]                           *)
(*   out: [cycles: << [saved: "" | "raise:X", loaded: "" | "raise:X",           *)
(*                     type: ctype name of the loaded object,                    *)
(*                     diff: <<field paths that differ from the original>>,      *)
(*                     docdiff: <<paths where this cycle's document differs from *)
(*                                the first cycle's>>,                           *)
(*                     doc: [defs: [kind |-> <<dense ids>>],  refs: <<<<kind, dense id, from path>>...>>, *)
(*                           parents: <<<<child idx, parent idx>>...>>] ] >> ]                             *)
(*  Dense ids: per kind, 1..n in order of first appearance in the document (definition or reference);      *)
(*  the reduction is generic and knows nothing about the expected graph.                                 *)
(*****************************************************************************)
C01Clauses == {"SaveLoadSucceeds", "Type", "DeepEqual", "Fixpoint"}
C02Clauses == {"Closed", "DefinedOnce", "ParentFirst", "NothingMissing", "NothingUnreachable"}
DocKinds == {"user", "tag", "recording", "clip", "sound_event", "sequence", "se_ann", "seq_ann", "clip_ann",
             "se_pred", "seq_pred", "clip_pred", "match", "clip_eval", "task"}

Cyc(o) == o.out.cycles
OkCycle(c) == c.saved = "" /\ c.loaded = ""
HoldsC01(cl, o) ==
  CASE cl = "SaveLoadSucceeds" -> \A i \in DOMAIN Cyc(o) : OkCycle(Cyc(o)[i])
    [] cl = "Type"      -> \A i \in DOMAIN Cyc(o) : OkCycle(Cyc(o)[i]) => Cyc(o)[i].type = o.in.ctype
    [] cl = "DeepEqual" -> \A i \in DOMAIN Cyc(o) : OkCycle(Cyc(o)[i]) => Cyc(o)[i].diff = <<>>
    [] cl = "Fixpoint"  -> \A i \in DOMAIN Cyc(o) : OkCycle(Cyc(o)[i]) => Cyc(o)[i].docdiff = <<>>

\* doc.defs[k] is the sequence of identifiers defined in the top-level list of kind k, in document order, each decoded
\* to the model identifier the binder gave that object ("?n" for an identifier it never created);
\* doc.refs = << <<kind, id, path>> ... >> every mention of an identifier anywhere else in the document;
\* doc.parents = << <<position of child, position of parent>> ... >> within defs["sequence"] (0 = not defined).
\* the distinct objects reachable from the saved collection: exactly the objects of the exported world
ExpectSet(o, k) == {o.in.objs[i].id : i \in {x \in DOMAIN o.in.objs : o.in.objs[x].kind = k}}
HoldsC02(cl, o) ==
  \A i \in DOMAIN Cyc(o) : Cyc(o)[i].saved = "" =>
    LET doc == Cyc(o)[i].doc IN
    CASE cl = "Closed"      -> \A k \in DocKinds : {doc.refs[j][2] : j \in {x \in DOMAIN doc.refs : doc.refs[x][1] = k}} \subseteq Range(doc.defs[k])
      [] cl = "DefinedOnce" -> \A k \in DocKinds : Cardinality(Range(doc.defs[k])) = Len(doc.defs[k])
      [] cl = "ParentFirst" -> \A j \in DOMAIN doc.parents : doc.parents[j][2] >= 1 /\ doc.parents[j][2] < doc.parents[j][1]
      [] cl = "NothingMissing"     -> \A k \in DocKinds : ExpectSet(o, k) \subseteq Range(doc.defs[k])
      [] cl = "NothingUnreachable" -> \A k \in DocKinds : Range(doc.defs[k]) \subseteq ExpectSet(o, k)

=============================================================================
