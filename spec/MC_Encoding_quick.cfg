SPECIFICATION Spec
CONSTANTS
  MaxVocab = 3
  MaxTags = 3
  NTags = 5
  SmallTags = 1
  KeyMode = "term_value"
  DecodeMode = "stored"
  HashMode = "code"
  NearPairs = FALSE
  EqMode = "structural"
  ProvTags = 1
  FreshApart = 1
  WideProv = FALSE
CONSTRAINT Export
INVARIANT ImplEncoder
INVARIANT ImplDecode
INVARIANT ImplClassify
INVARIANT ImplMulti
INVARIANT ImplPred
INVARIANT ImplHashSound
INVARIANT Laws
CHECK_DEADLOCK FALSE
