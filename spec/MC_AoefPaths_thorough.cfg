SPECIFICATION Spec
CONSTANTS
  Stride = 1
  MaxDepth = 4
CONSTRAINT Export
INVARIANT LawRelocate
INVARIANT LawPrefix
INVARIANT LawRoundTrip
INVARIANT LawHasRecording
CHECK_DEADLOCK FALSE
