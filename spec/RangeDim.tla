------------------------------- MODULE RangeDim -------------------------------
(***************************************************************************)
(* C16 -- range dimensions and coordinate lookup.                          *)
(*                                                                         *)
(* A regular axis is (a, s, n): start a = a4/4, step s = <<ps, qs>>         *)
(* (a rational), n points  a + i*s,  i = 0..n-1.                            *)
(*                                                                         *)
(* Positions on the axis are integers ("ticks"), Tk = 8 ticks per step,    *)
(* relative to a: coordinate i sits at tick 8*i.  One tick is an           *)
(* infinitesimal: 8k+1 / 8k-1 stand for "the next / previous double of     *)
(* coordinate k", 8k+4 for the midpoint of a bin.  Stops of ranges are      *)
(* given in quarter steps m (stop = a + m*s/4).                             *)
(*                                                                         *)
(* Doubles observed from the implementation arrive in two encodings:       *)
(*   bits  <<sign, hi, mid, lo, finite>>  the IEEE-754 pattern, whose       *)
(*         sign/magnitude order IS the order of the doubles (exact);        *)
(*   limbs (Lattice) for the distance to a rational lattice point.          *)
(* The binder never says where a query lies relative to the coordinates:   *)
(* it ships the coordinates as read back and the query, BLe compares them. *)
(***************************************************************************)
EXTENDS Lattice

(* ------------------------------------------------------------------ units *)
Dyadic(s) == s[2] \in {1, 2, 4, 8, 16}      \* every float operation on such an axis is exact
Stress(s) == ~Dyadic(s)                     \* 1/10, 1/100, 1/3, 1/44100: not representable
Sgn(k)    == IF k > 0 THEN 1 ELSE IF k = 0 THEN 0 ELSE -1

(* ------------------------------------------------- doubles by bit pattern *)
BMagLe(x, y) == x[2] < y[2] \/ (x[2] = y[2] /\ (x[3] < y[3] \/ (x[3] = y[3] /\ x[4] <= y[4])))
BEq(x, y) == x[1] = y[1] /\ (x[1] = 0 \/ (x[2] = y[2] /\ x[3] = y[3] /\ x[4] = y[4]))
BLe(x, y) == IF x[1] # y[1] THEN x[1] < y[1]
             ELSE IF x[1] = 0 THEN TRUE
             ELSE IF x[1] = 1 THEN BMagLe(x, y) ELSE BMagLe(y, x)
BLt(x, y) == ~BLe(y, x)
BFinite(x) == x[5] = 1
IntLe(x, y) == x <= y

(* --------------------------------- distance of a double to a lattice point *)
(* Grid: everything is multiplied by D = 4*qs, so that a + i*s becomes the  *)
(* integer GridPoint.  Tolerance on stress units: 2^-28 grid units, i.e.    *)
(* 2^-28 / (4 qs) = 0.93e-9 * step for ps = 1 (DESIGN 2.5: 1e-9 * step);   *)
(* on dyadic units the double must BE the lattice point.                    *)
Tol == 16                                   \* in units of 2^-32
ScaleBy(v, q)  == IF q < 32768 THEN LMulMag(v, q) ELSE LMulMag(LMulMag(v, 210), q \div 210)   \* 44100 = 210 * 210
ToGrid(v, s)   == ScaleBy(LMulMag(v, 4), s[2])
GridPoint(a4, s, i) == a4 * s[2] + 4 * i * s[1]
MagNear(m, K)  == \/ m[2] = K /\ m[3] = 0 /\ m[4] < Tol
                  \/ m[2] = K - 1 /\ m[3] = B16 - 1 /\ m[4] >= B16 - Tol
NearInt(m, P)  == CASE P > 0 -> m[1] = 1 /\ MagNear(m, P)
                    [] P < 0 -> m[1] = -1 /\ MagNear(m, -P)
                    [] OTHER -> m[1] = 0 \/ (m[2] = 0 /\ m[3] = 0 /\ m[4] < Tol)
ExactInt(m, P) == /\ m[1] = Sgn(P) /\ m[2] = Abs(P)
                  /\ (P = 0 \/ (m[3] = 0 /\ m[4] = 0 /\ m[5] = 0 /\ m[6] = 0 /\ m[7] = 1))
AtInt(m, P, s) == IF Dyadic(s) THEN ExactInt(m, P) ELSE NearInt(m, P)
OnLattice(v, a4, s, i) == LFinite(v) /\ AtInt(ToGrid(v, s), GridPoint(a4, s, i), s)
IsStep(v, s)           == LFinite(v) /\ AtInt(ScaleBy(v, s[2]), s[1], s)

(* ------------------------------------------------ Req: the range (a, stop, s) *)
(* Range(a, stop, s) = {a + i*s : i >= 0, a + i*s < stop};  stop = a + m*s/4 *)
RangeIdx(m)   == {i \in 0..m : 4 * i < m}
RangeCount(m) == Cardinality(RangeIdx(m))
Whole(m)      == m % 4 = 0
CountWhole(m, n)     == Whole(m) => n = m \div 4
CountFloorCeil(m, n) == n \in {m \div 4, CeilDiv(m, 4)}

\* Which step a constructor call denotes (c.st: a step argument is passed, and it is c.s): the step argument whenever
\* there is one -- create_time_range: "If both step and samplerate are provided, step takes precedence"; create_range_dim
\* derives a step from size only "if step is None" -- else 1/samplerate, else (stop - a)/size.
Denoted(c) == IF c.st THEN c.s
              ELSE IF ~IsNone(c.sr) THEN <<Some(c.sr)[2], Some(c.sr)[1]>>
              ELSE <<c.m * c.s[1], 4 * c.s[2] * Some(c.size)>>

(* ---------------------------------------------------- Req: coordinate lookup *)
(* generic in the order Le, so that the same definition judges the integer  *)
(* model (IntLe) and the observed doubles (BLe)                              *)
Tk == 8
Coords(n) == [i \in 1..n |-> Tk * (i - 1)]
InRange(Le(_, _), cs, v)      == Len(cs) > 0 /\ Le(cs[1], v) /\ Le(v, cs[Len(cs)])
IsBracket(Le(_, _), cs, v, k) == /\ k \in 0..(Len(cs) - 1)
                                 /\ Le(cs[k + 1], v)
                                 /\ (k = Len(cs) - 1 \/ ~Le(cs[k + 2], v))
Brackets(Le(_, _), cs, v)     == {k \in 0..(Len(cs) - 1) : IsBracket(Le, cs, v, k)}
Index(Le(_, _), cs, v)        == CHOOSE k \in Brackets(Le, cs, v) : TRUE
\* result of a lookup: [k |-> "int" | "raise", v |-> index or -1]
IndexBracketOK(Le(_, _), cs, v, res) == InRange(Le, cs, v) => res.k = "int" /\ IsBracket(Le, cs, v, res.v)
OutsideRaisesOK(Le(_, _), cs, v, re, res) == (~InRange(Le, cs, v) /\ re) => res.k = "raise"
ClampLowOK(Le(_, _), cs, v, re, res)  == (~re /\ Len(cs) > 0 /\ ~Le(cs[1], v)) => res.k = "int" /\ res.v = 0
ClampHighOK(Le(_, _), cs, v, re, res) == (~re /\ Len(cs) > 0 /\ ~Le(v, cs[Len(cs)])) => res.k = "int" /\ res.v \in {Len(cs) - 1, Len(cs)}
LookupOK(Le(_, _), cs, v, re, res) == /\ IndexBracketOK(Le, cs, v, res) /\ OutsideRaisesOK(Le, cs, v, re, res)
                                      /\ ClampLowOK(Le, cs, v, re, res) /\ ClampHighOK(Le, cs, v, re, res)

(* ------------------------------------------------------ Req: set_value_at_pos *)
(* arrays are flat sequences in row-major order over sh = <<n1, .., nd>>;    *)
(* ix[d] is <<>> (dimension not queried) or <<k>> (resolved index)           *)
RECURSIVE Prod(_, _)
Prod(sh, d) == IF d > Len(sh) THEN 1 ELSE sh[d] * Prod(sh, d + 1)
RECURSIVE FlatFrom(_, _, _)
FlatFrom(sh, idx, d) == IF d > Len(sh) THEN 0 ELSE idx[d] * Prod(sh, d + 1) + FlatFrom(sh, idx, d + 1)
Flat(sh, idx) == 1 + FlatFrom(sh, idx, 1)
Cells(sh) == {idx \in [1..Len(sh) -> 0..2] : \A d \in 1..Len(sh) : idx[d] < sh[d]}
Addressed(ix, idx) == \A d \in 1..Len(ix) : IsNone(ix[d]) \/ idx[d] = Some(ix[d])
SlicePos(sh, ix, idx) == Flat([d \in 1..Len(sh) |-> IF IsNone(ix[d]) THEN sh[d] ELSE 1],
                              [d \in 1..Len(sh) |-> IF IsNone(ix[d]) THEN idx[d] ELSE 0])
ValueAt(sh, ix, idx, value) == IF Len(value) = 1 THEN value[1] ELSE value[SlicePos(sh, ix, idx)]
\* hit = FALSE when some query is outside its axis: then no cell is addressed
SetAddressedOK(sh, ix, hit, after, value) ==
    hit => /\ Len(after) = Prod(sh, 1)
           /\ \A idx \in Cells(sh) : Addressed(ix, idx) => after[Flat(sh, idx)] = ValueAt(sh, ix, idx, value)
SetOthersOK(sh, ix, hit, before, after) ==
    /\ Len(after) = Prod(sh, 1) /\ Len(before) = Prod(sh, 1)
    /\ \A idx \in Cells(sh) : (~hit \/ ~Addressed(ix, idx)) => after[Flat(sh, idx)] = before[Flat(sh, idx)]

(***************************************************************************)
(* Acceptance of one observation o = [in |-> case, out |-> ...].           *)
(*  range: out = [raised, lim (coords as limbs), cb (coords as bits),       *)
(*                startb, stopb, step (attr, limbs), stepb (attr, bits),    *)
(*                passed (<<>> or <<bits of the step argument>>)]           *)
(*  index: out = [cb, qb, k, v, exc]                                        *)
(*  set:   out = [axes (seq of seq of bits), qb (seq of <<>>|<<bits>>),     *)
(*                before, after, value (flat int seqs), raised]             *)
(***************************************************************************)
Clauses16 == {"Returns", "CoordsOnLattice", "AllInsideHalfOpen", "CountWhenWhole", "CountFloorCeil", "StepAttr",
              "IndexBracket", "OutsideRaises", "ClampLow", "ClampHigh",
              "SetExactlyAddressed", "OthersUnchanged"}

QueriedIn(r, d)  == IsNone(r.qb[d]) \/ InRange(BLe, r.axes[d], Some(r.qb[d]))
SetHit(r)        == \A d \in 1..Len(r.axes) : QueriedIn(r, d)
SetIx(r)         == [d \in 1..Len(r.axes) |-> IF IsNone(r.qb[d]) \/ ~QueriedIn(r, d) THEN <<>>
                                              ELSE <<Index(BLe, r.axes[d], Some(r.qb[d]))>>]
SetShape(r)      == [d \in 1..Len(r.axes) |-> Len(r.axes[d])]

HoldsRange(cl, c, r) ==
    LET n == Len(r.cb) IN
    CASE cl = "Returns"           -> r.raised = ""
      [] cl = "CoordsOnLattice"   -> Len(r.lim) = n /\ \A i \in 1..n : OnLattice(r.lim[i], c.a4, c.s, i - 1)
      [] cl = "AllInsideHalfOpen" -> \A i \in 1..n : BFinite(r.cb[i]) /\ BLe(r.startb, r.cb[i]) /\ BLt(r.cb[i], r.stopb)
      [] cl = "CountWhenWhole"    -> r.raised = "" => CountWhole(c.m, n)
      [] cl = "CountFloorCeil"    -> r.raised = "" => CountFloorCeil(c.m, n)
      [] cl = "StepAttr"          -> r.raised = "" => /\ IsStep(r.step, c.s)
                                                      /\ (~IsNone(r.passed) => BEq(r.stepb, Some(r.passed)))
      [] OTHER -> TRUE
HoldsIndex(cl, c, r) ==
    LET res == [k |-> r.k, v |-> r.v] IN
    CASE cl = "IndexBracket"  -> IndexBracketOK(BLe, r.cb, r.qb, res)
      [] cl = "OutsideRaises" -> OutsideRaisesOK(BLe, r.cb, r.qb, c.re, res)
      [] cl = "ClampLow"      -> ClampLowOK(BLe, r.cb, r.qb, c.re, res)
      [] cl = "ClampHigh"     -> ClampHighOK(BLe, r.cb, r.qb, c.re, res)
      [] OTHER -> TRUE
\* c.adt = dtype of the array written into (f8 f4 i4 i2 u1 b1; absent: f8).  The addressed cells hold the value AS REPRESENTED
\* IN THE ARRAY'S DTYPE: the values used are small whole numbers, which every numeric dtype holds unchanged; a boolean array holds
\* "non-zero".  (c.vt, the type of the value -- Python int / float / bool, numpy scalars, arrays of another dtype -- changes nothing.)
ADT(c) == IF "adt" \in DOMAIN c THEN c.adt ELSE "f8"
CastTo(adt, v) == IF adt = "b1" THEN (IF v = 0 THEN 0 ELSE 1) ELSE v
CastSeq(adt, vs) == [k \in 1..Len(vs) |-> CastTo(adt, vs[k])]
HoldsSet(cl, c, r) ==
    CASE cl = "IndexBracket"        -> SetHit(r) => r.raised = ""           \* every query has a bracket: the call must succeed
      [] cl = "OutsideRaises"       -> ~SetHit(r) => r.raised # ""
      [] cl = "SetExactlyAddressed" -> SetAddressedOK(SetShape(r), SetIx(r), SetHit(r), r.after, CastSeq(ADT(c), r.value))
      [] cl = "OthersUnchanged"     -> SetOthersOK(SetShape(r), SetIx(r), SetHit(r), r.before, r.after)
      [] OTHER -> TRUE
Holds16(cl, o) ==
    CASE o.in.kind = "range" -> HoldsRange(cl, o.in, o.out)
      [] o.in.kind = "index" -> HoldsIndex(cl, o.in, o.out)
      [] o.in.kind = "set"   -> HoldsSet(cl, o.in, o.out)
=============================================================================
