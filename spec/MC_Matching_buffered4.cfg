SPECIFICATION Spec
CONSTANTS
  Geoms <- Buffered
  MaxN = 2
  MaxM = 2
  MaxTotal = 4
  ZeroPairs = "split"
  TB = 4
  FB = 1
  WithTwins = FALSE
  ExportAt = "matrix"
CONSTRAINT Export
INVARIANT ImplCover
INVARIANT ImplPositiveOnly
INVARIANT ImplOptimal
INVARIANT ImplReported
INVARIANT LawCompleteIsOptimal
INVARIANT LawRecursionIsOptVal
INVARIANT LawZeroPairsAreFree
INVARIANT LawSelfIsOne
INVARIANT LawZeroExtentUnpaired
PROPERTY Terminates
CHECK_DEADLOCK FALSE
