SPECIFICATION Spec
CONSTANTS
  Geoms <- Intervals3
  MaxN = 2
  MaxM = 2
  MaxTotal = 3
  ZeroPairs = "split"
  TB = 0
  FB = 0
  WithTwins = FALSE
  ExportAt = "matrix"
CONSTRAINT Export
INVARIANT ImplCover
INVARIANT ImplPositiveOnly
INVARIANT ImplOptimal
INVARIANT ImplReported
INVARIANT LawCompleteIsOptimal
INVARIANT LawRecursionIsOptVal
INVARIANT LawZeroPairsAreFree
INVARIANT LawSelfIsOne
INVARIANT LawZeroExtentUnpaired
PROPERTY Terminates
CHECK_DEADLOCK FALSE
