SPECIFICATION Spec
CONSTANT MaxLen = 3
CONSTANT Stride = 37
CONSTRAINT Export
INVARIANT ImplRefinesReq
INVARIANT ScanIsFirst
INVARIANT Bounded
INVARIANT LawPrefix
INVARIANT LawLabelCoarser
INVARIANT LawHashTwins
PROPERTY Terminates
CHECK_DEADLOCK FALSE
