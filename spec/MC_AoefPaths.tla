----------------------------- MODULE MC_AoefPaths -----------------------------
(* Enumeration for C18: collection type x directory depth x file name x how the audio directory is given   *)
(* x inside/outside; the path algebra laws are invariants.                                                  *)
EXTENDS AoefPaths, TLC, Json
CONSTANTS MaxDepth
VARIABLES ct, depth, name, audio, place, ph

vars == <<ct, depth, name, audio, place, ph>>
DirParts == <<"d1", "sub dir", "ünï", "x.y">>
Names == <<"a.wav", "with space.wav", "üñí ©.wav", "dots.in.name.wav", "..hidden.wav", "日本.WAV">>
Sw0 == {"two_clips", "se_other_rec", "has_seq", "rec_owner"}
Init == /\ ct \in Range(CTypes) /\ depth \in 0..MaxDepth /\ name \in DOMAIN Names
        /\ audio \in {"none", "str", "path"} /\ place \in {"inside", "outside"} /\ ph = "in"
Go == ph = "in" /\ ph' = "out" /\ UNCHANGED <<ct, depth, name, audio, place>>
Next == Go
Spec == Init /\ [][Next]_vars
Dir == SubSeq(DirParts, 1, depth)
Export == ph = "out" => PrintT(<<"CASE", ToJson(World(ct, Sw0) @@ [sw |-> Sw0, pattern |-> "alt", audio |-> audio, place |-> place,
                                                                  dir |-> Dir, file |-> Names[name], cycles |-> 1])>>)
\* laws of the path algebra (A = some root, x = Dir \o <<file>>)
A0 == <<"root", "audio dir">>
B0 == <<"other", "place", "deep">>
X == Dir \o <<Names[name]>>
LawRelocate == Join(B0, RelativeTo(Join(A0, X), A0)) = Join(B0, X)
LawPrefix   == IsPrefixOf(A0, Join(A0, X)) /\ ~IsPrefixOf(A0, Join(<<"root", "elsewhere">>, X))
LawRoundTrip == Join(A0, RelativeTo(Join(A0, X), A0)) = Join(A0, X)
\* every collection type holds at least one recording in this world
LawHasRecording == {o \in Reach(ct, Sw0) : KindOf(o) = "recording"} # {}
=============================================================================
