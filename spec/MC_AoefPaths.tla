----------------------------- MODULE MC_AoefPaths -----------------------------
(* Enumeration for C18: collection type x directory depth x file name x how the audio directory is given   *)
(* x inside/outside; the path algebra laws are invariants.                                                  *)
EXTENDS AoefPaths, TLC, Json
CONSTANTS MaxDepth, Stride      \* Stride: keep every Stride-th combination (1 = all); every value of every dimension still occurs
VARIABLES ct, depth, name, audio, place, akind, bkind, dots, call, ph

vars == <<ct, depth, name, audio, place, akind, bkind, dots, call, ph>>
DirParts == <<" 2023-05 ", "sub dir\\notes", "üni nfd", "x.y">>
\* the last two names and the first directory begin / end with a blank (legal; must be stored and relocated verbatim);
\* the 7th and 8th names are NOT stable under unicode normalisation (decomposed accents e + U+0301, OHM SIGN U+2126)
Names == <<"a.wav", "with space.wav", "üñí ©.wav", "dots.in.name.wav", "..hidden.wav", "日本.WAV", "été nfd.wav", "Ωhm.wav", " lead.wav", "take 7 ",
          "rec\\01.wav", "rec%20one.wav">>       \* a POSIX file name containing a backslash (one component, stored and relocated verbatim); a name containing a literal %XX sequence
Sw0 == {"two_clips", "se_other_rec", "has_seq", "rec_owner"}
Init == /\ ct \in Range(CTypes) /\ depth \in 0..MaxDepth /\ name \in DOMAIN Names
        \* fspath: the directory given as an os.PathLike object that is neither str nor pathlib.Path
        /\ audio \in {"none", "str", "path", "fspath"} /\ ph = "in"
        \* outside_prefix: a sibling directory whose NAME starts with the audio directory's name (string prefix, not path prefix)
        \* outside_case: a sibling directory whose name differs from the audio directory's only by letter case
        \* outside_cwd: the audio directory is the current directory, given as ".", and the recordings are ABSOLUTE paths elsewhere
        /\ place \in {"inside", "outside", "outside_prefix", "outside_case", "outside_cwd"} /\ (place = "outside_cwd" => akind = "rel")
        \* the directories given as absolute or relative paths; rel_first: the load directory B is relative and equal to the
        \* first component of the stored relative path (so B.x starts with the same component twice)
        /\ akind \in {"abs", "rel"} /\ bkind \in {"abs", "rel", "rel_first", "root"}        \* root: the load directory is the file-system root "/"
        \* without a directory the recordings may still be given by RELATIVE paths (akind = "rel"): they pass through unchanged
        /\ (audio = "none" => bkind = "abs" /\ place = "inside")
        /\ (place # "inside" => bkind = "abs")
        \* dots: the directory below the audio directory contains a ".." component (legal; stored and relocated verbatim)
        \* call: how io.save / io.load are invoked: format left at its default, format="aoef", format=None (inferred from
        \* the file), and type=<collection type> passed to load; the directory must be honoured on every path
        /\ call \in {"default", "format_aoef", "format_none", "typed"}
        /\ LET ix(S, x) == CHOOSE i \in 1..Len(S) : S[i] = x
               n == name + 3 * depth + 5 * ix(<<"none", "str", "path", "fspath">>, audio) + 7 * ix(<<"default", "format_aoef", "format_none", "typed">>, call)
                    + 11 * ix(<<"inside", "outside", "outside_prefix", "outside_case", "outside_cwd">>, place) + 13 * ix(<<"abs", "rel", "rel_first", "root">>, bkind) + ix(CTypes, ct)
           IN  n % Stride = 0
        \* dots: which special directory lies below the audio directory: "dotdot" = a ".." component, "dotdir" = a first component
        \* that begins with a dot (.cache), "tilde" = a first component that begins with a tilde (~user) -- all legal, all stored
        \* and relocated verbatim
        /\ dots \in {"no", "dotdot", "dotdir", "tilde"} /\ (dots # "no" => depth = 1 /\ place = "inside" /\ (akind = "abs" \/ (dots = "tilde" /\ audio = "none")) /\ bkind = "abs")
Go == ph = "in" /\ ph' = "out" /\ UNCHANGED <<ct, depth, name, audio, place, akind, bkind, dots, call>>
Next == Go
Spec == Init /\ [][Next]_vars
Dir == CASE dots = "dotdot" -> <<"site_a", "..", "shared">>
         [] dots = "dotdir" -> <<".cache", "night 1">>
         [] dots = "tilde"  -> <<"~", "x">>
         [] OTHER -> SubSeq(DirParts, 1, depth)
Export == ph = "out" => PrintT(<<"CASE", ToJson(World(ct, Sw0) @@ [sw |-> Sw0, pattern |-> "alt", audio |-> audio, place |-> place, akind |-> akind, bkind |-> bkind, call |-> call,
                                                                  dir |-> Dir, file |-> Names[name], cycles |-> 1])>>)
\* laws of the path algebra (A = some root, x = Dir \o <<file>>)
A0 == <<"root", "audio dir">>
B0 == <<"other", "place", "deep">>
X == Dir \o <<Names[name]>>
LawRelocate == Join(B0, RelativeTo(Join(A0, X), A0)) = Join(B0, X)
LawPrefix   == IsPrefixOf(A0, Join(A0, X)) /\ ~IsPrefixOf(A0, Join(<<"root", "elsewhere">>, X))
LawRoundTrip == Join(A0, RelativeTo(Join(A0, X), A0)) = Join(A0, X)
\* every collection type holds at least one recording in this world
LawHasRecording == {o \in Reach(ct, Sw0) : KindOf(o) = "recording"} # {}
=============================================================================
