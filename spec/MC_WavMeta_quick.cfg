SPECIFICATION Spec
CONSTANTS
  Rates = {8000, 22051, 44100, 384000}
  Frames = {0, 1, 441, 4410}
  TEMode = "small"
  HRates = {8000, 44100, 192000, 384000}
  HCounts = {0, 1, 3, 100, 1001}
  Sizes = {0, 1, 65535, 65536, 65537, 131072, 131075}
  B = 65536
CONSTRAINT Export
INVARIANT ImplFeedsWholeFile
INVARIANT ImplFeedsPrefix
INVARIANT LawLen44
INVARIANT LawFields
INVARIANT LawConsistent
INVARIANT LawRoundTrip
INVARIANT LawTeOne
INVARIANT LawTeRate
PROPERTY Terminates
CHECK_DEADLOCK FALSE
