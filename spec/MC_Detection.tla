------------------------------ MODULE MC_Detection ------------------------------
(***************************************************************************)
(* Impl of C08: sound_event_detection / evaluate_clip as a state machine,  *)
(* model-checked against the clauses of Detection.                         *)
(*                                                                         *)
(*   NextClip  iterate_over_valid_clips: walk the prediction list, keep a  *)
(*             clip when the annotation dictionary has it                  *)
(*   Filter    the two lists of geometries handed to the matcher contain   *)
(*             only the events that have a geometry                        *)
(*   Match     match_geometries: any outcome its contract (C07) allows     *)
(*   Split*    the three-way case split of evaluate_clip, one match a step *)
(*   NoGeom    (repaired) events without geometry become unmatched entries *)
(*   Close     ClipEvaluation(...): its validator raises unless every      *)
(*             event is in exactly one match; score = _mean(match scores)  *)
(*   Finish    Evaluation.score = _mean(clip scores)                       *)
(*                                                                         *)
(* Matcher = "complete" / ClipAlg = "found" is the code as found (history/):*)
(* the matcher pairs zero-affinity entries (F6), indices of the *filtered*  *)
(* lists are used on the *unfiltered* lists, pairs report affinity 1,      *)
(* events without geometry never reach a match.                            *)
(***************************************************************************)
EXTENDS Detection, TLC, Json
CONSTANTS Universe,     \* "events" | "clips" | "extra" (regions with holes; tags over look-alike terms)
          MaxTotal,     \* "events": at most this many sound events in the varied clip
          MaxSide,      \* "events": at most this many per side
          Rich,         \* BOOLEAN: larger alphabets (a touching box, four score vectors)
          Matcher,      \* "positive" (C07 holds) | "complete" (as found)
          ClipAlg,      \* "fixed" | "found"
          ExportAt      \* "next" (every initial state) | "filter" (sampled behaviours, -simulate)
VARIABLES c, pc, ci, fp, fa, pend, ms, outclips, raised, overall

vars == <<c, pc, ci, fp, fa, pend, ms, outclips, raised, overall>>

(* ---- the universe ---- *)
B(a, b) == G("BoundingBox", <<a, 1, b, 3>>)
I1 == B(0, 2)
I2 == B(1, 3)        \* overlaps I1 (IoU 1/3)
I3 == B(4, 6)        \* disjoint from I1 and I2
I4 == B(2, 4)        \* touches I1 and I3, overlaps I2
GeomOpts == {<<>>, <<I1>>, <<I2>>, <<I3>>} \cup (IF Rich THEN {<<I4>>} ELSE {})
AnnEvents  == [g : GeomOpts, cls : {0, 1, 2}]
PredEvents == [g : GeomOpts, sc : {<<3, 1>>, <<0, 0>>} \cup (IF Rich THEN {<<2, 0>>, <<1, 2>>} ELSE {})]
SeqsOf(S, k) == UNION {[1..l -> S] : l \in 0..k}
Anchor == [id |-> 1, anns |-> <<[g |-> <<I1>>, cls |-> 1]>>, preds |-> <<[g |-> <<I2>>, sc |-> <<3, 1>>]>>]
\* "events": the anchor clip (keeps the run-level metrics defined) and one clip with every arrangement of events
\* detection confidences (SoundEventPrediction.score, quarters) of the predictions of the varied clip: ascending, descending
\* or equal along the list, chosen by the first annotation (none: equal; class 1: descending; else ascending).  No clause
\* reads them: who is matched with whom does not depend on the confidence.
ConfPattern(anns) == IF anns = <<>> THEN 2 ELSE IF anns[1].cls = 1 THEN 1 ELSE 0
WithConf(preds, pat) == [k \in DOMAIN preds |-> [g |-> preds[k].g, sc |-> preds[k].sc,
                                                conf |-> CASE pat = 0 -> k [] pat = 1 -> 4 - k [] OTHER -> 2]]
EventCases ==
    {[kind |-> "lat", vocab |-> 2, clips |-> <<Anchor, [id |-> 2, anns |-> x[1], preds |-> WithConf(x[2], ConfPattern(x[1]))]>>,
      porder |-> <<2, 1>>, aorder |-> <<1, 2>>] :
        x \in {y \in SeqsOf(AnnEvents, MaxSide) \X SeqsOf(PredEvents, MaxSide) : Len(y[1]) + Len(y[2]) <= MaxTotal}}
\* "clips": three clips of one recording, in the prediction list / annotation list / both, in every order
Clip2 == [id |-> 2, anns |-> <<[g |-> <<I1>>, cls |-> 2], [g |-> <<>>, cls |-> 9]>>, preds |-> <<[g |-> <<I4>>, sc |-> <<1, 2>>], [g |-> <<I1>>, sc |-> <<0, 4>>]>>]
Clip3 == [id |-> 3, anns |-> <<[g |-> <<I3>>, cls |-> 1]>>, preds |-> <<>>]
Orders == {s \in SeqsOf({1, 2, 3}, 3) : 1 \in Range(s) /\ \A i, j \in DOMAIN s : i # j => s[i] # s[j]}
\* cv: which Clip OBJECT the prediction side holds for a clip -- 0 the very object of the annotation side, 1 an equal copy,
\* 2 a copy with the same uuid and an extra clip-level feature, 3 a copy with the same uuid whose end was re-derived
\* (one ulp off).  A clip is "present in both inputs" by its identity (uuid): no clause reads cv.  Spread over the cases.
WithCv(x, k) == [id |-> x.id, anns |-> x.anns, preds |-> x.preds, cv |-> k]
ClipCases == {[kind |-> "lat", vocab |-> v,
               clips |-> <<WithCv(Anchor, (Len(p) + 2 * Len(a) + v) % 4), WithCv(Clip2, (1 + Len(p) + Len(a) + p[1]) % 4),
                           WithCv(Clip3, (a[1] + v) % 4)>>,
               porder |-> p, aorder |-> a] :
                 p \in Orders, a \in Orders, v \in {2, 3}}
\* "holes": a region with an interior ring (as MultiPolygon and as Polygon), a box strictly inside the hole, a box inside
\* it touching its border, a box across it
Ring(a, b, x, y) == <<<<a, b>>, <<x, b>>, <<x, y>>, <<a, y>>, <<a, b>>>>
HM == G("MultiPolygon", <<<<Ring(0, 0, 6, 6), Ring(1, 1, 5, 5)>>>>)
HP == G("Polygon", <<Ring(0, 0, 6, 6), Ring(1, 1, 5, 5)>>)
HoleGeoms == {<<HM>>, <<HP>>, <<G("BoundingBox", <<2, 2, 4, 4>>)>>, <<G("BoundingBox", <<1, 1, 3, 5>>)>>, <<G("BoundingBox", <<0, 2, 3, 4>>)>>}
HoleCases ==
    {[kind |-> "lat", vocab |-> 2, clips |-> <<Anchor, [id |-> 2, anns |-> x[1], preds |-> x[2]]>>,
      porder |-> <<2, 1>>, aorder |-> <<1, 2>>] :
        x \in {y \in SeqsOf([g : HoleGeoms, cls : {1}], 2) \X SeqsOf([g : HoleGeoms, sc : {<<3, 1>>}], 2) :
                  Len(y[1]) + Len(y[2]) <= 3 /\ Len(y[1]) >= 1 /\ Len(y[2]) >= 1}}
\* time-only events against boxes: a TimeStamp (grown by the default 0.01 s) and a TimeInterval, overlapping / touching / apart
TimeGeoms == {<<G("TimeStamp", 2)>>, <<G("TimeInterval", <<1, 3>>)>>, <<I1>>, <<I3>>,
              <<G("BoundingBox", <<1, 2, 4, 2>>)>>}        \* a flat box (low = high): zero area, positive duration
TimeCases ==
    {[kind |-> "lat", vocab |-> 2, clips |-> <<Anchor, [id |-> 2, anns |-> x[1], preds |-> x[2]]>>,
      porder |-> <<2, 1>>, aorder |-> <<1, 2>>] :
        x \in {y \in SeqsOf([g : TimeGeoms, cls : {1}], 2) \X SeqsOf([g : TimeGeoms, sc : {<<3, 1>>}], 2) :
                  Len(y[1]) + Len(y[2]) <= 3 /\ Len(y[1]) >= 1 /\ Len(y[2]) >= 1}}
\* zero-length intervals at two instants and a zero-duration box: at different instants they do not overlap (affinity 0,
\* unpaired); at the same instant the ratio is 0/0 and either outcome is accepted (PairAffinity is vacuous there)
ZeroGeoms == {<<G("TimeInterval", <<2, 2>>)>>, <<G("TimeInterval", <<5, 5>>)>>, <<G("BoundingBox", <<5, 1, 5, 3>>)>>, <<I1>>}
ZeroCases ==
    {[kind |-> "lat", vocab |-> 2, clips |-> <<Anchor, [id |-> 2, anns |-> x[1], preds |-> x[2]]>>,
      porder |-> <<2, 1>>, aorder |-> <<1, 2>>] :
        x \in {y \in SeqsOf([g : ZeroGeoms, cls : {1}], 2) \X SeqsOf([g : ZeroGeoms, sc : {<<3, 1>>}], 2) :
                  Len(y[1]) + Len(y[2]) <= 3 /\ Len(y[1]) >= 1 /\ Len(y[2]) >= 1}}
\* boxes apart on BOTH axes (diagonal neighbours, one tick in time and one in frequency): they do not overlap
DiagGeoms == {<<I1>>, <<I2>>, <<G("BoundingBox", <<3, 4, 5, 6>>)>>}
DiagCases ==
    {[kind |-> "lat", vocab |-> 2, clips |-> <<Anchor, [id |-> 2, anns |-> x[1], preds |-> x[2]]>>,
      porder |-> <<2, 1>>, aorder |-> <<1, 2>>] :
        x \in {y \in SeqsOf([g : DiagGeoms, cls : {1}], 2) \X SeqsOf([g : DiagGeoms, sc : {<<3, 1>>}], 2) :
                  Len(y[1]) + Len(y[2]) <= 3 /\ Len(y[1]) >= 1 /\ Len(y[2]) >= 1}}
\* intervals that merely TOUCH (a prediction [a, b] and an annotation [b, c], either way round): their intersection is
\* exactly 0 on any grid.  deci: the binder also runs these at the DECIMAL unit 0.1 s (real doubles such as 0.3 and 0.7).
TouchCases ==
    {[kind |-> "lat", vocab |-> 2, deci |-> TRUE,
      clips |-> <<Anchor, [id |-> 2, anns |-> <<[g |-> <<G("TimeInterval", x[1])>>, cls |-> 1]>>,
                                    preds |-> <<[g |-> <<G("TimeInterval", x[2])>>, sc |-> <<3, 1>>]>>]>>,
      porder |-> <<2, 1>>, aorder |-> <<1, 2>>] :
        x \in {y \in ((0..9) \X (0..9)) \X ((0..9) \X (0..9)) :
                  /\ y[1][1] < y[1][2] /\ y[2][1] < y[2][2] /\ (y[1][2] = y[2][1] \/ y[2][2] = y[1][1])}}
\* "terms": vocabularies, annotation tags and predicted tags over tags whose terms share a label or a name (Detection: tag table)
VocOpts  == {<<1, 4>>, <<1, 2>>, <<2, 1>>, <<3, 1>>, <<4, 3>>, <<2, 3>>}
ATagOpts == {<<>>, <<1>>, <<2>>, <<3>>, <<4>>, <<2, 1>>}
PTagOpts == {<<<<1, 2>>, <<2, 1>>>>, <<<<2, 1>>, <<1, 2>>>>, <<<<1, 3>>>>, <<<<2, 3>>>>, <<<<3, 2>>, <<1, 1>>>>, <<<<4, 1>>, <<2, 2>>>>, <<<<3, 1>>, <<2, 1>>, <<1, 2>>>>}
TermCases ==
    {[kind |-> "lat", vocab |-> 2, voc |-> v,
      clips |-> <<Anchor, [id |-> 2, anns |-> <<[g |-> <<I1>>, tags |-> a]>>, preds |-> <<[g |-> <<I2>>, pt |-> p]>>]>>,
      porder |-> <<2, 1>>, aorder |-> <<1, 2>>] : v \in VocOpts, a \in ATagOpts, p \in PTagOpts}
Cases == CASE Universe = "events" -> EventCases
           [] Universe = "clips"  -> ClipCases
           [] Universe = "extra"  -> HoleCases \cup TermCases \cup TimeCases \cup ZeroCases \cup DiagCases \cup TouchCases

(* ---- rationals ---- *)
RMean(s) ==     \* mean of a sequence of rationals, <<0, 1>> for the empty sequence (_mean returns 0.0)
    IF Len(s) = 0 THEN <<0, 1>>
    ELSE LET RECURSIVE Sum(_)
             Sum(t) == IF t = <<>> THEN <<0, 1>> ELSE Reduce(RAdd(Head(t), Sum(Tail(t))))
             S == Sum(s)
         IN  Reduce(<<S[1], S[2] * Len(s)>>)
EqR(v, pq) == pq[2] > 0 => REq(v, pq)
ZeroR(v)   == v[1] = 0

(* ---- the current clip ---- *)
Cur == ClipOf(c, c.porder[ci])
P == Cur.preds
A == Cur.anns
V == c                 \* the clause operators read vocabulary and tag tables from the case
WithGeom(s) == LET RECURSIVE F(_)
                   F(i) == IF i > Len(s) THEN <<>> ELSE (IF HasGeom(s[i]) THEN <<i>> ELSE <<>>) \o F(i + 1)
               IN  F(1)
\* exact affinities of the filtered lists, scaled to integers
SrcG == [k \in DOMAIN fp |-> Some(P[fp[k]].g)]
TgtG == [k \in DOMAIN fa |-> Some(A[fa[k]].g)]
\* the model runs at unit 1 s (100 hundredths per tick); the implementation leaves a TimeInterval as it is (reading 0)
ModelS == 100
DetR(i, j) == Mat!Guarded(DetAff(SrcG[i], TgtG[j], ModelS, 0))
DetD == Mat!LcmSet({DetR(i, j)[2] : i \in DOMAIN SrcG, j \in DOMAIN TgtG})
W == [i \in DOMAIN SrcG |-> [j \in DOMAIN TgtG |-> DetR(i, j)[1] * (DetD \div DetR(i, j)[2])]]
n == Len(fp)
m == Len(fa)
Complete == {Q \in SUBSET ((1..n) \X (1..m)) : Mat!OneToOne(Q) /\ Cardinality(Q) = Min(n, m)}
Outcomes == IF Matcher = "complete"
            THEN {Q \in Complete : \A R \in Complete : Mat!Val(W, R) <= Mat!Val(W, Q)}
            ELSE {Q \in Mat!Pairings(W, n, m) : Mat!Val(W, Q) = Mat!OptVal(W, n, m)}
\* the matcher's answer as a sequence: pairs by row, then leftover rows, then leftover columns
RECURSIVE SortedSeq(_)
SortedSeq(S) == IF S = {} THEN <<>> ELSE LET x == CHOOSE x \in S : \A y \in S : x <= y IN <<x>> \o SortedSeq(S \ {x})
Answer(Q) ==
    LET rows == SortedSeq({q[1] : q \in Q})
        lr   == SortedSeq((1..n) \ {q[1] : q \in Q})
        lc   == SortedSeq((1..m) \ {q[2] : q \in Q})
        col(i) == (CHOOSE q \in Q : q[1] = i)[2]
    IN  [k \in DOMAIN rows |-> [s |-> <<rows[k]>>, t |-> <<col(rows[k])>>, a |-> DetR(rows[k], col(rows[k]))]]
        \o [k \in DOMAIN lr |-> [s |-> <<lr[k]>>, t |-> <<>>, a |-> <<0, 1>>]]
        \o [k \in DOMAIN lc |-> [s |-> <<>>, t |-> <<lc[k]>>, a |-> <<0, 1>>]]
\* which event of the clip an index returned by the matcher denotes
PredAt(i) == IF ClipAlg = "found" THEN i ELSE fp[i]           \* found: the filtered index is used on the unfiltered list
AnnAt(j)  == IF ClipAlg = "found" THEN j ELSE fa[j]
Rec(s, t, a, sc) == [s |-> s, t |-> t, a |-> a, sc |-> sc]

Init == /\ c \in Cases
        /\ pc = "next" /\ ci = 1 /\ fp = <<>> /\ fa = <<>> /\ pend = <<>> /\ ms = <<>>
        /\ outclips = <<>> /\ raised = "" /\ overall = <<0, 1>>
NextClip == /\ pc = "next" /\ ci <= Len(c.porder)
            /\ IF c.porder[ci] \in Range(c.aorder) THEN pc' = "filter" /\ ci' = ci ELSE pc' = "next" /\ ci' = ci + 1
            /\ UNCHANGED <<c, fp, fa, pend, ms, outclips, raised, overall>>
Filter == /\ pc = "filter" /\ fp' = WithGeom(P) /\ fa' = WithGeom(A) /\ pc' = "match"
          /\ UNCHANGED <<c, ci, pend, ms, outclips, raised, overall>>
Match == /\ pc = "match" /\ \E Q \in Outcomes : pend' = Answer(Q)
         /\ ms' = <<>> /\ pc' = "split" /\ UNCHANGED <<c, ci, fp, fa, outclips, raised, overall>>
Hd == Head(pend)
SplitPredOnly == /\ pc = "split" /\ pend # <<>> /\ IsNone(Hd.t) /\ ~IsNone(Hd.s)
                 /\ ms' = Append(ms, Rec(<<PredAt(Some(Hd.s))>>, <<>>, Hd.a, <<0, 1>>))
                 /\ pend' = Tail(pend) /\ UNCHANGED <<c, pc, ci, fp, fa, outclips, raised, overall>>
SplitAnnOnly  == /\ pc = "split" /\ pend # <<>> /\ ~IsNone(Hd.t) /\ IsNone(Hd.s)
                 /\ ms' = Append(ms, Rec(<<>>, <<AnnAt(Some(Hd.t))>>, Hd.a, <<0, 1>>))
                 /\ pend' = Tail(pend) /\ UNCHANGED <<c, pc, ci, fp, fa, outclips, raised, overall>>
SplitBoth     == /\ pc = "split" /\ pend # <<>> /\ ~IsNone(Hd.t) /\ ~IsNone(Hd.s)
                 /\ LET i == PredAt(Some(Hd.s))  j == AnnAt(Some(Hd.t))
                    IN  ms' = Append(ms, Rec(<<i>>, <<j>>, IF ClipAlg = "found" THEN <<1, 1>> ELSE Hd.a, ExpScore(P[i], A[j], V)))
                 /\ pend' = Tail(pend) /\ UNCHANGED <<c, pc, ci, fp, fa, outclips, raised, overall>>
\* repaired: the events the matcher never saw are reported as unmatched
NoGeom == /\ pc = "split" /\ pend = <<>>
          /\ LET np == IF ClipAlg = "found" THEN <<>> ELSE SortedSeq((1..Len(P)) \ Range(fp))
                 na == IF ClipAlg = "found" THEN <<>> ELSE SortedSeq((1..Len(A)) \ Range(fa))
             IN  ms' = ms \o [k \in DOMAIN np |-> Rec(<<np[k]>>, <<>>, <<0, 1>>, <<0, 1>>)]
                          \o [k \in DOMAIN na |-> Rec(<<>>, <<na[k]>>, <<0, 1>>, <<0, 1>>)]
          /\ pc' = "close" /\ UNCHANGED <<c, ci, fp, fa, pend, outclips, raised, overall>>
Close == /\ pc = "close"
         /\ IF EveryEventOnceOf(ms, P, A)                            \* ClipEvaluation._check_matches
            THEN /\ outclips' = Append(outclips, [id |-> Cur.id, m |-> ms, score |-> RMean([k \in DOMAIN ms |-> ms[k].sc])])
                 /\ pc' = "next" /\ ci' = ci + 1 /\ raised' = raised
            ELSE /\ raised' = "ValidationError" /\ pc' = "done" /\ UNCHANGED <<outclips, ci>>
         /\ UNCHANGED <<c, fp, fa, pend, ms, overall>>
Finish == /\ pc = "next" /\ ci > Len(c.porder)
          /\ overall' = RMean([k \in DOMAIN outclips |-> outclips[k].score]) /\ pc' = "done"
          /\ UNCHANGED <<c, ci, fp, fa, pend, ms, outclips, raised>>
Next == NextClip \/ Filter \/ Match \/ SplitPredOnly \/ SplitAnnOnly \/ SplitBoth \/ NoGeom \/ Close \/ Finish
Spec == Init /\ [][Next]_vars /\ WF_vars(Next)

Export == (pc = ExportAt /\ ci = 1) => PrintT(<<"CASE", ToJson(c)>>)

(* ---- Impl => Req (the same clause operators the validator uses, on rationals) ---- *)
Done == pc = "done"
Ok == Done /\ raised = ""
ClipIn(k) == ClipOf(c, outclips[k].id)
ImplReturns  == Done => raised = ""
ImplClips    == Ok => /\ \A j, k \in DOMAIN outclips : j # k => outclips[j].id # outclips[k].id
                      /\ {outclips[k].id : k \in DOMAIN outclips} = Evaluated(c)
ImplEveryEventOnce == Ok => \A k \in DOMAIN outclips : EveryEventOnceOf(outclips[k].m, ClipIn(k).preds, ClipIn(k).anns)
ImplPairedOnlyIfOverlap == Ok => \A k \in DOMAIN outclips : LatOverlapOf(outclips[k].m, ClipIn(k).preds, ClipIn(k).anns)
ImplPairAffinity == Ok => \A k \in DOMAIN outclips : LatAffinityOf(outclips[k].m, ClipIn(k).preds, ClipIn(k).anns, ModelS, EqR)
ImplPairScore    == Ok => \A k \in DOMAIN outclips : PairScoreOf(outclips[k].m, ClipIn(k).preds, ClipIn(k).anns, V, EqR)
ImplUnpairedZero == Ok => \A k \in DOMAIN outclips : UnpairedZeroOf(outclips[k].m, ZeroR)
ImplClipMean     == Ok => \A k \in DOMAIN outclips :
                        LET M == outclips[k].m IN
                        Len(M) > 0 => REq(outclips[k].score, <<SumSeq(ExpScores(M, ClipIn(k).preds, ClipIn(k).anns, V)), 4 * Len(M)>>)
ImplOverallMean  == Ok => (Len(outclips) > 0 => REq(overall, RMean([k \in DOMAIN outclips |-> outclips[k].score])))
ImplScoresInUnit == Ok => /\ 0 <= overall[1] /\ overall[1] <= overall[2]
                          /\ \A k \in DOMAIN outclips : 0 <= outclips[k].score[1] /\ outclips[k].score[1] <= outclips[k].score[2]
\* stronger than the statement (not a clause): a pair is made only when the affinity is positive
ImplPairsHavePositiveAffinity == Ok => \A k \in DOMAIN outclips : \A j \in DOMAIN outclips[k].m :
                                    IsPair(outclips[k].m[j]) => outclips[k].m[j].a[1] > 0
Terminates == <>Done
=============================================================================
