SPECIFICATION Spec
CONSTANTS
  MaxWeight = 2
  Variant = "fixed"
CONSTRAINT Export
INVARIANT RefClosed
INVARIANT NoDup
INVARIANT ParentFirst
INVARIANT DocIsStore
INVARIANT Exact
INVARIANT StoreWithinReach
INVARIANT AllHit
INVARIANT LoadedAll
INVARIANT StackIsPath
PROPERTY Terminates
CHECK_DEADLOCK FALSE
