------------------------------- MODULE Raster -------------------------------
(***************************************************************************)
(* C20 -- rasterize marks exactly the bins a geometry covers, on the       *)
(* template's axes.                                                        *)
(*                                                                         *)
(* Everything is on an integer lattice: time ticks and frequency ticks     *)
(* (units chosen by the binder, both dyadic so every float operation of    *)
(* the implementation on lattice inputs is exact).                         *)
(*                                                                         *)
(* A template is [T, F, order, t0, ts, f0, fs, fu]: T time bins whose       *)
(* coordinates are t0 + i*ts, F frequency bins f0 + j*fs, and              *)
(* order = "ft" (dims (frequency, time)) or "tf" (dims (time, frequency)). *)
(* fu = Hz per frequency tick, for the binder only: with fu = 1 (and 1 s   *)
(* per time tick) a tick is the SAME NUMBER on both axes, so a time and a  *)
(* frequency coordinate can be equal as numbers and still belong to        *)
(* different bins.  Req never looks at fu: Bin takes the AXIS and the      *)
(* value, the time lookup and the frequency lookup are independent.        *)
(* tstep, fstep (optional: <<>> or <<v>>) are the 'step' attributes stored *)
(* on the coordinates, again for the binder only: they may be absent or    *)
(* STALE (a subsampled template keeps the attribute of the finer axis).    *)
(* Req follows the template's ACTUAL coordinates t0 + i*ts, f0 + j*fs.     *)
(* A case is [tpl, geoms, values, scalar, fill, dt].  Values and the fill  *)
(* are NUMERALS (strings): "3", "-1", "0.1", "1/3", "4294967295"; dt is the *)
(* requested dtype.  A cell holds a value "as represented in the requested *)
(* dtype": Cast(numeral, dt), the canonical text of that number in that    *)
(* dtype -- the decimal integer when it is integral, else the hexadecimal  *)
(* form of the double that equals it exactly (so for float32 the ROUNDED   *)
(* value is what the cell must hold, for float64 the double itself).  Req  *)
(* only ever compares cell contents for equality.                          *)
(* A cell is <<i, j>> with 0-based time bin i and frequency bin j.         *)
(***************************************************************************)
EXTENDS GeomModel, PlaneGeom, TLC

FMAXT == 20000                    \* MAX_FREQUENCY in frequency ticks of 250 Hz; with other tick sizes: a frequency beyond
                                  \* every template (MC_Raster!LawBin), which is all that the lookup of MAX_FREQUENCY depends on

TAxis(tp) == [a |-> tp.t0, s |-> tp.ts, n |-> tp.T]
FAxis(tp) == [a |-> tp.f0, s |-> tp.fs, n |-> tp.F]
Coord(ax, i) == ax.a + (i - 1) * ax.s                 \* i in 1..n
Coords(ax) == [i \in 1..ax.n |-> Coord(ax, i)]
CellsOf(tp) == (0..(tp.T - 1)) \X (0..(tp.F - 1))

(***************************************************************************)
(* Bin lookup.  BinClamp transcribes get_coord_index(raise_error=False):   *)
(*    start, stop = index.min(), index.max()                               *)
(*    value < start -> 0 ; value > stop -> n ;                             *)
(*    else index.get_slice_bound(value, "right") - 1                       *)
(* so the "range" of the axis ends at the LAST COORDINATE and any value    *)
(* beyond it is clamped to n.  BinExtent is the other defensible reading   *)
(* of "the bin containing v": the last bin is as wide as the others and    *)
(* only values at or beyond its end are clamped to n.  The two differ only *)
(* for last coordinate < v < last coordinate + step.  The statement names  *)
(* the clamped lookup as the mechanism and says "the bin containing";      *)
(* an outcome is rejected only if neither reading allows it.               *)
(***************************************************************************)
SliceBoundRight(ax, v) == Cardinality({i \in 1..ax.n : Coord(ax, i) <= v})
BinClamp(ax, v) ==
    IF v < Coord(ax, 1) THEN 0
    ELSE IF v > Coord(ax, ax.n) THEN ax.n
    ELSE SliceBoundRight(ax, v) - 1
BinExtent(ax, v) ==
    IF v < Coord(ax, 1) THEN 0
    ELSE IF v >= Coord(ax, ax.n) + ax.s THEN ax.n
    ELSE SliceBoundRight(ax, v) - 1
Readings == {"clamp", "extent"}
Bin(r, ax, v) == IF r = "clamp" THEN BinClamp(ax, v) ELSE BinExtent(ax, v)
RR == Readings \X Readings            \* <<reading on the time axis, reading on the frequency axis>>

(***************************************************************************)
(* A geometry as shapely sees it (geometry_to_shapely): a sequence of      *)
(* parts [dim, rings]; dim 0 = point, 1 = line, 2 = polygon (rings = outer *)
(* ring followed by holes).  Time stamps are vertical lines and time       *)
(* intervals are boxes over the whole frequency range.                     *)
(***************************************************************************)
BoxRing(s, l, e, h) == <<<<s, l>>, <<e, l>>, <<e, h>>, <<s, h>>, <<s, l>>>>
Part(d, rings) == [dim |-> d, rings |-> rings]
Parts(g) ==
  LET c == g.coordinates IN
  CASE g.type = "TimeStamp"       -> <<Part(1, <<<<<<c, 0>>, <<c, FMAXT>>>>>>)>>
    [] g.type = "TimeInterval"    -> <<Part(2, <<BoxRing(c[1], 0, c[2], FMAXT)>>)>>
    [] g.type = "BoundingBox"     -> <<Part(2, <<BoxRing(c[1], c[2], c[3], c[4])>>)>>
    [] g.type = "Point"           -> <<Part(0, <<<<c>>>>)>>
    [] g.type = "MultiPoint"      -> [i \in DOMAIN c |-> Part(0, <<<<c[i]>>>>)]
    [] g.type = "LineString"      -> <<Part(1, <<c>>)>>
    [] g.type = "MultiLineString" -> [i \in DOMAIN c |-> Part(1, <<c[i]>>)]
    [] g.type = "Polygon"         -> <<Part(2, CloseRings(c))>>                      \* rings may be written unclosed
    [] g.type = "MultiPolygon"    -> [i \in DOMAIN c |-> Part(2, CloseRings(c[i]))]
BoxLike(g) == g.type \in {"BoundingBox", "TimeInterval"}
Areal(g)   == g.type \in {"BoundingBox", "TimeInterval", "Polygon", "MultiPolygon"}
\* <<start, low, end, high>> of a box-like geometry
BoxOf(g) == IF g.type = "TimeInterval" THEN <<g.coordinates[1], 0, g.coordinates[2], FMAXT>> ELSE g.coordinates

(***************************************************************************)
(* "The geometry mapped to bin indices": every vertex <<t, f>> becomes     *)
(* <<Bin(t), Bin(f)>> (integers); rasterio then burns the mapped shape on  *)
(* the unit grid, where cell <<i, j>> is the square [i, i+1] x [j, j+1]    *)
(* with centre <<i + 1/2, j + 1/2>>.  To stay in integers the mapped       *)
(* vertices are doubled: vertex 2*idx, centre <<2i+1, 2j+1>>.              *)
(***************************************************************************)
MapPt(tp, rr, p) == <<2 * Bin(rr[1], TAxis(tp), p[1]), 2 * Bin(rr[2], FAxis(tp), p[2])>>
MapRing(tp, rr, ring) == [k \in DOMAIN ring |-> MapPt(tp, rr, ring[k])]
MapPart(tp, rr, pt) == Part(pt.dim, [k \in DOMAIN pt.rings |-> MapRing(tp, rr, pt.rings[k])])
Centre(cell) == <<2 * cell[1] + 1, 2 * cell[2] + 1>>

\* closed cell [2i, 2i+2] x [2j, 2j+2] meets the closed segment a-b (separating axes: x, y, the segment's normal)
Corners(cell) == {<<2 * cell[1] + dx, 2 * cell[2] + dy>> : dx \in {0, 2}, dy \in {0, 2}}
SegTouches(a, b, cell) ==
    /\ Max(a[1], b[1]) >= 2 * cell[1] /\ Min(a[1], b[1]) <= 2 * cell[1] + 2
    /\ Max(a[2], b[2]) >= 2 * cell[2] /\ Min(a[2], b[2]) <= 2 * cell[2] + 2
    /\ ~(\A q \in Corners(cell) : Cross(a, b, q) > 0)
    /\ ~(\A q \in Corners(cell) : Cross(a, b, q) < 0)
\* the segment passes through the OPEN cell and through none of its corners.  (Mapped vertices are cell corners: vertical and
\* horizontal segments run along cell borders and never enter an open cell; any other segment spans whole columns, so the
\* column test says whether the part of the line inside the cell belongs to the segment.)
SegCrossesOpen(a, b, cell) ==
    /\ a[1] # b[1] /\ Min(a[1], b[1]) <= 2 * cell[1] /\ 2 * cell[1] + 2 <= Max(a[1], b[1])
    /\ \E q \in Corners(cell) : Cross(a, b, q) > 0
    /\ \E q \in Corners(cell) : Cross(a, b, q) < 0
    /\ \A q \in Corners(cell) : Cross(a, b, q) # 0
\* two different edges of the polygon lie on top of each other (the mapped shape has collapsed somewhere)
Overlapping(a, b, c, d) ==
    /\ a # b /\ c # d /\ Cross(a, b, c) = 0 /\ Cross(a, b, d) = 0
    /\ IF a[1] # b[1] THEN Max(Min(a[1], b[1]), Min(c[1], d[1])) < Min(Max(a[1], b[1]), Max(c[1], d[1]))
                      ELSE Max(Min(a[2], b[2]), Min(c[2], d[2])) < Min(Max(a[2], b[2]), Max(c[2], d[2]))
Collapsed(rings) == \E x, y \in SegIdx(rings) : x # y /\ Overlapping(rings[x[1]][x[2]], rings[x[1]][x[2] + 1], rings[y[1]][y[2]], rings[y[1]][y[2] + 1])
\* the open cell certainly meets the INTERIOR of the polygon: an edge runs through the open cell (one of its two sides is
\* inside -- even-odd -- unless edges lie on top of each other).  An edge that enters through a corner of the cell is left
\* out: there GDAL's all_touched line walk can skip the cell (probed: 24 of 109 501 such cells), the statement does not say.
CertainTouch(mp, cell) ==
    /\ \E x \in SegIdx(mp.rings) : SegCrossesOpen(mp.rings[x[1]][x[2]], mp.rings[x[1]][x[2] + 1], cell)
    /\ ~Collapsed(mp.rings)
\* closed cell meets the closed polygon
PartTouches(mp, cell) ==
    \/ \E x \in SegIdx(mp.rings) : SegTouches(mp.rings[x[1]][x[2]], mp.rings[x[1]][x[2] + 1], cell)
    \/ PolyStatus(mp.rings, Centre(cell)) # "out"
\* closed cell meets the bounding box of the part
PartNear(mp, cell) ==
    LET P == UNION {Range(mp.rings[r]) : r \in DOMAIN mp.rings}
    IN  /\ (\E p \in P : p[1] <= 2 * cell[1] + 2) /\ (\E q \in P : q[1] >= 2 * cell[1])
        /\ (\E p \in P : p[2] <= 2 * cell[2] + 2) /\ (\E q \in P : q[2] >= 2 * cell[2])

(***************************************************************************)
(* Status of a cell with respect to ONE geometry under ONE reading:        *)
(*   "in"     the cell must hold the geometry's value (unless overwritten) *)
(*   "out"    the geometry must not mark the cell                          *)
(*   "either" the statement does not decide                                *)
(* Plain mode, areal geometry: the centre rule; a centre exactly on an     *)
(* edge of the mapped shape is undecided; parts of a multipolygon whose    *)
(* images overlap are undecided where they overlap.  all_touched: cells    *)
(* with the centre inside stay in; so are cells whose OPEN square meets    *)
(* the interior of the shape (CertainTouch) -- the painter's order applies *)
(* to the all_touched run with these cells: the last geometry that touches *)
(* a cell for certain owns it; cells that merely meet the boundary may be  *)
(* added; the rest stays out.                                              *)
(* Lines and points have no interior: read literally the centre rule could *)
(* never mark a cell, while rasterio burns a Bresenham-style pixel chain   *)
(* (which can even contain a pixel the exact line does not meet).  The     *)
(* statement does not say which cells a line marks between its vertices,   *)
(* so the check demands that the bins containing the vertices are marked   *)
(* (HasVertexIn) and that a cell away from the mapped shape (not meeting   *)
(* its bounding box) is not.                                               *)
(***************************************************************************)
ArealStatus(mparts, cell) ==
    LET st == [k \in DOMAIN mparts |-> PolyStatus(mparts[k].rings, Centre(cell))]
        nin == Cardinality({k \in DOMAIN mparts : st[k] = "in"})
        ned == Cardinality({k \in DOMAIN mparts : st[k] = "edge"})
    IN  IF ned = 0 /\ nin = 1 THEN "in" ELSE IF ned = 0 /\ nin = 0 THEN "out" ELSE "either"
Touched(mparts, cell) == \E k \in DOMAIN mparts : PartTouches(mparts[k], cell)
MParts(tp, rr, g) == [k \in DOMAIN Parts(g) |-> MapPart(tp, rr, Parts(g)[k])]
\* status with respect to an already mapped shape
\* the cell that contains a mapped vertex (vertices are cell corners 2*idx: the cell with that lower-left corner, as
\* rasterio's pixel of a point is the floor of its coordinates)
HasVertexIn(mp, cell) == \E r \in DOMAIN mp.rings : \E q \in DOMAIN mp.rings[r] : mp.rings[r][q] = <<2 * cell[1], 2 * cell[2]>>
\* Points and lines: the bin that contains a point, and in the plain mode the bin that contains any vertex of a line, holds
\* the value (a time stamp in the first time bin marks that column's first cell; a point in the first row marks its cell).
\* Under all_touched the vertex cells of LINES stay undecided (the open finding: rasterio's second line algorithm drops them).
StatusM(mparts, areal, at, cell) ==
    IF ~areal THEN (IF \E k \in DOMAIN mparts : HasVertexIn(mparts[k], cell) /\ (mparts[k].dim = 0 \/ ~at) THEN "in"
                    ELSE IF \E k \in DOMAIN mparts : PartNear(mparts[k], cell) THEN "either" ELSE "out")
    ELSE LET plain == ArealStatus(mparts, cell) IN
         IF ~at \/ plain = "in" THEN plain
         ELSE IF \E k \in DOMAIN mparts : CertainTouch(mparts[k], cell) THEN "in"
         ELSE IF Touched(mparts, cell) THEN "either" ELSE "out"
StatusR(tp, rr, g, at, cell) == StatusM(MParts(tp, rr, g), Areal(g), at, cell)
\* over both readings of the bin lookup (they differ only when a vertex lies strictly inside the last bin)
Ambiguous(ax, v) == Coord(ax, ax.n) < v /\ v < Coord(ax, ax.n) + ax.s
VerticesOf(g) == UNION {UNION {Range(Parts(g)[k].rings[r]) : r \in DOMAIN Parts(g)[k].rings} : k \in DOMAIN Parts(g)}
RRFor(tp, g) == {rr \in RR : /\ rr[1] = "extent" => \E p \in VerticesOf(g) : Ambiguous(TAxis(tp), p[1])
                             /\ rr[2] = "extent" => \E p \in VerticesOf(g) : Ambiguous(FAxis(tp), p[2])}
Merge(S) == IF S = {"in"} THEN "in" ELSE IF S = {"out"} THEN "out" ELSE "either"
Status(tp, g, at, cell) == Merge({StatusR(tp, rr, g, at, cell) : rr \in RRFor(tp, g)})

(***************************************************************************)
(* Bounding boxes (and time intervals): the statement spells the cells out *)
(* -- "the bins from the one containing its start (inclusive) to the one   *)
(* containing its end (exclusive) on each axis".  BoxIdx is the mapped box *)
(* <<bin(start), bin(low), bin(end), bin(high)>>.  MC_Raster!LawBoxIsCentreRule *)
(* checks that this closed form IS the centre rule on the mapped rectangle *)
(* (and LawBoxTouched that BoxTouches is the generic Touched).             *)
(***************************************************************************)
BoxIdx(tp, rr, b) == <<Bin(rr[1], TAxis(tp), b[1]), Bin(rr[2], FAxis(tp), b[2]), Bin(rr[1], TAxis(tp), b[3]), Bin(rr[2], FAxis(tp), b[4])>>
InIdx(ix, cell) == ix[1] <= cell[1] /\ cell[1] < ix[3] /\ ix[2] <= cell[2] /\ cell[2] < ix[4]
BoxTouches(ix, cell) == ix[1] <= cell[1] + 1 /\ cell[1] <= ix[3] /\ ix[2] <= cell[2] + 1 /\ cell[2] <= ix[4]
BoxCells(tp, rr, b) == LET ix == BoxIdx(tp, rr, b) IN {cell \in CellsOf(tp) : InIdx(ix, cell)}
BoxStatus(ix, at, cell) == IF InIdx(ix, cell) THEN "in" ELSE IF at /\ BoxTouches(ix, cell) THEN "either" ELSE "out"

\* Status as a table [cell |-> status], computed once per geometry and mode (TLCEval forces the evaluation)
StatusTab(tp, g, at) ==
    LET rrs == RRFor(tp, g)
        per == TLCEval([rr \in rrs |->
                   IF BoxLike(g) THEN LET ix == TLCEval(BoxIdx(tp, rr, BoxOf(g)))
                                      IN  TLCEval([cell \in CellsOf(tp) |-> BoxStatus(ix, at, cell)])
                   ELSE LET mp == TLCEval(MParts(tp, rr, g))
                        IN  TLCEval([cell \in CellsOf(tp) |-> StatusM(mp, Areal(g), at, cell)])])
    IN  IF Cardinality(rrs) = 1 THEN per[CHOOSE rr \in rrs : TRUE]
        ELSE TLCEval([cell \in CellsOf(tp) |-> Merge({per[rr][cell] : rr \in rrs})])

(* ---- the call ---- *)
NG(c) == Len(c.geoms)
LenOK(c) == c.scalar \/ Len(c.values) = NG(c)
\* numerals that are not integers representable in every dtype used with them: their representation per dtype
CastTable ==
    (<<"0.1", "float64">> :> "0x1.999999999999ap-4") @@ (<<"0.1", "float32">> :> "0x1.99999a0000000p-4") @@
    (<<"0.7", "float64">> :> "0x1.6666666666666p-1") @@ (<<"0.7", "float32">> :> "0x1.6666660000000p-1") @@
    (<<"0.3", "float64">> :> "0x1.3333333333333p-2") @@ (<<"0.3", "float32">> :> "0x1.3333340000000p-2") @@
    (<<"1/3", "float64">> :> "0x1.5555555555555p-2") @@ (<<"1/3", "float32">> :> "0x1.5555560000000p-2")
\* integers are themselves in every dtype that can hold them (the generators only pair an integer with such a dtype:
\* |v| < 2^24 for float32, 16777217 and 2147483647 with int32/uint32/float64, 4294967295 with uint32/float64, 255 with uint8)
Cast(v, dt) == IF <<v, dt>> \in DOMAIN CastTable THEN CastTable[<<v, dt>>] ELSE v
FillOf(c) == Cast(c.fill, c.dt)
Val(c, k) == Cast(IF c.scalar THEN c.values[1] ELSE c.values[k], c.dt)
\* tab[k][cell]: status of the cell with respect to geometry k
Tab(c, at) == TLCEval([k \in 1..NG(c) |-> StatusTab(c.tpl, c.geoms[k], at)])

\* painter's order: values a cell may hold, walking the list from the last geometry to the first
RECURSIVE AllowedFrom(_, _, _, _)
AllowedFrom(c, tab, cell, k) ==
    IF k = 0 THEN {FillOf(c)}
    ELSE IF tab[k][cell] = "in" THEN {Val(c, k)}
    ELSE IF tab[k][cell] = "out" THEN AllowedFrom(c, tab, cell, k - 1)
    ELSE {Val(c, k)} \cup AllowedFrom(c, tab, cell, k - 1)
Allowed(c, tab, cell) == AllowedFrom(c, tab, cell, NG(c))
InAt(c, tab, cell)     == {k \in 1..NG(c) : tab[k][cell] = "in"}
NotOutAt(c, tab, cell) == {k \in 1..NG(c) : tab[k][cell] # "out"}

\* painting boxes under a choice of reading per geometry: rd \in [1..n -> RR], ixs[k][rr] = BoxIdx of geometry k
BoxIdxTab(c) == TLCEval([k \in 1..NG(c) |-> TLCEval([rr \in RRFor(c.tpl, c.geoms[k]) |-> BoxIdx(c.tpl, rr, BoxOf(c.geoms[k]))])])
RECURSIVE PaintBoxes(_, _, _, _, _)
PaintBoxes(c, ixs, rd, cell, k) ==
    IF k = 0 THEN FillOf(c)
    ELSE IF InIdx(ixs[k][rd[k]], cell) THEN Val(c, k)
    ELSE PaintBoxes(c, ixs, rd, cell, k - 1)

(***************************************************************************)
(* Acceptance.  A run is what one call returned:                           *)
(*   [raised : "" or exception class, dims : <<names>>, tc, fc : coordinate *)
(*    ticks of "time" / "frequency" in the result, cells : cells[i+1][j+1]  *)
(*    value at time bin i, frequency bin j (whatever the result's dim order)]*)
(* An observation carries three runs: r1 (template contents A), r2          *)
(* (contents B), rt (contents A, all_touched=True).                        *)
(***************************************************************************)
RunClauses == {"LengthMismatchRaises", "DimsAndCoordsOfTemplate", "BoxCellsExact", "CentreRule",
               "LaterOverwrites", "FillElsewhere"}
Clauses == RunClauses \cup {"IndependentOfContents", "AllTouchedSuperset", "AllTouchedSupersetLines"}

WellShaped(c, r) ==
    /\ r.raised = ""
    /\ Len(r.dims) = 2 /\ Range(r.dims) = {"time", "frequency"}
    /\ Len(r.cells) = c.tpl.T /\ \A i \in 1..Len(r.cells) : Len(r.cells[i]) = c.tpl.F
At(r, cell) == r.cells[cell[1] + 1][cell[2] + 1]

\* tab = Tab(c, at)
RunHolds(cl, c, r, at, tab) ==
    LET tp == c.tpl  ok == LenOK(c) /\ WellShaped(c, r) IN
    CASE cl = "LengthMismatchRaises"    -> (~LenOK(c)) <=> (r.raised = "ValueError")
      [] cl = "DimsAndCoordsOfTemplate" -> LenOK(c) => /\ WellShaped(c, r)
                                                       /\ r.tc = Coords(TAxis(tp)) /\ r.fc = Coords(FAxis(tp))
      [] cl = "BoxCellsExact" -> (ok /\ ~at /\ \A k \in 1..NG(c) : BoxLike(c.geoms[k])) =>
                                    LET ixs == BoxIdxTab(c) IN
                                    \E rd \in {f \in [1..NG(c) -> RR] : \A k \in 1..NG(c) : f[k] \in RRFor(tp, c.geoms[k])} :
                                        \A cell \in CellsOf(tp) : At(r, cell) = PaintBoxes(c, ixs, rd, cell, NG(c))
      [] cl = "CentreRule"      -> ok => \A cell \in CellsOf(tp) : At(r, cell) \in Allowed(c, tab, cell)
      [] cl = "LaterOverwrites" -> ok => \A cell \in CellsOf(tp) :
                                      (InAt(c, tab, cell) # {} /\ Cardinality(NotOutAt(c, tab, cell)) >= 2) =>
                                          At(r, cell) \in {Val(c, m) : m \in {k \in NotOutAt(c, tab, cell) : k >= SetMax(InAt(c, tab, cell))}}
      [] cl = "FillElsewhere"   -> ok => \A cell \in CellsOf(tp) : NotOutAt(c, tab, cell) = {} => At(r, cell) = FillOf(c)

\* all_touched only ever adds cells: what geometry k marked in the plain run is marked by k or a later geometry.
\* Stated separately for cells marked by areal geometries and by lines/points (lines = TRUE).
ValueRank(c, v) == IF \E k \in 1..NG(c) : Val(c, k) = v THEN SetMax({k \in 1..NG(c) : Val(c, k) = v}) ELSE 0
DistinctValues(c) == /\ \A j, k \in 1..NG(c) : j # k => Val(c, j) # Val(c, k)
                     /\ \A k \in 1..NG(c) : Val(c, k) # FillOf(c)
Superset(c, rp, rt, lines) ==
    (LenOK(c) /\ WellShaped(c, rp) /\ WellShaped(c, rt)) =>
        \A cell \in CellsOf(c.tpl) :
            IF DistinctValues(c)
            THEN LET kp == ValueRank(c, At(rp, cell)) IN
                 (kp > 0 /\ (Areal(c.geoms[kp]) # lines)) => ValueRank(c, At(rt, cell)) >= kp
            \* values not all distinct: "marked" = "differs from the fill", which is sound only when no geometry carries the fill
            \* value itself (a later geometry painted WITH the fill legitimately un-marks more cells under all_touched)
            ELSE (\A k \in 1..NG(c) : Val(c, k) # FillOf(c)) =>
                    ((At(rp, cell) # FillOf(c) /\ ((\A k \in 1..NG(c) : Areal(c.geoms[k])) # lines)) => At(rt, cell) # FillOf(c))

\* the clauses an observation fails (status tables computed once)
FailingClauses(o) ==
    LET c == o.in
        tp == IF LenOK(c) THEN Tab(c, FALSE) ELSE <<>>
        tt == IF LenOK(c) THEN Tab(c, TRUE) ELSE <<>>
    IN  {cl \in RunClauses : ~(RunHolds(cl, c, o.out.r1, FALSE, tp) /\ RunHolds(cl, c, o.out.r2, FALSE, tp) /\ RunHolds(cl, c, o.out.rt, TRUE, tt))}
        \cup (IF o.out.r1 = o.out.r2 THEN {} ELSE {"IndependentOfContents"})
        \cup (IF Superset(c, o.out.r1, o.out.rt, FALSE) THEN {} ELSE {"AllTouchedSuperset"})
        \cup (IF Superset(c, o.out.r1, o.out.rt, TRUE) THEN {} ELSE {"AllTouchedSupersetLines"})
Holds(cl, o) == cl \notin FailingClauses(o)
=============================================================================
