SPECIFICATION Spec
CONSTANTS
  MinN = 0
  MaxN = 6
  TwinMaxN = 5
  SubMaxN = 3
  OutputCopy = "same"
  GuiseMaxN = 4
  GuiseTest = "callable"
  ArgSwap = "none"
  IndexWrap = 0
  GeoMaxN = 4
  GeoFilter = "none"
  RetMaxN = 5
  TruthTest = "truthy"
CONSTRAINT Export
INVARIANT ImplRefinesReq
INVARIANT ImplCallsDistinct
INVARIANT ImplMatrix
INVARIANT ImplLabelSound
INVARIANT ImplEveryPairOnce
INVARIANT Laws
INVARIANT TerminatesBySafety
CHECK_DEADLOCK FALSE
