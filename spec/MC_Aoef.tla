------------------------------- MODULE MC_Aoef -------------------------------
(***************************************************************************)
(* The AOEF registry as a state machine, one action per linearization      *)
(* point of src/soundevent/io/aoef/adapters.py:                            *)
(*   Call     DataAdapter.to_aoef(o) entered for an object not yet stored  *)
(*   Hit      to_aoef(o) for an object already in _aoef_store (returns it) *)
(*   Store    assemble_aoef finished: _aoef_store[id] = obj  (post-order)  *)
(*   Read     values() of one adapter copied into the document             *)
(*   List     a document list built from the converted roots directly      *)
(*   Emit     the document is complete (save returns)                      *)
(*   Resolve  to_soundevent of one document entry (fresh adapters),        *)
(*            looking up each reference with from_id (lenient: a miss is   *)
(*            silently skipped by the code, recorded here)                 *)
(*   Finish   the collection object is assembled                           *)
(* Initial states: every collection type x every switch set of weight      *)
(* <= MaxWeight (plus all switches on).                                    *)
(***************************************************************************)
EXTENDS Aoef, TLC, Json
CONSTANTS MaxWeight, Variant,
          StoreAt      \* "post": _aoef_store[id] is filled after assemble_aoef (the code); "pre": a placeholder is inserted
                       \* before it (seeded variant C02-r2sb1: a dict keeps the position of the first insertion)
VARIABLES ct, sw, opt, prog, ch, reach, mode, pc, todo, stack, store, doc, lk, li, loaded, missed

vars == <<ct, sw, opt, prog, ch, reach, mode, pc, todo, stack, store, doc, lk, li, loaded, missed>>
KindSet == Range(Kinds)
EmptyStore == [k \in KindSet |-> <<>>]
RECURSIVE UpTo(_)
UpTo(n) == IF n = 0 THEN {{}} ELSE LET P == UpTo(n - 1) IN P \cup {p \cup {a} : p \in P, a \in Switches}
\* switch sets with at most MaxWeight switches on, or at most MaxWeight switches off
SwSets == UpTo(MaxWeight) \cup {Switches \ s : s \in UpTo(MaxWeight)}
Prog == prog      \* = SaveProgram(ct, sw, Variant), fixed in Init (so are ch = Children and reach = Reach)
Stored(o) == \E i \in DOMAIN store[KindOf(o)] : store[KindOf(o)][i] = o
StoredSet == UNION {Range(store[k]) : k \in KindSet}

\* binder options that the registry machine does not depend on: a covering choice, not a product
\* dir: the recordings' directory below the audio directory; the third one has a ".." component (legal, must round trip unchanged)
Opts == <<[pattern |-> "max", audio |-> "none", cycles |-> 2, dir |-> <<>>],
          [pattern |-> "min", audio |-> "path", cycles |-> 1, dir |-> <<"d1", "sub dir">>],
          [pattern |-> "alt", audio |-> "str",  cycles |-> 3, dir |-> <<"site_a", "..", "shared">>]>>
Init == /\ ct \in Range(CTypes) /\ sw \in SwSets /\ opt \in DOMAIN Opts
        /\ prog = SaveProgram(ct, sw, Variant)
        /\ ch = [o \in Range(AllIds) |-> Children(o, sw)]
        /\ reach = Reach(ct, sw)
        /\ mode = "save" /\ pc = 1 /\ todo = <<"_fresh">> /\ stack = <<>>
        /\ store = EmptyStore /\ doc = EmptyStore
        /\ lk = 1 /\ li = 1 /\ loaded = {} /\ missed = {}

\* position in the document list = position of the FIRST insertion into the adapter's dict
Insert(st, o) == [st EXCEPT ![KindOf(o)] = IF \E i \in DOMAIN @ : @[i] = o THEN @ ELSE Append(@, o)]
OnStack(o) == \E i \in DOMAIN stack : stack[i].o = o
Step == Prog[pc]
InConv == mode = "save" /\ pc <= Len(Prog) /\ Step[1] = "conv"
\* entering a conv step: load its root list
Begin == /\ InConv /\ todo = <<"_fresh">> /\ stack = <<>>
         /\ todo' = Step[2]
         /\ UNCHANGED <<ct, sw, opt, prog, ch, reach, mode, pc, stack, store, doc, lk, li, loaded, missed>>
\* next root of the step
CallRoot == /\ InConv /\ todo # <<"_fresh">> /\ todo # <<>> /\ stack = <<>>
            /\ IF Stored(Head(todo)) THEN stack' = stack ELSE stack' = <<[o |-> Head(todo), i |-> 1]>>
            /\ todo' = Tail(todo)
            /\ store' = IF StoreAt = "pre" /\ ~Stored(Head(todo)) THEN Insert(store, Head(todo)) ELSE store
            /\ UNCHANGED <<ct, sw, opt, prog, ch, reach, mode, pc, doc, lk, li, loaded, missed>>
EndConv == /\ InConv /\ todo = <<>> /\ stack = <<>>
           /\ pc' = pc + 1 /\ todo' = <<"_fresh">>
           /\ UNCHANGED <<ct, sw, opt, prog, ch, reach, mode, stack, store, doc, lk, li, loaded, missed>>
Top == stack[Len(stack)]
Kids == ch[Top.o]
\* nested to_aoef on a child: either it is already stored (Hit) or its own assembly starts (Call)
Hit  == /\ mode = "save" /\ stack # <<>> /\ Top.i <= Len(Kids) /\ Stored(Kids[Top.i])
        /\ stack' = [stack EXCEPT ![Len(stack)].i = @ + 1]
        /\ UNCHANGED <<ct, sw, opt, prog, ch, reach, mode, pc, todo, store, doc, lk, li, loaded, missed>>
Call == /\ mode = "save" /\ stack # <<>> /\ Top.i <= Len(Kids) /\ ~Stored(Kids[Top.i])
        /\ stack' = Append([stack EXCEPT ![Len(stack)].i = @ + 1], [o |-> Kids[Top.i], i |-> 1])
        /\ store' = IF StoreAt = "pre" THEN Insert(store, Kids[Top.i]) ELSE store
        /\ UNCHANGED <<ct, sw, opt, prog, ch, reach, mode, pc, todo, doc, lk, li, loaded, missed>>
Store == /\ mode = "save" /\ stack # <<>> /\ Top.i > Len(Kids)
         /\ store' = Insert(store, Top.o)
         /\ stack' = SubSeq(stack, 1, Len(stack) - 1)
         /\ UNCHANGED <<ct, sw, opt, prog, ch, reach, mode, pc, todo, doc, lk, li, loaded, missed>>
Read == /\ mode = "save" /\ pc <= Len(Prog) /\ Step[1] = "read"
        /\ doc' = [doc EXCEPT ![Step[2]] = store[Step[2]]]
        /\ pc' = pc + 1
        /\ UNCHANGED <<ct, sw, opt, prog, ch, reach, mode, todo, stack, store, lk, li, loaded, missed>>
List == /\ mode = "save" /\ pc <= Len(Prog) /\ Step[1] = "list"
        /\ doc' = [doc EXCEPT ![Step[2]] = Step[3]]
        /\ pc' = pc + 1
        /\ UNCHANGED <<ct, sw, opt, prog, ch, reach, mode, todo, stack, store, lk, li, loaded, missed>>
Emit == /\ mode = "save" /\ pc > Len(Prog)
        /\ mode' = "load"
        /\ UNCHANGED <<ct, sw, opt, prog, ch, reach, pc, todo, stack, store, doc, lk, li, loaded, missed>>

Order == LoadOrder(ct)
Resolve == /\ mode = "load" /\ lk <= Len(Order) /\ li <= Len(doc[Order[lk]])
           /\ LET o == doc[Order[lk]][li]
              IN  /\ missed' = missed \cup {<<o, c>> : c \in {x \in Range(ch[o]) : x \notin loaded}}
                  /\ loaded' = loaded \cup {o}
           /\ li' = li + 1
           /\ UNCHANGED <<ct, sw, opt, prog, ch, reach, mode, pc, todo, stack, store, doc, lk>>
NextList == /\ mode = "load" /\ lk <= Len(Order) /\ li > Len(doc[Order[lk]])
            /\ lk' = lk + 1 /\ li' = 1
            /\ UNCHANGED <<ct, sw, opt, prog, ch, reach, mode, pc, todo, stack, store, doc, loaded, missed>>
Finish == /\ mode = "load" /\ lk > Len(Order)
          /\ missed' = missed \cup {<<"_root", c>> : c \in {x \in Range(FinalLookups(ct, sw)) : x \notin loaded}}
          /\ mode' = "done"
          /\ UNCHANGED <<ct, sw, opt, prog, ch, reach, pc, todo, stack, store, doc, lk, li, loaded>>

Next == Begin \/ CallRoot \/ EndConv \/ Hit \/ Call \/ Store \/ Read \/ List \/ Emit \/ Resolve \/ NextList \/ Finish
Spec == Init /\ [][Next]_vars /\ WF_vars(Next)

Export == mode = "done" => PrintT(<<"CASE", ToJson(World(ct, sw) @@ [sw |-> sw] @@ Opts[opt] @@ [place |-> "inside"])>>)

(* ------------------------------ invariants ------------------------------ *)
Pos(s, x) == CHOOSE i \in DOMAIN s : s[i] = x
\* post-order: whatever is stored has all its references stored (every id is registered before it is used)
RefClosed == \A o \in StoredSet : OnStack(o) \/ Range(ch[o]) \subseteq StoredSet
NoDup == \A k \in KindSet : \A i, j \in DOMAIN store[k] : store[k][i] = store[k][j] => i = j
\* a sequence's parent is stored (hence listed) before the sequence
ParentFirst == \A i \in DOMAIN store["sequence"] :
                 LET p == Desc(store["sequence"][i], sw).parent
                 IN  p # <<>> => Stored(p[1]) /\ Pos(store["sequence"], p[1]) < i
Emitted == mode \in {"load", "done"}
\* every adapter was read after its last store: the document holds everything that was registered
DocIsStore == Emitted => \A k \in KindSet : Range(doc[k]) = Range(store[k]) /\ Len(doc[k]) = Len(store[k])
\* ... which is exactly what is reachable from the collection
Exact == Emitted => \A k \in KindSet : Range(doc[k]) = {o \in reach : KindOf(o) = k}
StoreWithinReach == (stack = <<>> /\ todo = <<"_fresh">>) => StoredSet \subseteq reach
\* single pass: every reference met while loading was registered by an earlier list entry
AllHit == missed = {}
LoadedAll == mode = "done" => loaded = reach
StackIsPath == \A i \in 1..(Len(stack) - 1) : stack[i + 1].o \in Range(ch[stack[i].o])
Terminates == <>(mode = "done")
=============================================================================
