------------------------------- MODULE WavMeta -------------------------------
(***************************************************************************)
(* X01 (c, d) -- Recording.from_file, generate_wav_header / get_media_info *)
(* and the two checksum functions, on the integer lattice.                 *)
(*                                                                         *)
(* (c) a file of fr frames at sr Hz read with time expansion te = tp/tq:   *)
(*     samplerate = sr * te, duration = fr / (sr * te)                     *)
(* (d) Header(sr, ch, n, bits): the 44 bytes of the canonical RIFF/WAVE    *)
(*     PCM header (http://soundfile.sapp.org/doc/WaveFormat/), field by    *)
(*     field, little-endian                                                *)
(***************************************************************************)
EXTENDS LimbBig, TLC

\* ------------------------------------------------------------------ (d) the header as a byte sequence
LE(x, k) == [i \in 1..k |-> (x \div (256 ^ (i - 1))) % 256]                 \* k <= 4, 0 <= x < 2^31
FromLE(b) == IF Len(b) = 2 THEN b[1] + 256 * b[2] ELSE b[1] + 256 * b[2] + 65536 * b[3] + 16777216 * b[4]
RIFF == <<82, 73, 70, 70>>      WAVE == <<87, 65, 86, 69>>      FMT == <<102, 109, 116, 32>>      DATA == <<100, 97, 116, 97>>
BytesPerSample(bits) == bits \div 8
BlockAlign(ch, bits) == ch * BytesPerSample(bits)                            \* bytes of one frame
ByteRate(sr, ch, bits) == sr * BlockAlign(ch, bits)
DataSize(ch, n, bits) == n * BlockAlign(ch, bits)
Header(sr, ch, n, bits) ==
       RIFF \o LE(36 + DataSize(ch, n, bits), 4) \o WAVE                     \* ChunkID, ChunkSize, Format
    \o FMT \o LE(16, 4) \o LE(1, 2) \o LE(ch, 2) \o LE(sr, 4)                 \* Subchunk1ID, Subchunk1Size, AudioFormat = PCM, NumChannels, SampleRate
    \o LE(ByteRate(sr, ch, bits), 4) \o LE(BlockAlign(ch, bits), 2) \o LE(bits, 2)
    \o DATA \o LE(DataSize(ch, n, bits), 4)                                  \* Subchunk2ID, Subchunk2Size
\* what libsndfile calls the sample format of a PCM WAV file of that depth (8-bit WAV is unsigned)
SubtypeOf(bits) == CASE bits = 8 -> "PCM_U8" [] bits = 16 -> "PCM_16" [] bits = 24 -> "PCM_24" [] bits = 32 -> "PCM_32"

\* ------------------------------------------------------------------ (c) time expansion
TeIntegral(sr, te) == (sr * te[1]) % te[2] = 0
TeRate(sr, te) == (sr * te[1]) \div te[2]                                     \* floor of sr * te
\* v = recorded duration; exact value fr * tq / (sr * tp)
RecDurOK(v, fr, sr, te) == LFinite(v) /\ LApproxBig(v, fr * te[2], te[1], sr)
\* multiply a limb number by an integer above 2^15 in two steps
LMulBig(v, k) == LET d == SplitD(k) IN LMulMag(LMulMag(v, d), k \div d)

(***************************************************************************)
(* Observations.                                                           *)
(* kind "recfile": in = [sr, ch, fr, st, te: <<tp, tq>>, hash, omit]       *)
(*    out = [raised, sr, ch, dur, te (limbs), hash, hashnone, md5 (of the  *)
(*           bytes written), path, given, durxsr (no clause: see below)]   *)
(* kind "header":  in = [sr, ch, n, bits, omit]                            *)
(*    out = [raised, hdr: <<bytes>>, info: [raised, sr, ch, n, dur, fmt, sub]] *)
(* kind "checksum": in = [size]                                            *)
(*    out = [md5, md5ref, sha, sharef]   (ref = hashlib over the whole file)*)
(***************************************************************************)
Clauses == {"RecNoRaise", "RecSamplerate", "RecDuration", "RecFramesIdentity", "RecChannels", "RecTimeExpansion", "RecHash", "RecPath",
            "HeaderNoRaise", "HeaderLength", "HeaderBytes", "ReadBackOpens", "ReadBackRate", "ReadBackChannels", "ReadBackSamples",
            "ReadBackDuration", "ReadBackFormat",
            "Md5Whole", "Sha2Whole"}

RecHolds(cl, c, r) ==
    LET ok == r.raised = "" IN
    CASE cl = "RecNoRaise"    -> ok
      \* "the sample rate is adjusted by the time expansion factor": exactly sr * te when that is an integer; the field is an int, so
      \* for a fractional product either neighbour is accepted (the code truncates)
      [] cl = "RecSamplerate" -> ok => IF TeIntegral(c.sr, c.te) THEN r.sr = TeRate(c.sr, c.te) ELSE r.sr \in {TeRate(c.sr, c.te), TeRate(c.sr, c.te) + 1}
      [] cl = "RecDuration"   -> ok => RecDurOK(r.dur, c.fr, c.sr, c.te)
      \* duration x samplerate = frames, whenever the adjusted rate is an integer
      [] cl = "RecFramesIdentity" -> (ok /\ TeIntegral(c.sr, c.te) /\ r.sr = TeRate(c.sr, c.te) /\ r.sr > 0 /\ LFinite(r.dur)) =>      \* (a wrong rate is RecSamplerate's business)
                                        LET m == LMulBig(r.dur, r.sr)
                                        IN  IF c.fr = 0 THEN LIsZero(r.dur) ELSE LApproxRat(m, c.fr, 1)
      [] cl = "RecChannels"   -> ok => r.ch = c.ch
      [] cl = "RecTimeExpansion" -> ok => LFinite(r.te) /\ LApproxRat(r.te, c.te[1], c.te[2])
      [] cl = "RecHash"       -> ok => IF c.hash THEN ~r.hashnone /\ r.hash = r.md5 ELSE r.hashnone
      [] cl = "RecPath"       -> ok => r.path = r.given

HdrHolds(cl, c, r) ==
    LET made == r.raised = ""  i == r.info  read == made /\ i.raised = "" IN
    CASE cl = "HeaderNoRaise"  -> made
      [] cl = "HeaderLength"   -> made => Len(r.hdr) = 44
      [] cl = "HeaderBytes"    -> made => r.hdr = Header(c.sr, c.ch, c.n, c.bits)
      [] cl = "ReadBackOpens"  -> made => i.raised = ""
      [] cl = "ReadBackRate"     -> read => i.sr = c.sr
      [] cl = "ReadBackChannels" -> read => i.ch = c.ch
      [] cl = "ReadBackSamples"  -> read => i.n = c.n
      [] cl = "ReadBackDuration" -> read => DurOK(i.dur, c.n, c.sr)
      [] cl = "ReadBackFormat"   -> read => i.fmt = "WAV" /\ i.sub = SubtypeOf(c.bits)

SumHolds(cl, c, r) ==
    CASE cl = "Md5Whole"  -> r.md5 = r.md5ref
      [] cl = "Sha2Whole" -> r.sha = r.sharef

Holds(cl, o) ==
    CASE o.in.kind = "recfile"  -> (cl \in {"RecNoRaise", "RecSamplerate", "RecDuration", "RecFramesIdentity", "RecChannels", "RecTimeExpansion", "RecHash", "RecPath"})
                                      => RecHolds(cl, o.in, o.out)
      [] o.in.kind = "header"   -> (cl \in {"HeaderNoRaise", "HeaderLength", "HeaderBytes", "ReadBackOpens", "ReadBackRate", "ReadBackChannels",
                                           "ReadBackSamples", "ReadBackDuration", "ReadBackFormat"}) => HdrHolds(cl, o.in, o.out)
      [] o.in.kind = "checksum" -> (cl \in {"Md5Whole", "Sha2Whole"}) => SumHolds(cl, o.in, o.out)
=============================================================================
