SPECIFICATION Spec
CONSTANTS
  MaxS = 2
  MaxLen = 24
  MaxD = 6
  MaxH = 8
  LoopBound = "ceil"
CONSTRAINT Export
INVARIANT ImplRefinesReq
INVARIANT ImplPrefix
INVARIANT RaisedIffInvalid
INVARIANT Laws
PROPERTY Terminates
CHECK_DEADLOCK FALSE
