------------------------------ MODULE CropExtend ------------------------------
(***************************************************************************)
(* C17 -- crop_dim / extend_dim / adjust_dim_width (crop_dim_width,        *)
(* extend_dim_width) on a regular axis (a, s, n) whose sample i carries    *)
(* the datum i + 1 (so that identity and placement of samples are          *)
(* observable; fill values are 0 or -7, never a datum).                    *)
(*                                                                         *)
(* Positions are quarter steps relative to a: coordinate i sits at 4*i,    *)
(* the lattice of the axis is {4*j : j \in Int} (j < 0 and j >= n are the  *)
(* continuation of the axis).  Requested intervals are (ms, me, lc, rc):   *)
(* from a + ms*s/4 to a + me*s/4, closed on the left / right iff lc / rc.  *)
(***************************************************************************)
EXTENDS RangeDim

InIv(x, ms, me, lc, rc) == (IF lc THEN ms <= x ELSE ms < x) /\ (IF rc THEN x <= me ELSE x < me)

(* ------------------------------------------------------------- Req: crop *)
\* quantifier: the interval lies inside the axis, 0 <= ms <= me <= 4(n-1)
CropIdx(n, ms, me, lc, rc) == {i \in 0..(n - 1) : InIv(4 * i, ms, me, lc, rc)}

(* ----------------------------------------------------------- Req: extend *)
\* quantifier: the interval contains the axis: InIv(0) and InIv(4(n-1))
ExtLo(ms, lc) == IF lc THEN CeilDiv(ms, 4) ELSE ms \div 4 + 1          \* first lattice index inside
ExtHi(me, rc) == IF rc THEN me \div 4 ELSE CeilDiv(me, 4) - 1          \* last lattice index inside
\* Boundary guard (DESIGN 2.5): an OPEN end that is nominally a lattice point, on a step that is not
\* representable, is within an ulp of the generated coordinate: the point may or may not count as inside.
LoOpts(s, ms, lc) == {ExtLo(ms, lc)} \cup (IF Stress(s) /\ ~lc /\ ms % 4 = 0 THEN {ms \div 4} ELSE {})
HiOpts(s, me, rc) == {ExtHi(me, rc)} \cup (IF Stress(s) /\ ~rc /\ me % 4 = 0 THEN {me \div 4} ELSE {})
Extents(s, ms, me, lc, rc) == {<<lo, hi>> : lo \in LoOpts(s, ms, lc), hi \in HiOpts(s, me, rc)}

(* ------------------------------------------------------ Req: adjust width *)
\* the original block inside a result of L samples sits at offset: start 0, end d, centre floor or ceil of d/2
\* (d = |L - n|; when cropping, the offset of the kept block inside the original)
Offs(pos, d) == CASE pos = "start"  -> {0}
                  [] pos = "end"    -> {d}
                  [] pos = "center" -> {d \div 2, CeilDiv(d, 2)}

(* ------------------------------------------------ Req: chains of operations *)
(* A history: two operations applied one after the other to the same data.  Everything stays on the ORIGINAL lattice: *)
(* a state is the axis lo..hi (lattice indices) and the set K of original samples still present (index j carries the  *)
(* datum j+1 iff j \in K, anything else is fill).  Operations are uniform records                                      *)
(*   [op |-> "extend" | "crop" | "width", ms, me, lc, rc, w, pos]   (intervals in quarter steps of the original axis). *)
(* Nothing but the axis and the data is carried from one operation to the next.                                       *)
St(lo, hi, K) == [lo |-> lo, hi |-> hi, K |-> K]
ApplyOp(st, s, o) ==
    CASE o.op = "extend" -> {St(Min(w[1], st.lo), Max(w[2], st.hi), st.K) : w \in Extents(s, o.ms, o.me, o.lc, o.rc)}
      [] o.op = "crop"   -> LET X == {j \in st.lo..st.hi : InIv(4 * j, o.ms, o.me, o.lc, o.rc)}
                            IN  IF X = {} THEN {St(st.lo, st.lo - 1, {})} ELSE {St(SetMin(X), SetMax(X), st.K \cap X)}
      [] o.op = "width"  -> LET L == st.hi - st.lo + 1 IN
                            IF o.w >= L
                            THEN {St(st.lo - off, st.lo - off + o.w - 1, st.K) : off \in Offs(o.pos, o.w - L)}
                            ELSE {St(st.lo + off, st.lo + off + o.w - 1, st.K \cap ((st.lo + off)..(st.lo + off + o.w - 1))) :
                                    off \in Offs(o.pos, L - o.w)}
Final(c) == UNION {ApplyOp(st, c.s, c.ops[2]) : st \in ApplyOp(St(0, c.n - 1, 0..(c.n - 1)), c.s, c.ops[1])}

(***************************************************************************)
(* Acceptance of one observation.  out = [raised, cin, cout (coordinates    *)
(* before / after as bit patterns), lout (after, limbs), data (after;       *)
(* -999999 encodes a value that is not an integer, e.g. NaN), startb, stopb *)
(* (the interval ends as passed, bit patterns; zeros for width calls)]      *)
(***************************************************************************)
\* Sample values travel as integers; values that are not integers are coded: NaN, +inf, -inf (anything else: -999999).
\* An extend case may say (c.sv, one code per original sample: 0 number, 1 NaN, 2 +inf, 3 -inf) that some ORIGINAL samples
\* hold such a value: "keeping every original sample" means a NaN original is still NaN afterwards; fills are finite.
NaNCode == -999901
SpecialCode(k) == -999900 - k
\* c.dd = dtype of the SAMPLES (f8 f4 i2 i4 u1 b1), c.ad = dtype of the AXIS (f8 f4 i8); absent = f8.  Neither changes what is
\* demanded.  Sample j holds j + 1; a boolean array cannot, it holds TRUE (1) everywhere (the fill, 0, is FALSE).
DD(c) == IF "dd" \in DOMAIN c THEN c.dd ELSE "f8"
Val(c, j) == IF DD(c) = "b1" THEN 1 ELSE j + 1
Datum(c, j) == IF "sv" \in DOMAIN c THEN (IF c.sv[j + 1] = 0 THEN Val(c, j) ELSE SpecialCode(c.sv[j + 1])) ELSE Val(c, j)     \* original sample j
\* Width calls may operate on one dimension of a 2-D array (c.od = size of the other dimension, 0: the array is 1-D; c.ax = 1, 2:
\* the operated dimension comes first / second).  out.rows[k] is the data along the operated dimension at index k-1 of the
\* other one, where sample i holds i + 1 + 100*(k-1); every such row is judged (1-D: the single row out.data).
Rows(r) == IF "rows" \in DOMAIN r THEN r.rows ELSE <<r.data>>

Clauses17 == {"Returns", "CoordsKept",
              "CropExactly",
              "ExtendLatticePoints", "ExtendOldKept", "ExtendNewFill", "ExtendOpenEndExcluded",
              "ExactlyWidth", "BlockPlacement",
              "Drift/CentreSplit", "Drift/WidthNewFill"}                       \* not a demand: reported as MODEL-DRIFT (the code left the Impl transcription)

\* every sample that carries an original datum still has that datum's original coordinate (the same double)
CoordsKept(c, r) == /\ Len(r.cout) = Len(r.data) /\ Len(r.lout) = Len(r.data) /\ Len(r.cin) = c.n
                    /\ DD(c) # "b1" => \A t \in 1..Len(r.data) : r.data[t] \in 1..c.n => BEq(r.cout[t], r.cin[r.data[t]])

HoldsCrop(cl, c, r) ==
    LET S == CropIdx(c.n, c.ms, c.me, c.lc, c.rc)  L == Len(r.data) IN
    CASE cl = "CropExactly" -> /\ L = Cardinality(S)                                   \* S is an interval of indices (LawCropContiguous)
                               /\ \A t \in 1..L : r.data[t] = Val(c, SetMin(S) + t - 1)
      [] OTHER -> TRUE

\* extend_dim with start (stop) omitted: c.sn (c.en).  The requested interval then ends at the current axis end, that
\* coordinate included whatever the closedness flag says: nothing may be added on that side.  (c.ms = 0 / c.me = last then.)
ELc(c) == c.lc \/ ("sn" \in DOMAIN c /\ c.sn)
ERc(c) == c.rc \/ ("en" \in DOMAIN c /\ c.en)
\* candidate extents that explain the observed number of samples
ExtW(c, r) == {w \in Extents(c.s, c.ms, c.me, ELc(c), ERc(c)) : Len(r.data) = w[2] - w[1] + 1}
LatIdx(w, t) == w[1] + t - 1                                     \* lattice index of output sample t
Placed(c, r, w) == \A j \in 0..(c.n - 1) : LET t == j - w[1] + 1 IN t \in 1..Len(r.data) /\ r.data[t] = Datum(c, j)
HoldsExtend(cl, c, r) ==
    LET W == ExtW(c, r)  L == Len(r.data) IN
    CASE cl = "ExtendLatticePoints" ->
              /\ W # {} /\ Len(r.lout) = L
              /\ \E w \in W : \A t \in 1..L : OnLattice(r.lout[t], c.a4, c.s, LatIdx(w, t))
      [] cl = "ExtendOldKept" ->
              W = {} \/ \E w \in W : Placed(c, r, w)
      [] cl = "ExtendNewFill" ->
              W = {} \/ \E w \in W : \A t \in 1..L : LatIdx(w, t) \notin 0..(c.n - 1) => r.data[t] = c.fill
      \* The boundary guard is not a licence to return a point AT or BEYOND an open end: the point the guard admits
      \* must lie strictly inside the requested interval as a double (startb/stopb are the doubles that were passed).
      [] cl = "ExtendOpenEndExcluded" ->
              LET Wp == {w \in W : Placed(c, r, w)} IN
              Wp = {} \/ \E w \in Wp : /\ (w[1] # ExtLo(c.ms, ELc(c)) => BLt(r.startb, r.cout[1]))
                                       /\ (w[2] # ExtHi(c.me, ERc(c)) => BLt(r.cout[L], r.stopb))
      [] OTHER -> TRUE

HoldsWidth(cl, c, r) ==
    LET R == Rows(r) IN
    CASE cl = "ExactlyWidth"   -> Len(R) >= 1 /\ \A k \in 1..Len(R) : Len(R[k]) = c.w
      [] cl = "BlockPlacement" ->
            Len(R) >= 1 /\ \A k \in 1..Len(R) :
            LET row == R[k]  L == Len(R[k])  base == 100 * (k - 1) IN
            IF c.w >= c.n
            THEN L >= c.n /\ \E off \in Offs(c.pos, L - c.n) : \A j \in 0..(c.n - 1) : row[off + j + 1] = Val(c, j) + base
            ELSE L <= c.n /\ \E off \in Offs(c.pos, c.n - L) : \A t \in 1..L : row[t] = Val(c, off + t - 1) + base
      \* The statement says "centre": Offs accepts the odd sample on either side.  The implementation puts it behind when
      \* extending (front = extra // 2) and crops from n // 2 - w // 2; a result that is centred but splits otherwise is drift.
      \* The statement is silent about what the samples ADDED by adjust_dim_width / extend_dim_width hold; the implementation
      \* reindexes with fill_value (docstring: "the value to fill the extended region with").  Tracked as drift here, demanded by
      \* the extension check X02 (clause WidthFill), which specifies the docstrings.
      [] cl = "Drift/WidthNewFill" ->
            (c.w >= c.n /\ DD(c) # "b1" /\ Len(R) >= 1 /\ Len(R[1]) >= c.n) =>
               LET row == R[1]  L == Len(R[1])  fill == IF "fill" \in DOMAIN c THEN c.fill ELSE 0 IN
               \E off \in Offs(c.pos, L - c.n) : \A t \in 1..L :
                  row[t] = (IF t - off - 1 \in 0..(c.n - 1) THEN Val(c, t - off - 1) ELSE fill)
      [] cl = "Drift/CentreSplit" ->
            (c.pos = "center" /\ DD(c) # "b1" /\ Len(R) >= 1 /\ Len(R[1]) >= 1) =>
               LET row == R[1]  L == Len(R[1]) IN
               IF c.w >= c.n THEN (L >= c.n /\ (L - c.n) \div 2 + 1 <= L) => row[(L - c.n) \div 2 + 1] = 1
               ELSE L <= c.n => row[1] = Max(0, c.n \div 2 - L \div 2) + 1
      [] OTHER -> TRUE

\* chains: the final result is judged by the same clauses against the original lattice
HoldsChain(cl, c, r) ==
    LET L == Len(r.data)
        F == {st \in Final(c) : L = st.hi - st.lo + 1} IN
    CASE cl = "ExtendLatticePoints" ->
              /\ F # {} /\ Len(r.lout) = L
              /\ \E st \in F : \A t \in 1..L : OnLattice(r.lout[t], c.a4, c.s, st.lo + t - 1)
      [] cl = "ExtendOldKept" ->
              F = {} \/ \E st \in F : \A j \in st.K : r.data[j - st.lo + 1] = Datum(c, j)
      [] cl = "ExtendNewFill" ->        \* (what adjust_dim_width puts into the samples it adds is not in the statement)
              F = {} \/ c.ops[2].op = "width" \/ \E st \in F : \A t \in 1..L : (st.lo + t - 1) \notin st.K => r.data[t] = c.fill
      [] cl = "ExactlyWidth" -> c.ops[2].op = "width" => L = c.ops[2].w
      [] OTHER -> TRUE

Holds17(cl, o) ==
    LET c == o.in  r == o.out IN
    CASE cl = "Returns"    -> r.raised = ""
      [] cl = "CoordsKept" -> r.raised = "" => CoordsKept(c, r)
      [] OTHER -> r.raised = "" =>
                    CASE c.kind = "crop"   -> HoldsCrop(cl, c, r)
                      [] c.kind = "extend" -> HoldsExtend(cl, c, r)
                      [] c.kind = "width"  -> HoldsWidth(cl, c, r)
                      [] c.kind = "chain"  -> HoldsChain(cl, c, r)
=============================================================================
