SPECIFICATION Spec
CONSTANTS
  Memo = "none"
  Tier = "quick"
CONSTRAINT Export
INVARIANT GeneratedAreValid
INVARIANT ImplShapePreserves
INVARIANT ImplBoundsExact
INVARIANT ImplFeatRight
INVARIANT ImplAnchorsRight
INVARIANT LawBoundsOrdered
INVARIANT LawTimeHasNoCeiling
INVARIANT LawTimeOnlyBand
INVARIANT LawBoundsFromTokens
INVARIANT LawFeat
INVARIANT LawAnchorsOnBounds
INVARIANT LawAnchorsConsistent
INVARIANT LawHistoryIsRegrouping
INVARIANT LawRegroupingsDistinguished
INVARIANT NoMemo
INVARIANT NeverStuck
PROPERTY RankDecreases
CHECK_DEADLOCK FALSE
