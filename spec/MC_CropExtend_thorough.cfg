SPECIFICATION Spec
CONSTANTS
  NU = 10
  NS = 4
  MaxN = 8
  Sub = 1
  Ext = 10
  ExtNs = {1, 2, 3, 4, 7}
  Algo = "arange_int"
CONSTRAINT Export
INVARIANT ImplCrop
INVARIANT LawCropContiguous
INVARIANT LawCropClosedness
INVARIANT ImplExtend
INVARIANT LawExtendContains
INVARIANT LawExtendExact
INVARIANT LawExtendIsInterval
INVARIANT ImplExactlyWidth
INVARIANT ImplPlacement
INVARIANT LawOffs
PROPERTY Terminates
CHECK_DEADLOCK FALSE
