SPECIFICATION Spec
CONSTANTS
  NU = 10
  NS = 3
  MaxN = 7
  CropN = 7
  Sub = 1
  Ext = 8
  ExtNs = {1, 2, 3, 6}
  ChainNU = 5
  ChainNs = {1, 2, 3}
  Algo = "arange_int"
  ExtFilter = TRUE
  CoordDtype = "axis"
  StopDefault = "last"
  FillBy = "reindex"
  LenBy = "sizes"
  RangeFrom = "index"
CONSTRAINT Export
INVARIANT ImplCrop
INVARIANT LawCropContiguous
INVARIANT LawCropClosedness
INVARIANT ImplExtend
INVARIANT ImplOpenEndExcluded
INVARIANT LawExtendContains
INVARIANT LawExtendExact
INVARIANT LawExtendIsInterval
INVARIANT ImplExactlyWidth
INVARIANT ImplPlacement
INVARIANT LawOffs
INVARIANT NeverOffLattice
INVARIANT ImplKeepsSamples
INVARIANT ImplChain
INVARIANT LawChainExact
INVARIANT LawChainKeepsOriginals
PROPERTY Terminates
CHECK_DEADLOCK FALSE
