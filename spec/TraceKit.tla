------------------------------ MODULE TraceKit ------------------------------
(* Reads the observations recorded by a binder (one JSON object per line).  *)
EXTENDS Json, IOUtils, TLC
Obs == ndJsonDeserialize(IOEnv.OBS_FILE)
Crashed(o) == "crashed" \in DOMAIN o.out
=============================================================================
