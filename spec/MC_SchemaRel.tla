----------------------------- MODULE MC_SchemaRel -----------------------------
(***************************************************************************)
(* Enumeration machine for C04 and the validators of soundevent.data as    *)
(* they are written (Impl), model-checked against SchemaRel!Valid:         *)
(*  ce      nested Match._validate_match (before mode: both sides None =>  *)
(*          error), one step per match; ClipEvaluation._check_clips_match  *)
(*          (clip uuids); _check_matches: duplicate targets, duplicate     *)
(*          sources (list length vs set size), target set = annotation set,*)
(*          source set = prediction set -- one step each                   *)
(*          (keyed on the uuid of the annotation / prediction, MatchKey =  *)
(*          "annotation"; history/MC_SchemaRel_target_sound_event.cfg keys *)
(*          targets on the wrapped sound event and TLC refutes it on cases *)
(*          where two annotations wrap one sound event)                    *)
(*          MatchKey = "merged_pool" (history/MC_SchemaRel_merged_pool.cfg)*)
(*          checks both sides in one pool of uuids: refuted on cases where *)
(*          a prediction carries the uuid of an annotation (pu).           *)
(*          MatchKey = "counter" (history/MC_SchemaRel_counter.cfg) compares*)
(*          multisets: refuted when a list holds an event twice (al / pl). *)
(*          ClipKey = "span" (history/MC_SchemaRel_clip_span.cfg) also     *)
(*          accepts another clip over the same span: refuted on "twin".    *)
(*          ClipKey = "deep" (history/MC_SchemaRel_clip_deep.cfg) compares *)
(*          clips by deep equality: refuted on later-enriched copies of a  *)
(*          clip (pairings copy_features / copy_rec_tag, project enr)      *)
(*          OneSided = "reset" (history/MC_SchemaRel_one_sided_reset.cfg). *)
(*          MatchGuard = "dict_only" (history/MC_SchemaRel_dict_only.cfg): *)
(*          the null-match test skipped for Mapping types other than dict. *)
(*          ClipCheck = "assert" with Optimised = TRUE                     *)
(*          (history/MC_SchemaRel_assert_optimised.cfg).                   *)
(*  match   Match._validate_match                                          *)
(*  project _annotations_are_part_of_the_project: loop over the annotated  *)
(*          clips, error at the first one without a task                   *)
(*          (ProjScan = "generator", history/MC_SchemaRel_proj_generator   *)
(*          .cfg: the task uuids as a generator that every membership test *)
(*          consumes -- refuted when the annotations are listed in another *)
(*          order than the tasks or a clip has two clip annotations)       *)
(*  clip    Clip._validate_times.  ClipValidator = "after" (the repaired   *)
(*          code) compares the validated floats; "before" (the code as     *)
(*          found, history/MC_SchemaRel_clip_before.cfg) compares the raw  *)
(*          inputs: numbers numerically, strings lexicographically,        *)
(*          string with number => TypeError; the AOEF path always hands    *)
(*          over floats (ClipObject parsed them first)                     *)
(*  score   Field(ge=0, le=1): two comparisons, NaN fails both             *)
(* Every case is exported once (at the end of the "ctor" run).             *)
(***************************************************************************)
EXTENDS SchemaRel, TLC, Json
CONSTANTS MaxLen,        \* all match sequences up to this length (pairing "same")
          SortedLen,     \* plus sorted sequences (multisets) of exactly this length (0 = none)
          NoForeignLen,  \* plus sorted sequences without foreign members of exactly this length (0 = none)
          OneSided,      \* "kept" (the code) | "reset" (control: the AOEF loader resets the affinity of one-sided matches to 0)
          MatchGuard,    \* "any_mapping" (the code) | "dict_only" (control: the null-match test is skipped for non-dict mappings)
          ClipCheck,     \* "raise" (the code) | "assert" (control: the clip test is an assert statement)
          Optimised,     \* FALSE | TRUE: the interpreter runs with -O (assert statements compiled away)
          RepLen,        \* match sequences up to this length when an annotation / prediction list repeats an event
          OtherLen,      \* match sequences up to this length for the other three pairings (no foreign members)
          WrapLen,       \* match sequences up to this length when annotations / predictions share a sound event
          ShareLen,      \* match sequences up to this length when a prediction carries the uuid of an annotation
          MatchKey,      \* "annotation" (the code) | "target_sound_event" (control: targets keyed on the wrapped sound event)
                         \* | "merged_pool" (control: sources and targets checked in one pool of uuids)
          ProjScan,      \* "set" (the code: a set of task clip uuids) | "generator" (control: a generator, consumed by each test)
          ClipKey,       \* "uuid" (the code) | "deep" (control: clips compared by deep equality instead of by uuid)
          ClipValidator  \* "after" | "before"
VARIABLES c, path, pc, k, ok, g

vars == <<c, path, pc, k, ok, g>>

(* ------------------------------ universe -------------------------------- *)
Side == 0..3
Pairs == Side \X Side
RECURSIVE SeqsOfLen(_, _)
SeqsOfLen(S, n) == IF n = 0 THEN {<<>>} ELSE {Append(s, x) : s \in SeqsOfLen(S, n - 1), x \in S}
Code(m) == 4 * m[1] + m[2]
Sorted(q) == \A i, j \in DOMAIN q : i < j => Code(q[i]) <= Code(q[j])
NoForeign(q) == \A i \in DOMAIN q : q[i][1] <= 2 /\ q[i][2] <= 2
Local == (0..2) \X (0..2)

Own == <<1, 2, 3>>                                   \* every annotation / prediction wraps its own sound event
Wraps == {<<1, 1, 3>>, <<1, 2, 1>>, <<1, 1, 1>>}     \* 1 and 2 share; the foreign one shares with 1; all three share
OwnIds == <<0, 0, 0>>                                \* every prediction has a uuid of its own
Shares == {<<1, 0, 0>>, <<2, 0, 0>>, <<1, 2, 0>>, <<0, 0, 1>>}    \* p1~a1; p1~a2; p1~a1 and p2~a2; the foreign prediction ~a1
Upto(n) == [i \in 1..n |-> i]
CER(na, np, ms, pr, ase, pse, pu, al, pl, rc) ==
    [kind |-> "ce", na |-> na, np |-> np, ms |-> ms, pairing |-> pr, ase |-> ase, pse |-> pse, pu |-> pu,
     al |-> al, pl |-> pl, rc |-> rc, mp |-> "dict"]
Mappings == {"dict", "proxy", "userdict", "chainmap", "ordered"}
CEU(na, np, ms, pr, ase, pse, pu) == CER(na, np, ms, pr, ase, pse, pu, Upto(na), Upto(np), FALSE)
\* lists that repeat an event: the only one; the first of two, at the end; the first of two, at once
Repeats == {<<1, 1>>, <<1, 2, 1>>, <<1, 1, 2>>}
CEW(na, np, ms, pr, ase, pse) == CEU(na, np, ms, pr, ase, pse, OwnIds)
CE(na, np, ms, pr) == CEW(na, np, ms, pr, Own, Own)
Enrich == {<<0, 0, 0>>, <<1, 1, 1>>, <<2, 2, 2>>, <<1, 0, 2>>}
ClipPoints == <<0, 5, 9, 10, 100>>          \* ticks whose decimal renderings order differently from their values
Encs == {"num", "int", "str", "str_num", "num_str"}
OptFieldOK(f, v) == v # "none" \/ OptionalField(f)

InitCase ==
    \/ \E na \in 0..2, np \in 0..2 :
          \/ \E n \in 0..MaxLen : \E ms \in SeqsOfLen(Pairs, n) : c = CE(na, np, ms, "same")
          \/ SortedLen > MaxLen /\ \E ms \in SeqsOfLen(Pairs, SortedLen) : Sorted(ms) /\ c = CE(na, np, ms, "same")
          \/ NoForeignLen > SortedLen /\ \E ms \in SeqsOfLen(Local, NoForeignLen) : Sorted(ms) /\ c = CE(na, np, ms, "same")
          \/ \E n \in 0..OtherLen : \E ms \in SeqsOfLen(Local, n) : \E pr \in {"copy", "copy_features", "copy_rec_tag", "twin", "diff_times", "diff_rec"} : c = CE(na, np, ms, pr)
    \* annotations (predictions) that wrap one and the same sound event; the other side is kept small
    \/ \E w \in Wraps, n \in 0..WrapLen :
          \/ \E na \in 1..2, np \in 0..1 : \E ms \in SeqsOfLen((0..1) \X Side, n) : c = CEW(na, np, ms, "same", w, Own)
          \/ \E na \in 0..1, np \in 1..2 : \E ms \in SeqsOfLen(Side \X (0..1), n) : c = CEW(na, np, ms, "same", Own, w)
    \* the sound_events list of the clip annotation (prediction) holds an event twice -- the same object or an equal copy
    \/ \E r \in Repeats, n \in 0..RepLen, o \in 0..1, rc \in BOOLEAN :
          \/ \E ms \in SeqsOfLen((0..1) \X (0..2), n) :
                c = CER(Cardinality(Range(r)), o, ms, "same", Own, Own, OwnIds, r, Upto(o), rc)
          \/ \E ms \in SeqsOfLen((0..2) \X (0..1), n) :
                c = CER(o, Cardinality(Range(r)), ms, "same", Own, Own, OwnIds, Upto(o), r, rc)
    \* a prediction and an annotation of the clip that carry the same uuid
    \/ \E pu \in Shares, n \in 0..ShareLen, na \in 1..2, np \in 1..2 :
          \E ms \in SeqsOfLen(Side \X (0..2), n) : c = CEU(na, np, ms, "same", Own, Own, pu)
    \/ \E s \in 0..1, t \in 0..1, mp \in Mappings : c = [kind |-> "match", s |-> s, t |-> t, mp |-> mp]
    \* the dict-validation path fed with other Mapping types (top level and nested matches)
    \/ \E mp \in Mappings \ {"dict"}, na \in 0..1, np \in 0..1, n \in 0..1 : \E ms \in SeqsOfLen(Pairs, n) :
          c = [CE(na, np, ms, "same") EXCEPT !.mp = mp]
    \/ \E mp \in Mappings \ {"dict"}, i \in DOMAIN ClipPoints, j \in DOMAIN ClipPoints :
          c = [kind |-> "clip", st |-> ClipPoints[i], en |-> ClipPoints[j], u |-> 1, enc |-> "num", mp |-> mp]
    \* tasks: every ordered selection of the clips; clip annotations: every sequence of <= 3 clips (repeats = a clip
    \* with two clip annotations); enriched copies only with <= 2 annotations
    \/ \E n \in 0..3, m \in 0..3 : \E ts \in SeqsOfLen(1..3, n), as \in SeqsOfLen(1..3, m), enr \in Enrich :
          /\ \A i, j \in DOMAIN ts : ts[i] = ts[j] => i = j
          /\ (m = 3 => enr = <<0, 0, 0>>)
          /\ c = [kind |-> "project", tseq |-> ts, aseq |-> as, enr |-> enr]
    \/ \E i \in DOMAIN ClipPoints, j \in DOMAIN ClipPoints, u \in 1..2, e \in Encs :
          (e = "int" => u = 1) /\ c = [kind |-> "clip", st |-> ClipPoints[i], en |-> ClipPoints[j], u |-> u, enc |-> e, mp |-> "dict"]
    \/ \E f \in DOMAIN Fields, v \in DOMAIN ScoreValues, e \in {"num", "str"} :
          OptFieldOK(Fields[f], ScoreValues[v]) /\
          \E sd \in (IF Fields[f] \in {"Match.affinity", "Match.score"} THEN {"both", "source", "target"} ELSE {"both"}) :
             c = [kind |-> "score", field |-> Fields[f], v |-> ScoreValues[v], enc |-> e, sides |-> sd]

\* only the clip validator can tell the paths apart, so only clip cases are run once per path
Init == /\ InitCase
        /\ path \in (IF c.kind = "clip" THEN Range(Paths) ELSE {"ctor"})
        /\ pc = c.kind /\ k = 1 /\ ok = TRUE /\ g = 0

Fail(why) == pc' = why /\ ok' = FALSE /\ UNCHANGED <<g, c, path, k>>
Goto(l)   == pc' = l /\ UNCHANGED <<g, c, path, ok>>

(* ---- clip evaluation ---- *)
\* the before-validator looks at whatever mapping it is given; control "dict_only" lets other mappings through unlooked
NullCaught == ~(MatchGuard = "dict_only" /\ c.mp # "dict")
CeMatchOk   == pc = "ce" /\ k <= Len(c.ms) /\ (MatchHasSide(c.ms[k]) \/ ~NullCaught) /\ k' = k + 1 /\ UNCHANGED <<g, c, path, pc, ok>>
CeMatchNull == pc = "ce" /\ k <= Len(c.ms) /\ ~MatchHasSide(c.ms[k]) /\ NullCaught /\ Fail("E:match between two null objects")
CeMatchesDone == pc = "ce" /\ k > Len(c.ms) /\ Goto("ce_clips") /\ k' = k
\* the two clips are taken for the same one: by uuid (the code), or (control) only when they are deeply equal
\* ... or (control "span") also when they are different clips over the same span of the same recording
ClipsTakenSame == \/ SameClip(c.pairing) /\ (ClipKey \in {"uuid", "span"} \/ c.pairing \in {"same", "copy"})
                  \/ ClipKey = "span" /\ c.pairing = "twin"
\* control "assert": the test is an assert statement, gone when the interpreter runs optimised
ClipTestRuns == ~(ClipCheck = "assert" /\ Optimised)
CeClipsOk   == pc = "ce_clips" /\ (ClipsTakenSame \/ ~ClipTestRuns) /\ Goto("ce_dup_t") /\ k' = k
CeClipsBad  == pc = "ce_clips" /\ ~ClipsTakenSame /\ ClipTestRuns /\ Fail("E:clips do not match")
\* what the target bookkeeping is keyed on: the annotation itself, or (control) the sound event it wraps
TKey(t) == IF MatchKey = "target_sound_event" THEN c.ase[t] ELSE t
Targets == [i \in DOMAIN SelectSeq([i \in DOMAIN c.ms |-> c.ms[i][2]], LAMBDA x : x # 0) |->
               TKey(SelectSeq([j \in DOMAIN c.ms |-> c.ms[j][2]], LAMBDA x : x # 0)[i])]
Annotated == {TKey(a) : a \in 1..c.na}
Sources == SelectSeq([i \in DOMAIN c.ms |-> c.ms[i][1]], LAMBDA x : x # 0)
\* control "merged_pool": one pool of uuids for both sides; a prediction that carries an annotation's uuid collides with it
AKey(a) == <<"a", a>>
PKey(p) == IF c.pu[p] # 0 THEN <<"a", c.pu[p]>> ELSE <<"p", p>>
Pool == [i \in 1..(Len(Targets) + Len(Sources)) |->
            IF i <= Len(Targets) THEN AKey(SelectSeq([j \in DOMAIN c.ms |-> c.ms[j][2]], LAMBDA x : x # 0)[i])
            ELSE PKey(Sources[i - Len(Targets)])]
Expected == {AKey(a) : a \in 1..c.na} \cup {PKey(q) : q \in 1..c.np}
\* control "counter": multisets instead of sets -- the listed events (with their repeats) against the mentions
Occ(sq, x) == Cardinality({i \in DOMAIN sq : sq[i] = x})
CounterOK == /\ \A a \in 1..3 : Count(c.ms, 2, a) = Occ(c.al, a)
             /\ \A q \in 1..3 : Count(c.ms, 1, q) = Occ(c.pl, q)
Merged == MatchKey \in {"merged_pool", "counter"}
MergedOK == IF MatchKey = "counter" THEN CounterOK
            ELSE Len(Pool) = Cardinality(Range(Pool)) /\ Range(Pool) = Expected
CeMergedOk  == pc = "ce_dup_t" /\ Merged /\ MergedOK /\ Goto("built") /\ k' = k
CeMergedBad == pc = "ce_dup_t" /\ Merged /\ ~MergedOK /\ Fail("E:merged pool")
CeDupT   == pc = "ce_dup_t" /\ ~Merged /\ Len(Targets) # Cardinality(Range(Targets)) /\ Fail("E:multiple matches for the same target")
CeNoDupT == pc = "ce_dup_t" /\ ~Merged /\ Len(Targets) = Cardinality(Range(Targets)) /\ Goto("ce_dup_s") /\ k' = k
CeDupS   == pc = "ce_dup_s" /\ Len(Sources) # Cardinality(Range(Sources)) /\ Fail("E:multiple matches for the same source")
CeNoDupS == pc = "ce_dup_s" /\ Len(Sources) = Cardinality(Range(Sources)) /\ Goto("ce_set_t") /\ k' = k
CeSetTBad == pc = "ce_set_t" /\ Range(Targets) # Annotated /\ Fail("E:not all example sound events were matched")
CeSetTOk  == pc = "ce_set_t" /\ Range(Targets) = Annotated /\ Goto("ce_set_s") /\ k' = k
CeSetSBad == pc = "ce_set_s" /\ Range(Sources) # 1..c.np /\ Fail("E:not all predicted sound events were matched")
CeSetSOk  == pc = "ce_set_s" /\ Range(Sources) = 1..c.np /\ Goto("built") /\ k' = k
(* ---- match ---- *)
MatchOk   == pc = "match" /\ (c.s # 0 \/ c.t # 0 \/ ~NullCaught) /\ Goto("built") /\ k' = k
MatchNull == pc = "match" /\ c.s = 0 /\ c.t = 0 /\ NullCaught /\ Fail("E:match between two null objects")
(* ---- project ---- *)
\* the annotated clip a is found among the task clips: by uuid (the code), or (control "deep") only by a deeply equal copy
TaskHit(a, j) == c.tseq[j] = a /\ (ClipKey \in {"uuid", "span"} \/ c.enr[a] = 0)
\* "set": any task; "generator": only the tasks not yet consumed by earlier membership tests (g = tasks consumed so far)
From == IF ProjScan = "generator" THEN g + 1 ELSE 1
Hits(a) == {j \in From..Len(c.tseq) : TaskHit(a, j)}
ProjOk   == /\ pc = "project" /\ k <= Len(c.aseq) /\ Hits(c.aseq[k]) # {}
            /\ g' = (IF ProjScan = "generator" THEN SetMin(Hits(c.aseq[k])) ELSE g)
            /\ k' = k + 1 /\ UNCHANGED <<c, path, pc, ok>>
ProjBad  == pc = "project" /\ k <= Len(c.aseq) /\ Hits(c.aseq[k]) = {} /\ Fail("E:annotated clip is not part of the project")
ProjDone == pc = "project" /\ k > Len(c.aseq) /\ Goto("built") /\ k' = k
(* ---- clip ---- *)
RECURSIVE Digits(_)
Digits(n) == IF n < 10 THEN <<n>> ELSE Append(Digits(n \div 10), n % 10)     \* str(int): decimal digits
RECURSIVE LexGt(_, _)
LexGt(a, b) == IF Len(a) = 0 THEN FALSE ELSE IF Len(b) = 0 THEN TRUE
               ELSE IF a[1] # b[1] THEN a[1] > b[1] ELSE LexGt(Tail(a), Tail(b))
IsStr(side) == c.enc = "str" \/ (c.enc = "str_num" /\ side = 1) \/ (c.enc = "num_str" /\ side = 2)
RawCompare ==        \* "gt" | "le" | "TypeError": python's  values["start_time"] > values["end_time"]  on the raw inputs
    IF path = "aoef" \/ (~IsStr(1) /\ ~IsStr(2)) THEN (IF c.st > c.en THEN "gt" ELSE "le")
    ELSE IF IsStr(1) /\ IsStr(2) THEN (IF LexGt(Digits(c.st), Digits(c.en)) THEN "gt" ELSE "le")
    ELSE "TypeError"
ClipOutcome == IF ClipValidator = "before" THEN RawCompare ELSE (IF c.st > c.en THEN "gt" ELSE "le")
ClipOk    == pc = "clip" /\ ClipOutcome = "le" /\ Goto("built") /\ k' = k
ClipBad   == pc = "clip" /\ ClipOutcome = "gt" /\ Fail("E:start_time must be less than end_time")
ClipCrash == pc = "clip" /\ ClipOutcome = "TypeError" /\ Fail("E:TypeError")
(* ---- score: ge = 0, then le = 1 ---- *)
GeZero(v) == v \notin {"nan", "-eps"}
LeOne(v)  == v \notin {"nan", "1+eps", "inf"}
ScoreNone == pc = "score" /\ c.v = "none" /\ Goto("built") /\ k' = k
\* control "reset": on some path (AOEF) the number of a one-sided match never reaches the bound test
Unseen == OneSided = "reset" /\ c.field = "Match.affinity" /\ c.sides # "both"
ScoreLow  == pc = "score" /\ c.v # "none" /\ ~Unseen /\ ~GeZero(c.v) /\ Fail("E:greater_than_equal")
ScoreHigh == pc = "score" /\ c.v # "none" /\ ~Unseen /\ GeZero(c.v) /\ ~LeOne(c.v) /\ Fail("E:less_than_equal")
ScoreOk   == pc = "score" /\ c.v # "none" /\ (Unseen \/ (GeZero(c.v) /\ LeOne(c.v))) /\ Goto("built") /\ k' = k

Next == \/ CeMatchOk \/ CeMatchNull \/ CeMatchesDone \/ CeClipsOk \/ CeClipsBad \/ CeDupT \/ CeNoDupT \/ CeDupS \/ CeNoDupS
        \/ CeMergedOk \/ CeMergedBad \/ CeSetTBad \/ CeSetTOk \/ CeSetSBad \/ CeSetSOk \/ MatchOk \/ MatchNull
        \/ ProjOk \/ ProjBad \/ ProjDone \/ ClipOk \/ ClipBad \/ ClipCrash
        \/ ScoreNone \/ ScoreLow \/ ScoreHigh \/ ScoreOk
Spec == Init /\ [][Next]_vars

Terminal == pc = "built" \/ ~ok
Export == (Terminal /\ path = "ctor") => PrintT(<<"CASE", ToJson(c)>>)

(* ---- Impl <=> Valid, for every path ---- *)
ImplIffValid == Terminal => ((pc = "built") <=> Valid(c))
\* every error message fires only when its own condition of the statement is broken
ImplReasons == (~ok /\ c.kind = "ce") =>
    /\ pc = "E:match between two null objects" => \E i \in DOMAIN c.ms : ~MatchHasSide(c.ms[i])
    /\ (pc = "E:clips do not match" /\ ClipKey = "uuid") => ~SameClip(c.pairing)
    /\ (pc = "E:multiple matches for the same target" /\ MatchKey = "annotation") => \E a \in 1..3 : Count(c.ms, 2, a) > 1
    /\ pc = "E:multiple matches for the same source" => \E p \in 1..3 : Count(c.ms, 1, p) > 1
Laws == (pc = c.kind /\ k = 1) => LawOrderFree(c) /\ LawCounting(c) /\ LawEmpty /\ LawProjectOrderFree(c)
TerminatesBySafety == Terminal \/ ENABLED Next
=============================================================================
