SPECIFICATION Spec
CONSTANTS
  Rates = {8000, 22050, 22051, 44100, 96000, 192000, 384000}
  Frames = {0, 1, 7, 441, 4410, 4801}
  TEMode = "large"
  HRates = {8000, 11025, 22050, 44100, 48000, 96000, 192000, 384000}
  HCounts = {0, 1, 2, 3, 7, 100, 255, 256, 1001}
  Sizes = {0, 1, 2, 65535, 65536, 65537, 131071, 131072, 131073, 131075, 196608, 262147}
  B = 65536
CONSTRAINT Export
INVARIANT ImplFeedsWholeFile
INVARIANT ImplFeedsPrefix
INVARIANT LawLen44
INVARIANT LawFields
INVARIANT LawConsistent
INVARIANT LawRoundTrip
INVARIANT LawTeOne
INVARIANT LawTeRate
PROPERTY Terminates
CHECK_DEADLOCK FALSE
