------------------------------ MODULE Matching ------------------------------
(***************************************************************************)
(* C07 -- match_geometries is an optimal one-to-one assignment that        *)
(* mentions every source and every target exactly once.                    *)
(*                                                                         *)
(* A matching is a sequence of records [s |-> <<>> | <<i>>, t |-> <<>> |   *)
(* <<j>>] (1-based indices into the source / target lists; <<>> = None).   *)
(* W is the affinity matrix as integers (exact rationals over a common     *)
(* denominator on the lattice; observed doubles floored to 2^-20 else).    *)
(***************************************************************************)
EXTENDS GeomModel
Aff == INSTANCE Affinity

(* ---------------- exact affinities on the lattice ---------------- *)
\* TimeStamp, TimeInterval and BoundingBox with zero buffers: nothing grows under any reading of C06.
\* <<i, u>> with u = 0 when both have zero extent (a TimeStamp, a zero-length interval, a zero-duration box): the
\* ratio is then undefined; the implementation's zero-union guard makes it 0 (ZeroUnion below).
\* With buffers (tb ticks, a power of two): kinds without an area grow by +- tb in time (Affinity!PExt); the exact value
\* is then known when either geometry is time-only (IoU of the grown time extents) -- lists with buffers are restricted
\* to such pairs (MC_Matching!Exactable) and contain no TimeInterval (whose growth C06 leaves open).
AffRatB(a, b, tb) ==
    IF a.type \in Aff!TimeKinds \/ b.type \in Aff!TimeKinds
    THEN Aff!TimeIoU(Aff!PExt(a, tb, 0), Aff!PExt(b, tb, 0))
    ELSE Aff!RectIoU(a, b)            \* boxes and rectilinear (multi-)polygons, interior rings included
AffRat(a, b) == AffRatB(a, b, 0)
RECURSIVE Gcd(_, _)
Gcd(a, b) == IF b = 0 THEN a ELSE Gcd(b, a % b)
Lcm(a, b) == (a \div Gcd(a, b)) * b
RECURSIVE LcmSet(_)
LcmSet(S) == IF S = {} THEN 1 ELSE LET x == CHOOSE x \in S : TRUE IN Lcm(x, LcmSet(S \ {x}))
ZeroUnion(a, b, tb) == AffRatB(a, b, tb)[2] = 0
Guarded(r) == IF r[2] = 0 THEN <<0, 1>> ELSE r                       \* "if union == 0: return 0"
\* Two zero-extent geometries at DIFFERENT instants are disjoint in time: their affinity is 0 (C06 DisjointInTime).
\* When their time extents meet (the same instant; two flat boxes -- low = high -- that share some time) the ratio is 0/0
\* and C06 leaves the value open: an "open" pair.  open[i][j] says which value an
\* implementation gives it: 0 (the zero-union guard, what the model assumes) or 1.
OpenPair(a, b, tb) == /\ ZeroUnion(a, b, tb)
                      /\ LET x == Aff!PExt(a, tb, 0)  y == Aff!PExt(b, tb, 0) IN Max(x[1], y[1]) <= Min(x[2], y[2])
Denoms(src, tgt, tb) == {Guarded(AffRatB(src[i], tgt[j], tb))[2] : i \in DOMAIN src, j \in DOMAIN tgt}
\* W[i][j] = affinity(src[i], tgt[j]) * D, D = lcm of the denominators
ExactWO(src, tgt, tb, open) ==
    LET D == LcmSet(Denoms(src, tgt, tb)) IN
    [i \in DOMAIN src |-> [j \in DOMAIN tgt |->
        IF OpenPair(src[i], tgt[j], tb) THEN open[i][j] * D
        ELSE LET r == Guarded(AffRatB(src[i], tgt[j], tb)) IN r[1] * (D \div r[2])]]
ExactWB(src, tgt, tb) == ExactWO(src, tgt, tb, [i \in DOMAIN src |-> [j \in DOMAIN tgt |-> 0]])
ExactW(src, tgt) == ExactWB(src, tgt, 0)

(* ---------------- one-to-one pairings and their value ---------------- *)
OneToOne(P) == \A p, q \in P : p # q => (p[1] # q[1] /\ p[2] # q[2])
\* partial injective maps that use positive entries only
Pairings(W, n, m) == {P \in SUBSET {p \in (1..n) \X (1..m) : W[p[1]][p[2]] > 0} : OneToOne(P)}
RECURSIVE Val(_, _)
Val(W, P) == IF P = {} THEN 0 ELSE LET p == CHOOSE p \in P : TRUE IN W[p[1]][p[2]] + Val(W, P \ {p})
OptVal(W, n, m) == SetMax({Val(W, P) : P \in Pairings(W, n, m)})
\* the same number computed row by row (row i stays unpaired or takes a free column); MC_Matching checks
\* OptValRec = OptVal on the whole bounded universe, the validator uses it on lists too long for SUBSET
RECURSIVE Best(_, _, _, _, _)
Best(W, n, m, i, used) ==
    IF i > n THEN 0
    ELSE SetMax({Best(W, n, m, i + 1, used)} \cup
                {W[i][j] + Best(W, n, m, i + 1, used \cup {j}) : j \in {j \in (1..m) \ used : W[i][j] > 0}})
OptValRec(W, n, m) == Best(W, n, m, 1, {})

(* ---------------- the clauses, on an abstract matching M ---------------- *)
IsPair(x)  == ~IsNone(x.s) /\ ~IsNone(x.t)
PairsOf(M) == {<<Some(M[k].s), Some(M[k].t)>> : k \in {k \in DOMAIN M : IsPair(M[k])}}
InRange(M, n, m) == \A k \in DOMAIN M : /\ IsNone(M[k].s) \/ Some(M[k].s) \in 1..n
                                        /\ IsNone(M[k].t) \/ Some(M[k].t) \in 1..m
CoverOf(M, n, m) ==
    /\ InRange(M, n, m)
    /\ \A i \in 1..n : Cardinality({k \in DOMAIN M : M[k].s = <<i>>}) = 1
    /\ \A j \in 1..m : Cardinality({k \in DOMAIN M : M[k].t = <<j>>}) = 1
PositiveOf(M, W, n, m) == InRange(M, n, m) => \A p \in PairsOf(M) : W[p[1]][p[2]] > 0
\* the pairs chosen are worth the optimum (tol = 0 on the lattice)
OptimalOf(M, W, n, m, tol) ==
    InRange(M, n, m) => LET v == Val(W, PairsOf(M))  opt == OptValRec(W, n, m) IN v >= opt - tol /\ v <= opt + tol

(* ---------------- the observation ---------------- *)
(* in:  [kind |-> "lat", src, tgt (lattice geometries)] | [kind |-> "rnd", seed, ks, kt (kinds)]                 *)
(* out: runs (one per exact unit) of [raised, m : <<[s, t, a]>>, aff : matrix of compute_affinity of every pair] *)
(*      a and aff entries are observed doubles [l, h, r] as in Affinity                                          *)
(* kind "twin": enumerated lists (src, tgt as for "lat") of geometries of DIFFERENT kinds whose coordinate literals  *)
(* are identical (TimeInterval [a, b] / Point [a, b]; a LineString / the MultiPoint of its vertices; a Polygon ring /  *)
(* the MultiLineString through the same points), with positive buffers: judged on the observed matrix, like "rnd".    *)
(* Every case also says where each geometry object comes from (in.sp, in.tp, one code per element): 0 constructed,   *)
(* 1 an equal geometry elsewhere was used in a geometry operation and then model_copy(update = coordinates) gave this *)
(* one, 2 the same by attribute assignment, 3 a deep copy of a used geometry.  The affinity of a pair is a function   *)
(* of the two geometries as values: no clause looks at the provenance, and out.aff is computed on equal geometries     *)
(* constructed afresh.                                                                                               *)
IsLat(o) == o.in.kind = "lat"
HasGeoms(o) == o.in.kind \in {"lat", "twin"}
NSrc(o) == IF HasGeoms(o) THEN Len(o.in.src) ELSE Len(o.in.ks)
NTgt(o) == IF HasGeoms(o) THEN Len(o.in.tgt) ELSE Len(o.in.kt)
N20(l)  == l[2] * 1048576 + l[3] * 16 + (l[4] \div 4096)                  \* floor of a value of [0,1] in units of 2^-20
ObservedW(o, run) == [i \in 1..NSrc(o) |-> [j \in 1..NTgt(o) |-> N20(run.aff[i][j].l)]]
AffOk(o, run) == \A i \in 1..NSrc(o), j \in 1..NTgt(o) : Aff!InUnit(run.aff[i][j])
\* The exact matrix judges a lattice run; on the open pairs (0/0) it takes the value the code's own compute_affinity
\* gives them when that is 0 or 1; should an implementation choose yet another value, the observed matrix judges instead.
ObsOpen(v) == IF v.l[1] = 0 THEN 0 ELSE IF v.h = "0x1.0000000000000p+0" THEN 1 ELSE 2
UseExact(o, run) == IsLat(o) /\ \A i \in 1..NSrc(o), j \in 1..NTgt(o) :
                                  OpenPair(o.in.src[i], o.in.tgt[j], o.in.tb) => ObsOpen(run.aff[i][j]) # 2
WOf(o, run) == IF UseExact(o, run)
               THEN ExactWO(o.in.src, o.in.tgt, o.in.tb, [i \in 1..NSrc(o) |-> [j \in 1..NTgt(o) |-> ObsOpen(run.aff[i][j])]])
               ELSE ObservedW(o, run)
\* floors move a sum of k entries by less than k
Tol(o, run) == IF UseExact(o, run) THEN 0 ELSE Min(NSrc(o), NTgt(o))

Clauses == {"Returns", "Cover", "PositiveOnly", "ReportedAffinity", "UnpairedZero", "Optimal"}
HoldsRun(cl, o, run) ==
    LET n == NSrc(o)  m == NTgt(o)  M == run.m IN
    IF cl = "Returns" THEN run.raised = "" /\ AffOk(o, run)
    ELSE IF run.raised # "" \/ ~AffOk(o, run) THEN TRUE                 \* reported once, by Returns
    ELSE CASE cl = "Cover"        -> CoverOf(M, n, m)
           [] cl = "PositiveOnly" ->
                 IF UseExact(o, run) THEN PositiveOf(M, WOf(o, run), n, m)
                 ELSE InRange(M, n, m) => \A p \in PairsOf(M) : run.aff[p[1]][p[2]].l[1] = 1     \* the sign of the double, not its floor
           [] cl = "ReportedAffinity" ->
                 InRange(M, n, m) => \A k \in DOMAIN M : IsPair(M[k]) =>
                     /\ M[k].a.h = run.aff[Some(M[k].s)][Some(M[k].t)].h             \* exactly the code's own affinity
                     /\ IsLat(o) => Aff!EqRat(M[k].a, AffRatB(o.in.src[Some(M[k].s)], o.in.tgt[Some(M[k].t)], o.in.tb))
           [] cl = "UnpairedZero" -> \A k \in DOMAIN M : ~IsPair(M[k]) => Aff!IsZero(M[k].a)
           [] cl = "Optimal"      -> OptimalOf(M, WOf(o, run), n, m, Tol(o, run))
Holds(cl, o) == \A u \in DOMAIN o.out.runs : HoldsRun(cl, o, o.out.runs[u])
=============================================================================
