--------------------------- MODULE MC_GeomValidate ---------------------------
(***************************************************************************)
(* Enumeration machine for C03.                                            *)
(*  Init   : every (kind tag, coordinate structure) of the bounded universe*)
(*           -- flat lists over the value alphabet, scalars, extra nesting,*)
(*           point lists, valid skeletons of all nine kinds, every         *)
(*           single-position fault of every skeleton (generic token edits),*)
(*           every skeleton under every other kind's tag, and (Tier =      *)
(*           "thorough") every double fault of the small skeletons.        *)
(*  Next   : the validator chain of the implementation, one action per     *)
(*           layer: pydantic type layer, first field validator, second     *)
(*           field validator (which does not run when the first raised).   *)
(*  Invariants: Impl accepts iff Valid, Impl's value = Normal, and the laws*)
(*           of Valid / Normal themselves.                                 *)
(***************************************************************************)
EXTENDS GeomValidate, TLC, Json
CONSTANTS Tier               \* "quick" | "thorough" | "cov" (a small sub-universe of both, run with -coverage: every action is taken)
VARIABLES kind, toks, pc, val, why, bud, vd, num      \* vd = <<ValidStrict, Valid, ValidLoose>> of (kind, toks), set at Begin
vars == <<kind, toks, pc, val, why, bud, vd, num>>      \* num = "lit" (tokens are values) | "fine" (tokens are codes of FineTable)

F  == FMAXHZ
Thorough == Tier = "thorough"
Cov      == Tier = "cov"
Alpha    == IF Thorough THEN {-1, 0, 1, 2, 3, F, F + 1} ELSE {-1, 0, 1, 2, F, F + 1}
BadVals  == {-1, 0, F, F + 1}             \* what a single scalar is replaced by (two stay in range: the boundaries)
Alpha5   == {-1, 0, 2, F + 1}              \* thorough: lists of length 5 (one too many for a box) over a smaller alphabet

P(t, f) == <<OPEN, t, f, CLOSE>>
L(ks)   == Wrap(ks)
K(k, s) == [kind |-> k, toks |-> s]

(* ---- valid skeletons (a SET: all elements have one type) ---- *)
Ring3   == L(<<P(0, 0), P(2, 0), P(1, 3)>>)
Ring5   == L(<<P(0, 0), P(3, 0), P(3, F), P(0, F), P(0, 0)>>)
Hole    == L(<<P(1, 1), P(2, 1), P(2, 2), P(1, 1)>>)
SmallSkeletons == {
    K("TimeStamp", <<0>>), K("TimeStamp", <<2>>),
    K("TimeInterval", <<OPEN, 0, 2, CLOSE>>), K("TimeInterval", <<OPEN, 1, 1, CLOSE>>),
    K("Point", P(1, 2)), K("Point", P(0, F)),
    K("BoundingBox", <<OPEN, 0, 1, 2, 3, CLOSE>>), K("BoundingBox", <<OPEN, 2, F, 1, 0, CLOSE>>), K("BoundingBox", <<OPEN, 1, 1, 1, 1, CLOSE>>),
    K("LineString", L(<<P(0, 1), P(2, 3)>>)), K("LineString", L(<<P(3, 1), P(2, 0), P(1, F)>>)),
    K("LineString", L(<<P(1, 0), P(0, 2), P(1, 3)>>)),                                   \* first time = last time
    K("MultiPoint", L(<<P(1, 1)>>)), K("MultiPoint", L(<<P(2, 0), P(0, F), P(1, 3)>>)),
    K("Polygon", L(<<Ring3>>)),
    K("MultiLineString", L(<<L(<<P(0, 0), P(1, 2)>>)>>)),
    K("MultiPolygon", L(<<L(<<Ring3>>)>>)) }
BigSkeletons == {
    K("Polygon", L(<<Ring5, Hole>>)),
    K("MultiLineString", L(<<L(<<P(0, 0), P(1, 2)>>), L(<<P(1, F), P(2, 3), P(3, 0)>>)>>)),
    K("MultiLineString", L(<<L(<<P(0, 1), P(2, 2), P(1, 3), P(3, 1)>>)>>)),                \* forward overall, one step back (open reading)
    K("MultiPolygon", L(<<L(<<Ring5, Hole>>), L(<<Ring3>>)>>)) }
Skeletons == SmallSkeletons \cup BigSkeletons

(* ---- generic single-position faults on token strings ---- *)
NodePos(s)    == {p \in 1..Len(s) : s[p] # CLOSE}
ListPos(s)    == {p \in 1..Len(s) : s[p] = OPEN}
RECURSIVE CloseOf(_, _, _)
CloseOf(s, i, d) == LET d2 == d + Delta(s[i]) IN IF d2 = 0 THEN i ELSE CloseOf(s, i + 1, d2)
NodeEnd(s, p) == CloseOf(s, p, 0)                                                               \* last token of the node starting at p
Node(s, p)    == SubSeq(s, p, NodeEnd(s, p))
Splice(s, p, mid) == SubSeq(s, 1, p - 1) \o mid \o SubSeq(s, NodeEnd(s, p) + 1, Len(s))       \* replace node p by mid
EdReplace(s, bad) == {[s EXCEPT ![p] = v] : p \in {q \in 1..Len(s) : IsNum(s[q])}, v \in bad}   \* one scalar -> bad / boundary value
EdDrop(s)    == {Splice(s, p, <<>>) : p \in NodePos(s) \ {1}}                                   \* drop a coordinate / point / ring / member
EdInsert(s)  == {Splice(s, p, Node(s, p) \o <<1>>) : p \in NodePos(s) \ {1}}                    \* add a third coordinate / a scalar among lists
EdDup(s)     == {Splice(s, p, Node(s, p) \o Node(s, p)) : p \in NodePos(s) \ {1}}               \* repeat a point / ring / member
EdWrap(s)    == {Splice(s, p, <<OPEN>> \o Node(s, p) \o <<CLOSE>>) : p \in NodePos(s)}          \* one nesting level too many
EdUnwrap(s)  == {Splice(s, p, SubSeq(s, p + 1, NodeEnd(s, p) - 1)) :                            \* one nesting level too few
                    p \in {q \in ListPos(s) : q # 1 \/ Len(Kids(s)) = 1}}
EdReverse(s) == {Splice(s, p, Wrap(Rev(Kids(Node(s, p))))) : p \in ListPos(s)}                  \* reverse a line / swap time and frequency
EdEmpty(s)   == {Splice(s, p, <<OPEN, CLOSE>>) : p \in ListPos(s)}                              \* empty a member
Edits(s, bad) == EdReplace(s, bad) \cup EdDrop(s) \cup EdInsert(s) \cup EdDup(s) \cup EdWrap(s) \cup EdUnwrap(s) \cup EdReverse(s) \cup EdEmpty(s)

(* ---- the universe ---- *)
FlatLists(n)  == UNION {[1..m -> Alpha] : m \in 0..n}
FlatAll       == FlatLists(4) \cup (IF Thorough THEN [1..5 -> Alpha5] ELSE {})
ShallowKinds  == {"TimeStamp", "TimeInterval", "Point", "BoundingBox"}
FlatCases     == {K(k, <<OPEN>> \o f \o <<CLOSE>>) : k \in ShallowKinds, f \in FlatAll}
ScalarCases   == {K(k, <<a>>) : k \in Kinds, a \in Alpha}
NestCases     == {K(k, <<OPEN, OPEN>> \o f \o <<CLOSE, CLOSE>>) : k \in ShallowKinds, f \in FlatLists(2)}
PointPool     == {<<OPEN, CLOSE>>, <<OPEN, 0, CLOSE>>, P(0, 0), P(1, F), P(2, 0), P(-1, 0), P(0, F + 1), P(0, -1), <<OPEN, 1, 2, 3, CLOSE>>}
PointLists    == UNION {[1..m -> PointPool] : m \in 0..3}
PointCases    == {K(k, L(ps)) : k \in {"LineString", "MultiPoint"}, ps \in PointLists}
\* every list of 0..3 members over a small pool, for the two nested levels of polygons (ring-less members in every position)
RingPool      == {<<OPEN, CLOSE>>, Ring3, L(<<P(0, 0), P(1, 1)>>), Hole}
PolyPool      == {<<OPEN, CLOSE>>, L(<<Ring3>>), L(<<Ring5, Hole>>), L(<<<<OPEN, CLOSE>>>>)}
MemberCases   == {K("Polygon", L(rs)) : rs \in UNION {[1..m -> RingPool] : m \in 0..3}}
                 \cup {K("MultiPolygon", L(ps)) : ps \in UNION {[1..m -> PolyPool] : m \in 0..3}}
SkelCases     == Skeletons
CrossCases    == {K(k, sk.toks) : k \in Kinds, sk \in Skeletons}
Edits1(s, bad) == {x \in Edits(s, bad) : Len(x) >= 1}

(* ---- non-integer coordinates: the same machinery over the codes of FineTable ---- *)
FineBad == {-1, 4, 6, 4999999, 5000001}        \* what a scalar is replaced by in a fine case
FineSkeletons == {
    K("TimeStamp", <<1>>), K("TimeInterval", <<OPEN, 5, 6, CLOSE>>), K("Point", P(2, 4999999)),
    K("BoundingBox", <<OPEN, 6, 4999999, 5, 1, CLOSE>>),                                      \* to be sorted: times differ in the 7th decimal
    K("LineString", L(<<P(6, 2), P(4, 7), P(5, 1)>>)),                                        \* to be reversed
    K("MultiPoint", L(<<P(1, 1), P(5, 4999999)>>)),
    K("Polygon", L(<<L(<<P(3, 2), P(5, 2), P(4, 7)>>)>>)),
    K("MultiLineString", L(<<L(<<P(5, 2), P(6, 7)>>)>>)),                                     \* strictly forward by 3e-7 s
    K("MultiLineString", L(<<L(<<P(3, 1), P(4, 2)>>), L(<<P(1, 4999999), P(2, 0)>>)>>)),      \* strictly forward by 2^-30 s
    K("MultiPolygon", L(<<L(<<L(<<P(3, 2), P(4, 4999999), P(7, 1)>>)>>)>>)) }
FineFlat  == {K(k, <<OPEN>> \o f \o <<CLOSE>>) : k \in {"TimeInterval", "Point"}, f \in [1..2 -> FineCodes]}
             \cup {K("BoundingBox", <<OPEN>> \o f \o <<CLOSE>>) : f \in [1..4 -> {1, 5, 6, 4999999}]}
             \cup {K(k, <<a>>) : k \in Kinds, a \in FineCodes}
FineBase  == IF Cov THEN {c \in FineSkeletons : c.kind \in {"BoundingBox", "MultiLineString"}} ELSE FineSkeletons \cup FineFlat
MissingCases  == {K(k, <<ABSENT>>) : k \in Kinds}              \* the coordinates field is absent altogether: never a geometry
BaseCases     == IF Cov THEN MissingCases \cup ScalarCases \cup SkelCases \cup CrossCases
                 ELSE MissingCases \cup FlatCases \cup ScalarCases \cup NestCases \cup PointCases \cup MemberCases \cup SkelCases \cup CrossCases
\* number of successive single-position faults applied to a base case (skeletons only)
Budget(c)     == IF c \in FineSkeletons THEN 1
                 ELSE IF c \notin Skeletons THEN 0
                 ELSE IF Cov THEN (IF c.kind \in {"Point", "LineString", "MultiLineString"} THEN 1 ELSE 0)
                 ELSE IF Thorough /\ c \in SmallSkeletons THEN 2 ELSE 1

(* ---- the machine: generation by edits, then Impl, one action per layer of the validator chain ---- *)
Init == /\ \/ \E c \in BaseCases : kind = c.kind /\ toks = c.toks /\ bud = Budget(c) /\ num = "lit"
           \/ \E c \in FineBase : kind = c.kind /\ toks = c.toks /\ bud = (IF c \in FineSkeletons THEN 1 ELSE 0) /\ num = "fine"
        /\ pc = "gen" /\ val = toks /\ why = "" /\ vd = <<>>
\* one more fault somewhere in the structure (an action, so that all workers share the generation)
Edit     == /\ pc = "gen" /\ bud > 0
            /\ \E e \in Edits1(toks, IF num = "fine" THEN FineBad ELSE BadVals) : toks' = e /\ val' = e
            /\ bud' = bud - 1 /\ UNCHANGED <<kind, pc, why, vd, num>>
Step(r, nextpc) == IF r.ok THEN pc' = nextpc /\ val' = r.val /\ why' = ""
                   ELSE pc' = "rejected" /\ val' = <<>> /\ why' = r.why
\* submit the structure; Req's verdict under the three readings is recorded once (the laws below are checked in this state)
Begin    == /\ pc = "gen" /\ pc' = "type" /\ bud' = 0
            /\ vd' = <<ValidStrict(kind, toks), Valid(kind, toks), ValidLoose(kind, toks)>>
            /\ UNCHANGED <<kind, toks, val, why, num>>
TypeStep == pc = "type" /\ Step(TypeLayer(kind, val), "v1") /\ UNCHANGED <<kind, toks, bud, vd, num>>
V1Step   == pc = "v1" /\ Step(V1(kind, val), IF HasV2(kind) THEN "v2" ELSE "accepted") /\ UNCHANGED <<kind, toks, bud, vd, num>>
V2Step   == pc = "v2" /\ Step(V2(kind, val), "accepted") /\ UNCHANGED <<kind, toks, bud, vd, num>>
Next == Edit \/ Begin \/ TypeStep \/ V1Step \/ V2Step
Spec == Init /\ [][Next]_vars /\ WF_vars(Next)

Done == pc \in {"accepted", "rejected"}
Export == Done => PrintT(<<"CASE", ToJson([kind |-> kind, toks |-> toks, c |-> Tree(toks), num |-> num,
                                             vals |-> IF num = "fine" THEN FineTable ELSE <<>>, conts |-> Containers, guises |-> Guises])>>)

(* ---- invariants ---- *)
AtStart == pc = "type"                                                   \* laws of Valid / Normal are checked once per case
IsValid == vd[2]
FineCoding       == FineTableOK /\ (AtStart /\ num = "fine" => \A i \in DOMAIN toks : IsNum(toks[i]) => toks[i] \in FineCodes \cup {1})
WellFormedCases  == AtStart => WellFormed(toks) \/ Missing(toks)                          \* the generators (incl. every edit) produce single nodes
MissingIsInvalid == (AtStart /\ Missing(toks)) => ~vd[3] /\ ~Impl(kind, toks).ok        \* under every reading, and in Impl
ParserAgrees     == (AtStart /\ ~Missing(toks)) => WellFormedDecl(toks) /\ (IsList(toks) => Kids(toks) = KidsDecl(toks))
ImplIffValid     == (pc = "accepted" => IsValid) /\ (pc = "rejected" => ~IsValid)
ImplIsFunction   == Done => LET r == Impl(kind, toks) IN (r.ok <=> pc = "accepted") /\ r.val = val /\ r.why = why
ImplValueNormal  == pc = "accepted" => val = Normal(kind, toks)
SecondNeedsFirst == pc = "v2" => V1(kind, toks).ok                       \* the second validator only ever sees what the first let through
LawReadings      == AtStart => (vd[1] => vd[2]) /\ (vd[2] => vd[3])
LawNormalIdem    == (AtStart /\ IsValid) => Normal(kind, Normal(kind, toks)) = Normal(kind, toks)
LawNormalValid   == (AtStart /\ IsValid) => /\ Valid(kind, Normal(kind, toks)) /\ InNormalForm(kind, Normal(kind, toks))
                                             /\ NormalFormObs(kind, Normal(kind, toks))
LawNormalAllowed == (AtStart /\ IsValid) => Normal(kind, toks) \in AllowedNormals(kind, toks)
LawNormalKeepsPoints ==
    (AtStart /\ IsValid) =>
      LET n == Normal(kind, toks) IN
      CASE kind = "LineString"  -> SameKidBag(n, toks)
        [] kind = "BoundingBox" -> {n[2], n[4]} = {toks[2], toks[4]} /\ {n[3], n[5]} = {toks[3], toks[5]}
                                   /\ n[2] + n[4] = toks[2] + toks[4] /\ n[3] + n[5] = toks[3] + toks[5]
        [] OTHER -> n = toks
LawStrictOnlyMulti == (AtStart /\ vd[2] /\ ~vd[1]) => kind = "MultiLineString"
LawLooseIsDoc      == AtStart => vd[3] = vd[2]                           \* nothing but the multi-line ordering is open
\* a polygon without a ring is invalid under every reading, wherever it stands among its siblings
LawRinglessInvalid == (AtStart /\ kind \in {"Polygon", "MultiPolygon"} /\ WellFormed(toks) /\ Typed(toks, KindDepth(kind))) =>
    LET polys == IF kind = "Polygon" THEN <<toks>> ELSE Kids(toks)
    IN  (\E i \in DOMAIN polys : Len(Kids(polys[i])) = 0) => ~vd[3]
\* termination without a liveness graph: every step lowers a natural-number rank, and no state short of Done is stuck
Rank == bud + (CASE pc = "gen" -> 5 [] pc = "type" -> 4 [] pc = "v1" -> 3 [] pc = "v2" -> 2 [] OTHER -> 1)
RankDecreases == [][Rank' < Rank /\ Rank' >= 1]_vars
NeverStuck    == ~Done => ENABLED Next
Terminates == <>Done                 \* checked as a liveness property on the "cov" sub-universe only (it doubles TLC's work)
=============================================================================
