SPECIFICATION Spec
CONSTANTS
  Tier = "cov"
INVARIANT GeneratedAreValid
INVARIANT ImplShapePreserves
INVARIANT ImplBoundsExact
INVARIANT ImplFeatRight
INVARIANT ImplAnchorsRight
INVARIANT LawBoundsOrdered
INVARIANT LawTimeOnlyBand
INVARIANT LawBoundsFromTokens
INVARIANT LawFeat
INVARIANT LawAnchorsOnBounds
INVARIANT LawAnchorsConsistent
PROPERTY Terminates
CHECK_DEADLOCK FALSE
