SPECIFICATION Spec
CONSTANTS
  Tier = "cov"
INVARIANT GeneratedAreValid
INVARIANT ImplShapePreserves
INVARIANT ImplBoundsExact
INVARIANT ImplFeatRight
INVARIANT ImplAnchorsRight
INVARIANT LawBoundsOrdered
INVARIANT LawTimeOnlyBand
INVARIANT LawBoundsFromTokens
INVARIANT LawFeat
INVARIANT LawAnchorsOnBounds
INVARIANT LawAnchorsConsistent
INVARIANT NeverStuck
PROPERTY RankDecreases
PROPERTY Terminates
CHECK_DEADLOCK FALSE
