SPECIFICATION Spec
CONSTANTS
  Memo = "none"
  Tier = "cov"
INVARIANT GeneratedAreValid
INVARIANT ImplShapePreserves
INVARIANT ImplBoundsExact
INVARIANT ImplFeatRight
INVARIANT ImplAnchorsRight
INVARIANT LawBoundsOrdered
INVARIANT LawTimeHasNoCeiling
INVARIANT LawTimeOnlyBand
INVARIANT LawBoundsFromTokens
INVARIANT LawFeat
INVARIANT LawAnchorsOnBounds
INVARIANT LawAnchorsConsistent
INVARIANT LawHistoryIsRegrouping
INVARIANT LawRegroupingsDistinguished
INVARIANT NoMemo
INVARIANT NeverStuck
PROPERTY RankDecreases
PROPERTY Terminates
CHECK_DEADLOCK FALSE
