----------------------------- MODULE MC_RangeDim -----------------------------
(***************************************************************************)
(* C16: the three computations as state machines (Impl), model-checked     *)
(* against Req (RangeDim), on the integer lattice.                          *)
(*                                                                         *)
(*  range : create_range_dim = np.arange  +  removal of a trailing element *)
(*          Arange : length ceil((stop-a)/s) -- computed in floating point; *)
(*                   when the quotient is a whole number and the step is   *)
(*                   not representable, ceil may see q+eps: "q or q+1"     *)
(*          Trim   : drop the last element if  last >= stop - s/2          *)
(*                   (a tie on a non-representable step goes either way)   *)
(*  index : get_coord_index = range check on [min, max], then              *)
(*          get_slice_bound(v, "right") - 1 ; the bound is a scan          *)
(*  set   : set_value_at_pos = one lookup per queried dimension, one write *)
(*          on an array object with a layout (registration order of the    *)
(*          coordinates, transposition, dimension without coordinate) and  *)
(*          a coordinate dtype; Req does not depend on either.             *)
(*                                                                         *)
(* Trim = FALSE is arange alone (history/MC_RangeDim_notrim.cfg: TLC shows  *)
(* CountWhenWhole failing, i.e. why the removal test is there).            *)
(* Every initial state is one test of the real code (Export).              *)
(***************************************************************************)
EXTENDS RangeDim, TLC, Json
CONSTANTS NU,        \* use the first NU units of UnitList
          NSU,       \* units used for set_value_at_pos cases
          NS,        \* use the first NS start values of StartList
          MaxM,      \* stops up to a + MaxM * s/4
          MaxN,      \* axis lengths for lookups
          MaxSize, MaxDims,
          Trim,
          TrOnly,    \* also enumerate transposed arrays whose coordinates were registered in the final order
          AxisBy,    \* "dims": set_value_at_pos takes the axis number from array.dims (get_axis_num)      [the code]
                     \* "indexes": from the position in list(array.indexes)                  [history: seeded defect sb2]
          Memo,      \* FALSE: every constructor call builds its coordinates afresh [the code]
                     \* TRUE: the coordinate array is memoised on (start, stop, step) and shared [history: seeded defect C16-r4sb1]
          SweepStride, \* decimal step sweep: k/1000 for every SweepStride-th k
          WriteVia,  \* set_value_at_pos writes into "data" itself [the code] / a "promoted" view-or-copy [history: seeded defect C16-r8sb2]
          ClampBy,   \* high clamp of get_coord_index: "dim" = sizes[dim] [the code] / "total" = arr.size [history: seeded defect C16-r6sb1]
          RangeBy,   \* "coords": get_dim_range = min / max of the coordinates [the code]
                     \* "attrs": the start / stop attributes of the coordinate when present [history: seeded defect C16-r4sb2]
          LookupBy,  \* "search": the index is found by comparing with the coordinates [the code]
                     \* "step_attr": computed from the step ATTRIBUTE when there is one [history: seeded defect C20-r3sb1]
          StepPrec,  \* "step": an explicit step wins over samplerate [the code, the docstring] / "samplerate" [history: seeded defect r2sb1]
          QueryCast  \* "none": the lookup compares the query as given                                      [the code]
                     \* "coord_dtype": it first converts the query to the coordinate dtype    [history: seeded defect sb1]
VARIABLES c, pc, i, r
vars == <<c, pc, i, r>>

UnitList == << <<1, 1>>, <<1, 10>>, <<1, 4>>, <<1, 3>>, <<1, 100>>, <<1, 44100>>, <<2, 1>>, <<1, 2>>, <<250, 1>>, <<1, 8>> >>
Units    == {UnitList[k] : k \in 1..NU}
SetUnits == {UnitList[k] : k \in 1..NSU}
StartList == <<0, 14, -8, 4>>                 \* a4: start values 0, 3.5, -2, 1 (a cfg cannot write -8)
Starts   == {StartList[k] : k \in 1..NS}
SetStarts == <<0, 14, -8>>                    \* start of the axis of dimension d

\* How the step reaches the constructor: st = a step argument is passed (it is c.s); sr = <<>> or <<samplerate p/q>>
\* (create_time_range); size = <<>> or <<k>> (create_range_dim).  With st, samplerate / size may agree with the step or
\* CONFLICT with it (samplerate 2/s, size (stop-a)/s + 2): Req says the step argument is the step (RangeDim!Denoted).
Opt(fn, st, sr, size) == [fn |-> fn, st |-> st, sr |-> sr, size |-> size]
RangeOpts(s, m, both) ==
    {Opt("range", TRUE, <<>>, <<>>), Opt("time", TRUE, <<>>, <<>>), Opt("freq", TRUE, <<>>, <<>>)}
    \cup (IF Whole(m) THEN {Opt("range", FALSE, <<>>, <<m \div 4>>)} ELSE {})
    \cup (IF s[1] = 1 THEN {Opt("time", FALSE, <<<<s[2], 1>>>>, <<>>)} ELSE {})
    \cup (IF both THEN {Opt("range", TRUE, <<>>, <<m \div 4 + 2>>), Opt("time", TRUE, <<<<2 * s[2], s[1]>>>>, <<>>)}
                        \cup (IF Whole(m) THEN {Opt("range", TRUE, <<>>, <<m \div 4>>)} ELSE {})
                        \cup (IF s[1] = 1 THEN {Opt("time", TRUE, <<<<s[2], 1>>>>, <<>>)} ELSE {})
           ELSE {})
\* hist = <<>>: one call.  hist = <<<<mut, fn2>>>>: a history -- construct, edit the returned Variable in place (mut = "add":
\* var += offset, "set0": var.values[0] = ...), then ask constructor fn2 for the same (start, stop, step) again; the SECOND
\* result is the one judged, by the same clauses.  Nothing may be carried over from the first call.
MkRangeH(o, s, a4, m, sm, h) == [kind |-> "range", fn |-> o.fn, st |-> o.st, sr |-> o.sr, size |-> o.size, s |-> s, a4 |-> a4, m |-> m, sm |-> sm, hist |-> h]
MkRange(o, s, a4, m, sm) == MkRangeH(o, s, a4, m, sm, <<>>)
\* the "both" variants for the first start only; the stop formed as start + (m/4)*step ("fma") only for the plain call
\* (existential quantifiers in Init rather than a UNION of sets: TLC enumerates them without building and normalising the set)
InitRange == \/ \E s \in Units, a4 \in Starts, m \in 1..MaxM :
                   \/ \E o \in RangeOpts(s, m, a4 = StartList[1]) : c = MkRange(o, s, a4, m, "near")
                   \/ c = MkRange(Opt("range", TRUE, <<>>, <<>>), s, a4, m, "fma")
             \* a sweep of decimal steps k/1000 (every SweepStride-th in 1..999), the three constructors with an explicit step:
             \* the recorded step must be the requested double and the coordinates start + i*step, whatever the decimal
             \/ \E k \in {x \in 1..999 : x % SweepStride = 1 % SweepStride}, fn \in {"range", "time", "freq"},
                   mm \in {8} \cup (IF SweepStride = 1 THEN {18} ELSE {}) :
                   c = MkRange(Opt(fn, TRUE, <<>>, <<>>), <<k, 1000>>, StartList[1], mm, "near")
             \* histories: first two units, first start, stops on half steps
             \/ \E u \in 1..2, mh \in {x \in 2..MaxM : x % 2 = 0}, fn1 \in {"range", "time", "freq"}, fn2 \in {"range", "time", "freq"}, mut \in {"add", "set0"} :
                   c = MkRangeH(Opt(fn1, TRUE, <<>>, <<>>), UnitList[u], StartList[1], mh, "near", <<<<mut, fn2>>>>)

Positions(n) == {Tk * k : k \in 0..(n - 1)} \cup {Tk * k + 1 : k \in 0..(n - 1)} \cup {Tk * k - 1 : k \in 0..(n - 1)}
                \cup {Tk * k + 4 : k \in 0..(n - 2)} \cup {-4, Tk * (n - 1) + 4}
\* dtype of the coordinate array: float64; int64 / int32 when start and step are integers (np.arange(-2, 4) is a legal
\* axis); float32 (for the start 0 only, to bound the enumeration)
Dtypes(s, a4) == {"f8"} \cup (IF s[2] = 1 /\ a4 % 4 = 0 THEN {"i8", "i4"} ELSE {}) \cup (IF a4 = 0 THEN {"f4"} ELSE {})
IntAxis(x)    == x.dt \in {"i8", "i4"}
\* What the coordinate's attributes say versus what the coordinates are.  The bracket is defined by the coordinates:
\*   sa = <<>>: no step attribute;  sa = <<<<p, q>>>>: step attribute = p/q times the real spacing (1/1: it matches;
\*        1/2, 1/3: an axis subsampled with isel(slice(None, None, k)), which keeps the attributes; 2/1: a stale coarser step)
\*   ir = 0: regular axis;  ir = 1, 2: irregular axis, coordinate i at a + Lat(ir, i) * s (built with an explicit step=)
\* Ticks are ORDER positions (coordinate i at Tk*i, 8k+4 between coordinates k and k+1): the lookup only compares, so the
\* machine and Req are the same for every strictly increasing axis; the real spacing only enters the seeded variant.
Lat(ir, k) == IF ir = 0 THEN k ELSE IF ir = 1 THEN (k * (k + 1)) \div 2 ELSE k + k \div 2
Matching  == <<<<1, 1>>>>
AxisVars  == {<<sa, 0>> : sa \in {<<>>, <<<<1, 2>>>>, <<<<1, 3>>>>, <<<<2, 1>>>>}} \cup {<<sa, ir>> : sa \in {<<>>, Matching}, ir \in {1, 2}}
\* ra = <<>>: the coordinate has no start / stop attributes.  ra = <<<<src, dl, dh>>>>: it has, and they are WIDER than the
\* coordinates: start = first coordinate - dl ticks, stop = last coordinate + dh ticks (Tk ticks per step).
\*   src = "attrs": annotated with set_dim_attrs(start=, stop=);  src = "extend": the array went through extend_dim, which
\*   records start - eps (dl = 1 tick: the sliver just below the first coordinate) and the requested stop.
\* The range of an axis, for raise / clamp as for the bracket, is defined by its coordinates.
\* nd = <<before, after>>: the sizes of the OTHER dimensions of the array, in front of and behind the queried one
\* (<<<<>>, <<>>>>: a 1-D array).  The index returned, the clamp included, is about the queried dimension only.
MkIndexN(u, a4, dt, n, p, re, sa, ir, ra, nd) ==
    [kind |-> "index", s |-> u, a4 |-> a4, dt |-> dt, n |-> n, p |-> p, re |-> re, sa |-> sa, ir |-> ir, ra |-> ra, nd |-> nd]
MkIndexR(u, a4, dt, n, p, re, sa, ir, ra) == MkIndexN(u, a4, dt, n, p, re, sa, ir, ra, <<<<>>, <<>>>>)
NdVars == {<<<<5>>, <<>>>>, <<<<>>, <<3>>>>, <<<<1>>, <<4>>>>, <<<<3, 5>>, <<>>>>, <<<<>>, <<2, 1>>>>}      \* query dim last / first / middle (incl. size-1 dims)
Others(x) == Prod(x.nd[1], 1) * Prod(x.nd[2], 1)
MkIndex(u, a4, dt, n, p, re, sa, ir) == MkIndexR(u, a4, dt, n, p, re, sa, ir, <<>>)
RaVars == {<<<<"attrs", 4, 4>>>>, <<<<"attrs", 3 * Tk, 3 * Tk>>>>, <<<<"extend", 1, 6>>>>}
InitIndex == \/ \E u \in Units, a4 \in Starts, n \in 1..MaxN : \E dt \in Dtypes(u, a4), p \in Positions(n), re \in BOOLEAN :
                   c = MkIndex(u, a4, dt, n, p, re, Matching, 0)
             \* attributes that disagree with the coordinates: a sub-universe (first two units, first start, raise mode)
             \/ \E u \in 1..2, n \in 2..MaxN : \E dt \in Dtypes(UnitList[u], StartList[1]) \cap {"f8", "i8"}, p \in Positions(n), v \in AxisVars :
                   c = MkIndex(UnitList[u], StartList[1], dt, n, p, TRUE, v[1], v[2])
             \* start / stop attributes wider than the coordinates: first two units, first start, float64
             \/ \E u \in 1..2, n \in 1..MaxN : \E p \in Positions(n), re \in BOOLEAN, ra \in RaVars :
                   c = MkIndexR(UnitList[u], StartList[1], "f8", n, p, re, Matching, 0, ra)
             \* 2-D and 3-D arrays: first two units, first start, float64, every query class, raise and clamp
             \/ \E u \in 1..2, n \in 1..MaxN : \E p \in Positions(n), re \in BOOLEAN, nd \in NdVars :
                   c = MkIndexN(UnitList[u], StartList[1], "f8", n, p, re, Matching, 0, <<>>, nd)

SetPositions(n) == {Tk * k : k \in 0..(n - 1)} \cup {Tk * k + 4 : k \in 0..(n - 2)} \cup {-4, Tk * (n - 1) + 4}
Shapes == UNION {IF d = 1 THEN {<<x>> : x \in 1..MaxSize}
                 ELSE IF d = 2 THEN {<<x, y>> : x \in 1..MaxSize, y \in 1..MaxSize}
                 ELSE {<<x, y, z>> : x \in 1..MaxSize, y \in 1..MaxSize, z \in 1..MaxSize} : d \in 1..MaxDims}
QOpt(n) == {<<>>} \cup {<<p>> : p \in SetPositions(n)}
Queries(sh) == IF Len(sh) = 1 THEN {<<x>> : x \in QOpt(sh[1])}
               ELSE IF Len(sh) = 2 THEN {<<x, y>> : x \in QOpt(sh[1]), y \in QOpt(sh[2])}
               ELSE {<<x, y, z>> : x \in QOpt(sh[1]), y \in QOpt(sh[2]), z \in QOpt(sh[3])}
AllQueried(q) == \A d \in 1..Len(q) : ~IsNone(q[d])
NoneQueried(q) == \A d \in 1..Len(q) : IsNone(q[d])
\* Layout of the array object that set_value_at_pos receives.  Its dims are 1..d in this order with sizes sh (the
\* specification only ever talks about this order).  reg = order in which the coordinates were registered (this is the
\* order of array.indexes); tr = order of the dims of the array it was transposed from (tr # identity: the data is a
\* strided view); nc = <<>> or <<d>>: dimension d has no coordinate (it is then absent from array.indexes).
IdP(d)   == IF d = 1 THEN <<1>> ELSE IF d = 2 THEN <<1, 2>> ELSE <<1, 2, 3>>
Perms(d) == IF d = 1 THEN {<<1>>} ELSE IF d = 2 THEN {<<1, 2>>, <<2, 1>>}
            ELSE {<<1, 2, 3>>, <<1, 3, 2>>, <<2, 1, 3>>, <<2, 3, 1>>, <<3, 1, 2>>, <<3, 2, 1>>}
Layouts(d) == {<<IdP(d), IdP(d)>>} \cup {<<pm, IdP(d)>> : pm \in Perms(d)}            \* coords dict in another order
              \cup {<<pm, pm>> : pm \in Perms(d)}                                       \* built in order pm, then transposed
              \cup (IF TrOnly THEN {<<IdP(d), pm>> : pm \in Perms(d)} ELSE {})
Plain(lay, d) == lay = <<IdP(d), IdP(d)>>
OnCoords(sh, q) == \A d \in 1..Len(sh) : IsNone(q[d]) \/ (Some(q[d]) % Tk = 0 /\ Some(q[d]) >= 0 /\ Some(q[d]) <= Tk * (sh[d] - 1))
NoCoord(sh) == {<<>>} \cup {<<d>> : d \in 1..Len(sh)}
\* the new dimensions are explored on a sub-universe: first unit, float64, queries on coordinates
SetCaseOK(x) == /\ (~IsNone(x.nc) => IsNone(x.q[Some(x.nc)]))                 \* only an unqueried dimension can lack its coordinate
                /\ ~NoneQueried(x.q) /\ (x.vm = "array" => ~AllQueried(x.q))
                /\ (~Plain(<<x.reg, x.tr>>, Len(x.sh)) => x.s = UnitList[1] /\ x.dt = "f8" /\ IsNone(x.nc) /\ OnCoords(x.sh, x.q))
                /\ (x.dt # "f8" => Plain(<<x.reg, x.tr>>, Len(x.sh)) /\ x.s = UnitList[1] /\ Len(x.sh) <= 2 /\ IsNone(x.nc))
                /\ (~IsNone(x.nc) => Plain(<<x.reg, x.tr>>, Len(x.sh)) /\ x.s = UnitList[1] /\ x.dt = "f8" /\ OnCoords(x.sh, x.q))
                /\ (~(x.sa = Matching /\ x.ir = 0) => /\ Plain(<<x.reg, x.tr>>, Len(x.sh)) /\ x.s = UnitList[1] /\ x.dt = "f8"
                                                      /\ IsNone(x.nc) /\ Len(x.sh) <= 2)
\* (a filtered set, not a conjunct of Init: TLC would enumerate the disjunctions of the filter as branches)
ScalarTypes == {"py_int", "py_float", "py_bool", "np_f4", "np_i8", "np_u1"}
ArrayTypes  == {"arr_f8", "arr_f4", "arr_i4", "arr_b1"}
SetCasesFor(s, sh, dt) ==
    LET d    == Len(sh)
        sub  == s = UnitList[1] /\ dt = "f8"                          \* the sub-universe that carries the new dimensions
        RecT(q, vm, lay, nc, v, t) == [kind |-> "set", s |-> s, dt |-> dt, sh |-> sh, q |-> q, vm |-> vm, reg |-> lay[1], tr |-> lay[2],
                                       nc |-> nc, sa |-> v[1], ir |-> v[2], ra |-> v[3], adt |-> t[1], vt |-> t[2]]
        Rec(q, vm, lay, nc, v) == RecT(q, vm, lay, nc, v, <<"f8", IF vm = "scalar" THEN "py_float" ELSE "arr_f8">>)
        \* dtype of the array x type of the value (scalar types with a scalar value, array types with a row / column)
        tvs(vm) == IF sub /\ d <= 2 THEN {<<a, v>> : a \in {"b1", "u1", "i2", "i4", "f4", "f8"},
                                                    v \in IF vm = "scalar" THEN ScalarTypes ELSE ArrayTypes} ELSE {}
        lays == IF sub THEN Layouts(d) ELSE {<<IdP(d), IdP(d)>>}
        ncs  == IF sub THEN NoCoord(sh) ELSE {<<>>}
        avs  == IF sub /\ d <= 2 THEN {<<<<>>, 0, <<>>>>, <<<<<<1, 2>>>>, 0, <<>>>>, <<Matching, 1, <<>>>>, <<Matching, 0, <<<<"attrs", 4, 4>>>>>>} ELSE {}
    IN  {x \in {Rec(q, vm, lay, nc, <<Matching, 0, <<>>>>) : q \in Queries(sh), vm \in {"scalar", "array"}, lay \in lays, nc \in ncs} : SetCaseOK(x)}
        \cup {x \in {Rec(q, vm, <<IdP(d), IdP(d)>>, <<>>, v) : q \in Queries(sh), vm \in {"scalar", "array"}, v \in avs} : SetCaseOK(x)}
        \cup UNION {{x \in {RecT(q, vm, <<IdP(d), IdP(d)>>, <<>>, <<Matching, 0, <<>>>>, t) : q \in {y \in Queries(sh) : OnCoords(sh, y)}, t \in tvs(vm)} :
                        SetCaseOK(x)} : vm \in {"scalar", "array"}}
R0 == [call |-> 1, memo |-> FALSE, dirty |-> FALSE, es |-> <<0, 1>>, len |-> 0, k |-> "none", v |-> -1, ix |-> <<>>, hit |-> TRUE, after |-> <<>>]
Init == /\ pc = "start" /\ i = 0
        /\ \/ InitRange
           \/ InitIndex
           \/ \E s \in SetUnits, sh \in Shapes, dt \in {"f8", "i8", "i4"} : c \in SetCasesFor(s, sh, dt)
        /\ r = IF c.kind = "set" THEN [R0 EXCEPT !.ix = [k \in 1..Len(c.sh) |-> <<>>]] ELSE R0

(* ------------------------------------------------------------ range: Impl *)
\* which step the constructor uses.  create_range_dim / create_time_range: "if step is None: derive it";
\* StepPrec = "samplerate" is the seeded defect r2sb1 (a samplerate overrides an explicit step; history/)
Resolve == /\ c.kind = "range" /\ pc = "start"
           /\ LET fromsr == <<Some(c.sr)[2], Some(c.sr)[1]>>                          \* 1 / samplerate
                  fromsz == <<c.m * c.s[1], 4 * c.s[2] * Some(c.size)>>               \* (stop - a) / size
                  es == IF c.fn = "time" /\ StepPrec = "samplerate" /\ ~IsNone(c.sr) THEN fromsr
                        ELSE IF c.st THEN c.s
                        ELSE IF ~IsNone(c.sr) THEN fromsr ELSE fromsz
              IN  r' = [r EXCEPT !.es = es]
           /\ pc' = "arange" /\ UNCHANGED <<c, i>>
AfterBuild == IF ~IsNone(c.hist) /\ r.call = 1 THEN "mutate" ELSE "done"
Arange == /\ c.kind = "range" /\ pc = "arange"
          /\ \E len \in {CeilDiv(c.m, 4)} \cup (IF Stress(c.s) /\ Whole(c.m) THEN {c.m \div 4 + 1} ELSE {}) :
                r' = [r EXCEPT !.len = len]
          /\ pc' = (IF Trim THEN "trim" ELSE AfterBuild) /\ UNCHANGED <<c, i>>
\* last >= stop - s/2   <=>   4*(len-1) >= m - 2   (quarter steps)
TrimDrop == /\ c.kind = "range" /\ pc = "trim" /\ r.len > 0
            /\ \/ 4 * (r.len - 1) > c.m - 2
               \/ 4 * (r.len - 1) = c.m - 2                          \* tie: exact when dyadic, either way otherwise
            /\ r' = [r EXCEPT !.len = r.len - 1] /\ pc' = AfterBuild /\ UNCHANGED <<c, i>>
TrimKeep == /\ c.kind = "range" /\ pc = "trim"
            /\ \/ 4 * (r.len - 1) < c.m - 2
               \/ 4 * (r.len - 1) = c.m - 2 /\ Stress(c.s)
            /\ pc' = AfterBuild /\ UNCHANGED <<c, i, r>>
\* history: the caller edits the Variable it was given; if the library kept a reference to that array, it is now dirty
Mutate == /\ c.kind = "range" /\ pc = "mutate"
          /\ r' = [r EXCEPT !.memo = TRUE, !.call = 2] /\ pc' = "again" /\ UNCHANGED <<c, i>>
\* second call with the same arguments (fn2 passes the step itself): built afresh -- or, seeded, served from the memo
Again  == /\ c.kind = "range" /\ pc = "again"
          /\ IF Memo /\ r.memo THEN r' = [r EXCEPT !.dirty = TRUE] /\ pc' = "done"
             ELSE r' = [r EXCEPT !.es = c.s, !.len = 0] /\ pc' = "arange"
          /\ UNCHANGED <<c, i>>

(* ------------------------------------------------------------ index: Impl *)
Last(n) == Tk * (n - 1)
AttrLo(x) == IF RangeBy = "attrs" /\ ~IsNone(x.ra) THEN -(Some(x.ra)[2]) ELSE 0
AttrHi(x) == IF RangeBy = "attrs" /\ ~IsNone(x.ra) THEN Some(x.ra)[3] ELSE 0
Check == /\ c.kind = "index" /\ pc = "start"
         /\ IF c.p < AttrLo(c) \/ c.p > Last(c.n) + AttrHi(c)
            THEN /\ pc' = "done"
                 /\ r' = IF c.re THEN [r EXCEPT !.k = "raise"]
                         ELSE IF c.p < 0 THEN [r EXCEPT !.k = "int", !.v = 0]
                         ELSE [r EXCEPT !.k = "int", !.v = IF ClampBy = "total" THEN c.n * Others(c) ELSE c.n]
            ELSE pc' = (IF LookupBy = "step_attr" /\ ~IsNone(c.sa) THEN "fast" ELSE "scan") /\ r' = r
         /\ UNCHANGED <<c, i>>
\* seeded variant: index = min(round((v - start) / step_attr), n - 1), minus one if that coordinate is > v.
\* (v - start) / step_attr = (real offset in steps) / (p/q); the real offset of the query, in eighths of a step:
RealOff(x) == LET k == x.p \div Tk  rr == x.p % Tk IN
              IF rr = 4 /\ k >= 0 /\ k < x.n - 1 THEN 4 * (Lat(x.ir, k) + Lat(x.ir, k + 1))        \* midpoint
              ELSE IF rr = Tk - 1 THEN Tk * Lat(x.ir, k + 1) - 1 ELSE Tk * Lat(x.ir, k) + rr
RoundDiv(a, b) == (2 * a + b) \div (2 * b)
Fast  == /\ c.kind = "index" /\ pc = "fast"
         /\ LET sa == Some(c.sa)
                g  == Min(RoundDiv(RealOff(c) * sa[2], Tk * sa[1]), c.n - 1)
            IN  r' = [r EXCEPT !.k = "int", !.v = IF Tk * g > c.p THEN g - 1 ELSE g]
         /\ pc' = "done" /\ UNCHANGED <<c, i>>
\* The query as the lookup sees it.  On an integer axis (qs = 1, a = a4/4 an integer) values are counted in eighths:
\* coordinate j at Tk*j*ps, the query at p*ps, both relative to a; absolute value of the query = 2*a4 + p*ps eighths.
\* Converting it to the integer dtype first truncates toward zero (-1.5 -> -1): the seeded defect sb1.
KK(x)     == IF IntAxis(x) THEN x.s[1] ELSE 1
TruncV(V) == IF V >= 0 THEN Tk * (V \div Tk) ELSE -(Tk * ((-V) \div Tk))
QRel(x)   == IF QueryCast = "coord_dtype" /\ IntAxis(x) THEN TruncV(2 * x.a4 + x.p * KK(x)) - 2 * x.a4 ELSE x.p * KK(x)
\* get_slice_bound(v, "right"): first position whose coordinate is > v
Scan  == /\ c.kind = "index" /\ pc = "scan" /\ i < c.n /\ Tk * i * KK(c) <= QRel(c)
         /\ i' = i + 1 /\ UNCHANGED <<c, pc, r>>
Found == /\ c.kind = "index" /\ pc = "scan" /\ (i = c.n \/ Tk * i * KK(c) > QRel(c))
         /\ r' = [r EXCEPT !.k = "int", !.v = i - 1] /\ pc' = "done" /\ UNCHANGED <<c, i>>

(* -------------------------------------------------------------- set: Impl *)
ImplIndex(n, p) == Cardinality({j \in 0..(n - 1) : Tk * j <= p}) - 1          \* searchsorted right, minus one
Before(sh) == [f \in 1..Prod(sh, 1) |-> f]
\* the value as given (True = 1; a boolean row alternates), then as the array's dtype represents it
RawValueOf(x) == IF x.vm = "scalar" THEN (IF x.vt = "py_bool" THEN <<1>> ELSE <<100>>)
                 ELSE [f \in 1..Prod([d \in 1..Len(x.sh) |-> IF IsNone(x.q[d]) THEN x.sh[d] ELSE 1], 1) |-> IF x.vt = "arr_b1" THEN f % 2 ELSE 100 + f]
ValueOf(x) == CastSeq(x.adt, RawValueOf(x))
\* seeded (C16-r8sb2): the write goes through data.astype(result_type(array, value), copy=False) -- a COPY whenever the value's type is
\* wider than the array's, and the write is lost.  (Rank approximates numpy's promotion: bool < unsigned < signed < float.)
Rank(t) == CASE t \in {"b1", "py_bool", "arr_b1"} -> 0 [] t \in {"u1", "np_u1"} -> 1 [] t = "i2" -> 2 [] t \in {"i4", "arr_i4"} -> 3
             [] t = "np_i8" -> 4 [] t \in {"f4", "np_f4", "arr_f4"} -> 5 [] t \in {"f8", "arr_f8"} -> 6
             [] t = "py_int" -> 1 [] t = "py_float" -> 5
WriteLost(x) == WriteVia = "promoted" /\ Rank(x.vt) > Rank(x.adt) /\ ~(x.vt = "py_float" /\ x.adt \in {"f4", "f8"}) /\ ~(x.vt = "py_int" /\ x.adt # "b1")
\* which axis of the data the index found for dimension d is applied to
IndexOrder(x) == SelectSeq(x.reg, LAMBDA d : IsNone(x.nc) \/ d # Some(x.nc))          \* list(array.indexes)
PosIn(sq, d)  == CHOOSE k \in 1..Len(sq) : sq[k] = d
AxisOf(x, d)  == IF AxisBy = "dims" THEN d ELSE PosIn(IndexOrder(x), d)
VAt(sh, ix, idx, val) == IF Len(val) = 1 THEN val[1]
                         ELSE LET k == SlicePos(sh, ix, idx) IN IF k \in 1..Len(val) THEN val[k] ELSE -1
Lookup == /\ c.kind = "set" /\ pc = "start" /\ i < Len(c.sh)
          /\ LET d == i + 1 IN
             IF IsNone(c.q[d]) THEN r' = r /\ pc' = pc
             ELSE LET p == Some(c.q[d]) IN
                  IF p < AttrLo(c) \/ p > Last(c.sh[d]) + AttrHi(c)
                  THEN r' = [r EXCEPT !.hit = FALSE, !.k = "raise", !.after = Before(c.sh)] /\ pc' = "done"     \* KeyError before any write
                  ELSE r' = [r EXCEPT !.ix[AxisOf(c, d)] = <<ImplIndex(c.sh[d], p)>>] /\ pc' = pc
          /\ i' = i + 1 /\ UNCHANGED c
Write == /\ c.kind = "set" /\ pc = "start" /\ i = Len(c.sh)
         /\ r' = [r EXCEPT !.after = [f \in 1..Prod(c.sh, 1) |->
                     LET idx == CHOOSE x \in Cells(c.sh) : Flat(c.sh, x) = f
                     IN  IF Addressed(r.ix, idx) /\ ~WriteLost(c) THEN VAt(c.sh, r.ix, idx, ValueOf(c)) ELSE f]]
         /\ pc' = "done" /\ UNCHANGED <<c, i>>

Next == Fast \/ Resolve \/ Arange \/ TrimDrop \/ TrimKeep \/ Mutate \/ Again \/ Check \/ Scan \/ Found \/ Lookup \/ Write
Spec == Init /\ [][Next]_vars /\ WF_vars(Next)

Export == (pc = "start" /\ i = 0) => PrintT(<<"CASE", ToJson(c)>>)

(* ------------------------------------------------- Impl => Req, and laws *)
Done == pc = "done"
\* range
ImplStep           == (c.kind = "range" /\ pc # "start") => REq(r.es, Denoted(c))
LawDenoted         == c.kind = "range" => REq(Denoted(c), c.s)          \* the generator is consistent: clauses judge against c.s
ImplFresh          == (c.kind = "range" /\ Done) => ~r.dirty              \* the result never shares state with an earlier call
ImplCountWhenWhole == (c.kind = "range" /\ Done) => CountWhole(c.m, r.len)
ImplCountFloorCeil == (c.kind = "range" /\ Done) => CountFloorCeil(c.m, r.len)
ImplInside         == (c.kind = "range" /\ Done) => \A j \in 0..(r.len - 1) : j \in RangeIdx(c.m)     \* no point at or after stop
LawRange           == c.kind = "range" => /\ RangeCount(c.m) = CeilDiv(c.m, 4)
                                          /\ CountWhole(c.m, RangeCount(c.m)) /\ CountFloorCeil(c.m, RangeCount(c.m))
ImplKeepsAllPoints == (c.kind = "range" /\ Done) => r.len = RangeCount(c.m)      \* NOT an invariant (history): see DESIGN 5, not a finding
\* index
Cs == Coords(c.n)
Res == [k |-> r.k, v |-> r.v]
ScanInv    == (c.kind = "index" /\ pc = "scan") => i <= c.n /\ \A j \in 0..(i - 1) : Tk * j <= c.p    \* (fails under sb1)
ImplLookup == (c.kind = "index" /\ Done) => LookupOK(IntLe, Cs, c.p, c.re, Res)
LawBracketUnique == c.kind = "index" => (InRange(IntLe, Cs, c.p) => Cardinality(Brackets(IntLe, Cs, c.p)) = 1)
LawUpperEdge     == (c.kind = "index" /\ c.p = Last(c.n)) => Index(IntLe, Cs, c.p) = c.n - 1
LawOwnBin        == c.kind = "index" => \A k \in 0..(c.n - 1) :
                        /\ c.p \in {Tk * k, Tk * k + 1} => Index(IntLe, Cs, c.p) = k          \* a coordinate opens its own bin
                        /\ (c.p = Tk * k - 1 /\ k > 0) => Index(IntLe, Cs, c.p) = k - 1
\* set
ModelHit == \A d \in 1..Len(c.sh) : IsNone(c.q[d]) \/ InRange(IntLe, Coords(c.sh[d]), Some(c.q[d]))
ModelIx  == [d \in 1..Len(c.sh) |-> IF IsNone(c.q[d]) \/ ~ModelHit THEN <<>> ELSE <<Index(IntLe, Coords(c.sh[d]), Some(c.q[d]))>>]
ImplSet  == (c.kind = "set" /\ Done) =>
               /\ r.hit = ModelHit /\ (r.k = "raise" <=> ~ModelHit)
               /\ SetAddressedOK(c.sh, ModelIx, ModelHit, r.after, ValueOf(c))
               /\ SetOthersOK(c.sh, ModelIx, ModelHit, Before(c.sh), r.after)
LawSlice == c.kind = "set" =>
               LET n == Cardinality({idx \in Cells(c.sh) : Addressed(ModelIx, idx)})
               IN  ModelHit => n = Len(ValueOf(c)) \/ (c.vm = "scalar" /\ n >= 1)
Terminates == <>(pc = "done")
=============================================================================
