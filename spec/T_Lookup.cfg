INIT TInit
NEXT TNext
CONSTRAINT Report
CHECK_DEADLOCK FALSE
