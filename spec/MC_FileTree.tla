------------------------------ MODULE MC_FileTree ------------------------------
(***************************************************************************)
(* X01 (a, b): the universe of file trees (optional slots) and the walk of *)
(* get_audio_files as a state machine (Impl), transcribing                 *)
(*   - the non-recursive branch: Path.iterdir + is_audio_file,             *)
(*   - the recursive branch: os.walk(top-down, followlinks) of CPython     *)
(*     3.12 (explicit stack; scandir; entry.is_dir() follows links; a      *)
(*     directory link is listed among dirs but pushed only with            *)
(*     followlinks) + is_audio_file on every non-directory entry,          *)
(*   - is_audio_file: is_file / suffix.lower() in VALID / strict: sf.info. *)
(* One action per directory visited and per entry examined (five outcomes).*)
(* TLC checks Impl's result = Req's set (FileTree!Code), that Code lies    *)
(* between Must and Allowed, and termination, on every tree x flags.       *)
(***************************************************************************)
EXTENDS FileTree, Json
CONSTANTS RootNames,        \* indices of Names used for the root file in the "structure" family
          Stride,           \* keep every Stride-th tree of the structure family (1 = all)
          AncestorFollow,   \* TRUE only in the refuted control: walk trees with an ancestor link recursively WITH follow_symlinks
          MaxWalkDepth      \* bound on the depth of a visited directory
VARIABLES T, fl, pc, stack, cur, todo, out, steps,
          req       \* ghost: Req's set FileTree!Code(T, fl), computed once when the call starts
vars == <<T, fl, pc, stack, cur, todo, out, steps, req>>

\* ------------------------------------------------------------------ universe
Names == << <<"a", "wav">>, <<"B", "WAV">>, <<"c", "Wav">>, <<"notes", "txt">>, <<"noext">>, <<"", "wav">>,
            <<"a", "wav", "txt">>, <<"a", "txt", "wav">>, <<"x", "flac">>, <<"song", "MP3">>, <<"", "hidden", "wav">>, <<"wav">> >>
Contents == {"audio", "junk", "empty"}
NoA == [sr |-> 0, ch |-> 0, fr |-> 0, st |-> ""]
\* what the binder writes for a decodable file of each slot (rate, channels, frames, libsndfile subtype)
A1 == [sr |-> 8000,   ch |-> 1, fr |-> 16,  st |-> "PCM_16"]
A2 == [sr |-> 44100,  ch |-> 2, fr |-> 441, st |-> "PCM_24"]
A3 == [sr |-> 22050,  ch |-> 3, fr |-> 0,   st |-> "FLOAT"]
A4 == [sr |-> 384000, ch |-> 2, fr |-> 5,   st |-> "PCM_32"]
SUB == <<"sub">>   DEEP == <<"deep">>   PACK == <<"pack", "wav">>      \* PACK: a DIRECTORY whose name ends in .wav
SubFiles  == << [n |-> <<"a", "wav">>, c |-> "audio"], [n |-> <<"a", "wav">>, c |-> "junk"], [n |-> <<"B", "WAV">>, c |-> "audio"],
                [n |-> <<"B", "WAV">>, c |-> "junk"], [n |-> <<"notes", "txt">>, c |-> "audio"], [n |-> <<"notes", "txt">>, c |-> "junk"] >>
DeepFiles == << [n |-> <<"d", "wav">>, c |-> "audio"], [n |-> <<"d", "wav">>, c |-> "empty"], [n |-> <<"x", "FLAC">>, c |-> "audio"] >>

File(d, n, c, a) == [d |-> d, n |-> n, k |-> "file", c |-> c, a |-> IF c = "audio" THEN a ELSE NoA, t |-> <<>>]
DirE(d, n)       == [d |-> d, n |-> n, k |-> "dir",  c |-> "", a |-> NoA, t |-> <<>>]
LinkE(d, n, t)   == [d |-> d, n |-> n, k |-> "link", c |-> "", a |-> NoA, t |-> t]

Build(ch) == [root |-> ch.root, ents |->
       (IF ch.rn > 0 THEN <<File(<<>>, Names[ch.rn], ch.rc, A1)>> ELSE <<>>)
    \o (IF ch.dirs >= 1 THEN <<DirE(<<>>, SUB)>> ELSE <<>>)
    \o (IF ch.sn > 0 THEN <<File(<<SUB>>, SubFiles[ch.sn].n, SubFiles[ch.sn].c, A2)>> ELSE <<>>)
    \o (IF ch.dirs = 2 THEN <<DirE(<<SUB>>, DEEP)>> ELSE <<>>)
    \o (IF ch.dn > 0 THEN <<File(<<SUB, DEEP>>, DeepFiles[ch.dn].n, DeepFiles[ch.dn].c, A3)>> ELSE <<>>)
    \o (IF ch.pack THEN <<DirE(<<>>, PACK), File(<<PACK>>, <<"in", "wav">>, "audio", A4)>> ELSE <<>>)
    \* a link to the file of sub: named *.wav (whatever the target is called / holds) or *.txt
    \o (CASE ch.fk = "wav" -> <<LinkE(<<>>, <<"ln", "wav">>, <<SUB, SubFiles[ch.sn].n>>)>>
          [] ch.fk = "txt" -> <<LinkE(<<>>, <<"ln", "txt">>, <<SUB, SubFiles[ch.sn].n>>)>>
          [] OTHER -> <<>>)
    \* a link to a directory: beside it (dl, or named dl.wav), to an ancestor (up1: sub/up -> root, up2: sub/deep/up -> sub),
    \* across (sub/side -> pack.wav)
    \o (CASE ch.dk = "dl"    -> <<LinkE(<<>>, <<"dl">>, <<SUB>>)>>
          [] ch.dk = "dlwav" -> <<LinkE(<<>>, <<"dl", "wav">>, <<SUB>>)>>
          [] ch.dk = "up1"   -> <<LinkE(<<SUB>>, <<"up">>, <<>>)>>
          [] ch.dk = "up2"   -> <<LinkE(<<SUB, DEEP>>, <<"up">>, <<SUB>>)>>
          [] ch.dk = "side"  -> <<LinkE(<<SUB>>, <<"side">>, <<PACK>>)>>
          [] OTHER -> <<>>)
    \o (IF ch.br THEN <<LinkE(<<>>, <<"gone", "wav">>, <<<<"nowhere">>>>)>> ELSE <<>>)]

Ch(root, rn, rc, dirs, sn, dn, pack, fk, dk, br) ==
    [root |-> root, rn |-> rn, rc |-> rc, dirs |-> dirs, sn |-> sn, dn |-> dn, pack |-> pack, fk |-> fk, dk |-> dk, br |-> br]
Ix(S, x) == CHOOSE i \in DOMAIN S : S[i] = x
\* family "names": the whole alphabet of names x contents, alone and in a busy tree
NamesFamily ==
    {Ch("dir", rn, rc, 0, 0, 0, FALSE, "none", "none", FALSE) : rn \in DOMAIN Names, rc \in Contents}
    \cup {Ch("dir", rn, rc, 1, 1, 0, TRUE, "wav", "dl", TRUE) : rn \in DOMAIN Names, rc \in Contents}
\* family "structure": every combination of the slots, few root names
DkOpts(dirs, pack) == {"none"} \cup (IF dirs >= 1 THEN {"dl", "dlwav", "up1"} ELSE {}) \cup (IF dirs = 2 THEN {"up2"} ELSE {})
                      \cup (IF dirs >= 1 /\ pack THEN {"side"} ELSE {})
Hash(c) == c.rn + 3 * c.sn + 5 * c.dn + 7 * Ix(<<"none", "wav", "txt">>, c.fk) + 11 * Ix(<<"none", "dl", "dlwav", "up1", "up2", "side">>, c.dk)
           + (IF c.pack THEN 13 ELSE 0) + (IF c.br THEN 17 ELSE 0) + (IF c.rc = "junk" THEN 19 ELSE 0) + 23 * c.dirs
\* (as a predicate on the state, so that TLC enumerates slot by slot instead of building the set)
InStructure(t) ==
    \E dirs \in 0..2 : \E sn \in (IF dirs >= 1 THEN 0..Len(SubFiles) ELSE {0}) : \E dn \in (IF dirs = 2 THEN 0..Len(DeepFiles) ELSE {0}) :
    \E rn \in RootNames \cup {0} : \E rc \in (IF rn = 0 THEN {"audio"} ELSE {"audio", "junk"}) : \E pack \in BOOLEAN : \E br \in BOOLEAN :
    \E fk \in (IF sn > 0 THEN {"none", "wav", "txt"} ELSE {"none"}) : \E dk \in DkOpts(dirs, pack) :
        LET c == Ch("dir", rn, rc, dirs, sn, dn, pack, fk, dk, br) IN Hash(c) % Stride = 0 /\ t = Build(c)
\* the path handed over is not a directory / is a link to the directory
RootFamily == {Ch("file", 0, "audio", 0, 0, 0, FALSE, "none", "none", FALSE), Ch("missing", 0, "audio", 0, 0, 0, FALSE, "none", "none", FALSE)}
              \cup {Ch("link", rn, "audio", 1, sn, 0, TRUE, "wav", dk, TRUE) : rn \in {1, 2}, sn \in {1, 4}, dk \in {"none", "dl", "up1"}}

AllFlags == [strict : BOOLEAN, rec : BOOLEAN, follow : BOOLEAN]
F0 == [strict |-> FALSE, rec |-> FALSE, follow |-> FALSE]
\* a link to an ancestor: only the calls whose walk is finite (docstring: "Care should be taken ... to avoid infinite loops")
FlagsFor(t) == {f \in AllFlags : (HasAncestorLink(t) /\ ~AncestorFollow) => ~(f.rec /\ f.follow)}

\* ------------------------------------------------------------------ Impl
RECURSIVE SeqOfSet(_)
SeqOfSet(S) == IF S = {} THEN <<>> ELSE LET m == SetMin(S) IN <<m>> \o SeqOfSet(S \ {m})
RECURSIVE SetToSeq(_)
SetToSeq(S) == IF S = {} THEN <<>> ELSE LET x == CHOOSE x \in S : TRUE IN <<x>> \o SetToSeq(S \ {x})
Reverse(s) == [i \in DOMAIN s |-> s[Len(s) + 1 - i]]

Init == /\ \/ \E c \in NamesFamily \cup RootFamily : T = Build(c)
           \/ InStructure(T)
        /\ fl \in FlagsFor(T)
        /\ pc = "start" /\ stack = <<>> /\ cur = <<>> /\ todo = <<>> /\ out = <<>> /\ steps = 0 /\ req = {}

\* path.is_dir() is false: ValueError
NotDir == /\ pc = "start" /\ ~RootIsDir(T) /\ pc' = "raised"
          /\ steps' = steps + 1 /\ UNCHANGED <<T, fl, stack, cur, todo, out, req>>
\* not recursive: for file in path.iterdir(): every entry of the top level, directories included
StartFlat == /\ pc = "start" /\ RootIsDir(T) /\ ~fl.rec
             /\ pc' = "flat" /\ todo' = SeqOfSet(Children(T, <<>>))
             /\ steps' = steps + 1 /\ req' = Code(T, fl) /\ UNCHANGED <<T, fl, stack, cur, out>>
\* recursive: os.walk(path, followlinks=follow_symlinks): stack = [top]
StartWalk == /\ pc = "start" /\ RootIsDir(T) /\ fl.rec
             /\ pc' = "walk" /\ stack' = <<<<>>>>
             /\ steps' = steps + 1 /\ req' = Code(T, fl) /\ UNCHANGED <<T, fl, cur, todo, out>>
\* top = stack.pop(); scandir(top): dirs = entries with is_dir() (links followed), nondirs = the rest; the files of top are
\* examined next; then for dirname in reversed(dirs): if followlinks or not islink(join(top, dirname)): stack.append(...)
Visit == /\ pc = "walk" /\ todo = <<>> /\ stack # <<>>
         /\ LET top  == stack[Len(stack)]
                at   == ResolveDir(T, top).at
                dirs == {i \in Children(T, at) : Stat(T, top \o <<T.ents[i].n>>).kind = "dir"}
                push == SeqOfSet({i \in dirs : fl.follow \/ T.ents[i].k # "link"})
            IN  /\ cur' = top
                /\ todo' = SeqOfSet(Children(T, at) \ dirs)
                /\ stack' = FrontOf(stack) \o Reverse([j \in DOMAIN push |-> top \o <<T.ents[push[j]].n>>])
         /\ steps' = steps + 1 /\ UNCHANGED <<T, fl, pc, out, req>>
\* is_audio_file(cur / name, strict) on the next entry
Path == cur \o <<T.ents[Head(todo)].n>>
Examining == pc \in {"flat", "walk"} /\ todo # <<>>
Skip  == todo' = Tail(todo) /\ steps' = steps + 1 /\ UNCHANGED <<T, fl, pc, stack, cur, out, req>>
Yield == todo' = Tail(todo) /\ out' = Append(out, Path) /\ steps' = steps + 1 /\ UNCHANGED <<T, fl, pc, stack, cur, req>>
ExNotFile      == Examining /\ Stat(T, Path).kind # "file" /\ Skip                                      \* not path.is_file()
ExBadExt       == Examining /\ Stat(T, Path).kind = "file" /\ ~ExtOK(LastOf(Path)) /\ Skip              \* suffix[1:].lower() not in VALID
ExYieldLoose   == Examining /\ Stat(T, Path).kind = "file" /\ ExtOK(LastOf(Path)) /\ ~fl.strict /\ Yield
ExYieldStrict  == Examining /\ Stat(T, Path).kind = "file" /\ ExtOK(LastOf(Path)) /\ fl.strict /\ Decodable(T, Stat(T, Path)) /\ Yield
ExRejectStrict == Examining /\ Stat(T, Path).kind = "file" /\ ExtOK(LastOf(Path)) /\ fl.strict /\ ~Decodable(T, Stat(T, Path)) /\ Skip  \* sf.info raises
Done == /\ pc \in {"flat", "walk"} /\ todo = <<>> /\ (pc = "walk" => stack = <<>>)
        /\ pc' = "done" /\ steps' = steps + 1 /\ UNCHANGED <<T, fl, stack, cur, todo, out, req>>
Next == NotDir \/ StartFlat \/ StartWalk \/ Visit \/ ExNotFile \/ ExBadExt \/ ExYieldLoose \/ ExYieldStrict \/ ExRejectStrict \/ Done
Spec == Init /\ [][Next]_vars /\ WF_vars(Next)

\* ------------------------------------------------------------------ export: one case per tree (at the end of its F0 run)
Terminal == pc \in {"done", "raised"}
DsCalls == << [rec |-> FALSE, hash |-> FALSE], [rec |-> FALSE, hash |-> TRUE], [rec |-> TRUE, hash |-> FALSE], [rec |-> TRUE, hash |-> TRUE] >>
Probes(t) == IF RootIsDir(t) THEN SetToSeq(WalkPaths(t, TRUE, TRUE) \cup {<< <<"nothere", "wav">> >>}) ELSE <<>>
Export == (Terminal /\ fl = F0) =>
              PrintT(<<"CASE", ToJson([kind |-> "tree", tree |-> T, calls |-> SetToSeq(FlagsFor(T)), probes |-> Probes(T), ds |-> DsCalls])>>)

\* ------------------------------------------------------------------ Impl => Req, laws, termination
ImplRefinesReq == pc = "done" => Range(out) = req /\ Len(out) = Cardinality(req) /\ req = Code(T, fl)
RaisedIffNotDir == (pc = "raised" => ~RootIsDir(T)) /\ (pc \in {"flat", "walk", "done"} => RootIsDir(T))
ImplPrefix == pc \in {"flat", "walk"} => Range(out) \subseteq req /\ Len(out) = Cardinality(Range(out))
\* laws of Req, evaluated once per tree (in the second state of its F0 run: TLC computes initial states single-threaded) on
\* tables of the three sets for every flag combination of the tree
Fl(s, r, f) == [strict |-> s, rec |-> r, follow |-> f]
LawBetween(code, must, allowed) == \A f \in DOMAIN code : must[f] \subseteq code[f] /\ code[f] \subseteq allowed[f]
LawTopLevel(code) == \A s, f \in BOOLEAN : Fl(s, TRUE, f) \in DOMAIN code => code[Fl(s, FALSE, f)] = {p \in code[Fl(s, TRUE, f)] : Len(p) = 1}
LawStrict(code)   == \A r, f \in BOOLEAN : Fl(TRUE, r, f) \in DOMAIN code => code[Fl(TRUE, r, f)] = {p \in code[Fl(FALSE, r, f)] : Decodable(T, Stat(T, p))}
LawFollow(code)   == \A s, r \in BOOLEAN : Fl(s, r, TRUE) \in DOMAIN code => code[Fl(s, r, FALSE)] \subseteq code[Fl(s, r, TRUE)]
LawFlatIgnoresFollow(code) == \A s \in BOOLEAN : code[Fl(s, FALSE, TRUE)] = code[Fl(s, FALSE, FALSE)]
LawFinite    == \A f \in FlagsFor(T) : f.rec => Finite(T, f.follow)                          \* no directory deeper than K - 1
LawDsBetween == \A r \in BOOLEAN : DsMust(T, r) \subseteq DsAllowed(T, r)
Laws == (steps = 1 /\ fl = F0) =>
            LET code    == TLCEval([f \in FlagsFor(T) |-> Code(T, f)])
                must    == TLCEval([f \in FlagsFor(T) |-> Must(T, f)])
                allowed == TLCEval([f \in FlagsFor(T) |-> Allowed(T, f)])
            IN  /\ LawBetween(code, must, allowed) /\ LawTopLevel(code) /\ LawStrict(code) /\ LawFollow(code)
                /\ LawFlatIgnoresFollow(code) /\ LawFinite /\ LawDsBetween
\* termination: the walk never goes deeper than the bound, every non-terminal state has a step, steps only grow and their number is
\* exactly 2 + directories visited + entries examined
WalkBounded == Len(cur) <= MaxWalkDepth /\ Len(stack) <= 8
NoStuck     == ~Terminal => ENABLED Next
StepsExact  == pc = "done" => steps = 2 + (IF fl.rec THEN Cardinality(Reach(T, TRUE, fl.follow)) + Cardinality({p \in WalkPaths(T, TRUE, fl.follow) : Stat(T, p).kind # "dir"})
                                                    ELSE Cardinality(WalkPaths(T, FALSE, FALSE)))
Terminates  == <>Terminal
=============================================================================
