------------------------------ MODULE T_AoefTrace ------------------------------
(***************************************************************************)
(* Validation of registry traces recorded by the SOUNDEVENT_VERIF hooks    *)
(* (one event per linearization point of DataAdapter, see MC_Aoef) against *)
(* the registry machine, one TLC state per event.                          *)
(*                                                                         *)
(* An observation carries the object graph (in.objs, as exported by TLC or *)
(* generated at random) and, per save/load cycle, the event list           *)
(*   [e |-> "call"|"hit"|"store"|"read"|"endsave"|"resolve"|"lookup",      *)
(*    k |-> kind, o |-> model id or "", n |-> size / hit flag]             *)
(* The machine state (stores, call stack, last read sizes, loaded set) is  *)
(* reconstructed from the events and every event must be an enabled step.  *)
(*                                                                         *)
(* Verdict rule (DESIGN 2.2): only EveryLookupHits is a clause of the      *)
(* property (C02: resolvable in a single pass).  The Drift/... clauses say *)
(* that the implementation no longer follows the transcription in MC_Aoef  *)
(* (then the model's invariants no longer transfer): reported, not an      *)
(* alarm, because the document-level clauses of C01/C02 are judged anyway. *)
(***************************************************************************)
EXTENDS Aoef, TraceKit
VARIABLES l, c, e, st, stack, rd, ld, ch, bad

KindSet == Range(Kinds)
Empty == [k \in KindSet |-> <<>>]
NoRead == [k \in KindSet |-> -1]
ChMap(objs) == [o \in {objs[i].id : i \in DOMAIN objs} |-> ChildrenOf(objs[CHOOSE i \in DOMAIN objs : objs[i].id = o])]
Ev == Obs[l].out.traces[c][e]
Stored(k, o) == \E i \in DOMAIN st[k] : st[k][i] = o
Known(o) == o \in DOMAIN ch
\* document lists that the collection adapter builds from the converted roots instead of reading the sub-adapter
ListKinds(ct) == CASE ct \in {"recording_set", "dataset"} -> {"recording"}
                   [] ct \in {"annotation_set", "evaluation_set"} -> {"clip_ann"}
                   [] ct = "annotation_project" -> {"clip_ann", "task"}
                   [] ct \in {"prediction_set", "model_run"} -> {"clip_pred"}
                   [] OTHER -> {}

TInit == /\ l = 1 /\ c = 1 /\ e = 1 /\ st = Empty /\ stack = <<>> /\ rd = NoRead /\ ld = {} /\ bad = {}
         /\ ch = IF Len(Obs) >= 1 THEN ChMap(Obs[1].in.objs) ELSE <<>>

HaveObs == l <= Len(Obs)
HaveCyc == HaveObs /\ c <= Len(Obs[l].out.traces)
HaveEv  == HaveCyc /\ e <= Len(Obs[l].out.traces[c])

Problems(ev) ==
  CASE ev.e = "call"  -> (IF Stored(ev.k, ev.o) THEN {"Drift/CallOfStored"} ELSE {})
                         \cup (IF stack # <<>> /\ Known(stack[Len(stack)]) /\ ev.o \notin Range(ch[stack[Len(stack)]])
                               THEN {"Drift/NestingFollowsRefs"} ELSE {})
    [] ev.e = "hit"   -> IF Stored(ev.k, ev.o) THEN {} ELSE {"Drift/HitOfUnstored"}
    [] ev.e = "store" -> (IF stack # <<>> /\ stack[Len(stack)] = ev.o THEN {} ELSE {"Drift/StoreNotTop"})
                         \cup (IF Known(ev.o) /\ \E x \in Range(ch[ev.o]) : ~\E k \in KindSet : Stored(k, x)
                               THEN {"Drift/RefClosed"} ELSE {})
                         \cup (IF ev.n = Len(st[ev.k]) + 1 THEN {} ELSE {"Drift/StoreSize"})
    [] ev.e = "read"  -> IF ev.n = Len(st[ev.k]) THEN {} ELSE {"Drift/ReadSize"}
    [] ev.e = "endsave" -> IF \A k \in KindSet : Len(st[k]) > 0 => (rd[k] = Len(st[k]) \/ k \in ListKinds(Obs[l].in.ctype))
                           THEN {} ELSE {"Drift/DocIsStore"}
    [] ev.e = "lookup" -> (IF ev.n = 1 THEN {} ELSE {"EveryLookupHits"})
                          \cup (IF (ev.n = 1) = (ev.o \in ld) THEN {} ELSE {"Drift/LookupConsistent"})
    [] OTHER -> {}

Apply ==
  LET ev == Ev IN
  /\ bad' = bad \cup Problems(ev)
  /\ st' = IF ev.e = "store" /\ ~Stored(ev.k, ev.o) THEN [st EXCEPT ![ev.k] = Append(@, ev.o)] ELSE st
  /\ stack' = CASE ev.e = "call" -> Append(stack, ev.o)
                [] ev.e = "store" /\ stack # <<>> -> SubSeq(stack, 1, Len(stack) - 1)
                [] OTHER -> stack
  /\ rd' = IF ev.e = "read" THEN [rd EXCEPT ![ev.k] = ev.n] ELSE rd
  /\ ld' = IF ev.e = "resolve" THEN ld \cup {ev.o} ELSE ld

Consume  == HaveEv /\ Apply /\ e' = e + 1 /\ UNCHANGED <<l, c, ch>>
NextCyc  == HaveCyc /\ ~HaveEv /\ c' = c + 1 /\ e' = 1 /\ st' = Empty /\ stack' = <<>> /\ rd' = NoRead /\ ld' = {}
            /\ UNCHANGED <<l, ch, bad>>
NextObs  == HaveObs /\ ~HaveCyc /\ l' = l + 1 /\ c' = 1 /\ e' = 1 /\ st' = Empty /\ stack' = <<>> /\ rd' = NoRead /\ ld' = {}
            /\ bad' = {} /\ ch' = IF l + 1 <= Len(Obs) THEN ChMap(Obs[l + 1].in.objs) ELSE <<>>
TNext == Consume \/ NextCyc \/ NextObs

\* report when an observation has been consumed completely; CONSUMED proves the whole file was walked
Report == /\ (HaveObs /\ ~HaveCyc /\ bad # {}) => PrintT(<<"REJECT", ToJson([id |-> Obs[l].id, bad |-> bad])>>)
          /\ (l = Len(Obs) + 1) => PrintT(<<"CONSUMED", ToJson([n |-> Len(Obs)])>>)
=============================================================================
