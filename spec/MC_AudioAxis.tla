---------------------------- MODULE MC_AudioAxis ----------------------------
(***************************************************************************)
(* Enumeration + Impl machine for C15.                                     *)
(*                                                                         *)
(* Initial states = every call of the bounded universe; the actions        *)
(* transcribe the implementation at the grain of its critical steps:       *)
(*   load_recording : arange(0, N/sr, 1/sr)                                *)
(*   load_clip      : offset/length by floor -> seek -> read with zero fill*)
(*                    -> time axis rebuilt from the snapped offset         *)
(*   resample       : num = floor(N*target/sr); scipy's coordinates        *)
(*                    t0 + i*N/(sr*num); advertised step 1/target          *)
(*   compute_spectrogram : nperseg = floor(w*sr), noverlap = floor((w-h)*sr),*)
(*                    scipy.signal.stft (triage of nperseg against the     *)
(*                    input length, zero extension, padding, frame count), *)
(*                    coordinates i*(nperseg-noverlap)/sr and k*sr/nperseg *)
(* TLC checks Impl => Req (the integer clauses of AudioAxis) as invariants.*)
(*                                                                         *)
(* The switches select the algorithm as found or as repaired; the as-found *)
(* settings and TLC's counterexamples are kept in                          *)
(* spec/history/MC_AudioAxis_prefix_*.cfg / *.out.                         *)
(***************************************************************************)
EXTENDS AudioAxis, TLC, Json
CONSTANTS ClipFiles,   \* set of <<fr, te_p, te_q, tden, ch, N>> : files on which all clips are enumerated
          Pad,         \* clips reach up to Pad samples past the end of the file
          SpecSrcs,    \* set of <<fr, te_p, te_q, tden, ch, N, s, e>> : source arrays (e = 0: load_recording, else load_clip [s, e])
          MaxW,        \* window 1..MaxW ticks of 1/tden s, hop 1..2*window (derived-twice cases: 1..window)
          ResSrcs,     \* as SpecSrcs
          Targets,     \* target samplerates
          MaxNum,      \* resample cases with more than MaxNum output samples are skipped
          SpecStep,    \* "requested": step attribute = hop_size (as found) | "realised": (nperseg - noverlap)/samplerate
          WinClamp,    \* FALSE: nperseg is clamped to the input length only inside scipy (as found) | TRUE: before it is advertised
          SeekClamp,   \* FALSE: seek(offset) fails beyond the end of file (as found) | TRUE: seek(min(offset, frames))
          EmptyGuard,  \* FALSE: create_range_dim reads coords[-1] of an empty range (as found) | TRUE: guarded
          Pres,        \* derived-twice cases: the source is first resampled to a rate of Pres, then the case's operation is applied to the SAME source
          PreSpecSrcs, \* the sources of SpecSrcs on which the derived-twice spectrograms are enumerated (all of ResSrcs are)
          HistStride,  \* every HistStride-th clip is also run with each history: load, mutate / rewrite, load again
          ReadCache,   \* FALSE: every load reads the file (the implementation keeps no state between calls) |
                       \* TRUE: decoded blocks are cached by (path, offset, samples) and handed out without a copy (seeded change C15-r2sb1)
          DeclFiles,   \* set of <<fr, te_p, te_q, tden, ch, N, decl>> : Recordings built by hand whose declared samplerate decl differs
                       \* from header rate x time expansion; all clips are enumerated on them as on ClipFiles
          HeaderRate,  \* FALSE: load_clip builds its time axis from recording.samplerate (the implementation) |
                       \* TRUE: from header rate x time_expansion (seeded change C15-r7sb1)
          ChainSrcs,   \* set of <<fr, te_p, te_q, tden, ch, N>> : recordings on which chains resample(resample(x, t1), t2) are enumerated
          ChainPairs,  \* set of <<t1, t2>>
          ChainInexact,\* FALSE: only chains whose intermediate length N*t1/sr is exact (the others drift by more than a step in the
                       \*        implementation as found: finding candidate, history/MC_AudioAxis_found_chain.*) | TRUE: all
          StaleRate,   \* FALSE: each resample takes the rate of its input from the input's advertised step (the implementation) |
                       \* TRUE: from a samplerate attribute that resample copies unchanged (seeded change C15-r10sb1)
          OptSpecSrcs, \* the sources of SpecSrcs on which the option combinations padded x boundary are enumerated (windows up to OptMaxW)
          OptMaxW,
          DropBoundary,\* FALSE: boundary is passed on as given (the implementation) | TRUE: dropped (None) when padded = False (seeded C15-r11sb1)
          AliasAttrs   \* FALSE: resample builds fresh attributes for the new time axis (the implementation) |
                       \* TRUE: it writes step = 1/target into the live attrs of the source's time coordinate (seeded change C15-sb2)
VARIABLES c, pc, m

vars == <<c, pc, m>>

Mk(kind, f, s, e, src, w, h, tg) ==
    [kind |-> kind, fr |-> f[1], te |-> <<f[2], f[3]>>, tden |-> f[4], ch |-> f[5], N |-> f[6],
     s |-> s, e |-> e, src |-> src, w |-> w, h |-> h, target |-> tg, pre |-> 0,
     hist |-> "none", N2 |-> f[6], base2 |-> 0, decl |-> 0, ops |-> <<>>, padded |-> 1, bnd |-> "default"]
SpecOpts == {<<pd, b>> : pd \in {0, 1}, b \in {"default", "zeros", "even", "none"}} \ {<<1, "default">>}
WithDecl(k, d) == [k EXCEPT !.decl = d]
MaxTickD(f) == ((f[6] + Pad) * f[4]) \div f[7] + 1
WithPre(k, p) == [k EXCEPT !.pre = p]
Hists == {"mutate", "rewrite", "rewrite_len"}
\* the file at the second load: other values (base 100); "rewrite_len": two frames longer or (odd start tick) shorter
WithHist(k, h) == [k EXCEPT !.hist = h,
                            !.N2 = IF h = "rewrite_len" THEN (IF k.s % 2 = 0 THEN k.N + 2 ELSE Max(1, k.N - 2)) ELSE k.N,
                            !.base2 = IF h = "mutate" THEN 0 ELSE 100]
SrF(f)     == (f[1] * f[2]) \div f[3]
MaxTick(f) == ((f[6] + Pad) * f[4]) \div SrF(f) + 1
SrcKind(f) == IF f[8] = 0 THEN "rec" ELSE "clip"

\* source array of resamp / spec on the lattice
SrcN(k)   == IF k.src = "rec" THEN k.N ELSE LenNum(k) \div k.tden
SrcOff(k) == IF k.src = "rec" THEN 0 ELSE OffNum(k) \div k.tden

\* output samples of the preliminary resample(source, p)
PreNum(k, p) == (SrcN(k) * p) \div Sr(k)

m0 == [off |-> 0, len |-> 0, pos |-> 0, rows |-> <<>>, rate |-> 0, t0 |-> 0, d |-> <<>>, step |-> 0,
       fd |-> <<>>, fstep |-> 0, np0 |-> 0, np |-> 0, nov |-> 0, num |-> 0, raised |-> "",
       pass |-> 1, fN |-> 0, fbase |-> 0,     \* which load this is; the file as it is now: frames, first value - 1
       cache |-> <<>>,                         \* ReadCache variant: <<rows>> of the cached block (<<>>: nothing cached)
       t0h |-> 0,                              \* spectrogram: first time coordinate in half samples
       k |-> 1, crate |-> 0, cd |-> <<>>, cstep |-> 0,   \* chains: next operation, advertised rate of the current array, final axis
       sstep |-> <<1, 1>>,        \* the step the SOURCE array advertises, in samples (a rational <<p, q>>)
       sobs |-> <<0, 0, 0>>]      \* re-observation of the source after the call(s): <<frames, p, q>>

\* (quantifiers instead of  c \in RecCases \cup ClipCases ...: TLC enumerates them without building the big set)
Init == /\ pc = "start"
        /\ \/ \E f \in ClipFiles : c = Mk("rec", f, 0, 0, "rec", 0, 0, 0)
           \/ \E f \in ClipFiles : \E h \in Hists : c = WithHist(Mk("rec", f, 0, 0, "rec", 0, 0, 0), h)
           \/ \E f \in ClipFiles : \E e \in 0..MaxTick(f) : \E s \in 0..e : c = Mk("clip", f, s, e, "clip", 0, 0, 0)
           \/ \E f \in DeclFiles : c = WithDecl(Mk("rec", f, 0, 0, "rec", 0, 0, 0), f[7])
           \/ \E f \in DeclFiles : \E e \in 0..MaxTickD(f) : \E s \in 0..e :        \* (every third clip; all on/off-boundary combinations remain)
                 (s + 2 * e) % 3 = 0 /\ c = WithDecl(Mk("clip", f, s, e, "clip", 0, 0, 0), f[7])
           \/ \E f \in ClipFiles : \E e \in 0..MaxTick(f) : \E s \in 0..e : \E h \in Hists :
                 (s + 3 * e) % HistStride = 0 /\ c = WithHist(Mk("clip", f, s, e, "clip", 0, 0, 0), h)
           \/ \E f \in SpecSrcs : \E w \in 1..MaxW : \E h \in 1..(2 * w) :
                 \E p \in {0} \cup (IF f \in PreSpecSrcs /\ h <= w THEN Pres ELSE {}) :
                    LET k == Mk("spec", f, f[7], f[8], SrcKind(f), w, h, 0)
                    IN  PreNum(k, p) <= MaxNum /\ c = WithPre(k, p)
           \/ \E f \in OptSpecSrcs : \E w \in 1..OptMaxW : \E h \in 1..(2 * w) : \E op \in SpecOpts :
                 c = [Mk("spec", f, f[7], f[8], SrcKind(f), w, h, 0) EXCEPT !.padded = op[1], !.bnd = op[2]]
           \/ \E f \in ResSrcs : \E tg \in Targets : \E p \in {0} \cup Pres :
                 LET k == Mk("resamp", f, f[7], f[8], SrcKind(f), 0, 0, tg)
                 IN  ImplNum(k, SrcN(k)) <= MaxNum /\ PreNum(k, p) <= MaxNum /\ c = WithPre(k, p)
           \/ \E f \in ChainSrcs : \E p \in ChainPairs :
                 /\ ChainInexact \/ (f[6] * p[1]) % SrF(f) = 0
                 /\ (f[6] * p[1]) \div SrF(f) >= 2 /\ (((f[6] * p[1]) \div SrF(f)) * p[2]) \div p[1] \in 1..MaxNum
                 /\ c = [Mk("chain", <<f[1], f[2], f[3], f[4], f[5], f[6]>>, 0, 0, "rec", 0, 0, 0)
                           EXCEPT !.ops = <<<<"resamp", p[1], 0>>, <<"resamp", p[2], 0>>>>]
        /\ m = [m0 EXCEPT !.fN = c.N]

Stay == UNCHANGED c
Iota(n) == [i \in 1..n |-> i - 1]

\* where a load ends: the first load of a case with a history is followed by the caller's / the world's step
After == IF c.hist # "none" /\ m.pass = 1 THEN "between" ELSE "done"
\* the block a load reads: from the file as it is now -- or, in the ReadCache variant, whatever is cached under the
\* same (path, offset, samples)
Block(pos, len) == IF ReadCache /\ m.cache # <<>> THEN m.cache[1]
                   ELSE [i \in 1..len |-> FileRow(pos + i - 1, c.ch, m.fN, m.fbase)]

(* ---- load_recording: load_audio(path) whole file; create_time_range(0, duration, samplerate), duration from the
        Recording (rebuilt from the file before the second load) ---- *)
Rec == /\ pc = "start" /\ c.kind = "rec"
       /\ LET rows == Block(0, m.fN) IN
          IF Len(rows) = m.fN
          THEN /\ m' = [m EXCEPT !.len = m.fN, !.rows = rows, !.d = Iota(m.fN), !.step = 1,
                                 !.cache = IF ReadCache THEN <<rows>> ELSE <<>>]
               /\ pc' = After
          ELSE /\ m' = [m EXCEPT !.raised = "ValueError"]            \* xarray: coordinate / data length mismatch
               /\ pc' = "raised"
       /\ Stay

(* ---- load_clip ---- *)
ClipArith == /\ pc = "start" /\ c.kind = "clip"
             /\ m' = [m EXCEPT !.off = OffNum(c) \div c.tden,          \* int(np.floor(start_time * samplerate))
                               !.len = LenNum(c) \div c.tden]          \* int(np.floor(duration * samplerate))
             /\ pc' = "seek" /\ Stay
SeekFail  == /\ pc = "seek" /\ m.off > m.fN /\ ~SeekClamp              \* libsndfile: psf_fseek() failed
             /\ m' = [m EXCEPT !.raised = "LibsndfileError"]
             /\ pc' = "raised" /\ Stay
Seek      == /\ pc = "seek" /\ ~(m.off > m.fN /\ ~SeekClamp)          \* (written without a disjunction: TLC would split the action)
             /\ m' = [m EXCEPT !.pos = Min(m.off, m.fN)]
             /\ pc' = "read" /\ Stay
Read      == /\ pc = "read"                                            \* fp.read(frames=samples, fill_value=0)
             /\ LET rows == Block(m.pos, m.len)
                IN  m' = [m EXCEPT !.rows = rows, !.cache = IF ReadCache THEN <<rows>> ELSE <<>>]
             /\ pc' = "axis" /\ Stay
\* create_range_dim(start = off/sr, stop = start + len/sr, step = 1/sr): arange has ceil((stop-start)/step) = len
\* elements; the last one, off+len-1, is dropped if >= stop - step/2 (never, on the lattice); coords[-1] of an
\* empty range raises
AxisEmpty == /\ pc = "axis" /\ m.len = 0 /\ ~EmptyGuard
             /\ m' = [m EXCEPT !.raised = "IndexError"]
             /\ pc' = "raised" /\ Stay
Axis      == /\ pc = "axis" /\ ~(m.len = 0 /\ ~EmptyGuard)
             /\ LET cnt  == m.len
                    drop == cnt > 0 /\ 2 * (m.off + cnt - 1) >= 2 * (m.off + m.len) - 1
                \* t0, d, step are in samples of m.rate, the rate the axis is built from
                IN  m' = [m EXCEPT !.t0 = m.off, !.d = Iota(IF drop THEN cnt - 1 ELSE cnt), !.step = 1,
                                   !.rate = IF HeaderRate THEN (c.fr * c.te[1]) \div c.te[2] ELSE Sr(c)]
             /\ pc' = After /\ Stay

(* ---- between the two loads of a case with a history: the caller edits the returned array in place (in the
        ReadCache variant that array IS the cached block), or the file is rewritten; then the same call is made again.
        The implementation keeps nothing from the first call ---- *)
Between == /\ pc = "between"
           /\ LET edited == [i \in 1..Len(m.rows) |-> [j \in 1..c.ch |-> m.rows[i][j] + 3]]
              IN  m' = [m EXCEPT !.pass = 2,
                                 !.rows = IF c.hist = "mutate" THEN edited ELSE m.rows,
                                 !.cache = IF c.hist = "mutate" /\ ReadCache THEN <<edited>> ELSE m.cache,
                                 !.fN = c.N2, !.fbase = c.base2]
           /\ pc' = "start" /\ Stay                                   \* Reload: the same call again

(* ---- derived twice: resample(source, pre) first, its result set aside; the case's operation then runs on the same source.
        The implementation does not touch its input; the AliasAttrs variant writes the new step into the source's attrs
        (after scipy returned, i.e. not when the call raises) ---- *)
Pre == /\ pc = "start" /\ c.kind \in {"resamp", "spec"}
       /\ m' = [m EXCEPT !.sstep = IF AliasAttrs /\ c.pre > 0 /\ PreNum(c, c.pre) >= 1 /\ SrcN(c) >= 2
                                   THEN <<Sr(c), c.pre>> ELSE m.sstep]
       /\ pc' = "main" /\ Stay

(* ---- resample(source, target) ---- *)
ResArith == /\ pc = "main" /\ c.kind = "resamp"
            /\ m' = [m EXCEPT !.num = ImplNum(c, SrcN(c)), !.t0 = SrcOff(c)]
            /\ pc' = "res" /\ Stay
ResRaise == /\ pc = "res" /\ ~(m.num >= 1 /\ SrcN(c) >= 2)                \* scipy: num must be positive; t[1] of a 1-sample axis
            /\ m' = [m EXCEPT !.raised = "ValueError"]
            /\ pc' = "raised" /\ Stay
\* scipy: new_t = arange(num) * (t[1]-t[0]) * Nx/num + t[0]; unit 1/(sr*num*target): d_i = i*Nx*target, 1/target = sr*num
ResAxis  == /\ pc = "res" /\ m.num >= 1 /\ SrcN(c) >= 2
            /\ m' = [m EXCEPT !.len = m.num, !.d = [i \in 1..m.num |-> (i - 1) * SrcN(c) * c.target],
                              !.step = Sr(c) * m.num,
                              !.sstep = IF AliasAttrs THEN <<Sr(c), c.target>> ELSE m.sstep]
            /\ pc' = "reobs" /\ Stay

(* ---- compute_spectrogram(source, w, h) ---- *)
SpecArith == /\ pc = "main" /\ c.kind = "spec"
             /\ m' = [m EXCEPT !.np0 = ImplNp0(c), !.np = ImplNp(c, SrcN(c)), !.nov = ImplNov(c), !.t0 = SrcOff(c)]
             /\ pc' = "triage" /\ Stay
SpecRaise == /\ pc = "triage" /\ ImplSpecRaises(c, SrcN(c)) = TRUE   \* (= TRUE: keeps TLC from splitting the action)
             /\ m' = [m EXCEPT !.raised = "ValueError"]
             /\ pc' = "raised" /\ Stay
\* time unit 1/(sr*tden): one sample = tden, requested hop = h*sr; frequency unit sr/(np*npadv): bin k = k*npadv
SpecFrames == /\ pc = "triage" /\ ~ImplSpecRaises(c, SrcN(c))
              /\ LET hop   == m.np - m.nov
                     noext == c.bnd = "none" \/ (DropBoundary /\ c.padded = 0)
                     F     == ImplFramesB(c, SrcN(c), noext, c.padded = 1)
                     npadv == IF WinClamp THEN m.np ELSE m.np0           \* the nperseg the step attributes are computed from
                 IN  m' = [m EXCEPT !.len = F,
                                    !.d = [i \in 1..F |-> (i - 1) * hop * c.tden],
                                    !.step = IF SpecStep = "requested" THEN c.h * Sr(c) ELSE (npadv - m.nov) * c.tden,
                                    !.fd = [k \in 1..ImplBins(c, SrcN(c)) |-> (k - 1) * npadv],
                                    !.fstep = m.np,
                                    \* scipy: arange(nperseg/2, ...)/fs, minus (nperseg/2)/fs when the signal was extended
                                    !.t0h = 2 * SrcOff(c) + (IF noext THEN m.np ELSE 0)]
              /\ pc' = "reobs" /\ Stay

(* ---- chains of resample on one loaded recording: one action per operation.  Each resample computes
        num = int(size * target * step) from the ADVERTISED step of its input, while scipy spaces the new coordinates over the
        span of the input's coordinates: the original N/sr seconds, whatever the advertised steps said ---- *)
ChainStart == /\ pc = "start" /\ c.kind = "chain"
              /\ m' = [m EXCEPT !.len = c.N, !.crate = Sr(c), !.k = 1]
              /\ pc' = "chain" /\ Stay
ChainRes   == /\ pc = "chain" /\ m.k <= Len(c.ops)
              /\ LET t   == c.ops[m.k][2]
                     num == (m.len * t) \div (IF StaleRate THEN Sr(c) ELSE m.crate)
                 IN  IF num >= 1 /\ m.len >= 2
                     THEN m' = [m EXCEPT !.len = num, !.crate = t, !.k = m.k + 1] /\ pc' = "chain"
                     ELSE m' = [m EXCEPT !.raised = "ZeroDivisionError"] /\ pc' = "raised"
              /\ Stay
\* final axis in units of 1/(sr * len * crate): spacing N/(sr*len) = N*crate, advertised 1/crate = sr*len
ChainEnd   == /\ pc = "chain" /\ m.k > Len(c.ops)
              /\ m' = [m EXCEPT !.cd = [i \in 1..m.len |-> (i - 1) * c.N * m.crate], !.cstep = Sr(c) * m.len]
              /\ pc' = "reobs" /\ Stay

(* ---- after the call(s): look at the source array again ---- *)
Reobserve == /\ pc = "reobs"
             /\ m' = [m EXCEPT !.sobs = <<SrcN(c), m.sstep[1], m.sstep[2]>>]
             /\ pc' = "done" /\ Stay

Next == Rec \/ ClipArith \/ SeekFail \/ Seek \/ Read \/ AxisEmpty \/ Axis
        \/ ChainStart \/ ChainRes \/ ChainEnd \/ Between \/ Pre \/ ResArith \/ ResRaise \/ ResAxis \/ SpecArith \/ SpecRaise \/ SpecFrames \/ Reobserve
Spec == Init /\ [][Next]_vars /\ WF_vars(Next)

Export == pc \in {"done", "raised"} => PrintT(<<"CASE", ToJson(c)>>)

(* ---- universes (cfg files cannot write tuples; they substitute  ClipFiles <- Q_ClipFiles  etc.) ---- *)
\* <<fr, te_p, te_q, tden, ch, N>>: sr 8 / sr 8 via te 1/2 / sr 16 via te 2 on the quarter-sample lattice (exact);
\* 8000 Hz with dyadic times (exact inputs); te 10, 10 Hz, 44100 Hz (directly and via te 2): stress units
Q_ClipFiles == {<<8, 1, 1, 32, 1, 5>>, <<16, 1, 2, 32, 2, 3>>, <<8, 2, 1, 64, 3, 4>>, <<8000, 1, 1, 256, 1, 130>>,
                <<8, 10, 1, 320, 1, 4>>, <<10, 1, 1, 40, 2, 4>>, <<44100, 1, 1, 176400, 1, 3>>, <<22050, 2, 1, 176400, 2, 3>>}
\* <<fr, te_p, te_q, tden, ch, N, s, e>>
Q_SpecSrcs == {<<8, 1, 1, 32, 1, 12, 0, 0>>, <<8, 1, 1, 32, 2, 16, 10, 50>>, <<8, 2, 1, 64, 1, 12, 0, 0>>, <<8, 1, 1, 32, 1, 2, 0, 0>>,
               <<10, 1, 1, 40, 1, 12, 4, 44>>, <<22050, 1, 1, 88200, 1, 12, 0, 0>>}
\* 93 Hz: the smallest integer rate r for which 1/(1.0/r) < r in doubles (so int(1/step) = r - 1); 100 frames
\* resampled to 186 / 279 Hz are 200 / 300 samples
Q_ResSrcs  == {<<93, 1, 1, 372, 1, 100, 0, 0>>, <<8, 1, 1, 32, 1, 12, 0, 0>>, <<8, 1, 1, 32, 2, 16, 10, 50>>, <<8, 2, 1, 64, 1, 7, 0, 0>>, <<10, 1, 1, 40, 1, 9, 0, 0>>,
               <<44100, 1, 1, 176400, 1, 12, 0, 0>>}
\* header 8 Hz declared 16 Hz, header 12 Hz declared 8 Hz (exact units); 5512 Hz x 8 declared 44100, 83333 Hz x 3 declared
\* 250000, 8000 Hz declared 8001 (stress units); quarter-sample lattices of the declared rate
Q_DeclFiles   == {<<8, 1, 1, 64, 1, 5, 16>>, <<12, 1, 1, 32, 2, 4, 8>>, <<5512, 8, 1, 176400, 1, 4, 44100>>,
                  <<83333, 3, 1, 1000000, 1, 3, 250000>>, <<8000, 1, 1, 32004, 2, 4, 8001>>}
T_DeclFiles   == Q_DeclFiles \cup {<<4, 2, 1, 64, 2, 9, 16>>, <<16, 1, 2, 64, 1, 7, 16>>, <<5512, 8, 1, 176400, 2, 7, 44100>>,
                                   <<10, 1, 1, 44, 1, 6, 11>>}
Q_ChainSrcs   == {<<8, 1, 1, 32, 1, 16>>, <<16, 1, 2, 32, 2, 24>>, <<10, 1, 1, 40, 1, 20>>, <<16000, 1, 1, 64000, 1, 64>>}
Q_ChainPairs  == {<<4, 6>>, <<4, 2>>, <<4, 12>>, <<2, 3>>, <<16, 12>>, <<5, 4>>, <<8000, 12000>>, <<8000, 4000>>, <<4000, 6000>>}
\* as found (history): inexact intermediate lengths
F_ChainSrcs   == Q_ChainSrcs \cup {<<8, 1, 1, 32, 1, 13>>, <<16000, 1, 1, 64000, 1, 101>>}
F_ChainPairs  == Q_ChainPairs \cup {<<4, 24>>, <<8000, 48000>>}
Q_OptSpecSrcs == {<<8, 1, 1, 32, 1, 12, 0, 0>>, <<8, 1, 1, 32, 2, 16, 10, 50>>}
Q_Pres        == {3, 12, 22050}
Q_PreSpecSrcs == {<<8, 1, 1, 32, 2, 16, 10, 50>>, <<22050, 1, 1, 88200, 1, 12, 0, 0>>}
Q_Targets  == {1, 2, 3, 4, 5, 6, 7, 8, 9, 10, 12, 16, 20, 186, 279, 22050, 44100, 48000}

\* thorough tier
T_ClipFiles == {<<8, 1, 1, 32, 1, 16>>, <<8, 1, 1, 32, 2, 7>>, <<8, 1, 1, 32, 3, 1>>, <<16, 1, 2, 32, 2, 9>>, <<4, 2, 1, 32, 1, 6>>,
                <<8, 2, 1, 64, 3, 8>>, <<16, 1, 1, 64, 1, 10>>, <<8000, 1, 1, 256, 1, 130>>, <<8000, 1, 1, 1024, 2, 40>>,
                <<8, 10, 1, 320, 1, 6>>, <<10, 1, 1, 40, 2, 8>>, <<10, 1, 2, 20, 1, 5>>, <<44100, 1, 1, 176400, 1, 5>>,
                <<22050, 2, 1, 176400, 2, 4>>, <<22050, 1, 1, 88200, 3, 6>>, <<4410, 10, 1, 176400, 1, 4>>}
T_SpecSrcs == {<<8, 1, 1, 32, 1, 20, 0, 0>>, <<8, 1, 1, 32, 2, 24, 10, 70>>, <<8, 2, 1, 64, 1, 16, 0, 0>>, <<16, 1, 2, 32, 1, 12, 5, 41>>,
               <<8, 1, 1, 32, 1, 2, 0, 0>>, <<8, 1, 1, 32, 1, 5, 0, 0>>, <<10, 1, 1, 40, 1, 16, 4, 60>>, <<22050, 1, 1, 88200, 1, 20, 0, 0>>,
               <<44100, 1, 1, 176400, 2, 16, 6, 62>>, <<8, 10, 1, 320, 1, 14, 0, 0>>}
T_ResSrcs  == {<<93, 1, 1, 372, 1, 100, 0, 0>>, <<31, 3, 1, 372, 1, 120, 8, 400>>, <<99, 1, 1, 396, 1, 100, 0, 0>>, <<8, 1, 1, 32, 1, 12, 0, 0>>, <<8, 1, 1, 32, 2, 16, 10, 50>>, <<8, 2, 1, 64, 1, 7, 0, 0>>, <<16, 1, 2, 32, 1, 11, 0, 0>>,
               <<10, 1, 1, 40, 1, 9, 0, 0>>, <<10, 1, 1, 40, 2, 12, 6, 46>>, <<44100, 1, 1, 176400, 1, 12, 0, 0>>,
               <<22050, 1, 1, 88200, 1, 30, 8, 100>>, <<8000, 1, 1, 256, 1, 130, 0, 0>>, <<8, 10, 1, 320, 1, 9, 0, 0>>}
T_Pres        == {3, 5, 12, 16, 22050, 48000}
T_PreSpecSrcs == {<<8, 1, 1, 32, 2, 24, 10, 70>>, <<16, 1, 2, 32, 1, 12, 5, 41>>, <<22050, 1, 1, 88200, 1, 20, 0, 0>>}
T_Targets  == (1..24) \cup {186, 198, 279, 30, 32, 40, 64, 80, 100, 4000, 8000, 11025, 16000, 22050, 32000, 44100, 48000, 96000}

(* ---- Impl => Req ---- *)
\* (times of ClipReqI are in samples of the recording's samplerate, so the axis must have been built from that rate)
ImplClipRefinesReq == (pc = "done" /\ c.kind = "clip") => ClipReqI(c, m.len, m.t0, m.rows, m.d) /\ m.rate = Sr(c)
\* load_recording returns the file as it is at the time of the call (what ClipSameAsRecording compares clips with)
ImplRecIsFile      == (pc = "done" /\ c.kind = "rec") =>
                         m.len = c.N2 /\ m.rows = [i \in 1..c.N2 |-> FileRow(i - 1, c.ch, c.N2, c.base2)]
ImplProduces       == pc = "raised" => ~MustProduceN(c, TRUE, SrcN(c))
ImplTimeAxis       == pc = "done" => AxisReqI(m.d, m.step)
ImplFreqAxis       == (pc = "done" /\ c.kind = "spec") => AxisReqI(m.fd, m.fstep)
\* an array that told the truth when it was produced still does after it has been used as a source:
\* its coordinates are the sample instants, so the advertised step p/q samples must keep every i within one step of i*p/q
\* chains: the final axis agrees with its advertised step -- when every intermediate length was exact
ChainExactI  == \A j \in 1..(Len(c.ops) - 1) : (c.N * c.ops[j][2]) % Sr(c) = 0
ImplChainAxis      == (pc = "done" /\ c.kind = "chain" /\ ChainExactI) => AxisReqI(m.cd, m.cstep)
ImplChainAxisAll   == (pc = "done" /\ c.kind = "chain") => AxisReqI(m.cd, m.cstep)      \* (history: violated as found)
ImplSourceTruthful == c.kind \in {"resamp", "spec"} =>
                         /\ AxisWithinRatI(SrcN(c), m.sstep[1], m.sstep[2])
                         /\ pc = "done" => m.sobs[1] = SrcN(c) /\ AxisWithinRatI(m.sobs[1], m.sobs[2], m.sobs[3])
ImplSpecStartsAtSource == (pc = "done" /\ c.kind = "spec" /\ c.bnd # "none") => m.t0h = 2 * SrcOff(c)
ImplStartsAtSource == pc = "done" => m.t0 = (IF c.kind = "rec" THEN 0 ELSE IF c.kind = "clip" THEN OffNum(c) \div c.tden ELSE SrcOff(c))
\* resample: the drift is bounded by one advertised step whatever the rates (the quantity TLC checks in ImplTimeAxis)
ResampleDriftBounded == (pc = "done" /\ c.kind = "resamp") =>
                           \A i \in 0..(m.num - 1) : i * (SrcN(c) * c.target - Sr(c) * m.num) < Sr(c) * m.num

(* ---- laws of the specification ---- *)
LawFloor   == IsFloor(OffNum(c) \div c.tden, OffNum(c), c.tden) /\ IsFloor(LenNum(c) \div c.tden, LenNum(c), c.tden)
LawAccExact == \A sd \in {-2, -1, 0, 1, 2} : AccInts(OffNum(c), c.tden, sd, TRUE) = {OffNum(c) \div c.tden}
LawAccNear  == (OffNum(c) % c.tden = 0 /\ OffNum(c) > 0) =>
                  /\ AccInts(OffNum(c), c.tden, -1, FALSE) = {OffNum(c) \div c.tden - 1, OffNum(c) \div c.tden}
                  /\ AccInts(OffNum(c), c.tden, -5, FALSE) = {OffNum(c) \div c.tden - 1}
                  /\ AccInts(OffNum(c), c.tden, 5, FALSE) = {OffNum(c) \div c.tden}
LawRateIsInteger == (c.fr * c.te[1]) % c.te[2] = 0 /\ Sr(c) >= 1
\* 32-bit headroom of every product formed above
LawBounded == /\ c.e * Sr(c) < 1000000000
              /\ (pc = "done" /\ Len(m.d) > 0) => m.d[Len(m.d)] < 1000000000 /\ Len(m.d) * m.step < 2000000000
Terminates == <>(pc \in {"done", "raised"})
=============================================================================
