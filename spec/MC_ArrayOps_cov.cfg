SPECIFICATION Spec
CONSTANTS
  MaxLen = 2
  MaxN = 2
  MaxK = 2
  AdjExt = 5
INVARIANT LawUndo
INVARIANT LawOffsetLast
INVARIANT LawScaleThenOffsetLoses
INVARIANT LawNormalize
INVARIANT LawNormalizeTwice
INVARIANT LawCenter
INVARIANT LawCenterTwice
INVARIANT LawOrderKept
INVARIANT LawDbMonotone
INVARIANT LawDbClamped
INVARIANT LawDbFloor
INVARIANT LawResizeSpan
INVARIANT ImplAdjust
INVARIANT LawAdjustNone
INVARIANT LawStepOutcome
INVARIANT LawWFillOffs
PROPERTY Terminates
CHECK_DEADLOCK FALSE
