------------------------------ MODULE MC_Lookup ------------------------------
(* Enumeration + implementation machine for X03.  The implementation is a generator scan: one action per element         *)
(* inspected (`Skip`), one for the hit (`Hit`), one for exhaustion (`Exhaust`), one for the refusal (`Refuse`).            *)
(* TLC proves on every case that the outcome of the scan is accepted by Req, that the scan stops at the FIRST match       *)
(* (everything before the hit was inspected and did not match), and that it terminates in at most Len(xs)+1 steps.        *)
EXTENDS Lookup, Json, TLC
CONSTANTS MaxLen, Stride
VARIABLES c, pc, i, res
vars == <<c, pc, i, res>>
RECURSIVE SeqsUpTo(_)
SeqsUpTo(n) == IF n = 0 THEN {<< >>} ELSE LET S == SeqsUpTo(n - 1) IN S \cup {Append(s, e) : s \in {x \in S : Len(x) = n - 1}, e \in Elem}
Cases == [xs : SeqsUpTo(MaxLen), term : 0..NT, lbl : 0..Len(Labels), dflt : 0..1, kind : {"tag", "feature"}, cont : {"list", "tuple"}]
RECURSIVE CodeSeq(_)
CodeSeq(s) == IF s = << >> THEN 1 ELSE (3 * CodeSeq(Tail(s)) + 2 * Head(s).t + Head(s).v) % 1009
Code(x) == CodeSeq(x.xs) + 5 * x.term + 7 * x.lbl + 11 * x.dflt + (IF x.kind = "tag" THEN 0 ELSE 13) + (IF x.cont = "list" THEN 0 ELSE 17)
Init == c \in {x \in Cases : Len(x.xs) <= 1 \/ Code(x) % Stride = 0} /\ pc = "start" /\ i = 1 /\ res = <<0, "">>

P(e) == IF c.term # 0 THEN MatchTerm(e, c.term) ELSE MatchLabel(e, c.lbl)
Refuse  == pc = "start" /\ c.term = 0 /\ c.lbl = 0 /\ pc' = "done" /\ res' = <<0, "raise">> /\ UNCHANGED <<c, i>>
Begin   == pc = "start" /\ (c.term # 0 \/ c.lbl # 0) /\ pc' = "scan" /\ UNCHANGED <<c, i, res>>
Skip    == pc = "scan" /\ i <= Len(c.xs) /\ ~P(c.xs[i]) /\ i' = i + 1 /\ UNCHANGED <<c, pc, res>>
Hit     == pc = "scan" /\ i <= Len(c.xs) /\ P(c.xs[i]) /\ pc' = "done" /\ res' = <<i, "elem">> /\ UNCHANGED <<c, i>>
Exhaust == pc = "scan" /\ i > Len(c.xs) /\ pc' = "done" /\ res' = <<0, Fallback(c)>> /\ UNCHANGED <<c, i>>
Next == Refuse \/ Begin \/ Skip \/ Hit \/ Exhaust
Spec == Init /\ [][Next]_vars /\ WF_vars(Next)

ImplRefinesReq == pc = "done" => res \in Accepted(c) /\ res = ImplOutcome(c)
ScanIsFirst    == pc = "scan" => \A j \in 1..(i - 1) : ~P(c.xs[j])
Bounded        == TLCGet("level") <= Len(c.xs) + 3
\* laws of the specification itself
LawPrefix      == pc = "done" /\ res[2] = "elem" =>        \* a hit depends only on the prefix up to it: appending anything keeps it
                    \A e \in Elem : First(Append(c.xs, e), 1, LAMBDA x, q : P(x), 0) = res[1]
LawLabelCoarser == pc = "start" /\ c.term # 0 =>           \* a match by term is a match by that term's label, never later
                    LET bt == First(c.xs, 1, MatchTerm, c.term)
                        bl == First(c.xs, 1, LAMBDA e, q : Terms[e.t].label = Terms[c.term].label, 0)
                    IN  bt # 0 => bl # 0 /\ bl <= bt
LawHashTwins   == TermEq(1, 3) = FALSE /\ Terms[1].name = Terms[3].name     \* the catalogue really separates hash from equality
Terminates == <>(pc = "done")
Export == pc = "done" => PrintT(<<"CASE", ToJson(c @@ [iidx |-> res[1], ikind |-> res[2]])>>)
=============================================================================
