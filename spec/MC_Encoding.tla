------------------------------ MODULE MC_Encoding ------------------------------
(***************************************************************************)
(* Enumeration machine for C19.                                            *)
(*  enc cases : SimpleEncoder + the three encodings as loops (Impl): the   *)
(*    mapping is a python dict filled in vocabulary order (a later entry   *)
(*    with an equal key overwrites), keyed by KeyMode:                     *)
(*      "term_value" (the code)  key = (term, value), terms compared whole *)
(*      "name_value" / "label_value" / "value"  controls: keys that look   *)
(*      only at part of the term (history/MC_Encoding_key_*.cfg show TLC's *)
(*      counterexamples, i.e. the universe tells these apart)              *)
(*    then one step per list element for classification (stop at the first *)
(*    hit), multilabel and prediction (last score wins).                   *)
(*  pair cases: two objects of one class, each with a provenance; steps:   *)
(*    PairHash (the sources / donors are hashed: what a memoising __hash__ *)
(*    would remember is recorded), PairDerive (copy / update / assign /    *)
(*    re-validate), then model equality against the hash the object        *)
(*    answers with.  HashMode "code" hashes the current fields; controls:  *)
(*    "identity", and "memo" = Tag.__hash__ cached in the instance __dict__*)
(*    (history/MC_Encoding_hash_memo.cfg: TLC finds the stale hash), and   *)
(*    "fields_set" = Term.__hash__ over the explicitly passed fields       *)
(*    (history/MC_Encoding_hash_fields_set.cfg: refuted on pairs and, via  *)
(*    the dictionary of the encoder, on ImplEncoder).  EqMode = "uri"      *)
(*    (history/MC_Encoding_eq_uri.cfg): an equality that identifies terms  *)
(*    by URI while the hash stays on the name -- refuted on the pairs.     *)
(*    KeyMode = "json_text" (history/MC_Encoding_key_json_text.cfg).       *)
(*    DecodeMode = "redump" (history/MC_Encoding_decode_redump.cfg).       *)
(*    HashMode = "geometry_json" (history/MC_Encoding_hash_geometry_json.cfg)*)
(*    HashMode = "note_iso" (history/MC_Encoding_hash_note_iso.cfg), KeyMode*)
(*    = "declared_fields" (history/MC_Encoding_key_declared_fields.cfg).   *)
(*    EqMode = "nan_equal" (history/MC_Encoding_eq_nan.cfg): NaN features  *)
(*    equal while hash(nan) follows object identity.  KeyMode =            *)
(*    "strip_value" (history/MC_Encoding_key_strip_value.cfg).             *)
(*    HashMode = "extras_order" (history/MC_Encoding_hash_extras_order.cfg)*)
(*    a Term hash that sees the order in which extra attributes were given.*)
(***************************************************************************)
EXTENDS Encoding, TLC, Json
CONSTANTS MaxVocab, MaxTags, NTags, SmallTags, KeyMode, HashMode,
          DecodeMode,  \* "stored" (the code: decode hands out the stored tag) | "redump" (control: a copy rebuilt from a dump
                       \*  without defaults, validated by field name)
          NearPairs,   \* derived objects meet: TRUE = partners differing in <= 1 field, FALSE = model-equal partners only
          EqMode,      \* "structural" (the code) | "uri" (control: terms with the same URI are equal whatever their names)
          ProvTags,    \* tag lists up to this length meet vocabularies of <= 2 tags written differently (vprov # qprov ...)
          FreshApart,  \* freshly built pairs of the classes with >= 4 fields: at most this many fields apart
          WideProv     \* partner provenance: TRUE = fresh / deep_copy / revalidate / same as the first, FALSE = fresh / same
VARIABLES c, pc, i, map, cls, multi, pred

vars == <<c, pc, i, map, cls, multi, pred>>
U == 1..NTags
RECURSIVE SeqsUpTo(_, _)
SeqsUpTo(S, n) == IF n = 0 THEN {<<>>} ELSE SeqsUpTo(S, n - 1) \cup {Append(s, x) : s \in {t \in SeqsUpTo(S, n - 1) : Len(t) = n - 1}, x \in S}
Vocabs   == {v \in SeqsUpTo(U, MaxVocab) : Injective(v)}
TagLists == SeqsUpTo(U, MaxTags)
\* two score patterns (quarter ticks), cut to the length of the list
Pat1 == <<1, 2, 3, 4>>
Pat2 == <<4, 0, 2, 1>>
Scs(ts) == <<SubSeq(Pat1, 1, Len(ts)), SubSeq(Pat2, 1, Len(ts))>>
\* quick tier: the largest vocabularies only meet lists of at most SmallTags members
EncCaseP(v, ts, vp, qp) == [kind |-> "enc", vocab |-> v, tags |-> ts, scs |-> Scs(ts), ftags |-> Filtered(v, ts),
                            fscs |-> [s \in DOMAIN Scs(ts) |-> FilteredSc(v, ts, Scs(ts)[s])], vprov |-> vp, qprov |-> qp]
EncCase(v, ts) == EncCaseP(v, ts, "fresh", "fresh")
Written == {"fresh", "explicit_defaults", "extras_ab", "extras_ba"}

PairCase(k, x, px, y, py) == [kind |-> "pair", cls |-> k, x |-> x, y |-> y, px |-> px, py |-> py]
PartnerProvs(px) == (IF WideProv THEN {Fresh, Prov("deep_copy", 0), Prov("revalidate", 0), px}
                     ELSE IF HasExtras(px.mode) THEN {Fresh, px} ELSE {Fresh}) \cup
                    (IF px = ExtrasAB THEN {ExtrasBA} ELSE IF px = ExtrasBA THEN {ExtrasAB} ELSE {})

Key(u) == CASE KeyMode = "term_value"  -> <<TermRep[UTag[u][1]], UTag[u][2]>>     \* the term itself: equal terms, equal keys
            [] KeyMode = "json_text"   -> <<TermJson[UTag[u][1]], UTag[u][2]>>    \* control: the canonical JSON text
            [] KeyMode = "name_value"  -> <<TermName[UTag[u][1]], UTag[u][2]>>
            [] KeyMode = "label_value" -> <<TermLabel[UTag[u][1]], UTag[u][2]>>
            [] KeyMode = "value"       -> <<UTag[u][2]>>
            [] KeyMode = "declared_fields" -> <<Declared[UTag[u][1]], UTag[u][2]>>   \* control: extras of the term ignored
            [] KeyMode = "strip_value" -> <<UTag[u][1], StripVal[UTag[u][2]]>>       \* control: (term, value.strip())
\* a python dict finds an equal key only under an equal hash; control HashMode = "fields_set": the hash of a term depends
\* on which fields were passed explicitly, so equal tags written differently miss each other
\* ... control HashMode = "extras_order": the hash sees the order in which a term's extra attributes were given
HashMiss == HashMode \in {"fields_set", "extras_order"} /\ c.vprov # c.qprov
Lookup(u) == IF ~HashMiss /\ \E e \in map : e[1] = Key(u) THEN <<(CHOOSE e \in map : e[1] = Key(u))[2]>> ELSE <<>>

Init == /\ \/ \E v \in Vocabs, ts \in TagLists : (Len(v) < MaxVocab \/ Len(ts) <= SmallTags) /\ c = EncCase(v, ts)
           \* tags on terms that carry a URI (equal URI / different name, equal name / different URI) and one without
           \/ \E v \in {w \in SeqsUpTo(UriTags, 2) : Injective(w)}, ts \in SeqsUpTo(UriTags, 2) : c = EncCase(v, ts)
           \* tag values that differ only by surrounding whitespace ("a", "a ", " a") are different tags
           \/ \E v \in {w \in SeqsUpTo(WsTags, 2) : Injective(w)}, ts \in SeqsUpTo(WsTags, 2) : c = EncCase(v, ts)
           \* tags on terms that differ only in an extra attribute (absent / draft / final) are different tags
           \/ \E v \in {w \in SeqsUpTo(XTags, 2) : Injective(w)}, ts \in SeqsUpTo(XTags, 2) : c = EncCase(v, ts)
           \* extra attributes with loosely typed values: one tag written 1 / 1.0 / True, two tags with one JSON text
           \/ \E v \in {w \in SeqsUpTo(LooseTags, 2) : Injective(w)}, ts \in SeqsUpTo(LooseTags, 1) : c = EncCase(v, ts)
           \* tags on terms with every optional field set, the aliased ones (type, range) away from their defaults
           \/ \E v \in {w \in SeqsUpTo(FullTags, 2) : Injective(w)}, ts \in SeqsUpTo(FullTags, 1) : c = EncCase(v, ts)
           \/ \E v \in Vocabs, ts \in TagLists : \E vp \in Written, qp \in Written :
                 Len(v) <= 2 /\ Len(ts) <= ProvTags /\ <<vp, qp>> # <<"fresh", "fresh">> /\ SameContent(vp, qp)
                 /\ c = EncCaseP(v, ts, vp, qp)
           \/ \E k \in 1..Len(ClassNames) : \E x \in Objects(k), y \in Objects(k) :
                 (k \in {2, 3} \/ DiffCount(x, y) <= FreshApart) /\ c = PairCase(k, x, Fresh, y, Fresh)
           \/ \E k \in 1..Len(ClassNames) : \E x \in Objects(k), y \in Objects(k) :
                 \E px \in Provs(k) \ {Fresh} : \E py \in PartnerProvs(px) :
                    (IF NearPairs THEN Near(k, x, y) ELSE ModelEq(k, x, y)) /\ c = PairCase(k, x, px, y, py)
        /\ pc = IF c.kind = "enc" THEN "build" ELSE "pair"
        /\ i = 1 /\ map = {} /\ cls = <<>> /\ multi = <<>> /\ pred = <<>>

Build == /\ pc = "build" /\ i <= Len(c.vocab)
         /\ map' = {e \in map : e[1] # Key(c.vocab[i])} \cup {<<Key(c.vocab[i]), i - 1>>}
         /\ i' = i + 1 /\ UNCHANGED <<c, pc, cls, multi, pred>>
Built == /\ pc = "build" /\ i > Len(c.vocab) /\ pc' = "cls" /\ i' = 1
         /\ multi' = [k \in DOMAIN c.vocab |-> 0]
         /\ pred' = [s \in DOMAIN c.scs |-> [k \in DOMAIN c.vocab |-> 0]]
         /\ UNCHANGED <<c, map, cls>>
ClsSkip == pc = "cls" /\ i <= Len(c.tags) /\ Lookup(c.tags[i]) = <<>> /\ i' = i + 1 /\ UNCHANGED <<c, pc, map, cls, multi, pred>>
ClsHit  == pc = "cls" /\ i <= Len(c.tags) /\ Lookup(c.tags[i]) # <<>> /\ cls' = Lookup(c.tags[i]) /\ pc' = "multi" /\ i' = 1 /\ UNCHANGED <<c, map, multi, pred>>
ClsNone == pc = "cls" /\ i > Len(c.tags) /\ pc' = "multi" /\ i' = 1 /\ UNCHANGED <<c, map, cls, multi, pred>>
MultiSkip == pc = "multi" /\ i <= Len(c.tags) /\ Lookup(c.tags[i]) = <<>> /\ i' = i + 1 /\ UNCHANGED <<c, pc, map, cls, multi, pred>>
MultiSet  == /\ pc = "multi" /\ i <= Len(c.tags) /\ Lookup(c.tags[i]) # <<>>
             /\ multi' = [multi EXCEPT ![Lookup(c.tags[i])[1] + 1] = 1]
             /\ i' = i + 1 /\ UNCHANGED <<c, pc, map, cls, pred>>
MultiDone == pc = "multi" /\ i > Len(c.tags) /\ pc' = "pred" /\ i' = 1 /\ UNCHANGED <<c, map, cls, multi, pred>>
PredSkip == pc = "pred" /\ i <= Len(c.tags) /\ Lookup(c.tags[i]) = <<>> /\ i' = i + 1 /\ UNCHANGED <<c, pc, map, cls, multi, pred>>
PredSet  == /\ pc = "pred" /\ i <= Len(c.tags) /\ Lookup(c.tags[i]) # <<>>
            /\ pred' = [s \in DOMAIN c.scs |-> [pred[s] EXCEPT ![Lookup(c.tags[i])[1] + 1] = c.scs[s][i]]]
            /\ i' = i + 1 /\ UNCHANGED <<c, pc, map, cls, multi>>
PredDone == pc = "pred" /\ i > Len(c.tags) /\ pc' = "done" /\ UNCHANGED <<c, i, map, cls, multi, pred>>
\* the sources are hashed; a memoising __hash__ remembers the projection of the fields they hold at that moment
PairHash == /\ pc = "pair" /\ pc' = "pair_derive"
            /\ map' = (IF CarriesDict(c.px) THEN {<<1, HashKey("code", c.cls, Donor(c.cls, c.x, c.px), 1)>>} ELSE {}) \cup
                       (IF CarriesDict(c.py) THEN {<<2, HashKey("code", c.cls, Donor(c.cls, c.y, c.py), 2)>>} ELSE {})
            /\ UNCHANGED <<c, i, cls, multi, pred>>
PairDerive == pc = "pair_derive" /\ pc' = "done" /\ UNCHANGED <<c, i, map, cls, multi, pred>>

Next == Build \/ Built \/ ClsSkip \/ ClsHit \/ ClsNone \/ MultiSkip \/ MultiSet \/ MultiDone \/ PredSkip \/ PredSet \/ PredDone \/ PairHash \/ PairDerive
Spec == Init /\ [][Next]_vars /\ WF_vars(Next)

Export == pc = "done" => PrintT(<<"CASE", ToJson(c)>>)

IsEnc == c.kind = "enc"
(* Impl => Req: what the loops computed is what Req demands *)
\* what decode(k - 1) hands out, as <<term, value>> (term 0 = none of the universe)
DecodeImpl(k) == LET u == c.vocab[k] IN
                 IF DecodeMode = "redump" THEN <<Redumped[UTag[u][1]], UTag[u][2]>> ELSE UTag[u]
ImplDecode   == (IsEnc /\ pc # "build") => \A k \in DOMAIN c.vocab :
                   DecodeImpl(k)[1] # 0 /\ TermRep[DecodeImpl(k)[1]] = TermRep[UTag[c.vocab[k]][1]] /\ DecodeImpl(k)[2] = UTag[c.vocab[k]][2]
ImplEncoder  == (IsEnc /\ pc # "build") => \A u \in 1..NU : Lookup(u) = Encode(c.vocab, u)
ImplClassify == (IsEnc /\ pc \in {"multi", "pred", "done"}) => cls = Classify(c.vocab, c.tags)
ImplMulti    == (IsEnc /\ pc \in {"pred", "done"}) => multi = Multilabel(c.vocab, c.tags)
ImplPred     == (IsEnc /\ pc = "done") => \A s \in DOMAIN c.scs : PredOK(c.vocab, c.tags, c.scs[s], pred[s])
Memo(who) == IF \E e \in map : e[1] = who THEN <<(CHOOSE e \in map : e[1] = who)[2]>> ELSE <<>>
FinalHash(who, x) == IF HashMode = "memo"
                     THEN (IF c.cls = 2 /\ Memo(who) # <<>> THEN Memo(who)[1] ELSE HashKey("code", c.cls, x, who))
                     ELSE IF HashMode = "fields_set"      \* Term / Tag / Feature: the hash also sees how the term was written
                     THEN HashKey("code", c.cls, x, who) \o
                          (IF c.cls <= 3 THEN <<(IF who = 1 THEN c.px ELSE c.py) = Explicit>> ELSE <<>>)
                     ELSE IF HashMode = "note_iso"        \* Note: the hash also sees how created_on is spelled
                     THEN HashKey("code", c.cls, x, who) \o (IF c.cls = 4 THEN <<x[4]>> ELSE <<>>)
                     ELSE IF HashMode = "geometry_json"   \* SoundEvent: the hash also sees how the coordinates are spelled
                     THEN HashKey("code", c.cls, x, who) \o (IF c.cls = 5 THEN <<x[2]>> ELSE <<>>)
                     ELSE IF HashMode = "extras_order"    \* ... or the order in which its extra attributes were given
                     THEN HashKey("code", c.cls, x, who) \o
                          (LET m == (IF who = 1 THEN c.px ELSE c.py).mode
                           IN  IF c.cls <= 3 /\ HasExtras(m) THEN <<m>> ELSE <<>>)
                     ELSE HashKey(HashMode, c.cls, x, who)
\* model equality of the two objects: equal vectors and, where the object is or directly holds a Term (classes 1..3),
\* the same content of extra attributes; for the other classes the hash is the uuid, a field of the vector
PairEq == EqUnder(EqMode, c.cls, c.x, c.y) /\ (c.cls <= 3 => SameContent(c.px.mode, c.py.mode))
ImplHashSound == (~IsEnc /\ pc = "done") => (PairEq => FinalHash(1, c.x) = FinalHash(2, c.y))
(* laws of Req, once per case *)
Laws == (IsEnc /\ pc = "cls" /\ i = 1) =>
           /\ LawRoundTrip(c.vocab) /\ LawEncodeIff(c.vocab) /\ LawOOV(c.vocab, c.tags)
           /\ \A s \in DOMAIN c.scs : LawOOVPred(c.vocab, c.tags, c.scs[s])
           /\ LawClassifyIsHit(c.vocab, c.tags)
Terminates == <>(pc = "done")
=============================================================================
