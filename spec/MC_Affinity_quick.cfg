SPECIFICATION Spec
CONSTANTS
  BufPairs <- QuickBufs
  Offsets <- QuickOffsets
  Stride = 1
CONSTRAINT Export
INVARIANT ImplTimeOnly
INVARIANT ImplBoxes
INVARIANT ImplDispatch
INVARIANT ImplRange
INVARIANT LawRange
INVARIANT LawSym
INVARIANT LawSelf
INVARIANT LawDisjoint
INVARIANT LawShift
INVARIANT BoxLaws
INVARIANT ExtentsInRange
PROPERTY Terminates
CHECK_DEADLOCK FALSE
