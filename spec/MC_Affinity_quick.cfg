SPECIFICATION Spec
CONSTANTS
  BufPairs <- QuickBufs
  Offsets <- QuickOffsets
  Stride = 1
  FarBases <- QuickFarBases
CONSTRAINT Export
INVARIANT ImplTimeOnly
INVARIANT ImplBoxes
INVARIANT ImplDispatch
INVARIANT ImplRange
INVARIANT LawRange
INVARIANT LawSym
INVARIANT LawSelf
INVARIANT LawDisjoint
INVARIANT LawShift
INVARIANT LawOriginFree
INVARIANT BoxLaws
INVARIANT RectLaws
INVARIANT LawBracket
INVARIANT LawSeparateSym
INVARIANT LawOverlapNotSeparate
INVARIANT ExtentsInRange
PROPERTY Terminates
CHECK_DEADLOCK FALSE
