----------------------------- MODULE MC_ArrayOps -----------------------------
(***************************************************************************)
(* X02: enumeration of the calls and the laws of the specification.        *)
(* Every initial state is one call of the real code (Export).  The         *)
(* algebra and to_db are functions of the case (action Compute); the       *)
(* implementation of adjust_dim_range is a two-step machine (StartSide,    *)
(* StopSide) composed from the C17 operations and checked against the      *)
(* declarative bins (ImplAdjust).                                          *)
(***************************************************************************)
EXTENDS ArrayOps, TLC, Json
CONSTANTS MaxLen,     \* alg: arrays of 1..MaxLen samples
          MaxN,       \* resize / adjust / dims: axis lengths
          MaxK,       \* resize: new sizes 1..MaxK
          AdjExt      \* adjust: start / stop up to AdjExt quarter steps outside the axis
VARIABLES c, pc, S
vars == <<c, pc, S>>

(* ------------------------------------------------------------------- alg *)
Vals == {-4, -1, 0, 3, 8}                                      \* quarter units: -1, -1/4, 0, 3/4, 2
Xs == UNION {IF k = 1 THEN {<<x>> : x \in Vals} ELSE IF k = 2 THEN {<<x, y>> : x \in Vals, y \in Vals}
             ELSE IF k = 3 THEN {<<x, y, z>> : x \in Vals, y \in Vals, z \in Vals}
             ELSE {<<x, y, 0, z>> : x \in Vals, y \in Vals, z \in Vals} : k \in 1..MaxLen}
Op(op, v) == [op |-> op, v |-> v]
Z == <<0, 1>>
Singles == {<<Op("offset", v)>> : v \in {<<1, 4>>, <<-1, 2>>, <<2, 1>>}} \cup {<<Op("scale", v)>> : v \in {<<2, 1>>, <<1, 2>>, <<-2, 1>>, <<4, 1>>}}
           \cup {<<Op("normalize", Z)>>, <<Op("center", Z)>>}
Pairs == {<<Op("offset", <<1, 4>>), Op("offset", <<2, 1>>)>>, <<Op("offset", <<-1, 2>>), Op("scale", <<2, 1>>)>>,
          <<Op("scale", <<2, 1>>), Op("offset", <<1, 4>>)>>, <<Op("normalize", Z), Op("normalize", Z)>>,
          <<Op("center", Z), Op("center", Z)>>, <<Op("normalize", Z), Op("offset", <<1, 4>>)>>,
          <<Op("center", Z), Op("scale", <<1, 2>>)>>, <<Op("scale", <<-2, 1>>), Op("normalize", Z)>>}
InitAlg == \E xs \in Xs, ops \in Singles \cup Pairs : c = [kind |-> "alg", xs |-> xs, ops |-> ops]

(* -------------------------------------------------------------------- db *)
N(m, e) == [m |-> m, e |-> e]
DbArrays == << <<N(1, -12), N(0, 0), N(-1, 0), N(1, -10), N(1, -3), N(1, 0), N(1, 1), N(1, 2), N(2, 0), N(5, 4)>>,
               <<N(1, -6), N(1, -5), N(1, -2), N(1, 0), N(1, 3)>>,
               <<N(2, -7), N(5, -7), N(1, -6), N(2, 2), N(5, 1)>>,
               <<N(0, 0), N(-1, 0)>> >>
InitDb == \E a \in 1..Len(DbArrays), p \in {1, 2}, rf \in {"d", "lo", "hi", "max", "zero"}, am \in {"d", "big", "neg"},
             mn \in {<<-80>>, <<>>, <<-30>>, <<10>>}, mx \in {<<>>, <<5>>, <<0>>}, un \in {"", "V"} :
             /\ rf = "max" => p = 1
             /\ un = "V" => (mn = <<-80>> /\ mx = <<>>)
             /\ c = [kind |-> "db", xs |-> DbArrays[a], power |-> p,
                     refmax |-> rf = "max", refdef |-> rf = "d",
                     ref |-> CASE rf = "lo" -> N(1, -2) [] rf = "hi" -> N(1, 2) [] rf = "zero" -> N(0, 0) [] OTHER -> N(1, 0),
                     ea |-> IF am = "big" THEN -4 ELSE -10, amindef |-> am = "d", aminneg |-> am = "neg",
                     mindb |-> mn, mindef |-> mn = <<-80>>, maxdb |-> mx, units |-> un]

(* ---------------------------------------------------------------- resize *)
RUnits == {<<1, 1>>, <<1, 4>>, <<1, 10>>, <<1, 3>>}
Starts3 == {0, 14, -8}
InitResize == \/ \E s \in RUnits, a4 \in Starts3, n \in 1..MaxN, k \in 1..MaxK, two \in {"no", "keep", "both"} :
                    c = [kind |-> "resize", s |-> s, a4 |-> a4, baddim |-> FALSE,
                         shape |-> IF two = "no" THEN <<n>> ELSE <<n, 3>>,
                         sizes |-> IF two = "no" THEN <<<<k>>>> ELSE IF two = "keep" THEN <<<<k>>, <<>>>> ELSE <<<<k>>, <<2>>>>]
              \/ c = [kind |-> "resize", s |-> <<1, 1>>, a4 |-> 0, baddim |-> TRUE, shape |-> <<3>>, sizes |-> <<<<2>>>>]

(* ---------------------------------------------------------------- adjust *)
AUnits == {<<1, 1>>, <<1, 2>>, <<1, 4>>, <<2, 1>>}
OptPos(n) == {<<>>} \cup {<<m>> : m \in (-AdjExt)..(4 * (n - 1) + AdjExt)}
InitAdjust == \E s \in AUnits, j0 \in {0, 3, -2}, n \in {1, 3} \cup (IF MaxN > 4 THEN {MaxN} ELSE {}) : \E st \in OptPos(n), sp \in OptPos(n) :
                 /\ (s # <<1, 1>> => j0 # 3)
                 /\ (s \in {<<1, 2>>, <<2, 1>>} => j0 = 0 /\ (MaxN > 4 \/ s = <<2, 1>>))       \* quick: fewer (step, start) combinations
                 /\ (~IsNone(st) => Some(st) < 4 * n)                      \* the bin of start is not beyond the axis
                 /\ (~IsNone(sp) => Some(sp) >= 0)                         \* stop is not before the axis
                 /\ c = [kind |-> "adjust", s |-> s, a4 |-> (4 * j0 * s[1]) \div s[2], n |-> n, start |-> st, stop |-> sp,
                         fill |-> IF IsNone(st) THEN 0 ELSE -7]

(* ------------------------------------------------------------------ dims *)
DUnits == {<<1, 1>>, <<1, 4>>, <<1, 10>>, <<1, 3>>, <<250, 1>>}
D(fn, s, a4, n, ir, attr, est, chk, how, name, which) ==
    [kind |-> "dims", fn |-> fn, s |-> s, a4 |-> a4, n |-> n, ir |-> ir, attr |-> attr, est |-> est, chk |-> chk,
     how |-> how, name |-> name, which |-> which]
InitDims == \E s \in DUnits, a4 \in Starts3, n \in 1..MaxN, ir \in {0, 1} :
              \/ \E attr \in {<<>>, <<<<1, 1>>>>, <<<<2, 1>>>>}, est \in BOOLEAN, chk \in BOOLEAN :
                    n >= 2 /\ c = D("get_step", s, a4, n, ir, attr, est, chk, "", "", "")
              \/ \E chk \in BOOLEAN : n >= 2 /\ c = D("est_step", s, a4, n, ir, <<>>, TRUE, chk, "", "", "")
              \/ c = D("range_width", s, a4, n, ir, <<>>, TRUE, TRUE, "", "", "")
              \/ \E which \in {"new", "overwrite"} : ir = 0 /\ c = D("set_attrs", s, a4, n, 0, <<>>, TRUE, TRUE, "", "", which)
              \/ \E fn \in {"time_from_array", "freq_from_array"}, how \in {"none", "given", "sr", "est"}, name \in {"", "t"} :
                    /\ (how = "sr" => fn = "time_from_array" /\ s[1] = 1)
                    /\ (how = "est" => ir = 0 /\ n >= 2)                    \* estimate_dim_step refuses an irregular array
                    /\ c = D(fn, s, a4, n, ir, <<>>, TRUE, TRUE, how, name, "")

(* ----------------------------------------------------------------- wfill *)
InitWFill == \E n \in 1..3, extra \in 1..5, pos \in {"start", "center", "end"}, f \in {<<-1, 1>>, <<7, 1>>, <<1, 2>>, <<0, 1>>}, fn \in {"adjust", "direct"} :
                c = [kind |-> "wfill", s |-> <<1, 4>>, a4 |-> 14, n |-> n, w |-> n + extra, pos |-> pos, fill |-> f, fn |-> fn]

Init == /\ pc = "in" /\ S = {}
        /\ (InitAlg \/ InitDb \/ InitResize \/ InitAdjust \/ InitDims \/ InitWFill)

Compute   == pc = "in" /\ c.kind # "adjust" /\ pc' = "out" /\ UNCHANGED <<c, S>>
\* adjust_dim_range: first the start side, then the stop side, each a crop or an extend of what is there
StartSide == /\ pc = "in" /\ c.kind = "adjust"
             /\ IF AdjRaises(c) THEN pc' = "out" /\ S' = S
                ELSE /\ pc' = "stop"
                     /\ S' = LET S0 == {St(0, c.n - 1, 0..(c.n - 1))}
                             IN  IF IsNone(c.start) THEN S0 ELSE ApplyAll(S0, c.s, LAMBDA st : AdjStartOp(c, st))
             /\ UNCHANGED c
StopSide  == /\ pc = "stop"
             /\ S' = IF IsNone(c.stop) THEN S ELSE ApplyAll(S, c.s, LAMBDA st : AdjStopOp(c, st))
             /\ pc' = "out" /\ UNCHANGED c
Next == Compute \/ StartSide \/ StopSide
Spec == Init /\ [][Next]_vars /\ WF_vars(Next)
Export == pc = "in" => PrintT(<<"CASE", ToJson(c)>>)

(* ------------------------------------------------------------------ laws *)
F == AlgFinal(c)
I0 == AlgInit(c.xs)
SeqREq(x, y) == Len(x) = Len(y) /\ \A k \in 1..Len(x) : REq(x[k], y[k])
Kinds(ops) == [k \in 1..Len(ops) |-> ops[k].op]
Constant(xs) == \A k \in 1..Len(xs) : xs[k] = xs[1]
\* the recorded attributes undo the operation exactly: a single operation, offset then scale, normalize (= offset then scale)
LawUndo == (c.kind = "alg" /\ (Len(c.ops) = 1 \/ Kinds(c.ops) = <<"offset", "scale">>)) => SeqREq(Unpack(F), I0.vals)
\* ... but each operation records only ITS OWN parameter: a second offset replaces the first one, scale then offset does not unpack
LawOffsetLast == (c.kind = "alg" /\ Kinds(c.ops) = <<"offset", "offset">>) =>
                    /\ F.off = <<RNeg(RNorm(c.ops[2].v))>>
                    /\ ~SeqREq(Unpack(F), I0.vals)
LawScaleThenOffsetLoses == (c.kind = "alg" /\ Kinds(c.ops) = <<"scale", "offset">>) => ~SeqREq(Unpack(F), I0.vals)
LawNormalize == (c.kind = "alg" /\ Kinds(c.ops) = <<"normalize">>) =>
                    IF Constant(c.xs) THEN IsNone(F.sf) /\ \A k \in 1..Len(F.vals) : F.vals[k] = <<0, 1>>
                    ELSE RSeqMin(F.vals) = <<0, 1>> /\ RSeqMax(F.vals) = <<1, 1>>
LawNormalizeTwice == (c.kind = "alg" /\ Kinds(c.ops) = <<"normalize", "normalize">>) =>
                    /\ SeqREq(F.vals, AlgStep(I0, c.ops[1]).vals)
                    /\ (~Constant(c.xs) => F.off = <<<<0, 1>>>> /\ F.sf = <<<<1, 1>>>>)
LawCenter == (c.kind = "alg" /\ c.ops[Len(c.ops)].op = "center") => RSum(F.vals, Len(F.vals)) = <<0, 1>>
LawCenterTwice == (c.kind = "alg" /\ Kinds(c.ops) = <<"center", "center">>) => F.off = <<<<0, 1>>>> /\ SeqREq(F.vals, AlgStep(I0, c.ops[1]).vals)
LawOrderKept == (c.kind = "alg" /\ \A k \in 1..Len(c.ops) : c.ops[k].op # "scale" \/ c.ops[k].v[1] > 0) =>
                    \A j \in 1..Len(c.xs), k \in 1..Len(c.xs) : c.xs[j] <= c.xs[k] => RLe(F.vals[j], F.vals[k])
\* to_db: monotone, inside the clamps, the clamps applied in the order min then max
LawDbMonotone == (c.kind = "db" /\ ~DbRaises(c)) =>
                    \A x \in Range(c.xs), y \in Range(c.xs) : NumLe(x, y) => DbOf(c, x)[1] <= DbOf(c, y)[1] /\ DbOf(c, x)[2] <= DbOf(c, y)[2]
LawDbClamped == (c.kind = "db" /\ ~DbRaises(c)) =>
                    \A x \in Range(c.xs) : /\ ~IsNone(c.maxdb) => DbOf(c, x)[2] <= Some(c.maxdb) * MicroDb
                                           /\ (~IsNone(c.mindb) /\ (IsNone(c.maxdb) \/ Some(c.maxdb) >= Some(c.mindb))) => DbOf(c, x)[1] >= Some(c.mindb) * MicroDb
                                           /\ (~IsNone(c.mindb) /\ ~IsNone(c.maxdb) /\ Some(c.maxdb) < Some(c.mindb)) => DbOf(c, x) = <<Some(c.maxdb) * MicroDb, Some(c.maxdb) * MicroDb>>
LawDbFloor == (c.kind = "db" /\ ~DbRaises(c)) =>       \* everything at or below amin^(1/power) gives the same value
                    \A x \in Range(c.xs), y \in Range(c.xs) : (~Positive(x) /\ ~Positive(y)) => DbOf(c, x) = DbOf(c, y)
\* resize keeps the span: new_step * new_size = old_step * old_size
LawResizeSpan == (c.kind = "resize" /\ ~c.baddim) =>
                    REq(RTimes(NewStep(c.s, c.shape[1], Some(c.sizes[1])), RInt(Some(c.sizes[1]))), RTimes(c.s, RInt(c.shape[1])))
\* adjust_dim_range as composed from crop_dim / extend_dim gives the declared bins, and keeps the samples it covers
ImplAdjust == (c.kind = "adjust" /\ pc = "out" /\ ~AdjRaises(c)) =>
                    /\ S # {}
                    /\ \A st \in S : /\ st.lo = AdjLo(c) /\ st.hi \in AdjHis(c)
                                     /\ st.K = (0..(c.n - 1)) \cap (st.lo..st.hi)
LawAdjustNone == (c.kind = "adjust" /\ ~AdjRaises(c)) => (IsNone(c.start) => AdjLo(c) = 0) /\ (IsNone(c.stop) => AdjHis(c) = {c.n - 1})
LawStepOutcome == (c.kind = "dims" /\ c.fn \in {"get_step", "est_step"}) =>
                    LET e == StepOutcome(c) IN
                    /\ (e[1] = "val" /\ IsNone(c.attr) /\ c.ir = 0) => REq(e[2], c.s)        \* a regular axis: the estimate is the step
                    /\ (~IsNone(c.attr)) => e[1] = "val"                                     \* a recorded step always wins
LawWFillOffs == c.kind = "wfill" => \A off \in Offs(c.pos, c.w - c.n) : off >= 0 /\ off + c.n <= c.w
Terminates == <>(pc = "out")
=============================================================================
