------------------------------ MODULE T_Lookup ------------------------------
(* Trace validator for X03: every recorded observation must be accepted.     *)
EXTENDS Lookup, TraceKit
VARIABLE l
Failing(o) == IF Crashed(o) THEN {"NoCrash"} ELSE {cl \in Clauses : ~Holds(cl, o)}
TInit == l = 1
TNext == l <= Len(Obs) /\ l' = l + 1
Report == l <= Len(Obs) =>
            LET bad == Failing(Obs[l])
            IN  bad = {} \/ PrintT(<<"REJECT", ToJson([id |-> Obs[l].id, bad |-> bad])>>)
=============================================================================
