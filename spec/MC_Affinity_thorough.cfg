SPECIFICATION Spec
CONSTANTS
  BufPairs <- ThoroughBufs
  Offsets <- ThoroughOffsets
  Stride = 1
  FarBases <- ThoroughFarBases
CONSTRAINT Export
INVARIANT ImplTimeOnly
INVARIANT ImplBoxes
INVARIANT ImplDispatch
INVARIANT ImplRange
INVARIANT LawRange
INVARIANT LawSym
INVARIANT LawSelf
INVARIANT LawDisjoint
INVARIANT LawShift
INVARIANT LawOriginFree
INVARIANT BoxLaws
INVARIANT RectLaws
INVARIANT LawBracket
INVARIANT LawSeparateSym
INVARIANT LawOverlapNotSeparate
INVARIANT ExtentsInRange
PROPERTY Terminates
CHECK_DEADLOCK FALSE
