------------------------------ MODULE MC_Overlap ------------------------------
(***************************************************************************)
(* Enumeration machine for C12: every initial state is one call; the one   *)
(* action computes the specified outcome.  Laws of the specification       *)
(* itself are invariants; Export prints one CASE per terminal state.       *)
(***************************************************************************)
EXTENDS Overlap, TLC, Json
CONSTANTS N,          \* intervals on 0..N
          GeomStride   \* take every GeomStride-th catalogue pair (1 = all)
VARIABLES c, ph, res

\* the shared catalogue plus line strings that are NOT monotone in time (legal: only first time <= last time is required):
\* interior vertices before the first and after the last vertex, and a contour that returns to its start time
Cat == Catalogue(FMAXT) \o <<G("LineString", <<<<3, 1>>, <<1, 2>>, <<6, 3>>, <<4, 4>>>>),
                             G("LineString", <<<<2, 0>>, <<5, 2>>, <<0, 4>>, <<2, 1>>>>),
                             \* a self-crossing outline (bow-tie: legal for the data model): its extents are those of ALL its vertices
                             G("Polygon", <<<<<<0, 0>>, <<4, 4>>, <<4, 0>>, <<0, 4>>, <<0, 0>>>>>>)>>
Intervals == {<<a, b>> : a \in 0..N, b \in 0..N} \cap {i \in (0..N) \X (0..N) : i[1] <= i[2]}
AbsOpts == {<<>>} \cup {<<k>> : k \in -1..3}
RelOpts == {<<>>} \cup {<<<<p, 4>>>> : p \in -1..5}
Thresh  == {t \in AbsOpts \X RelOpts : IsNone(t[1]) \/ IsNone(t[2]) \/ (Some(t[1]) \in {0, 1} /\ Some(t[2])[1] \in {-1, 2})}
GThresh == {<<<<>>, <<>>>>, <<<<0>>, <<>>>>, <<<<1>>, <<>>>>, <<<<2>>, <<>>>>, <<<<>>, <<<<0, 4>>>>>>,
            <<<<>>, <<<<2, 4>>>>>>, <<<<>>, <<<<4, 4>>>>>>, <<<<>>, <<<<5, 4>>>>>>, <<<<1>>, <<<<2, 4>>>>>>}

IvCases   == {[kind |-> "iv", a |-> a, b |-> b, abs |-> t[1], rel |-> t[2]] : a \in Intervals, b \in Intervals, t \in Thresh}
\* prov: how the geometry objects came to be: "fresh" = built by the constructor; "derived" = a DIFFERENT geometry of the
\* same kind was built and queried first, then model_copy(update={"coordinates": ...}) produced the geometry of the case
\* (anything memoised on the first object would travel along); the required outcome does not depend on it
GeomCases == {[kind |-> k, i |-> i, j |-> j, abs |-> t[1], rel |-> t[2], prov |-> p] :
                 k \in {"time", "freq"}, i \in 1..Len(Cat), j \in 1..Len(Cat), t \in GThresh, p \in {"fresh", "derived"}}
\* clips may start BEFORE the recording (negative start time is legal for a Clip: padded clips); fresh geometries only there
ClipCases == {[kind |-> "clip", i |-> i, clip |-> cl, m |-> m, prov |-> p] :
                 i \in 1..Len(Cat), cl \in {x \in (0..6) \X (0..6) : x[1] <= x[2]}, m \in -1..2, p \in {"fresh", "derived"}}
             \cup {[kind |-> "clip", i |-> i, clip |-> cl, m |-> m, prov |-> "fresh"] :
                 i \in 1..Len(Cat), cl \in {x \in (-2..-1) \X (-1..6) : x[1] <= x[2]}, m \in -1..2}

\* the case as the binder sees it (geometries written out)
Concrete(k) ==
    CASE k.kind = "iv"   -> k
      [] k.kind \in {"time", "freq"} -> [kind |-> k.kind, g1 |-> Cat[k.i], g2 |-> Cat[k.j], abs |-> k.abs, rel |-> k.rel, prov |-> k.prov]
      [] k.kind = "clip" -> [kind |-> "clip", g |-> Cat[k.i], clip |-> k.clip, m |-> k.m, prov |-> k.prov]

Init == /\ ph = "in" /\ res = "none"
        /\ \/ c \in IvCases
           \/ c \in {g \in GeomCases : (g.i * Len(Cat) + g.j + (IF g.prov = "derived" THEN 1 ELSE 0)) % GeomStride = 0}
           \/ c \in ClipCases
Compute == ph = "in" /\ ph' = "out" /\ res' = Expected(Concrete(c)) /\ c' = c
Next == Compute
vars == <<c, ph, res>>
Spec == Init /\ [][Next]_vars

Export == ph = "out" => PrintT(<<"CASE", ToJson(Concrete(c))>>)

(* ---- laws of the specification (checked in every state) ---- *)
IsIv == c.kind = "iv"
OkThr == IsIv /\ (IsNone(c.abs) \/ IsNone(c.rel)) /\ (IsNone(c.rel) \/ RelValid(Some(c.rel)))
LawSym == IsIv => Overlap(c.a, c.b, c.abs, c.rel) = Overlap(c.b, c.a, c.abs, c.rel)
LawMonoAbs == (OkThr /\ ~IsNone(c.abs)) =>
    \A k \in -1..3 : (k <= Some(c.abs) /\ OverlapVal(c.a, c.b, c.abs, <<>>)) => OverlapVal(c.a, c.b, <<k>>, <<>>)
LawMonoRel == (OkThr /\ ~IsNone(c.rel)) =>
    \A p \in 0..4 : (p <= Some(c.rel)[1] /\ OverlapVal(c.a, c.b, <<>>, c.rel)) => OverlapVal(c.a, c.b, <<>>, <<<<p, 4>>>>)
LawTouching == (IsIv /\ c.a[2] = c.b[1]) => OverlapVal(c.a, c.b, <<>>, <<>>) /\ OverlapVal(c.a, c.b, <<0>>, <<>>) /\ OverlapVal(c.a, c.b, <<>>, <<<<0, 4>>>>)
LawDisjoint == (IsIv /\ c.a[2] < c.b[1]) => ~OverlapVal(c.a, c.b, <<>>, <<>>) /\ ~OverlapVal(c.a, c.b, <<0>>, <<>>) /\ ~OverlapVal(c.a, c.b, <<>>, <<<<0, 4>>>>)
LawDefaultIsAbs0 == IsIv => OverlapVal(c.a, c.b, <<>>, <<>>) = OverlapVal(c.a, c.b, <<0>>, <<>>)
LawClipInside == (c.kind = "clip" /\ c.m = 0) =>
    LET t == TimeExtent(Cat[c.i], FMAXT)
    IN  /\ (c.clip[1] < t[1] /\ t[2] < c.clip[2]) => InClip(Cat[c.i], c.clip, 0) = "true"       \* wholly inside, even zero length
        /\ (t[2] = c.clip[1] \/ t[1] = c.clip[2]) => InClip(Cat[c.i], c.clip, 0) = "false"      \* merely touching
LawOutcome == ph = "out" => res \in {"true", "false", "raise:ValueError"}
=============================================================================
