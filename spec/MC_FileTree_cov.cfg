\* action coverage (every action of the walk machine must be taken) on a strided sub-universe: -coverage slows TLC down too much on the full one
SPECIFICATION Spec
CONSTANTS
  RootNames = {1, 2, 4}
  Stride = 29
  AncestorFollow = FALSE
  MaxWalkDepth = 2
INVARIANT ImplRefinesReq
INVARIANT ImplPrefix
INVARIANT RaisedIffNotDir
INVARIANT Laws
INVARIANT WalkBounded
INVARIANT NoStuck
INVARIANT StepsExact
CHECK_DEADLOCK FALSE
