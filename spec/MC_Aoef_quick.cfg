SPECIFICATION Spec
CONSTANTS
  MaxWeight = 1
  StoreAt = "post"
  Variant = "fixed"
CONSTRAINT Export
INVARIANT RefClosed
INVARIANT NoDup
INVARIANT ParentFirst
INVARIANT DocIsStore
INVARIANT Exact
INVARIANT StoreWithinReach
INVARIANT AllHit
INVARIANT LoadedAll
INVARIANT StackIsPath
CHECK_DEADLOCK FALSE
