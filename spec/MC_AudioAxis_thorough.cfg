SPECIFICATION Spec
CONSTANTS
  ClipFiles <- T_ClipFiles
  Pad = 4
  SpecSrcs <- T_SpecSrcs
  MaxW = 32
  ResSrcs <- T_ResSrcs
  Targets <- T_Targets
  MaxNum = 320
  SpecStep = "realised"
  WinClamp = TRUE
  SeekClamp = TRUE
  EmptyGuard = TRUE
  Pres <- T_Pres
  PreSpecSrcs <- T_PreSpecSrcs
  AliasAttrs = FALSE
  OptSpecSrcs <- Q_OptSpecSrcs
  OptMaxW = 16
  DropBoundary = FALSE
  ChainSrcs <- Q_ChainSrcs
  ChainPairs <- Q_ChainPairs
  ChainInexact = FALSE
  StaleRate = FALSE
  DeclFiles <- T_DeclFiles
  HeaderRate = FALSE
  HistStride = 5
  ReadCache = FALSE
CONSTRAINT Export
INVARIANT ImplClipRefinesReq
INVARIANT ImplRecIsFile
INVARIANT ImplProduces
INVARIANT ImplTimeAxis
INVARIANT ImplFreqAxis
INVARIANT ImplChainAxis
INVARIANT ImplSourceTruthful
INVARIANT ImplSpecStartsAtSource
INVARIANT ImplStartsAtSource
INVARIANT ResampleDriftBounded
INVARIANT LawFloor
INVARIANT LawAccExact
INVARIANT LawAccNear
INVARIANT LawRateIsInteger
INVARIANT LawBounded
CHECK_DEADLOCK FALSE
