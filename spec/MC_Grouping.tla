------------------------------ MODULE MC_Grouping ------------------------------
(***************************************************************************)
(* group_sound_events as a state machine (Impl), model-checked against     *)
(* Grouping!ReqClauses on every graph with MinN..MaxN nodes:               *)
(*   pairs : one step per unordered pair, in itertools.combinations order; *)
(*           the comparison function is called (logged) and a hit inserts  *)
(*           both (i,j) and (j,i) into the sparse matrix                   *)
(*   label : connected_components -- roots in increasing node order, one   *)
(*           breadth-first wave per step, labels 0,1,2,... in root order   *)
(*   (the machine works on list positions, as the code does; a list may hold*)
(*   one event at several positions -- twins -- and then the comparison    *)
(*   function is asked f(a, a) for the twin pair)                          *)
(*   group : zip(sound_events, labels) into a dict keyed by label          *)
(*           (insertion ordered), one step per event                       *)
(* Every terminal state is exported as one test of the real function.      *)
(***************************************************************************)
EXTENDS Grouping, TLC, Json
CONSTANTS MinN, MaxN,
          SubMaxN,     \* every non-empty set of user-subclass events is enumerated for twin-free lists up to this length
          OutputCopy,  \* "same" (the code: the input objects go into the sequences) | "revalidated" (control: instances of a
                       \*  subclass are replaced by plain SoundEvent copies)
          GuiseMaxN,   \* every guise of the comparison function is enumerated for twin-free lists up to this length
          GuiseTest,   \* "callable" (the code: the function is used as given) | "or_default" (control: `fn or default`)
          ArgSwap,     \* "none" (the code) | "fill_geometry" (control: geometry-less events are compared through copies
                       \*  that were given a geometry)
          IndexWrap,   \* 0 (the code) | W > 0 (control: 0-based matrix indices >= W wrap to index - 2W, negative ones counting
                       \*  from the end -- what an int8 index array does at W = 128)
          GeoMaxN,     \* every non-empty set of geometry-less events is enumerated for twin-free lists up to this length
          GeoFilter,   \* "none" (the code) | "filtered" (control: events without geometry are left out of the pair loop,
                       \*  the indices then refer to the filtered list)
          RetMaxN,     \* the non-bool return types of the comparison function are enumerated for lists up to this length
          TruthTest,   \* "truthy" (the code: if not f(a, b)) | "is_true" (control: f(a, b) is not True)
          TwinMaxN     \* lists with twin positions (one event at several positions) are enumerated up to this length
VARIABLES c, pc, pi, mat, calls, lab, nl, fr, gi, seqs, steps

vars == <<c, pc, pi, mat, calls, lab, nl, fr, gi, seqs, steps>>

RECURSIVE PairsFrom(_, _, _)
PairsFrom(n, i, j) == IF i >= n THEN <<>>
                      ELSE IF j > n THEN PairsFrom(n, i + 1, i + 2)
                      ELSE <<<<i, j>>>> \o PairsFrom(n, i, j + 1)
PairSeqs == [n \in 0..MaxN |-> PairsFrom(n, 1, 2)]   \* constant: TLC evaluates it once
PairSeq(n) == PairSeqs[n]                     \* combinations(range(n), 2), 1-based

\* identifier maps: restricted-growth sequences (every partition of the positions into twin classes, once)
RECURSIVE IdMaps(_)
IdMaps(n) == IF n = 0 THEN {<<>>}
             ELSE {Append(m, a) : m \in IdMaps(n - 1), a \in 1..n} \cap
                  {q \in [1..n -> 1..n] : \A k \in 1..n : q[k] <= (IF k = 1 THEN 1 ELSE 1 + SetMax({q[j] : j \in 1..(k - 1)}))}
Identity(n) == [i \in 1..n |-> i]
NumIds(m) == IF Len(m) = 0 THEN 0 ELSE SetMax(Range(m))
Repeated(m) == {a \in Range(m) : Cardinality({i \in DOMAIN m : m[i] = a}) >= 2}
\* all identifier pairs a <= b in lexicographic order; a = b only for an event the list holds twice (f(a, a))
IdPairSeq(m) == LET k == NumIds(m)
                    all == [q \in 1..(k * k) |-> <<((q - 1) \div k) + 1, ((q - 1) % k) + 1>>]
                IN  SelectSeq(all, LAMBDA p : p[1] < p[2] \/ (p[1] = p[2] /\ p[1] \in Repeated(m)))
GraphZ(n, m, G, rt, N, gz) == [n |-> n, id |-> m, e |-> SelectSeq(IdPairSeq(m), LAMBDA p : p \in G), ret |-> rt,
                               ng |-> SelectSeq([i \in 1..n |-> i], LAMBDA a : a \in N),
                               gd |-> N # {}, guise |-> gz, sub |-> <<>>, cl |-> <<>>]       \* with geometry-less events the function also looks
GraphG(n, m, G, rt, N) == GraphZ(n, m, G, rt, N, "function")
Graph(n, m, G, rt) == GraphG(n, m, G, rt, {})

Init == /\ \E n \in MinN..MaxN :
             \E m \in (IF n <= TwinMaxN THEN IdMaps(n) ELSE {Identity(n)}) :
                \E G \in SUBSET Range(IdPairSeq(m)) :
                   \/ \E rt \in (IF n <= RetMaxN /\ m = Identity(n) THEN RetTypes ELSE {"bool"}) : c = Graph(n, m, G, rt)
                   \* some events have no geometry: first, middle, last, several, all
                   \/ n <= GeoMaxN /\ m = Identity(n) /\ \E N \in (SUBSET (1..n)) \ {{}} : c = GraphG(n, m, G, "bool", N)
                   \* some events are instances of a user subclass of SoundEvent
                   \/ n <= SubMaxN /\ m = Identity(n) /\ \E S \in (SUBSET (1..n)) \ {{}} :
                         c = [Graph(n, m, G, "bool") EXCEPT !.sub = SelectSeq([i \in 1..n |-> i], LAMBDA a : a \in S)]
                   \* relations given as disjoint cliques (the form used for very long lists), small here
                   \/ m = Identity(n) /\ G = {} /\ \E sizes \in {<<2, 2>>, <<3, 1>>, <<1, 2, 1>>, <<4>>, <<1, 1, 1>>, <<2, 3>>} :
                         SumTo(sizes, Len(sizes)) = n /\ c = [Graph(n, m, G, "bool") EXCEPT !.cl = sizes]
                   \* the comparison function in its other guises
                   \/ n <= GuiseMaxN /\ m = Identity(n) /\ \E gz \in Guises \ {"function"} : c = GraphZ(n, m, G, "bool", {}, gz)
        /\ pc = "pairs" /\ pi = 1 /\ mat = {} /\ calls = <<>>
        /\ lab = [i \in Nodes(c) |-> -1] /\ nl = 0 /\ fr = {} /\ gi = 1 /\ seqs = <<>> /\ steps = 0

\* the positions that take part in the pair loop, and the index each of them is given there
Loc == IF GeoFilter = "filtered" THEN SelectSeq([i \in 1..c.n |-> i], LAMBDA i : c.id[i] \notin Range(c.ng))
       ELSE [i \in 1..c.n |-> i]
PS == PairSeq(Len(Loc))
\* the pair is linked when the answer passes the test of the code: truthiness, or (control) identity with True
\* where a matrix entry for position i is written
Idx(i) == IF IndexWrap > 0 /\ i - 1 >= IndexWrap
          THEN LET w == (i - 1) - 2 * IndexWrap IN (IF w < 0 THEN c.n + w ELSE w) + 1
          ELSE i
\* control "fill_geometry": the argument standing in for a geometry-less event is not that event
Genuine(i) == ~(ArgSwap = "fill_geometry" /\ c.id[i] \in Range(c.ng))
Flag(i) == IF Genuine(i) THEN 1 ELSE 0
\* control "or_default": a falsy callable is replaced by a default relation (no link between these events)
Replaced == GuiseTest = "or_default" /\ Falsy(c.guise)
Linked(i, j) == /\ Edge(c, i, j) /\ (TruthTest = "truthy" \/ c.ret = "bool")
                /\ (c.gd => (Genuine(i) /\ Genuine(j))) /\ ~Replaced
PairHit  == /\ pc = "pairs" /\ pi <= Len(PS) /\ Linked(Loc[PS[pi][1]], Loc[PS[pi][2]])
            /\ calls' = Append(calls, <<c.id[Loc[PS[pi][1]]], c.id[Loc[PS[pi][2]]], Flag(Loc[PS[pi][1]]), Flag(Loc[PS[pi][2]])>>)
            /\ mat' = mat \cup {<<Idx(PS[pi][1]), Idx(PS[pi][2])>>, <<Idx(PS[pi][2]), Idx(PS[pi][1])>>}
            /\ pi' = pi + 1 /\ UNCHANGED <<c, pc, lab, nl, fr, gi, seqs>>
PairMiss == /\ pc = "pairs" /\ pi <= Len(PS) /\ ~Linked(Loc[PS[pi][1]], Loc[PS[pi][2]])
            /\ calls' = Append(calls, <<c.id[Loc[PS[pi][1]]], c.id[Loc[PS[pi][2]]], Flag(Loc[PS[pi][1]]), Flag(Loc[PS[pi][2]])>>)
            /\ pi' = pi + 1 /\ UNCHANGED <<c, pc, mat, lab, nl, fr, gi, seqs>>
PairsDone == pc = "pairs" /\ pi > Len(PS) /\ pc' = "label" /\ UNCHANGED <<c, pi, mat, calls, lab, nl, fr, gi, seqs>>

Unlabelled == {i \in Nodes(c) : lab[i] = -1}
NewRoot == /\ pc = "label" /\ fr = {} /\ Unlabelled # {}
           /\ LET r == SetMin(Unlabelled)
              IN  lab' = [lab EXCEPT ![r] = nl] /\ fr' = {r}
           /\ nl' = nl + 1 /\ UNCHANGED <<c, pc, pi, mat, calls, gi, seqs>>
Wave    == /\ pc = "label" /\ fr # {}
           /\ LET N == {j \in Unlabelled : \E i \in fr : <<i, j>> \in mat}
              IN  lab' = [j \in Nodes(c) |-> IF j \in N THEN nl - 1 ELSE lab[j]] /\ fr' = N
           /\ UNCHANGED <<c, pc, pi, mat, calls, nl, gi, seqs>>
LabelDone == pc = "label" /\ fr = {} /\ Unlabelled = {} /\ pc' = "group" /\ UNCHANGED <<c, pi, mat, calls, lab, nl, fr, gi, seqs>>

HasKey(l) == \E s \in DOMAIN seqs : seqs[s][1] = l
GroupNew == /\ pc = "group" /\ gi <= c.n /\ ~HasKey(lab[gi])
            /\ seqs' = Append(seqs, <<lab[gi], <<gi>>>>)
            /\ gi' = gi + 1 /\ UNCHANGED <<c, pc, pi, mat, calls, lab, nl, fr>>
GroupAdd == /\ pc = "group" /\ gi <= c.n /\ HasKey(lab[gi])
            /\ seqs' = [s \in DOMAIN seqs |-> IF seqs[s][1] = lab[gi] THEN <<seqs[s][1], Append(seqs[s][2], gi)>> ELSE seqs[s]]
            /\ gi' = gi + 1 /\ UNCHANGED <<c, pc, pi, mat, calls, lab, nl, fr>>
GroupDone == pc = "group" /\ gi > c.n /\ pc' = "done" /\ UNCHANGED <<c, pi, mat, calls, lab, nl, fr, gi, seqs>>

Step == PairHit \/ PairMiss \/ PairsDone \/ NewRoot \/ Wave \/ LabelDone \/ GroupNew \/ GroupAdd \/ GroupDone
Next == Step /\ steps' = steps + 1
Spec == Init /\ [][Next]_vars /\ WF_vars(Next)

\* control "revalidated": a subclass instance comes out as another object (0 = not an input event)
OutId(i) == IF OutputCopy = "revalidated" /\ c.id[i] \in Range(c.sub) THEN 0 ELSE c.id[i]
Out == [s \in DOMAIN seqs |-> [k \in DOMAIN seqs[s][2] |-> OutId(seqs[s][2][k])]]      \* what is observed: events, not positions
Export == pc = "done" => PrintT(<<"CASE", ToJson(c)>>)

(* ---- Impl => Req ---- *)
ImplRefinesReq == pc = "done" => \A cl \in ReqClauses : ClauseHolds(cl, c, Out, calls)
ImplCallsDistinct == pc = "pairs" => ClauseHolds("CallsOnDistinctInputs", c, <<>>, calls)      \* calls is frozen afterwards
ImplMatrix == (pc = "pairs" \/ (pc = "label" /\ nl = 0)) =>                 \* mat is frozen afterwards
              /\ \A p \in mat : <<p[2], p[1]>> \in mat /\ p[1] # p[2] /\ Edge(c, p[1], p[2])
              /\ pc # "pairs" => \A i, j \in Nodes(c) : Edge(c, i, j) => <<i, j>> \in mat
\* labelling never joins unconnected nodes; a finished label is a whole component
ImplLabelSound == pc \in {"label", "group"} /\ gi = 1 =>                  \* lab is frozen once grouping starts
    LET cf == CompF(c) IN
    /\ \A i, j \in Nodes(c) : (lab[i] # -1 /\ lab[i] = lab[j]) => j \in cf[i]
    /\ \A i \in Nodes(c) : (lab[i] # -1 /\ (lab[i] < nl - 1 \/ fr = {})) => \A j \in cf[i] : lab[j] = lab[i]
ImplEveryPairOnce == (pc = "label" /\ nl = 0) => calls = [k \in DOMAIN PS |-> <<c.id[PS[k][1]], c.id[PS[k][2]], 1, 1>>]
(* ---- laws of Req, once per graph ---- *)
Laws == (pc = "label" /\ nl = 0 /\ fr = {}) =>        \* the state after the last pair (not the initial state: TLC computes those single-threaded)
           /\ LawEquivalence(c) /\ LawContainsEdges(c) /\ LawLeast(c) /\ LawWarshall(c) /\ LawNoEdgeNoLink(c) /\ LawTwins(c) /\ LawCliques(c) /\ WellFormed(c)
Terminates == <>(pc = "done")                    \* liveness, checked in the quick configuration (<= 5 nodes)
\* the same fact by safety alone (used for 6 nodes, where TLC's liveness graph is slow): no state before "done" is
\* stuck and no behaviour is longer than pairs + 1 + (a root and at most one wave per node, one empty wave per root) + 1 + n + 1
StepBound == ((c.n * (c.n - 1)) \div 2) + 3 * c.n + 3
TerminatesBySafety == steps <= StepBound /\ (pc # "done" => ENABLED Step)
=============================================================================
