------------------------------ MODULE SchemaRel ------------------------------
(***************************************************************************)
(* C04 -- relational schema invariants cannot be bypassed at construction. *)
(*                                                                         *)
(* Cases (field "kind"):                                                   *)
(*  "ce"      clip evaluation: na annotations a1..a_na, np predictions     *)
(*            p1..p_np, ms = sequence of matches <<s, t>> with s (source)  *)
(*            in 0..3 and t (target) in 0..3: 0 = none, k = p_k / a_k      *)
(*            (foreign when k > np / na; 3 is always foreign); pairing of  *)
(*            the annotated and the predicted clip:                        *)
(*            "same" (one object), "copy" (two equal objects, same uuid),  *)
(*            "diff_times" (another clip of the recording), "diff_rec";    *)
(*            ase / pse: which sound event annotation k / prediction k     *)
(*            wraps (<<1, 2, 3>> = each its own).  Two annotations may     *)
(*            wrap one and the same sound event; they remain two annotated *)
(*            sound events: Valid is decided on the annotation / prediction*)
(*            objects (as the validator of the library reads "mention      *)
(*            every annotated and every predicted sound event exactly      *)
(*            once"), never on the wrapped SoundEvent, so Valid does not   *)
(*            depend on ase / pse;                                         *)
(*            pu: pu[k] = j > 0 when prediction k carries the SAME UUID as *)
(*            annotation j (0 = its own uuid): legal, they are objects of  *)
(*            different classes (a detector re-scoring annotations and     *)
(*            keeping their ids).  Sources are predictions and targets are *)
(*            annotations, so Valid stays per side and ignores pu.         *)
(*            al / pl: the sound_events LIST of the clip annotation / clip *)
(*            prediction as written: annotation numbers in listed order,   *)
(*            Range(al) = 1..na.  A list may hold the same event twice     *)
(*            (rc = FALSE: the same object, TRUE: an equal copy).  Reading *)
(*            of "mention every annotated and every predicted sound event  *)
(*            exactly once": one mention per DISTINCT annotated event -- an*)
(*            event listed twice is still one annotated event, and two     *)
(*            matches on it would mention it twice.  So Valid is decided on*)
(*            the sets 1..na / 1..np and ignores al / pl / rc.             *)
(*            Further pairings: "twin" -- another clip (another uuid) over *)
(*            the very same span of the same recording: NOT the same clip; *)
(*            "copy_features" / "copy_rec_tag" -- the    *)
(*            predicted clip is a later-enriched COPY of the annotated clip*)
(*            (same uuid, recording and times; clip features added / a tag *)
(*            added to its copy of the recording).  What identifies a clip *)
(*            in this library is its uuid (hash, AOEF registry, validators)*)
(*            so an enriched copy is still that clip                       *)
(*  "match"   one match with / without source s and target t (0 / 1)       *)
(*  "project" annotation project over clips 1..3: tseq = the clips of the  *)
(*            tasks in the ORDER the project lists them, aseq = the clips  *)
(*            of the clip annotations in their order (a clip may carry two *)
(*            clip annotations).  "Only holds annotations of clips that    *)
(*            have a task" is a statement about membership: Valid does not *)
(*            depend on either order nor on multiplicities;                *)
(*            enr[k]: the task and the clip annotation hold two copies of  *)
(*            clip k that differ in non-identity content (0 = identical,   *)
(*            1 = the task's copy has clip features, 2 = the annotation's  *)
(*            copy of the recording has an extra tag); Valid is on uuids   *)
(*  "clip"    start st and end en (integer ticks of unit u), written as    *)
(*            enc in "num", "int", "str", "str_num", "num_str"             *)
(*  "score"   field (one of Fields), value v (one of ScoreValues), enc     *)
(* Score cases on Match.affinity / Match.score also say which SIDES the    *)
(* match carrying the number has: "both", "source" only, "target" only --  *)
(* a bound on a number does not depend on it, so Valid ignores sides.      *)
(* Fields that say HOW the case is run and that Valid never reads:         *)
(*   mp  the mapping type handed to the dict-validation path (model_validate*)
(*       accepts any Mapping): "dict", "proxy" (types.MappingProxyType),   *)
(*       "userdict", "chainmap", "ordered"; nested match mappings too      *)
(*   opt present (= 1) on the few cases that were executed in a child      *)
(*       interpreter started with -O (assert statements compiled away):    *)
(*       the statement says "for any combination of inputs", however the   *)
(*       library is run                                                    *)
(* Every case is built through Paths; the observation lists, per path,     *)
(* whether an object was built and what it stores.                         *)
(***************************************************************************)
EXTENDS Lattice

Paths == <<"ctor", "dict", "json", "aoef">>

(* ------------------------------- Valid ---------------------------------- *)
\* matches ms against the annotated set A and the predicted set P (sets of universe numbers)
Count(ms, side, x) == Cardinality({k \in DOMAIN ms : ms[k][side] = x})
MatchHasSide(m)    == m[1] # 0 \/ m[2] # 0
MatchesOK(A, P, ms) ==
    /\ \A k \in DOMAIN ms : MatchHasSide(ms[k])                          \* a match has a source or a target
    /\ \A k \in DOMAIN ms : (ms[k][1] = 0 \/ ms[k][1] \in P) /\ (ms[k][2] = 0 \/ ms[k][2] \in A)    \* nothing foreign
    /\ \A a \in A : Count(ms, 2, a) = 1                                  \* every annotated event exactly once
    /\ \A p \in P : Count(ms, 1, p) = 1                                  \* every predicted event exactly once
SameClip(pairing) == pairing \in {"same", "copy", "copy_features", "copy_rec_tag"}       \* same uuid

ScoreValues == <<"-eps", "-0", "0", "eps", "half", "1-eps", "1", "1+eps", "nan", "inf", "none">>
InUnit(v) == v \in {"-0", "0", "eps", "half", "1-eps", "1"}             \* -0.0 = 0 lies in [0, 1]
Fields == <<"PredictedTag.score", "SoundEventPrediction.score", "SequencePrediction.score",
            "Match.affinity", "Match.score", "ClipEvaluation.score", "Evaluation.score">>
OptionalField(f) == f \in {"Match.score", "ClipEvaluation.score", "Evaluation.score"}
\* Evaluation.score carries no bound in the library and is not named by the statement's mechanisms: observed only
Judged(c) == ~(c.kind = "score" /\ c.field = "Evaluation.score")

Valid(c) ==
    CASE c.kind = "ce"      -> SameClip(c.pairing) /\ MatchesOK(1..c.na, 1..c.np, c.ms)
      [] c.kind = "match"   -> c.s # 0 \/ c.t # 0
      [] c.kind = "project" -> \A k \in DOMAIN c.aseq : c.aseq[k] \in Range(c.tseq)
      [] c.kind = "clip"    -> c.st <= c.en
      [] c.kind = "score"   -> c.v = "none" \/ InUnit(c.v)               \* an absent score is no score

(* ---------------------- what a built object stores ----------------------- *)
StoredOK(c, st) ==
    CASE c.kind = "ce"      -> st.same_clip /\ MatchesOK(Range(st.anns), Range(st.preds), st.ms)
      [] c.kind = "match"   -> st.s # 0 \/ st.t # 0
      [] c.kind = "project" -> \A k \in DOMAIN st.ann : \E j \in DOMAIN st.task : st.task[j] = st.ann[k]
      [] c.kind = "clip"    -> /\ ~IsNone(st.st) /\ ~IsNone(st.en)
                               /\ LFinite(Some(st.st)) /\ LFinite(Some(st.en))
                               /\ LLe(Some(st.st), Some(st.en))          \* never starts after it ends
      [] c.kind = "score"   -> st.built_none \/ (~IsNone(st.v) /\ LIn(Some(st.v), 0, 1))

(* ------------------------------- clauses --------------------------------- *)
Clauses == {"ConstructIffValid", "PathsAgree", "StoredWithinBounds"}
\* the lists of a clip evaluation case name exactly the annotated / predicted events
CaseOK(c) == c.kind = "ce" => (Range(c.al) = 1..c.na /\ Range(c.pl) = 1..c.np)
Holds(cl, o) ==
    LET c == o.in  ps == o.out.paths IN
    IF ~Judged(c) THEN TRUE
    ELSE CASE cl = "ConstructIffValid"  -> CaseOK(c) /\ \A p \in DOMAIN ps : ps[p].built <=> Valid(c)
           [] cl = "PathsAgree"         -> Len(ps) = Len(Paths) /\ \A p, q \in DOMAIN ps : ps[p].built = ps[q].built
           [] cl = "StoredWithinBounds" -> \A p \in DOMAIN ps : ps[p].built => StoredOK(c, ps[p].stored)

(* --------------------------- laws of Valid ------------------------------- *)
\* the order of the matches does not matter
LawOrderFree(c) == c.kind = "ce" =>
    \A i, j \in DOMAIN c.ms :
       LET sw == [k \in DOMAIN c.ms |-> IF k = i THEN c.ms[j] ELSE IF k = j THEN c.ms[i] ELSE c.ms[k]]
       IN  MatchesOK(1..c.na, 1..c.np, sw) = MatchesOK(1..c.na, 1..c.np, c.ms)
\* a valid arrangement has between max(na, np) and na + np matches, and exactly as many sides as events
LawCounting(c) == (c.kind = "ce" /\ MatchesOK(1..c.na, 1..c.np, c.ms)) =>
    /\ Len(c.ms) <= c.na + c.np /\ Len(c.ms) >= Max(c.na, c.np)
    /\ Cardinality({k \in DOMAIN c.ms : c.ms[k][1] # 0}) = c.np
    /\ Cardinality({k \in DOMAIN c.ms : c.ms[k][2] # 0}) = c.na
\* the empty clip evaluation (nothing annotated, nothing predicted, no match) is valid
LawEmpty == MatchesOK({}, {}, <<>>)
\* project membership is order- and multiplicity-free: any other listing of the same clips is judged alike
LawProjectOrderFree(c) == c.kind = "project" =>
    \A i, j \in DOMAIN c.aseq :
       LET sw == [k \in DOMAIN c.aseq |-> IF k = i THEN c.aseq[j] ELSE IF k = j THEN c.aseq[i] ELSE c.aseq[k]]
       IN  (\A k \in DOMAIN sw : sw[k] \in Range(c.tseq)) = (\A k \in DOMAIN c.aseq : c.aseq[k] \in Range(c.tseq))
=============================================================================
