SPECIFICATION Spec
CONSTANTS
  N = 4
  GeomStride = 5
CONSTRAINT Export
INVARIANT LawSym
INVARIANT LawMonoAbs
INVARIANT LawMonoRel
INVARIANT LawTouching
INVARIANT LawDisjoint
INVARIANT LawDefaultIsAbs0
INVARIANT LawClipInside
INVARIANT LawOutcome
CHECK_DEADLOCK FALSE
