---------------------------- MODULE MC_Crowsetta ----------------------------
(***************************************************************************)
(* Enumeration machine for C10.  Initial states = every case of the        *)
(* bounded universe (six kinds); actions = the steps of the conversions    *)
(* as the implementation performs them (Impl): per element "seconds or     *)
(* samples over the file rate", "adjust by the expansion factor once";     *)
(* per event "convert / skip / raise"; the two label cascades as decision  *)
(* procedures.  Invariants: Impl => Req, and the laws of Req itself.       *)
(* CascadeImpl = "fixed" is the repaired cascade, "found" the cascades as  *)
(* found (history/MC_Crowsetta_found.cfg keeps TLC's counterexamples).     *)
(***************************************************************************)
EXTENDS Crowsetta, Json
CONSTANTS Tier,          \* "quick" | "thorough"
          CascadeImpl    \* "fixed" | "found"
VARIABLES c, pc, i, tmp, acc, err
vars == <<c, pc, i, tmp, acc, err>>

Quick == Tier = "quick"
Tri   == {"a", "h", "m"}
Opt(S) == {<<>>} \cup {<<x>> : x \in S}
Tes   == {<<1, 1>>, <<2, 1>>, <<4, 1>>, <<1, 2>>}
TDEN  == 64                      \* import / round-trip time ticks per second
FDEN  == 2                       \* frequency ticks per Hz
ETDEN == 8                       \* export time ticks per second (catalogue ticks 0..6)
Cat   == Catalogue(MAXF * FDEN) \o <<G("None", 0)>>
NONE  == Len(Cat)

(* ------------------------------------------------------------------ l2t *)
LabelModes == <<[label |-> "dog", empties |-> <<>>], [label |-> "__empty__", empties |-> <<>>],
                [label |-> "NA", empties |-> <<<<"NA", "none">>>>], [label |-> "__empty__", empties |-> <<<<"NA", "none">>>>],
                \* labels with surrounding whitespace: the label, unchanged, is the value ("with the label as value")
                [label |-> " dog", empties |-> <<>>], [label |-> "song\n", empties |-> <<>>], [label |-> " ", empties |-> <<>>],
                [label |-> "\tcall ", empties |-> <<>>],
                \* substrings of "__empty__" are ordinary labels: only a label IN empty_labels gives no tags
                [label |-> "e", empties |-> <<>>], [label |-> "_", empties |-> <<>>], [label |-> "__", empties |-> <<>>],
                [label |-> "empty", empties |-> <<>>], [label |-> "pty", empties |-> <<>>], [label |-> "m", empties |-> <<>>],
                [label |-> "y", empties |-> <<<<"__empty__">>>>], [label |-> "none", empties |-> <<<<"NA", "none">>>>],
                [label |-> "non", empties |-> <<<<"NA", "none">>>>],
                \* the label "": the statement does not say whether it is "the empty label"; both outcomes are accepted
                [label |-> "", empties |-> <<>>]>>
ListOpts == IF Quick THEN {FALSE} ELSE BOOLEAN
L2tCases == {[kind |-> "l2t", lm |-> m, fn |-> f, termmap |-> a, tagmap |-> b, keymap |-> d, key |-> k, term |-> t, fb |-> fb,
              fnlist |-> fl, tagmaplist |-> ~fl] :
             m \in 1..Len(LabelModes), f \in Tri, a \in Tri, b \in Tri, d \in Tri, k \in Opt({"K"}), t \in Opt({"T"}),
             fb \in Opt({"FB"}), fl \in ListOpts}
\* quick: for the two empty-label modes the mappings do not matter (LawEmptyWins); keep a slice
L2tKeep(k) == /\ (Quick /\ k.lm \in {2, 3}) => (k.termmap = "a" /\ k.keymap = "a" /\ k.fb = <<>>)
              /\ (k.lm > 4) => (k.fn = "a" /\ k.tagmap = "a" /\ k.fb = <<>> /\ (Quick => (k.termmap # "m" /\ k.keymap # "m")))
ToOf(k) == [label |-> LabelModes[k.lm].label, empties |-> LabelModes[k.lm].empties, fn |-> k.fn, termmap |-> k.termmap,
            tagmap |-> k.tagmap, keymap |-> k.keymap, key |-> k.key, term |-> k.term, fb |-> k.fb,
            fnlist |-> k.fnlist, tagmaplist |-> k.tagmaplist]

(* ------------------------------------------------------------ t2l / t1l *)
TA == <<"animal", "dog", "k">>   TB == <<"sex", "male", "k">>   TC == <<"animal", "cat", "k">>
\* tags whose term is NOT the simple key-term: hand-built Term labelled "animal"; the vocabulary term labelled "Common Name"
TW == <<"animal", " dog \n", "k">>       \* a tag value with surrounding whitespace
TAh == <<"animal", "wolf", "h">>   TVv == <<"Common Name", "fox", "v">>   TVk == <<"Common Name", "hare", "k">>
TagLists == <<<<>>, <<TA>>, <<TA, TB>>, <<TB, TC, TA>>, <<TB, TC>>,
              <<TAh>>, <<TAh, TC>>, <<TC, TAh>>, <<TVv>>, <<TVv, TVk>>, <<TVk, TVv>>, <<TB, TVv, TAh>>, <<TW>>, <<TW, TA>>>>
OldLists == 5
IdxVals  == IF Quick THEN {-3, -1, 0, 2, 5} ELSE -7..7
T2lCases == {[kind |-> "t2l", tl |-> tl, seqfn |-> sf, sel |-> s, idx |-> ix, sep |-> sp, empty |-> em, fn |-> fn, map |-> mp, vo |-> vo] :
             tl \in 1..Len(TagLists), sf \in BOOLEAN, s \in Opt({"animal", "sex", "zzz", "Common Name"}), ix \in Opt(IdxVals),
             sp \in Opt({"|"}), em \in Opt({"NA"}), fn \in BOOLEAN, mp \in Tri, vo \in {"a", "t", "f"}}
T2lKeep(k) == /\ (k.sel = <<"Common Name">>) => k.tl > OldLists
              /\ (Quick /\ k.tl > OldLists) => (k.sel # <<>> /\ k.sel # <<"sex">> /\ k.idx = <<>> /\ k.sep = <<>> /\ k.empty = <<>> /\ ~k.fn /\ ~k.seqfn)
              /\ (k.tl > OldLists) => (k.sep = <<>> /\ k.empty = <<>> /\ (k.idx = <<>> \/ k.idx \in {<<-1>>, <<0>>, <<2>>}))
              /\ k.seqfn => (k.sep = <<>> /\ ~k.fn /\ k.map = "a" /\ k.vo = "a")
              /\ (Quick /\ k.sep # <<>>) => (k.idx = <<>> /\ (k.sel = <<>> \/ k.tl = 3))   \* the join separator matters for joins only
              /\ (Quick /\ k.empty # <<>>) => (k.idx = <<>> /\ ~k.fn)
LoOf(k) == [seqfn |-> k.seqfn, sel |-> k.sel, idx |-> k.idx, sep |-> k.sep, empty |-> k.empty, kvsep |-> <<>>,
            fn |-> k.fn, map |-> k.map, vo |-> k.vo]
T1lCases == {[kind |-> "t1l", tag |-> t, lo |-> [seqfn |-> FALSE, sel |-> <<>>, idx |-> <<>>, sep |-> <<>>, empty |-> <<>>,
                                                  kvsep |-> ks, fn |-> fn, map |-> mp, vo |-> vo]] :
             t \in {TA, TB, TC, TAh, TVv, TW}, ks \in Opt({"=", ""}), fn \in BOOLEAN, mp \in Tri, vo \in {"a", "t", "f"}}

(* ------------------------------------------------------------------ imp *)
TimeTicks == {0, 8, 24, 40, 64}
SmpVals   == {0, 1, 3, 8, 20}
FrqTicks  == {0, 2, 4, 10}
Pairs(S)  == {p \in S \X S : p[1] <= p[2]}
SPairs(S) == {p \in S \X S : p[1] < p[2]}
Srs == {4, 8, 16}
\* single elements: mode "sec" (seconds only), "both" (seconds win over samples), "smp" (samples only)
ImpSegSingles == {[kind |-> "imp", via |-> "segment", sr |-> sr, te |-> te, mode |-> m, a |-> p, f |-> <<>>] :
                  sr \in Srs, te \in Tes, m \in {"sec", "both", "smp"}, p \in Pairs(TimeTicks) \cup Pairs(SmpVals)}
ImpSegKeep(k) == IF k.mode = "smp" THEN k.a \in Pairs(SmpVals) ELSE k.a \in Pairs(TimeTicks)
ImpBoxSingles == {[kind |-> "imp", via |-> "bbox", sr |-> 8, te |-> te, mode |-> "sec", a |-> p, f |-> <<f[1], f[2]>>] :
                  te \in Tes, p \in SPairs(TimeTicks), f \in SPairs(FrqTicks)}
\* lists: pools by mode, all sequences of length 2..3 (quick: 3) over the pool
SecPool == <<<<8, 24>>, <<24, 24>>, <<0, 64>>, <<40, 64>>>>
SmpPool == <<<<1, 3>>, <<3, 3>>, <<0, 20>>, <<8, 20>>>>
BoxPool == <<<<8, 24, 0, 2>>, <<0, 64, 2, 10>>, <<24, 40, 4, 10>>, <<40, 64, 0, 10>>>>
Lists(n) == IF Quick THEN [1..3 -> 1..n] ELSE [1..2 -> 1..n] \cup [1..3 -> 1..n] \cup {<<1>>, <<>>}
ImpLists == {[kind |-> "impl", via |-> v, sr |-> 8, te |-> te, mode |-> m, ix |-> l] :
             v \in {"sequence", "annot_seq", "annot_bbox"}, te \in {<<1, 1>>, <<4, 1>>, <<1, 2>>}, m \in {"sec", "both", "smp"}, l \in Lists(4)}
ImpListKeep(k) == /\ (k.via = "annot_bbox" => k.mode = "sec") /\ (k.via = "annot_seq" => Len(k.ix) > 0)
                  /\ (Quick /\ k.te = <<1, 1>> /\ k.via # "annot_bbox") => k.mode = "smp"
\* labels of list elements: distinct, two of them differing only by surrounding whitespace
Lab(j) == CASE j = 1 -> "e" [] j = 2 -> " e" [] j = 3 -> "L3 \n" [] OTHER -> "L" \o ToString(j)
El(mode, a, f, lab) == [sec |-> IF mode = "smp" THEN <<>> ELSE <<a[1], a[2]>>,
                        smp |-> IF mode = "smp" THEN <<a[1], a[2]>> ELSE IF mode = "both" THEN <<7, 9>> ELSE <<>>,
                        frq |-> f, label |-> lab]
ImpCommon(k) == [kind |-> "imp", via |-> k.via, sr |-> k.sr, te |-> k.te, tden |-> TDEN, fden |-> FDEN, exact |-> TRUE]
ImpOf(k) == ImpCommon(k) @@ [els |->
    IF k.kind = "imp" THEN <<El(k.mode, k.a, k.f, "L1")>>
    ELSE [j \in 1..Len(k.ix) |->
            IF k.via = "annot_bbox" THEN LET b == BoxPool[k.ix[j]] IN El("sec", <<b[1], b[2]>>, <<b[3], b[4]>>, Lab(j))
            ELSE El(k.mode, IF k.mode = "smp" THEN SmpPool[k.ix[j]] ELSE SecPool[k.ix[j]], <<>>, Lab(j))]]

(* ------------------------------------------------------------------ exp *)
ExpSrs == {2, 3, 4, 8}
\* label options through the exporters: value_only omitted / True / False x select_by_key omitted / "ev" (the events' key)
ExpSingles == {[kind |-> "exp", via |-> v, sr |-> sr, cast |-> ca, ign |-> FALSE, rtg |-> r, vo |-> vo, lsel |-> ls, ix |-> <<g>>] :
               v \in {"segment", "bbox"}, sr \in ExpSrs, ca \in BOOLEAN, r \in BOOLEAN, vo \in {"a", "t", "f"}, ls \in Opt({"ev"}),
               g \in 1..Len(Cat)}
ListPool == IF Quick THEN <<4, 12, 8, NONE>> ELSE <<4, 12, 8, NONE, 15, 2, 14, 21>>
ExpLists == {[kind |-> "exp", via |-> v, sr |-> 4, cast |-> ca, ign |-> ig, rtg |-> r, vo |-> vo, lsel |-> ls, ix |-> l] :
             v \in {"sequence", "annot_seq", "annot_bbox"}, ca \in BOOLEAN, ig \in BOOLEAN, r \in BOOLEAN, vo \in {"a", "t", "f"}, ls \in Opt({"ev"}),
             l \in {[j \in DOMAIN m |-> ListPool[m[j]]] : m \in Lists(Len(ListPool))}}
ExpLabelDefault(k) == k.vo = "a" /\ k.lsel = <<>>
ExpKeep(k) == /\ (~IsBoxVia(k) => k.rtg)                                              \* rtg exists for boxes only
              /\ (k.sr # 4 => ExpLabelDefault(k))                                     \* label options vary at one rate
              /\ (Len(k.ix) > 1 /\ ~ExpLabelDefault(k)) => (k.cast /\ k.ign /\ k.rtg /\ (Quick => (k.lsel # <<>> \/ k.vo = "t")))
              /\ (Quick /\ Len(k.ix) = 1 /\ ~ExpLabelDefault(k) /\ k.lsel = <<>>) => k.cast
ExpOf(k) == [kind |-> "exp", via |-> k.via, sr |-> k.sr, tden |-> ETDEN, fden |-> FDEN, cast |-> k.cast, ign |-> k.ign,
             rtg |-> k.rtg, vo |-> k.vo, lsel |-> k.lsel, evs |-> [j \in DOMAIN k.ix |-> Cat[k.ix[j]]]]

(* ------------------------------------------------------------------- rt *)
RtBoxPool == <<<<8, 24, 0, 2>>, <<0, 64, 2, 16>>, <<24, 40, 1, 3>>>>        \* high <= Nyquist (sr = 16: 16 ticks)
RtSecPool == <<<<8, 24>>, <<24, 24>>, <<0, 64>>>>
RtSmpPool == <<<<1, 3>>, <<3, 3>>, <<0, 8>>>>
RtLists   == [1..1 -> 1..3] \cup [1..2 -> 1..3] \cup (IF Quick THEN {} ELSE [1..3 -> 1..3])
\* sel = <<"TM">>: import with term_mapping = {every label: a hand-built Term labelled "TM"}, export with select_by_key = "TM"
RtCases == {[kind |-> "rt", via |-> v, sr |-> sr, mode |-> m, ix |-> l, emp |-> e, ikey |-> ik, sel |-> sl] :
            v \in {"segment", "bbox", "sequence", "annot_seq", "annot_bbox"}, sr \in {4, 16}, m \in {"sec", "both", "smp"},
            l \in RtLists, e \in BOOLEAN, ik \in Opt({"K"}), sl \in Opt({"TM"})}
RtKeep(k) == /\ (k.via \in {"segment", "bbox"} => Len(k.ix) = 1)
             /\ (Quick /\ Len(k.ix) > 1) => (k.emp <=> k.ikey # <<>>)
             /\ (IsBoxVia(k) => k.mode = "sec" /\ k.sr = 16)
             /\ (k.sel # <<>>) => (k.ikey = <<>> /\ (Quick => k.sr = 16))
RtBase(k) == [via |-> k.via, sr |-> k.sr, tden |-> TDEN, fden |-> FDEN, cast |-> FALSE, ign |-> FALSE, rtg |-> TRUE, vo |-> "t", lsel |-> <<>>]
RtOf(k) ==
    [kind |-> "rt", te |-> <<1, 1>>, exact |-> TRUE, ikey |-> k.ikey, sel |-> k.sel] @@ RtBase(k) @@
    [els |-> [j \in 1..Len(k.ix) |->
        LET lab == IF k.emp /\ j = 1 THEN "__empty__" ELSE Lab(j) IN
        IF IsBoxVia(k) THEN LET b == RtBoxPool[k.ix[j]] IN El("sec", <<b[1], b[2]>>, <<b[3], b[4]>>, lab)
        ELSE IF k.mode = "smp" THEN El("smp", RtSmpPool[k.ix[j]], <<>>, lab)
        ELSE LET s == RtSecPool[k.ix[j]] IN
             [sec |-> s, smp |-> IF k.mode = "both" THEN <<(s[1] * k.sr) \div TDEN, (s[2] * k.sr) \div TDEN>> ELSE <<>>,
              frq |-> <<>>, label |-> lab]]]

(* ------------------------------------------------------------------- xs *)
\* times k/den that are NOT binary fractions, ascending; the binder passes the double nearest to k/den
XsTimes == <<<<0, 1>>, <<33, 1000>>, <<7, 100>>, <<29, 100>>, <<3, 10>>, <<1, 3>>, <<57, 100>>, <<58, 100>>, <<2, 3>>, <<999, 1000>>,
             <<99999999, 100000000>>, <<999999999, 1000000000>>, <<1001, 1000>>, <<115, 100>>, <<1999999999, 1000000000>>>>
XsRates == {<<8, <<8, 1>>>>, <<100, <<100, 1>>>>, <<1000, <<1000, 1>>>>, <<8000, <<8000, 1>>>>, <<22050, <<22050, 1>>>>, <<44100, <<210, 210>>>>}
XsCases == {[kind |-> "xs", via |-> v, sr |-> r[1], srf |-> r[2], a |-> a, b |-> b] :
            v \in {"segment", "sequence"}, r \in XsRates, a \in 1..Len(XsTimes), b \in 1..Len(XsTimes)}
XsKeep(k) == k.a <= k.b /\ (Quick => (k.b <= k.a + 1 /\ (k.via = "sequence" => k.sr = 100)))
XsOf(k) == [kind |-> "xs", via |-> k.via, sr |-> k.sr, srf |-> k.srf, t |-> <<XsTimes[k.a], XsTimes[k.b]>>]

(* -------------------------------------------------- the case, written out *)
Concrete(k) ==
    CASE k.kind = "l2t" -> [kind |-> "l2t", to |-> ToOf(k)]
      [] k.kind = "t2l" -> [kind |-> "t2l", tags |-> TagLists[k.tl], lo |-> LoOf(k)]
      [] k.kind = "t1l" -> k
      [] k.kind \in {"imp", "impl"} -> ImpOf(k)
      [] k.kind = "exp" -> ExpOf(k)
      [] k.kind = "rt"  -> RtOf(k)
      [] k.kind = "xs"  -> XsOf(k)

(* ============================ Impl: the cascades ========================= *)
ImplTags(to) ==
    IF LabelEmpty(to) THEN <<>>
    ELSE IF to.fn = "h" THEN FnTags(to)
    ELSE IF CascadeImpl = "found" THEN
         LET term1 == IF to.termmap = "h" THEN <<"TM">> ELSE to.term IN
         IF term1 = <<>> /\ to.tagmap = "h" THEN MapTags(to)
         ELSE LET key1 == IF term1 = <<>> /\ to.keymap # "a" THEN (IF to.keymap = "h" THEN <<"KM">> ELSE <<>>) ELSE to.key
                  key2 == IF key1 = <<>> THEN Fallback(to) ELSE key1[1]
              IN  IF term1 = <<>> THEN One(key2, to) ELSE One(term1[1], to)
    ELSE \* repaired: a hitting term_mapping decides; tag_mapping is consulted before the explicit term;
         \* a missing key_mapping entry keeps the explicit key
         IF to.termmap = "h" THEN One("TM", to)
         ELSE IF to.tagmap = "h" THEN MapTags(to)
         ELSE LET key1 == IF to.term = <<>> /\ to.keymap = "h" THEN <<"KM">> ELSE to.key
                  key2 == IF key1 = <<>> THEN Fallback(to) ELSE key1[1]
              IN  IF to.term = <<>> THEN One(key2, to) ELSE One(to.term[1], to)

ImplLabel(tags, lo) ==
    IF lo.seqfn THEN "seq<" \o ToString(Len(tags)) \o ">"
    ELSE IF tags = <<>> THEN OptOr(lo.empty, "__empty__")
    ELSE IF lo.sel # <<>> THEN
         LET hits == {j \in DOMAIN tags : tags[j][1] = lo.sel[1]}
         IN  IF hits = {} THEN OptOr(lo.empty, "__empty__")
             ELSE IF CascadeImpl = "found"
                  THEN (IF lo.vo # "a" THEN "raise:TypeError" ELSE OneLabel(tags[SetMin(hits)], lo, TRUE))   \* value_only passed twice
                  ELSE OneLabel(tags[SetMin(hits)], lo, lo.vo # "f")                                          \* value only by default
    ELSE IF lo.idx # <<>> THEN OneLabel(tags[(lo.idx[1] % Len(tags)) + 1], lo, lo.vo = "t")
    ELSE Join([j \in DOMAIN tags |-> OneLabel(tags[j], lo, lo.vo = "t")], OptOr(lo.sep, ","))

(* ================================ machine ================================ *)
K == Concrete(c)
Init == /\ pc = "start" /\ i = 1 /\ tmp = <<>> /\ acc = <<>> /\ err = ""
        /\ \/ c \in {k \in L2tCases : L2tKeep(k)}
           \/ c \in {k \in T2lCases : T2lKeep(k)}
           \/ c \in T1lCases
           \/ c \in {k \in ImpSegSingles : ImpSegKeep(k)}
           \/ c \in ImpBoxSingles
           \/ c \in {k \in ImpLists : ImpListKeep(k)}
           \/ c \in {k \in ExpSingles : ExpKeep(k)}
           \/ c \in {k \in ExpLists : ExpKeep(k)}
           \/ c \in {k \in RtCases : RtKeep(k)}
           \/ c \in {k \in XsCases : XsKeep(k)}

\* label cascades and round trips: one step
CascadeTags  == pc = "start" /\ c.kind = "l2t" /\ acc' = ImplTags(K.to) /\ pc' = "done" /\ UNCHANGED <<c, i, tmp, err>>
CascadeLabel == pc = "start" /\ c.kind \in {"t2l", "t1l"} /\ pc' = "done" /\ UNCHANGED <<c, i, tmp, err>>
                /\ acc' = IF c.kind = "t2l" THEN ImplLabel(K.tags, K.lo) ELSE OneLabel(K.tag, K.lo, K.lo.vo = "t")
RoundTripStep == pc = "start" /\ c.kind \in {"rt", "xs"} /\ pc' = "done" /\ UNCHANGED <<c, i, tmp, acc, err>>

\* import: per element, (1) file time from seconds or from samples over the file rate, (2) adjust by te once
IsImp == c.kind \in {"imp", "impl"}
ImpEnter == pc = "start" /\ IsImp /\ pc' = "imp" /\ UNCHANGED <<c, i, tmp, acc, err>>
RDivR(a, b) == <<a[1] * b[2], a[2] * b[1]>>
ImpSec == /\ pc = "imp" /\ i <= Len(K.els) /\ tmp = <<>> /\ K.els[i].sec # <<>>
          /\ tmp' = <<<<K.els[i].sec[1], K.tden>>, <<K.els[i].sec[2], K.tden>>>> /\ UNCHANGED <<c, pc, i, acc, err>>
ImpSmp == /\ pc = "imp" /\ i <= Len(K.els) /\ tmp = <<>> /\ K.els[i].sec = <<>>
          /\ LET rate == <<K.sr * K.te[2], K.te[1]>>                        \* samplerate = recording.samplerate / time_expansion
             IN  tmp' = <<RDivR(<<K.els[i].smp[1], 1>>, rate), RDivR(<<K.els[i].smp[2], 1>>, rate)>>
          /\ UNCHANGED <<c, pc, i, acc, err>>
FrqOf(el) == IF IsBoxEl(el) THEN <<<<el.frq[1], K.fden>>, <<el.frq[2], K.fden>>>> ELSE <<>>
ImpAdjust == /\ pc = "imp" /\ tmp # <<>> /\ K.te # <<1, 1>>
             /\ acc' = Append(acc, [t |-> <<DivTe(tmp[1], K), DivTe(tmp[2], K)>>,
                                    f |-> [j \in DOMAIN FrqOf(K.els[i]) |-> MulTe(FrqOf(K.els[i])[j], K)]])
             /\ tmp' = <<>> /\ i' = i + 1 /\ UNCHANGED <<c, pc, err>>
ImpKeepAsIs == /\ pc = "imp" /\ tmp # <<>> /\ K.te = <<1, 1>>
               /\ acc' = Append(acc, [t |-> tmp, f |-> FrqOf(K.els[i])])
               /\ tmp' = <<>> /\ i' = i + 1 /\ UNCHANGED <<c, pc, err>>
ImpEnd == pc = "imp" /\ i > Len(K.els) /\ tmp = <<>> /\ pc' = "done" /\ UNCHANGED <<c, i, tmp, acc, err>>

\* export: the loop of sequence_from_annotations / annotation_from_clip_annotation (element calls: one iteration)
ExpEnter   == pc = "start" /\ c.kind = "exp" /\ pc' = "exp" /\ UNCHANGED <<c, i, tmp, acc, err>>
ExpConvert == /\ pc = "exp" /\ i <= Len(K.evs) /\ ~Unconv(K.evs[i], K)
              /\ acc' = Append(acc, ExpItem(K.evs[i], i, K)) /\ i' = i + 1 /\ UNCHANGED <<c, pc, tmp, err>>
ExpSkip    == pc = "exp" /\ i <= Len(K.evs) /\ Unconv(K.evs[i], K) /\ K.ign /\ i' = i + 1 /\ UNCHANGED <<c, pc, tmp, acc, err>>
ExpRaise   == pc = "exp" /\ i <= Len(K.evs) /\ Unconv(K.evs[i], K) /\ ~K.ign /\ err' = "ValueError" /\ pc' = "done" /\ UNCHANGED <<c, i, tmp, acc>>
ExpEnd     == pc = "exp" /\ i > Len(K.evs) /\ pc' = "done" /\ UNCHANGED <<c, i, tmp, acc, err>>

Next == \/ CascadeTags \/ CascadeLabel \/ RoundTripStep
        \/ ImpEnter \/ ImpSec \/ ImpSmp \/ ImpAdjust \/ ImpKeepAsIs \/ ImpEnd
        \/ ExpEnter \/ ExpConvert \/ ExpSkip \/ ExpRaise \/ ExpEnd
Spec == Init /\ [][Next]_vars /\ WF_vars(Next)

Export == pc = "done" => PrintT(<<"CASE", ToJson(K)>>)

(* ============================ invariants: Impl => Req ===================== *)
Done(kind) == pc = "done" /\ c.kind = kind
ImplTagsAllowed  == Done("l2t") => acc \in AllowedTags(K.to)
ImplLabelAllowed == (Done("t2l") => acc \in ReqLabels(K.tags, K.lo))
ImplImportIsReq  == (pc = "done" /\ IsImp) =>
    /\ Len(acc) = Len(K.els)
    /\ \A j \in DOMAIN acc : LET g == ReqGeom(K.els[j], K) IN
         IF IsBoxEl(K.els[j]) THEN REq(acc[j].t[1], g[1]) /\ REq(acc[j].f[1], g[2]) /\ REq(acc[j].t[2], g[3]) /\ REq(acc[j].f[2], g[4])
         ELSE REq(acc[j].t[1], g[1]) /\ REq(acc[j].t[2], g[2]) /\ acc[j].f = <<>>
ImplExportIsReq  == Done("exp") => LET r == ReqExport(K) IN (r.raised <=> err # "") /\ (~r.raised => acc = r.items)
ImplExportPrefix == (pc = "exp") => \A j \in DOMAIN acc : \E m \in 1..(i - 1) : ~Unconv(K.evs[m], K) /\ acc[j] = ExpItem(K.evs[m], m, K)
Terminates == <>(pc = "done")

(* ============================ laws of Req itself ========================== *)
\* te applied exactly once on every path: multiplying the required time by te gives back the file time
\* (seconds as written, or samples over the file rate); dividing the required frequency by te gives the written one;
\* the samples path is the sample index over the TRUE samplerate; for te # 1 and a non-zero value the time did change.
TeOnceAt(el, e) ==
    /\ REq(MulTe(ReqTime(el, e, K), K), FileTime(el, e, K))
    /\ (el.sec = <<>> => REq(ReqTime(el, e, K), <<el.smp[e], K.sr>>))
    /\ (IsBoxEl(el) => REq(DivTe(ReqFreq(el, e, K), K), <<el.frq[e], K.fden>>))
    /\ ((K.te # <<1, 1>> /\ FileTime(el, e, K)[1] # 0) => ~REq(ReqTime(el, e, K), FileTime(el, e, K)))
    /\ ((K.te = <<1, 1>>) => REq(ReqTime(el, e, K), FileTime(el, e, K)))
LawTeOnce == IsImp => (\A j \in DOMAIN K.els : \A e \in 1..2 : TeOnceAt(K.els[j], e))
\* the cascade table is total; where the two readings agree it is deterministic; the anchors of the two readings
L2t == c.kind = "l2t" /\ LabelModes[c.lm].label # ""          \* (for "" the extra outcome "no tags" is accepted: not covered by the laws)
LawCascadeTotal == L2t => AllowedTags(K.to) # {} /\ DocTags(K.to) # {} /\ SumTags(K.to) # {}
LawCascadeDet   == L2t => ((Cardinality(DocTags(K.to)) = 1 /\ DocTags(K.to) = SumTags(K.to)) => Cardinality(AllowedTags(K.to)) = 1)
LawEmptyWins    == (L2t /\ LabelEmpty(K.to)) => AllowedTags(K.to) = {<<>>}
LawFnWins       == (L2t /\ ~LabelEmpty(K.to) /\ K.to.fn = "h") => AllowedTags(K.to) = {FnTags(K.to)}
Stronger(to)    == LabelEmpty(to) \/ to.fn = "h" \/ to.termmap = "h" \/ to.tagmap = "h"
LawLabelIsValue == (L2t /\ ~Stronger(K.to)) => \A t \in AllowedTags(K.to) : Len(t) = 1 /\ t[1][2] = K.to.label
LawTermMapBeatsTagMap == (L2t /\ ~LabelEmpty(K.to) /\ K.to.fn # "h" /\ K.to.termmap = "h") => AllowedTags(K.to) = {One("TM", K.to)}
LawTagMapBeatsExplicit == (L2t /\ ~LabelEmpty(K.to) /\ K.to.fn # "h" /\ K.to.termmap # "h" /\ K.to.tagmap = "h")
                          => AllowedTags(K.to) = {MapTags(K.to)}
LawExplicitKeyKept == (L2t /\ ~Stronger(K.to) /\ K.to.keymap # "h" /\ K.to.term = <<>> /\ K.to.key # <<>>)
                          => AllowedTags(K.to) = {One(K.to.key[1], K.to)}
LawFallbackLast == (L2t /\ ~Stronger(K.to)) =>
                     (One(Fallback(K.to), K.to) \in AllowedTags(K.to) => (K.to.keymap # "h" /\ K.to.term = <<>> /\ K.to.key = <<>>))
\* export labels
T2l == c.kind = "t2l"
LawLabelTotal  == T2l => ReqLabels(K.tags, K.lo) # {}
LawLabelDet    == (T2l /\ (K.lo.sel = <<>> \/ K.lo.vo # "a" \/ K.lo.seqfn)) => Cardinality(ReqLabels(K.tags, K.lo)) = 1
LawIndexWraps  == (T2l /\ K.lo.idx # <<>> /\ K.tags # <<>>) =>
                     \A d \in {-1, 1} : ReqLabels(K.tags, [K.lo EXCEPT !.idx = <<K.lo.idx[1] + d * Len(K.tags)>>]) = ReqLabels(K.tags, K.lo)
LawEmptyLabel  == (T2l /\ K.tags = <<>> /\ ~K.lo.seqfn) => ReqLabels(K.tags, K.lo) = {OptOr(K.lo.empty, "__empty__")}
\* export geometry
Exp == c.kind = "exp"
LawKeptInOrder == Exp => \A a \in DOMAIN Kept(K) : \A b \in DOMAIN Kept(K) : a < b => Kept(K)[a] < Kept(K)[b]
LawExportShape == (Exp /\ ~ExpRaises(K)) => \A j \in DOMAIN ReqExport(K).items : LET it == ReqExport(K).items[j] IN
                     /\ it.on <= it.off /\ it.hi <= Nyq(K)
                     /\ (IsBoxVia(K) => it.on < it.off /\ it.lo < it.hi)
                     /\ (~IsBoxVia(K) => it.smp[1] * K.tden <= it.on * K.sr /\ it.on * K.sr < (it.smp[1] + 1) * K.tden)
\* the limb product used for floor(t x sr) on observed doubles agrees with integer arithmetic on dyadic values
Half(k) == <<1, k \div 2, (k % 2) * 32768, 0, 0, 0, 1>>                     \* k/2 as a limb number, k > 0
LawLimbFloor == c.kind = "xs" =>
    \A k \in 1..7 : LET m == ProdLimbs(Half(k), K.srf) IN
        /\ m[2] = (k * K.sr) \div 2 /\ m[3] = ((k * K.sr) % 2) * 32768 /\ m[4] = 0 /\ ~NearBelow(m)
        /\ FloorOk((k * K.sr) \div 2, Half(k), K.srf) /\ ~FloorOk((k * K.sr) \div 2 + 1, Half(k), K.srf)
\* round trip on the model: export(import(x)) = x for te = 1 and value-only labels
TicksOf(r, den) == (r[1] * den) \div r[2]
OnTicks(r, den) == (r[1] * den) % r[2] = 0
RtTo(el, kk) == [label |-> el.label, empties |-> <<>>, fn |-> "a", termmap |-> IF kk.sel # <<>> THEN "h" ELSE "a", tagmap |-> "a", keymap |-> "a",
                 key |-> kk.ikey, term |-> <<>>, fb |-> <<>>, fnlist |-> FALSE, tagmaplist |-> FALSE]
RtGeom(el) ==
    LET g == ReqGeom(el, K) IN
    IF IsBoxEl(el)
    THEN G("BoundingBox", <<TicksOf(g[1], K.tden), TicksOf(g[2], K.fden), TicksOf(g[3], K.tden), TicksOf(g[4], K.fden)>>)
    ELSE G("TimeInterval", <<TicksOf(g[1], K.tden), TicksOf(g[2], K.tden)>>)
RtOnLattice(el) ==
    LET g == ReqGeom(el, K) IN
    IF IsBoxEl(el) THEN OnTicks(g[1], K.tden) /\ OnTicks(g[2], K.fden) /\ OnTicks(g[3], K.tden) /\ OnTicks(g[4], K.fden)
    ELSE OnTicks(g[1], K.tden) /\ OnTicks(g[2], K.tden)
RtAt(el, j) ==
    LET it == ExpItem(RtGeom(el), j, K) IN
    /\ RtOnLattice(el)
    /\ ~Unconv(RtGeom(el), K)
    /\ (el.sec # <<>> => (it.on = el.sec[1] /\ it.off = el.sec[2]))
    /\ (el.smp # <<>> => it.smp = el.smp)
    /\ (el.frq # <<>> => (it.lo = el.frq[1] /\ it.hi = el.frq[2]))
    /\ (\A tg \in AllowedTags(RtTo(el, K)) : ReqLabels(tg, [DefaultLo("t") EXCEPT !.sel = K.sel]) = {el.label})
LawRoundTrip == (c.kind = "rt") => (\A j \in DOMAIN K.els : RtAt(K.els[j], j))
=============================================================================
