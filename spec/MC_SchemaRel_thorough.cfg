SPECIFICATION Spec
CONSTANTS
  MaxLen = 3
  SortedLen = 0
  NoForeignLen = 4
  OtherLen = 2
  ClipValidator = "after"
CONSTRAINT Export
INVARIANT ImplIffValid
INVARIANT ImplReasons
INVARIANT Laws
INVARIANT TerminatesBySafety
CHECK_DEADLOCK FALSE
