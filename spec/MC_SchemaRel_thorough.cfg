SPECIFICATION Spec
CONSTANTS
  MaxLen = 3
  SortedLen = 0
  NoForeignLen = 4
  OneSided = "kept"
  MatchGuard = "any_mapping"
  ClipCheck = "raise"
  Optimised = FALSE
  RepLen = 3
  OtherLen = 2
  WrapLen = 3
  ShareLen = 3
  MatchKey = "annotation"
  ProjScan = "set"
  ClipKey = "uuid"
  ClipValidator = "after"
CONSTRAINT Export
INVARIANT ImplIffValid
INVARIANT ImplReasons
INVARIANT Laws
INVARIANT TerminatesBySafety
CHECK_DEADLOCK FALSE
