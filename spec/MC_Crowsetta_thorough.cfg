SPECIFICATION Spec
CONSTANTS
  Tier = "thorough"
  CascadeImpl = "fixed"
CONSTRAINT Export
INVARIANT ImplTagsAllowed
INVARIANT ImplLabelAllowed
INVARIANT ImplImportIsReq
INVARIANT ImplExportIsReq
INVARIANT ImplExportPrefix
INVARIANT LawTeOnce
INVARIANT LawCascadeTotal
INVARIANT LawCascadeDet
INVARIANT LawEmptyWins
INVARIANT LawFnWins
INVARIANT LawLabelIsValue
INVARIANT LawTermMapBeatsTagMap
INVARIANT LawTagMapBeatsExplicit
INVARIANT LawExplicitKeyKept
INVARIANT LawFallbackLast
INVARIANT LawLabelTotal
INVARIANT LawLabelDet
INVARIANT LawIndexWraps
INVARIANT LawEmptyLabel
INVARIANT LawKeptInOrder
INVARIANT LawExportShape
INVARIANT LawRoundTrip
INVARIANT LawLimbFloor
PROPERTY Terminates
CHECK_DEADLOCK FALSE
