SPECIFICATION Spec
CONSTANTS
  ClipFiles <- Q_ClipFiles
  Pad = 3
  SpecSrcs <- Q_SpecSrcs
  MaxW = 20
  ResSrcs <- Q_ResSrcs
  Targets <- Q_Targets
  MaxNum = 320
  SpecStep = "realised"
  WinClamp = TRUE
  SeekClamp = TRUE
  EmptyGuard = TRUE
  Pres <- Q_Pres
  PreSpecSrcs <- Q_PreSpecSrcs
  AliasAttrs = FALSE
  OptSpecSrcs <- Q_OptSpecSrcs
  OptMaxW = 10
  DropBoundary = FALSE
  ChainSrcs <- Q_ChainSrcs
  ChainPairs <- Q_ChainPairs
  ChainInexact = FALSE
  StaleRate = FALSE
  DeclFiles <- Q_DeclFiles
  HeaderRate = FALSE
  HistStride = 11
  ReadCache = FALSE
PROPERTY Terminates
INVARIANT ImplClipRefinesReq
INVARIANT ImplRecIsFile
INVARIANT ImplProduces
INVARIANT ImplTimeAxis
INVARIANT ImplFreqAxis
INVARIANT ImplChainAxis
INVARIANT ImplSourceTruthful
INVARIANT ImplSpecStartsAtSource
INVARIANT ImplStartsAtSource
INVARIANT ResampleDriftBounded
INVARIANT LawFloor
INVARIANT LawAccExact
INVARIANT LawAccNear
INVARIANT LawRateIsInteger
INVARIANT LawBounded
CHECK_DEADLOCK FALSE
