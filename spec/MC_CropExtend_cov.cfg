SPECIFICATION Spec
CONSTANTS
  NU = 2
  NS = 1
  MaxN = 3
  CropN = 3
  Sub = 2
  Ext = 4
  ExtNs = {1, 2}
  ChainNU = 2
  ChainNs = {2}
  Algo = "arange_int"
  ExtFilter = TRUE
  CoordDtype = "axis"
  StopDefault = "last"
  FillBy = "reindex"
  LenBy = "sizes"
  RangeFrom = "index"
INVARIANT ImplCrop
INVARIANT LawCropContiguous
INVARIANT LawCropClosedness
INVARIANT ImplExtend
INVARIANT ImplOpenEndExcluded
INVARIANT LawExtendContains
INVARIANT LawExtendExact
INVARIANT LawExtendIsInterval
INVARIANT ImplExactlyWidth
INVARIANT ImplPlacement
INVARIANT LawOffs
INVARIANT NeverOffLattice
INVARIANT ImplKeepsSamples
INVARIANT ImplChain
INVARIANT LawChainExact
INVARIANT LawChainKeepsOriginals
PROPERTY Terminates
CHECK_DEADLOCK FALSE
