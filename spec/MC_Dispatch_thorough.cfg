SPECIFICATION Spec
CONSTANT Stride = 3
CONSTRAINT Export
INVARIANT ImplRefinesReq
INVARIANT NoFaultOk
PROPERTY Terminates
CHECK_DEADLOCK FALSE
