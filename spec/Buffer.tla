------------------------------- MODULE Buffer -------------------------------
(***************************************************************************)
(* C11 -- buffer_geometry grows a geometry and never leaves the domain.    *)
(*                                                                         *)
(* Lattice: "sub-ticks".  A time sub-tick is a dyadic fraction of a second *)
(* chosen by the binder, a frequency sub-tick is 64 Hz, so                 *)
(* MAX_FREQUENCY = 78125 sub-ticks and every lattice value, every buffer   *)
(* and every closed-form result is an exact double.  Geometries are        *)
(* GeomModel records with coordinates in sub-ticks; buffers b = <<tb, fb>>.*)
(*                                                                         *)
(* Time stamps, time intervals and bounding boxes have closed forms (Req   *)
(* is a function, compared exactly).  The other six kinds go through       *)
(* shapely; for them Req is a RELATION between the input and what the      *)
(* binder measured on the returned polygon(s).                             *)
(***************************************************************************)
EXTENDS GeomModel, PlaneGeom

FMAXS == 78125                       \* MAX_FREQUENCY in frequency sub-ticks of 64 Hz
ClosedKinds == {"TimeStamp", "TimeInterval", "BoundingBox"}
RoundKinds  == {"LineString", "MultiLineString"}      \* buffered with round caps (inscribed 32-gons)
Negative(b) == b[1] < 0 \/ b[2] < 0
(***************************************************************************)
(* Buffers that are not lattice values: tiny magnitudes around zero.  A    *)
(* run may name, per axis, one of these real numbers instead of its        *)
(* lattice buffer (which is then 0): e = <<name on the time axis, name on  *)
(* the frequency axis>>, "" = none.  "-1e-9", "-1e-10", "-1e-12" and       *)
(* "-5e-324" (the smallest subnormal) ARE negative -- "a negative buffer   *)
(* is rejected" has no allowance for small magnitudes; "-0.0" is zero, not *)
(* negative, and must behave exactly like 0.                               *)
(***************************************************************************)
NegTiny == {"-1e-9", "-1e-10", "-1e-12", "-5e-324"}
TinyNames == NegTiny \cup {"-0.0"}
NoTiny == <<"", "">>
NegativeRun(b, e) == Negative(b) \/ e[1] \in NegTiny \/ e[2] \in NegTiny

(***************************************************************************)
(* The numeric TYPE of the buffer arguments.  The statement quantifies     *)
(* over "every pair of non-negative buffers": a number is a number, be it  *)
(* a Python int or float or a numpy scalar (signed, UNSIGNED or floating). *)
(* A case therefore names a type for each of its four buffer arguments     *)
(* (t1, t2 = <<type of the time buffer, type of the frequency buffer>>),   *)
(* and every acceptance clause below applies unchanged: Req depends on the *)
(* VALUE only -- same value, other type, same result.                      *)
(* Fits says when a buffer of v sub-ticks can be written in a type without *)
(* changing its value (integral number of seconds / Hz for the integer     *)
(* types, within range for the small unsigned ones, 24 significant bits    *)
(* for float32); ArgType falls back to the Python float otherwise.         *)
(***************************************************************************)
BufTypes == <<"int", "float", "np.float64", "np.float32", "np.int64", "np.uint8", "np.uint16", "np.uint32", "np.uint64">>
SubPerSec == <<2, 4, 16>>            \* time sub-ticks per second at the binder's time unit u = 1, 2, 3
HzPerSub == 64
RECURSIVE OddPart(_)
OddPart(n) == IF n = 0 THEN 0 ELSE IF n % 2 = 0 THEN OddPart(n \div 2) ELSE n
Integral(axis, v, u) == axis = "f" \/ v % SubPerSec[u] = 0
InUnits(axis, v, u)  == IF axis = "f" THEN v * HzPerSub ELSE v \div SubPerSec[u]       \* seconds / Hz, when integral
Fits(ty, axis, v, u) ==
    CASE ty \in {"float", "np.float64"} -> TRUE
      [] ty = "np.float32"            -> OddPart(Abs(v)) < 16777216
      [] ty \in {"int", "np.int64"}   -> Integral(axis, v, u)
      [] ty = "np.uint8"              -> v >= 0 /\ Integral(axis, v, u) /\ InUnits(axis, v, u) <= 255
      [] ty = "np.uint16"             -> v >= 0 /\ Integral(axis, v, u) /\ InUnits(axis, v, u) <= 65535
      [] ty \in {"np.uint32", "np.uint64"} -> v >= 0 /\ Integral(axis, v, u)          \* every lattice value is below 2^31
ArgType(ty, axis, v, u) == IF Fits(ty, axis, v, u) THEN ty ELSE "float"
ArgTypes(ty, b, u) == <<ArgType(ty, "t", b[1], u), ArgType(ty, "f", b[2], u)>>

(* ---- closed forms: "exactly the interval or box widened by the buffers" (clamped at the domain edges) ---- *)
\* The domain is time >= 0 and 0 <= frequency <= MAX_FREQUENCY: TIME HAS NO UPPER EDGE.  The start is clamped at 0,
\* the end is end + tb however large (an event days into a recording, a buffer of months); only frequencies are
\* clamped on both sides.  MC_Buffer carries times and time buffers beyond MAX_FREQUENCY seconds for that reason.
BufClosed(g, b) ==
  LET c == g.coordinates IN
  CASE g.type = "TimeStamp"    -> G("TimeInterval", <<Max(c - b[1], 0), c + b[1]>>)
    [] g.type = "TimeInterval" -> G("TimeInterval", <<Max(c[1] - b[1], 0), c[2] + b[1]>>)
    [] g.type = "BoundingBox"  -> G("BoundingBox", <<Max(c[1] - b[1], 0), Max(c[2] - b[2], 0), c[3] + b[1], Min(c[4] + b[2], FMAXS)>>)

(* ---- what every result must reach: the original's bounds widened by the buffers, clipped to the domain ---- *)
\* <<start, low, end, high>>
Target(g, b) ==
  LET o == Bounds(g, FMAXS) IN <<Max(o[1] - b[1], 0), Max(o[2] - b[2], 0), o[3] + b[1], Min(o[4] + b[2], FMAXS)>>

(***************************************************************************)
(* Round caps.  shapely approximates a quarter circle by 8 segments, so a  *)
(* round cap is half of a 32-gon INSCRIBED in the circle and oriented along*)
(* the line: in an axis direction it can fall short of the radius by up to *)
(* 1 - cos(pi/32) = 0.0048153.  CapN/CapD = 206/207 = 0.9951691 is just    *)
(* below cos(pi/32) = 0.9951847, i.e. the tolerated deficit is 1/207 of    *)
(* the buffer.  TargetRound is Target with that deficit, in units of       *)
(* 1/CapD sub-tick.                                                        *)
(***************************************************************************)
CapN == 206
CapD == 207
\* Target with the buffers multiplied by n/d, in units of 1/d sub-tick
TargetScaled(g, b, n, d) ==
  LET o == Bounds(g, FMAXS) IN
  <<Max(d * o[1] - n * b[1], 0), Max(d * o[2] - n * b[2], 0), d * o[3] + n * b[1], Min(d * o[4] + n * b[2], d * FMAXS)>>
TargetRoundScaled(g, b) == TargetScaled(g, b, CapN, CapD)

(***************************************************************************)
(* Zero frequency buffer at high frequencies.  A zero buffer is            *)
(* implemented as the scale factor 1e9 (i.e. a buffer of 1e-9).  From      *)
(* 2^51 / 1e9 = 2.2518 MHz upwards the scaled frequency f * 1e9 has less   *)
(* than two fraction bits (from 2^52 / 1e9 = 4.5036 MHz none), so the unit *)
(* circle drawn around a scaled point keeps only heights that are multiples*)
(* of 1/2 (of 1): the vertices next to the time-axis extreme collapse onto *)
(* the axis, the flat spike is dropped when the result is clipped, and the *)
(* polygon reaches only cos(pi/16) = 0.98 (cos(pi/8) = 0.92388) of the time*)
(* buffer.  Found by this check (not anticipated in DESIGN section 5).     *)
(* FlatN/FlatD = 23/25 = 0.92 is just below cos(pi/8): a larger shortfall  *)
(* is a violation of its own.  FlatF = 35185 sub-ticks = 2.2518 MHz.       *)
(***************************************************************************)
FlatN == 23
FlatD == 25
FlatF == 35185
FlatCase(g, b) == /\ g.type \notin ClosedKinds /\ b[2] = 0 /\ b[1] > 0
                  /\ \E v \in Vertices(g) : v[2] >= FlatF

(***************************************************************************)
(* Lines that fold back.  A LineString only has to start no later than it  *)
(* ends; an interior vertex may go back in time (Z, hook, loop), or a      *)
(* vertical stroke may be retraced.  Where such a line reverses sharply    *)
(* in the scaled plane GEOS cuts the mitre at the tip and the buffer can   *)
(* fall short of the requested distance there by tens of per cent (seen on *)
(* the unchanged code: 32 % with both buffers positive, 73 % with a zero   *)
(* time buffer).  Found by the random driver once such lines were          *)
(* generated; for them the tolerant bounds clause has its own name.        *)
(***************************************************************************)
Sgn(x) == IF x > 0 THEN 1 ELSE IF x < 0 THEN -1 ELSE 0
FoldedPath(q) ==
    \/ \E k \in 1..(Len(q) - 1) : q[k + 1][1] < q[k][1]
    \/ \E k \in 1..(Len(q) - 2) : q[k][1] = q[k + 1][1] /\ q[k + 1][1] = q[k + 2][1]
                                   /\ Sgn(q[k + 1][2] - q[k][2]) * Sgn(q[k + 2][2] - q[k + 1][2]) < 0
Folded(g) == CASE g.type = "LineString" -> FoldedPath(g.coordinates)
               [] g.type = "MultiLineString" -> \E k \in DOMAIN g.coordinates : FoldedPath(g.coordinates[k])
               [] OTHER -> FALSE

(* ---- limb numbers for targets ---- *)
\* the rational p/q (p >= 0, 0 < q < 2^15) as a limb number, truncated to 64 fraction bits (exact flag 0 unless it divides)
LRatDown(p, q) ==
    LET i  == p \div q        r0 == p % q
        f1 == (r0 * B16) \div q   r1 == (r0 * B16) % q
        f2 == (r1 * B16) \div q   r2 == (r1 * B16) % q
        f3 == (r2 * B16) \div q   r3 == (r2 * B16) % q
        f4 == (r3 * B16) \div q   r4 == (r3 * B16) % q
    IN  <<IF p = 0 THEN 0 ELSE 1, i, f1, f2, f3, f4, IF r4 = 0 THEN 1 ELSE 0>>
(***************************************************************************)
(* Slack.  Observed bounds may miss a target for two numerical reasons     *)
(* that the statement cannot mean to exclude:                              *)
(*  - rounding of scale / unscale / clip: absolute 2^-24 sub-tick          *)
(*    (4e-6 Hz, < 3e-8 s; about 4000 ulp of the largest coordinate);       *)
(*  - GEOS joins two offset segments whose ends are closer than 1e-3 of    *)
(*    the distance by a single point instead of the mitre tip, which costs *)
(*    up to 1 - cos(1e-3) = 5e-7 of the buffer at an almost straight       *)
(*    vertex (seen: 3e-8): relative 2^-20 = 9.5e-7 of the buffer.          *)
(* Both are 4 orders of magnitude below the deficits the findings are      *)
(* about (0.48 % and 7.6 % of the buffer).                                 *)
(***************************************************************************)
SlackFor(b) == <<1, 0, b \div 16, (b % 16) * 4096 + 256, 0, 0, 1>>          \* 2^-24 + b * 2^-20, for 0 <= b < 2^20
\* sum of two non-negative limb numbers
LAdd(u, v) ==
    LET s6 == u[6] + v[6]            c6 == s6 \div B16
        s5 == u[5] + v[5] + c6       c5 == s5 \div B16
        s4 == u[4] + v[4] + c5       c4 == s4 \div B16
        s3 == u[3] + v[3] + c4       c3 == s3 \div B16
    IN  <<1, u[2] + v[2] + c3, s3 % B16, s4 % B16, s5 % B16, s6 % B16, IF u[7] = 1 /\ v[7] = 1 THEN 1 ELSE 0>>
LNonNeg(v) == LFinite(v) /\ v[1] >= 0
\* x <= t + slack   and   x >= t - slack   for an observed x and a non-negative target t (limb numbers), slack sl
LLeS(x, t, sl) == LFinite(x) /\ LLe(x, LAdd(t, sl))
LGeS(x, t, sl) == LNonNeg(x) /\ LLe(t, LAdd(x, sl))

(* ---- membership of a lattice point in the ORIGINAL geometry (boundary counts) ---- *)
OnOrIn(g, p) ==
  LET c == g.coordinates IN
  CASE g.type = "TimeStamp"       -> p[1] = c
    [] g.type = "TimeInterval"    -> c[1] <= p[1] /\ p[1] <= c[2]
    [] g.type = "BoundingBox"     -> c[1] <= p[1] /\ p[1] <= c[3] /\ c[2] <= p[2] /\ p[2] <= c[4]
    [] g.type = "Point"           -> p = c
    [] g.type = "MultiPoint"      -> p \in Range(c)
    [] g.type = "LineString"      -> OnPath(c, p)
    [] g.type = "MultiLineString" -> \E k \in DOMAIN c : OnPath(c[k], p)
    [] g.type = "Polygon"         -> PolyStatus(CloseRings(c), p) # "out"            \* rings may be written unclosed
    [] g.type = "MultiPolygon"    -> \E k \in DOMAIN c : PolyStatus(CloseRings(c[k]), p) # "out"      \* the UNION of the parts

(***************************************************************************)
(* Monotonicity is only decided for pairs of buffers where the supersets   *)
(* are certain in spite of the inscribed polygons: the same buffers, or    *)
(* every axis either stays 0 or grows by at least 1/cos(pi/32).            *)
(***************************************************************************)
Grows(x, y) == (x = 0 /\ y = 0) \/ (y > 0 /\ y - x >= CeilDiv(x, CapN))      \* CapN * y >= CapD * x without large products
MonoComparable(b1, b2) == b1 = b2 \/ (Grows(b1[1], b2[1]) /\ Grows(b1[2], b2[2]))

(***************************************************************************)
(* Acceptance.  An observation is o.in = [g, b1, b2, t1, t2, e1, e2, probes, u] and *)
(* o.out = [r1, r2], one run per buffer pair:                              *)
(*   [raised  : "" or the exception class,                                 *)
(*    type    : type of the returned geometry,                             *)
(*    coords  : its coordinates as limb numbers when it is a TimeInterval  *)
(*              (2) or BoundingBox (4), else <<>>,                         *)
(*    bounds  : <<min time, min freq, max time, max freq>> over ALL output *)
(*              coordinates, limb numbers in sub-ticks (<<>> for intervals),*)
(*    closed  : every ring is closed and has >= 4 positions,               *)
(*    inside  : for every probe, is it inside or on the boundary of the    *)
(*              result (exact rational arithmetic on the output coordinates)]*)
(***************************************************************************)
Clauses == {"NegativeRejected", "ValidGeometry", "Domain", "Contains", "ExactWidening",
            "BoundsGrowExact", "BoundsGrowRound", "BoundsGrowRoundStrict", "BoundsGrowFolded", "BoundsGrowFlat", "BoundsGrowFlatStrict", "Monotone",
            "RealValid", "RealZeroBufferIdentity", "RealContains"}

Good(r) == r.raised = ""
\* bounds of the result in the sense of compute_bounds (an interval spans all frequencies)
ObsBounds(r) == IF r.type = "TimeInterval" THEN <<r.coords[1], LInt(0), r.coords[2], LInt(FMAXS)>> ELSE r.bounds
HasBounds(r) == Good(r) /\ ((r.type = "TimeInterval" /\ Len(r.coords) = 2) \/ (r.type # "TimeInterval" /\ Len(r.bounds) = 4))
\* observed bounds ob reach the target t = <<start, low, end, high>> (limb numbers) for buffers b
GrowTo(ob, t, b) == /\ LLeS(ob[1], t[1], SlackFor(Min(b[1], 1000000))) /\ LLeS(ob[2], t[2], SlackFor(Min(b[2], 1000000)))
                    /\ LGeS(ob[3], t[3], SlackFor(Min(b[1], 1000000))) /\ LGeS(ob[4], t[4], SlackFor(Min(b[2], 1000000)))
Exp(g, b) == BufClosed(g, b).coordinates

RunHolds(cl, g, b, e, probes, r) ==
    LET neg == NegativeRun(b, e) IN
    CASE cl = "NegativeRejected" -> neg <=> (r.raised = "ValueError")
      [] cl = "ValidGeometry" -> (~neg) =>
            /\ Good(r)
            /\ IF g.type \in ClosedKinds THEN r.type = BufClosed(g, b).type
               ELSE r.type \in {"Polygon", "MultiPolygon"} /\ r.closed
            /\ HasBounds(r) /\ Len(r.inside) = Len(probes)
      [] cl = "Domain" -> (~neg /\ HasBounds(r)) =>
            LET ob == ObsBounds(r) IN
            /\ \A i \in 1..4 : LNonNeg(ob[i])                        \* all times >= 0, all frequencies >= 0
            /\ LLeInt(ob[2], FMAXS) /\ LLeInt(ob[4], FMAXS)         \* all frequencies <= MAX_FREQUENCY
            /\ LLe(ob[1], ob[3]) /\ LLe(ob[2], ob[4])
      [] cl = "Contains" -> (~neg /\ Good(r) /\ Len(r.inside) = Len(probes)) =>
            \A i \in DOMAIN probes : OnOrIn(g, probes[i]) => r.inside[i]
      [] cl = "ExactWidening" -> (~neg /\ Good(r) /\ g.type \in ClosedKinds) =>
            /\ r.type = BufClosed(g, b).type
            /\ Len(r.coords) = Len(Exp(g, b))
            /\ \A i \in 1..Len(r.coords) : LEq(r.coords[i], LInt(Exp(g, b)[i]))
      [] cl = "BoundsGrowExact" -> (~neg /\ HasBounds(r) /\ g.type \notin RoundKinds /\ ~FlatCase(g, b)) =>
            LET t == Target(g, b) IN GrowTo(ObsBounds(r), [i \in 1..4 |-> LInt(t[i])], b)
      \* line strings: a shortfall beyond the inscribed-polygon bound is a violation; any shortfall at all is finding F16
      [] cl = "BoundsGrowRound" -> (~neg /\ HasBounds(r) /\ g.type \in RoundKinds /\ ~FlatCase(g, b) /\ ~Folded(g)) =>
            LET t == TargetRoundScaled(g, b) IN GrowTo(ObsBounds(r), [i \in 1..4 |-> LRatDown(t[i], CapD)], b)
      [] cl = "BoundsGrowRoundStrict" -> (~neg /\ HasBounds(r) /\ g.type \in RoundKinds /\ ~FlatCase(g, b)) =>
            LET t == Target(g, b) IN GrowTo(ObsBounds(r), [i \in 1..4 |-> LInt(t[i])], b)
      \* the same tolerant target for line strings that fold back (open finding of its own)
      [] cl = "BoundsGrowFolded" -> (~neg /\ HasBounds(r) /\ g.type \in RoundKinds /\ ~FlatCase(g, b) /\ Folded(g)) =>
            LET t == TargetRoundScaled(g, b) IN GrowTo(ObsBounds(r), [i \in 1..4 |-> LRatDown(t[i], CapD)], b)
      \* zero frequency buffer at frequencies >= 2.25 MHz (any shapely kind): same split, bound 1 - cos(pi/8)
      [] cl = "BoundsGrowFlat" -> (~neg /\ HasBounds(r) /\ FlatCase(g, b)) =>
            LET t == TargetScaled(g, b, FlatN, FlatD) IN GrowTo(ObsBounds(r), [i \in 1..4 |-> LRatDown(t[i], FlatD)], b)
      [] cl = "BoundsGrowFlatStrict" -> (~neg /\ HasBounds(r) /\ FlatCase(g, b)) =>
            LET t == Target(g, b) IN GrowTo(ObsBounds(r), [i \in 1..4 |-> LInt(t[i])], b)

(***************************************************************************)
(* Time intervals on times that are NOT lattice values (two-decimal times  *)
(* such as 43.28 s, passed as the doubles nearest to them).  o.in =         *)
(* [real, start, end, buf] (decimal numerals), o.out = [raised, type,      *)
(* ins, ine, rs, re : input and result ends as limb numbers (exact: these  *)
(* doubles have fewer than 64 fraction bits), hin, hout : the same two     *)
(* pairs as float.hex strings].  A zero buffer must return the interval    *)
(* bit for bit ("exactly the interval widened by the buffers"); any buffer *)
(* must give an interval that contains the original -- on the doubles.     *)
(***************************************************************************)
RealClauses == {"RealValid", "RealZeroBufferIdentity", "RealContains"}
RealHolds(cl, o) ==
    LET r == o.out  ok == r.raised = "" /\ r.type = "TimeInterval" IN
    CASE cl = "RealValid"              -> ok
      [] cl = "RealZeroBufferIdentity" -> (ok /\ o.in.buf = "0") => r.hout = r.hin
      [] cl = "RealContains"           -> ok => LLe(r.rs, r.ins) /\ LLe(r.ine, r.re)
      [] OTHER -> TRUE
LatticeHolds(cl, o) ==
    LET c == o.in
        e1 == IF "e1" \in DOMAIN c THEN c.e1 ELSE NoTiny
        e2 == IF "e2" \in DOMAIN c THEN c.e2 ELSE NoTiny IN
    IF cl = "Monotone"
    THEN (~NegativeRun(c.b1, e1) /\ ~NegativeRun(c.b2, e2) /\ MonoComparable(c.b1, c.b2) /\ Good(o.out.r1) /\ Good(o.out.r2)
          /\ Len(o.out.r1.inside) = Len(c.probes) /\ Len(o.out.r2.inside) = Len(c.probes)) =>
             \A i \in DOMAIN c.probes : o.out.r1.inside[i] => o.out.r2.inside[i]
    ELSE RunHolds(cl, c.g, c.b1, e1, c.probes, o.out.r1) /\ RunHolds(cl, c.g, c.b2, e2, c.probes, o.out.r2)
IsReal(o) == "real" \in DOMAIN o.in
Holds(cl, o) ==
    IF IsReal(o) THEN RealHolds(cl, o) ELSE IF cl \in RealClauses THEN TRUE ELSE LatticeHolds(cl, o)
=============================================================================
