------------------------------ MODULE MC_Segment ------------------------------
(***************************************************************************)
(* The loop of segment_clip as a state machine (Impl), one action per      *)
(* iteration / break / exhaustion, model-checked against Req.              *)
(* LoopBound = "ceil" is the repaired algorithm; "floor" is the algorithm  *)
(* as found (kept: history/MC_Segment_prefix.cfg shows TLC's counterexample)*)
(***************************************************************************)
EXTENDS Segment, TLC, Json
CONSTANTS MaxS, MaxLen, MaxD, MaxH, LoopBound
VARIABLES c, i, out, pc

vars == <<c, i, out, pc>>
Cases == [s : 0..MaxS, len : 0..MaxLen, d : -1..MaxD, h : {<<>>} \cup {<<k>> : k \in -1..MaxH}, inc : BOOLEAN]
Mk(x) == [s |-> x.s, e |-> x.s + x.len, d |-> x.d, h |-> x.h, inc |-> x.inc]

Num == IF LoopBound = "floor" THEN (c.e - c.s) \div Hop(c) ELSE CeilDiv(c.e - c.s, Hop(c))
St  == c.s + i * Hop(c)
En  == St + c.d

Init == /\ \E x \in Cases : c = Mk(x)
        /\ i = 0 /\ out = <<>> /\ pc = "check"
Raise == pc = "check" /\ Invalid(c) /\ pc' = "raised" /\ UNCHANGED <<c, i, out>>
Enter == pc = "check" /\ ~Invalid(c) /\ pc' = "loop" /\ UNCHANGED <<c, i, out>>
Iter  == /\ pc = "loop" /\ i < Num /\ St < c.e /\ (En <= c.e \/ c.inc)
         /\ out' = Append(out, <<St, Min(En, c.e)>>) /\ i' = i + 1 /\ UNCHANGED <<c, pc>>
BrkS  == pc = "loop" /\ i < Num /\ St >= c.e /\ pc' = "done" /\ UNCHANGED <<c, i, out>>
BrkE  == pc = "loop" /\ i < Num /\ St < c.e /\ En > c.e /\ ~c.inc /\ pc' = "done" /\ UNCHANGED <<c, i, out>>
Exh   == pc = "loop" /\ i >= Num /\ pc' = "done" /\ UNCHANGED <<c, i, out>>
Next == Raise \/ Enter \/ Iter \/ BrkS \/ BrkE \/ Exh
Spec == Init /\ [][Next]_vars /\ WF_vars(Next)

Export == pc \in {"done", "raised"} => PrintT(<<"CASE", ToJson(c)>>)

ImplRefinesReq == pc = "done" => out = ReqWindows(c)
ImplPrefix     == pc = "loop" => \A k \in DOMAIN out : k <= Len(ReqWindows(c)) /\ out[k] = ReqWindows(c)[k]
RaisedIffInvalid == (pc = "raised" => Invalid(c)) /\ (pc \in {"loop", "done"} => ~Invalid(c))
Laws == LawCoverage(c) /\ LawInside(c) /\ LawExactDur(c) /\ LawPrefix(c)
Terminates == <>(pc \in {"done", "raised"})
=============================================================================
