------------------------------ MODULE GeomModel ------------------------------
(***************************************************************************)
(* The nine soundevent geometry kinds on an integer lattice.               *)
(* A geometry is a record [type |-> kind, coordinates |-> c] whose         *)
(* coordinates have the same nesting as in soundevent, with integer ticks  *)
(* (time ticks of the case's time unit, frequency ticks of its frequency   *)
(* unit).  FMAX is MAX_FREQUENCY expressed in frequency ticks.             *)
(***************************************************************************)
EXTENDS Lattice

Kinds == {"TimeStamp", "TimeInterval", "Point", "LineString", "Polygon",
          "BoundingBox", "MultiPoint", "MultiLineString", "MultiPolygon"}
TimeOnlyKinds == {"TimeStamp", "TimeInterval"}
BufferedKinds == {"TimeStamp", "TimeInterval", "Point", "LineString", "MultiPoint", "MultiLineString"}

G(k, c) == [type |-> k, coordinates |-> c]

\* all <<t, f>> vertices of a geometry that has a frequency axis
Vertices(g) ==
  LET c == g.coordinates IN
  CASE g.type = "Point"           -> {c}
    [] g.type = "BoundingBox"     -> {<<c[1], c[2]>>, <<c[3], c[4]>>}
    [] g.type = "LineString"      -> Range(c)
    [] g.type = "MultiPoint"      -> Range(c)
    [] g.type = "Polygon"         -> UNION {Range(r) : r \in Range(c)}
    [] g.type = "MultiLineString" -> UNION {Range(r) : r \in Range(c)}
    [] g.type = "MultiPolygon"    -> UNION {UNION {Range(r) : r \in Range(p)} : p \in Range(c)}
    [] OTHER -> {}

\* <<start, low, end, high>> exactly as compute_bounds must report them
Bounds(g, FMAX) ==
  LET c == g.coordinates IN
  CASE g.type = "TimeStamp"    -> <<c, 0, c, FMAX>>
    [] g.type = "TimeInterval" -> <<c[1], 0, c[2], FMAX>>
    [] OTHER -> LET V == Vertices(g)
                    T == {v[1] : v \in V}  F == {v[2] : v \in V}
                IN  <<SetMin(T), SetMin(F), SetMax(T), SetMax(F)>>

TimeExtent(g, FMAX) == LET b == Bounds(g, FMAX) IN <<b[1], b[3]>>
FreqExtent(g, FMAX) == LET b == Bounds(g, FMAX) IN <<b[2], b[4]>>

\* number of parts of a multi-geometry
NumParts(g) == IF g.type \in {"MultiPoint", "MultiLineString", "MultiPolygon"} THEN Len(g.coordinates) ELSE 1

\* shift in time by d ticks
ShiftPts(s, d) == [i \in DOMAIN s |-> <<s[i][1] + d, s[i][2]>>]
Shift(g, d) ==
  LET c == g.coordinates IN
  CASE g.type = "TimeStamp"    -> G(g.type, c + d)
    [] g.type = "TimeInterval" -> G(g.type, <<c[1] + d, c[2] + d>>)
    [] g.type = "Point"        -> G(g.type, <<c[1] + d, c[2]>>)
    [] g.type = "BoundingBox"  -> G(g.type, <<c[1] + d, c[2], c[3] + d, c[4]>>)
    [] g.type \in {"LineString", "MultiPoint"} -> G(g.type, ShiftPts(c, d))
    [] g.type \in {"Polygon", "MultiLineString"} -> G(g.type, [i \in DOMAIN c |-> ShiftPts(c[i], d)])
    [] g.type = "MultiPolygon" -> G(g.type, [i \in DOMAIN c |-> [j \in DOMAIN c[i] |-> ShiftPts(c[i][j], d)]])

(***************************************************************************)
(* A small catalogue of valid geometries used by several modules.          *)
(* Time ticks 0..6, frequency ticks 0..4 (and FMAX where said).  It is a   *)
(* SEQUENCE: TLC cannot build a set of records of different shapes.        *)
(***************************************************************************)
Catalogue(FMAX) == <<
  G("TimeStamp", 0), G("TimeStamp", 2), G("TimeStamp", 5),
  G("TimeInterval", <<0, 2>>), G("TimeInterval", <<2, 3>>), G("TimeInterval", <<4, 6>>), G("TimeInterval", <<3, 3>>),
  G("Point", <<1, 1>>), G("Point", <<0, 0>>), G("Point", <<4, FMAX>>),
  G("BoundingBox", <<0, 0, 2, 2>>), G("BoundingBox", <<1, 1, 3, 4>>), G("BoundingBox", <<4, 0, 6, FMAX>>), G("BoundingBox", <<2, 3, 2, 3>>),
  G("LineString", <<<<0, 1>>, <<2, 3>>>>), G("LineString", <<<<1, 4>>, <<2, 0>>, <<5, 2>>>>), G("LineString", <<<<3, 2>>, <<6, 2>>>>),
  G("MultiPoint", <<<<0, 0>>, <<2, 4>>>>), G("MultiPoint", <<<<5, 1>>>>), G("MultiPoint", <<<<1, 2>>, <<3, 2>>, <<6, 3>>>>),
  G("Polygon", <<<<<<0, 0>>, <<3, 0>>, <<3, 3>>, <<0, 3>>, <<0, 0>>>>>>),
  G("Polygon", <<<<<<2, 1>>, <<6, 1>>, <<4, 4>>, <<2, 1>>>>>>),
  G("Polygon", <<<<<<0, 0>>, <<6, 0>>, <<6, 4>>, <<0, 4>>, <<0, 0>>>>, <<<<2, 1>>, <<4, 1>>, <<4, 3>>, <<2, 3>>, <<2, 1>>>>>>),
  G("MultiLineString", <<<<<<0, 0>>, <<1, 2>>>>, <<<<3, 1>>, <<5, 4>>>>>>),
  G("MultiLineString", <<<<<<2, 2>>, <<4, 2>>>>>>),
  G("MultiPolygon", <<<<<<<<0, 0>>, <<1, 0>>, <<1, 1>>, <<0, 1>>, <<0, 0>>>>>>, <<<<<<3, 2>>, <<5, 2>>, <<5, 4>>, <<3, 4>>, <<3, 2>>>>>>>>),
  G("MultiPolygon", <<<<<<<<4, 0>>, <<6, 0>>, <<6, 2>>, <<4, 0>>>>>>>>)
>>
=============================================================================
