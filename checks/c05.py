"""C05 binder: bounds, shapely conversion, geometric features, anchor points.  Encoder only -- the verdict is T_GeomFeatures's.

A case is a HISTORY {"gs": [{"type": kind, "coordinates": nested integer ticks}, ...]} (time ticks of a dyadic unit,
frequency ticks of 1000 Hz): geometries to be handled one after the other IN THIS PROCESS (most histories have one
member; the others are regroupings of one vertex sequence, so anything the library carries over from one conversion to
the next shows).  For each member, in order, and each of three exact time units the binder builds the real geometry,
calls the four public functions and writes down what they returned, as integers.  It computes no expected value.
"""
from soundevent import terms
from soundevent.geometry import (
    compute_bounds,
    compute_geometric_features,
    geometry_to_shapely,
    get_geometry_point,
)
from vt.enc import fhex, limbs, ticks_or_none
from vt.geom import FREQ_UNIT, TIME_UNITS, build

PROPERTY = "C05"
TRACE = "T_GeomFeatures"
ENUM = {
    "quick":    [dict(module="MC_GeomFeatures", cfg="MC_GeomFeatures_quick.cfg", workers=8)],
    # coverage guard on the small sub-universe "cov" (see checks/c03.py)
    "thorough": [dict(module="MC_GeomFeatures", cfg="MC_GeomFeatures_thorough.cfg", workers=16),
                 dict(module="MC_GeomFeatures", cfg="MC_GeomFeatures_cov.cfg", workers=4, coverage=True, expect_cases=False)],
}
POOL = 12
CHUNK = 1500
RULE = ("one case per geometry of the TLA+ universe (all stamps / intervals / points / boxes incl. zero extent on time 0..4 x "
        "frequency {0,1,2,3,FMAX}; 2- and 3-point lines; multi-points; rectangles cw/ccw open/closed, triangles, L-shapes, "
        "degenerate rings, polygons with one and two holes; multi-lines and multi-polygons of 1..3 members), as histories of "
        "length 1, long lines / rings of 65..300 vertices with collinear runs, decimal-coordinate cases (0.1 s and 0.01 s grids, "
        "frequencies like 1234.56 Hz) for the named positions, again 2^26 ticks late in the recording (wholly, and straddling), plus every ordered pair of regroupings of one vertex sequence (multi-lines of 4..6 points, a six-point ring vs "
        "shell + hole, nested rings grouped into polygons) converted one after the other in one process, plus random geometries "
        "and random regrouping histories on a 1000 x 5000 lattice; each member run at 3 exact time units, all 11 positions; "
        "non-trivial = not a bare time stamp")
TRUSTED_BASE = ["checks/c05.py + vt/geom.py (build objects on dyadic units; read bounds / shapely coordinates / feature values / "
                "points back as exact integer ticks, centroid and point_on_surface as exact limb numbers)"]
ASSUMPTIONS = ["dyadic time units and a 1000 Hz frequency tick make every float operation of the implementation exact",
               "decimal cases (tick / 10, / 100, / 1000 s; tick / 100 Hz) are judged on identities of doubles (a bound is a coordinate, a "
               "corner coordinate is a bound), on order (a midpoint lies within the bounds) and with the absolute tolerance 2^-32 / q "
               "written in the specification (a midpoint against the exact rational midpoint)",
               "geometries are valid and in normal form (as every constructed object is); polygon rings are simple, holes lie inside the shell and not inside one another",
               "rings are compared as closed curves (closing repetitions, start point and direction are not demanded)",
               "the shapely kind is demanded only for the six kinds that have a shapely namesake"]

POSITIONS = ["bottom-left", "bottom-right", "top-left", "top-right", "center-left", "center-right",
             "top-center", "bottom-center", "center"]
OFF = -777777        # an observed number that is not on the lattice (never equal to an expected tick)
_FEATS = None


def _feat_table():
    global _FEATS
    if _FEATS is None:
        _FEATS = {terms.duration.name: ("duration", "t"), terms.low_freq.name: ("low_freq", "f"),
                  terms.high_freq.name: ("high_freq", "f"), terms.bandwidth.name: ("bandwidth", "f"),
                  terms.num_segments.name: ("num_segments", "n")}
    return _FEATS


def _tk(x, unit):
    v = ticks_or_none(x, unit)
    return OFF if v is None else v


def _pt(c, tu):
    return [_tk(c[0], tu), _tk(c[1], FREQ_UNIT)]


def _shape(s, tu):
    """uniform reading of a shapely geometry: kind + parts -> paths -> [t, f] ticks."""
    def parts(x):
        t = x.geom_type
        if t in ("Point", "LineString", "LinearRing"):
            return [[[_pt(c, tu) for c in x.coords]]]
        if t == "Polygon":
            return [[[_pt(c, tu) for c in x.exterior.coords]] + [[_pt(c, tu) for c in i.coords] for i in x.interiors]]
        out = []
        for m in x.geoms:
            out += parts(m)
        return out
    members = list(s.geoms) if hasattr(s, "geoms") else []
    return {"kind": str(s.geom_type), "parts": parts(s),
            # the exact type: class name of the converted object, and geom_type / class name of each member of a collection
            "tname": type(s).__name__, "pkinds": [[str(m.geom_type), type(m).__name__] for m in members]}


def _point2(p, tu):
    """a named position in doubled ticks."""
    return [_tk(p[0], tu / 2), _tk(p[1], FREQ_UNIT / 2)]


def _plimbs(p, tu):
    """an arbitrary point: time in ticks (exact division by a power of two), frequency in Hz, as limb numbers."""
    return [limbs(p[0] / tu), limbs(p[1])]


_NAN = [9, 3, 0, 0, 0, 0, 0]


def _try(raised, label, fn, fallback):
    """call the library; an exception is an observation (fixed-shape fallback value + its name in `raised`)."""
    try:
        return fn()
    except Exception as ex:
        raised.append(label + ":" + type(ex).__name__)
        return fallback


def _feats(geom, tu):
    feats = []
    for f in compute_geometric_features(geom):
        name, unit = _feat_table().get(f.term.name, ("other:" + str(f.term.name), "n"))
        u = {"t": tu, "f": FREQ_UNIT, "n": 1.0}[unit]
        feats.append({"name": name, "v": _tk(f.value, u)})
    return feats


def _bounds(geom, tu):
    b = compute_bounds(geom)
    return [_tk(b[0], tu), _tk(b[1], FREQ_UNIT), _tk(b[2], tu), _tk(b[3], FREQ_UNIT)]


def _run(g, tu):
    geom = build(g, tu)
    raised = []
    sh = _try(raised, "geometry_to_shapely", lambda: _shape(geometry_to_shapely(geom), tu),
              {"kind": "", "parts": [], "tname": "", "pkinds": []})
    return {
        "bounds": _try(raised, "compute_bounds", lambda: _bounds(geom, tu), [OFF] * 4),
        "shape": {"kind": sh["kind"], "parts": sh["parts"]},
        "stype": {"tname": sh["tname"], "pkinds": sh["pkinds"]},
        "feat": _try(raised, "compute_geometric_features", lambda: _feats(geom, tu), []),
        "anchors": [_try(raised, "get_geometry_point/" + p, lambda: _point2(get_geometry_point(geom, position=p), tu), [OFF, OFF])
                    for p in POSITIONS],
        "centroid": _try(raised, "get_geometry_point/centroid",
                         lambda: _plimbs(get_geometry_point(geom, position="centroid"), tu), [_NAN, _NAN]),
        "surface": _try(raised, "get_geometry_point/point_on_surface",
                        lambda: _plimbs(get_geometry_point(geom, position="point_on_surface"), tu), [_NAN, _NAN]),
        "raised": raised,
    }


def _map(kind, c, ft, ff):
    """the same coordinates with ft applied to every time and ff to every frequency."""
    if kind == "TimeStamp":
        return ft(c)
    if kind == "TimeInterval":
        return [ft(c[0]), ft(c[1])]
    if kind == "BoundingBox":
        return [ft(c[0]), ff(c[1]), ft(c[2]), ff(c[3])]
    if not isinstance(c[0], list):
        return [ft(c[0]), ff(c[1])]
    return [_map(kind, x, ft, ff) for x in c]


def _run_dec(g, tq, fq):
    """a geometry whose coordinates are no ticks of a dyadic unit: time = tick / tq s, frequency = tick / fq Hz.
    Everything is shipped as the doubles themselves (hex strings for identity, limb numbers for order)."""
    tmap, fmap = {}, {}

    def ft(k):
        tmap[k] = k / tq
        return tmap[k]

    def ff(k):
        fmap[k] = k / fq
        return fmap[k]

    geom = build({"type": g["type"], "coordinates": _map(g["type"], g["coordinates"], ft, ff)}, 1.0, 1.0)
    raised = []
    nan4 = [float("nan")] * 4
    b = _try(raised, "compute_bounds", lambda: [float(x) for x in compute_bounds(geom)], nan4)
    pts = [_try(raised, "get_geometry_point/" + p, lambda: [float(x) for x in get_geometry_point(geom, position=p)[:2]],
                [float("nan")] * 2) for p in POSITIONS]
    return {"tmap": [[k, fhex(v)] for k, v in sorted(tmap.items())], "fmap": [[k, fhex(v)] for k, v in sorted(fmap.items())],
            "bhex": [fhex(x) for x in b], "blimbs": [limbs(x) for x in b],
            "ahex": [[fhex(x) for x in p] for p in pts], "alimbs": [[limbs(x) for x in p] for p in pts],
            "raised": raised}


def execute(case):
    # in order, in this process: member i is completely handled (all units) before member i + 1 is built
    if case.get("dec"):
        d = case["dec"][0]
        return {"steps": [{"runs": [], "dec": [_run_dec(g, d["tq"], d["fq"])]} for g in case["gs"]]}
    return {"steps": [{"runs": [_run(g, tu) for tu in TIME_UNITS], "dec": []} for g in case["gs"]]}


# ----------------------------------------------------------------------------- random geometries on a larger lattice
TMAX, FMAXT = 1000, 5000


def _rp(rng):
    return [rng.randrange(0, TMAX + 1), rng.choice([0, FMAXT, rng.randrange(0, FMAXT + 1)])]


def _monotone_ring(rng):
    """simple polygon: a lower chain left to right, an upper chain back; lower < upper at every shared time."""
    n = rng.randint(2, 5)
    ts = sorted(rng.sample(range(0, TMAX + 1), n))
    lo = [rng.randrange(0, 2000) for _ in ts]
    hi = [rng.randrange(2500, FMAXT + 1) for _ in ts]
    ring = [[t, l] for t, l in zip(ts, lo)] + [[t, h] for t, h in reversed(list(zip(ts, hi)))]
    if rng.random() < 0.5:
        ring.reverse()
    k = rng.randrange(len(ring))
    ring = ring[k:] + ring[:k]
    if rng.random() < 0.5:
        ring.append(list(ring[0]))
    return ring


def _rect_with_holes(rng):
    s = rng.randrange(0, 400); e = s + rng.randrange(100, 500)
    l = rng.randrange(0, 2000); h = l + rng.randrange(1000, 3000)
    ring = [[s, l], [e, l], [e, h], [s, h], [s, l]]
    holes = []
    w = (e - s) // 3
    for k in range(rng.randint(0, 2)):              # side by side, strictly inside
        hs = s + 1 + k * w + rng.randrange(0, max(1, w // 3)); he = hs + max(1, w // 3)
        hl = l + 1 + rng.randrange(0, 300); hh = hl + 1 + rng.randrange(0, 400)
        holes.append([[hs, hl], [hs, hh], [he, hh], [he, hl], [hs, hl]])
    return [ring] + holes


def _poly(rng):
    r = rng.random()
    if r < 0.4:
        return [_monotone_ring(rng)]
    if r < 0.8:
        return _rect_with_holes(rng)
    a, b, c = _rp(rng), _rp(rng), _rp(rng)          # any triangle (possibly degenerate)
    return [[a, b, c]]


def _fwd_line(rng):
    n = rng.randint(2, 5)
    ts = [rng.randrange(0, TMAX) for _ in range(n)]
    if ts[0] >= ts[-1]:
        ts[-1] = ts[0] + 1
    return [[t, _rp(rng)[1]] for t in ts]


def random_cases(rng, tier):
    n = 400 if tier == "quick" else 4000
    kinds = ["TimeStamp", "TimeInterval", "Point", "BoundingBox", "LineString", "MultiPoint", "Polygon", "MultiLineString", "MultiPolygon"]
    for _ in range(n):
        k = rng.choice(kinds)
        if k == "TimeStamp":
            c = rng.randrange(0, TMAX + 1)
        elif k == "TimeInterval":
            c = sorted([rng.randrange(0, TMAX + 1), rng.randrange(0, TMAX + 1)])
        elif k == "Point":
            c = _rp(rng)
        elif k == "BoundingBox":
            a, b = _rp(rng), _rp(rng)
            c = [min(a[0], b[0]), min(a[1], b[1]), max(a[0], b[0]), max(a[1], b[1])]
        elif k == "LineString":
            c = [_rp(rng) for _ in range(rng.randint(2, 7))]
            if c[0][0] > c[-1][0]:
                c.reverse()
        elif k == "MultiPoint":
            c = [_rp(rng) for _ in range(rng.randint(1, 6))]
        elif k == "Polygon":
            c = _poly(rng)
        elif k == "MultiLineString":
            c = [_fwd_line(rng) for _ in range(rng.randint(1, 4))]
        else:
            c = [_poly(rng) for _ in range(rng.randint(1, 3))]
        # times have no ceiling: a third of the geometries lie late in the recording (origins around and far beyond
        # MAX_FREQUENCY seconds; 2**26 ticks are beyond it at every time unit)
        if rng.random() < 0.35:
            c = _late(k, c, rng.choice([5000000, 5000001, 40000000, 40000001, 2 ** 26, 2 ** 26 + 12345]))
        yield {"gs": [{"type": k, "coordinates": c}], "dec": []}
        if k == "LineString" and rng.random() < 0.5:     # the same line closed: its last vertex is its first
            yield {"gs": [{"type": k, "coordinates": [list(p) for p in c] + [list(c[0])]}], "dec": []}
        if rng.random() < 0.3 and k not in ("Polygon", "MultiPolygon"):
            # the same ticks read as decimals: time = tick / 100 s or tick / 1000 s, frequency = tick / 100 Hz (small values:
            # the midpoint tolerance of the specification is absolute)
            yield {"gs": [{"type": k, "coordinates": _small(k, c, rng)}], "dec": [{"tq": rng.choice([100, 1000]), "fq": 100}]}
    # long lines and rings with runs of exactly collinear vertices
    for _ in range(n // 20):
        m = rng.choice([65, 66, 80, 128, 200, 300])
        pts, t, f = [], rng.randrange(0, 50), rng.randrange(0, 4000)
        while len(pts) < m:
            run, dt, df = rng.randint(1, 12), rng.choice([0, 1, 1, 2]), rng.choice([0, 0, 1, -1, 3])
            for _ in range(run):
                t, f = t + dt, min(FMAXT, max(0, f + df))
                pts.append([t, f])
        pts = pts[:m]
        if pts[0][0] >= pts[-1][0]:
            pts[-1][0] = pts[0][0] + 1
        if rng.random() < 0.3:                           # a line that returns to where it began (first time = last time)
            pts = pts + [list(pts[0])]
            yield {"gs": [{"type": "LineString", "coordinates": pts}], "dec": []}
            continue
        k = rng.choice(["LineString", "MultiLineString", "MultiLineString"])
        c = pts if k == "LineString" else rng.choice([[pts], [[[0, 0], [1, 5]], pts], [pts, [[3, 1], [9, 1], [12, 1]]]])
        yield {"gs": [{"type": k, "coordinates": c}], "dec": []}
    # histories: random regroupings of one forward-running vertex sequence / of one list of nested rings
    for _ in range(n // 4):
        if rng.random() < 0.6:
            m = rng.randint(5, 9)
            ts = sorted(rng.sample(range(0, TMAX + 1), m))
            pts = [[t, _rp(rng)[1]] for t in ts]
            gs = [{"type": "MultiLineString", "coordinates": _cut(rng, pts, 2)} for _ in range(rng.randint(2, 4))]
            gs.append({"type": "MultiLineString", "coordinates": [_copy(pts)]})
        else:
            rings = _rect_with_holes(rng)               # a shell and 0..2 holes inside it
            while len(rings) < 2:
                rings = _rect_with_holes(rng)
            ks = rng.sample(range(1, len(rings) + 1), min(len(rings), rng.randint(2, 3)))
            # holes stay with the shell or stand alone: [[shell, h1, h2]] / [[shell, h1], [h2]] / [[shell], [h1], [h2]]
            gs = [{"type": "MultiPolygon", "coordinates": [_copy(rings[:k])] + [[_copy(r)] for r in rings[k:]]} for k in ks]
        yield {"gs": gs, "dec": []}


def _late(kind, c, t0):
    """the same geometry t0 ticks later (a translation along the time axis)."""
    if kind == "TimeStamp":
        return c + t0
    if kind == "TimeInterval":
        return [c[0] + t0, c[1] + t0]
    if kind == "BoundingBox":
        return [c[0] + t0, c[1], c[2] + t0, c[3]]
    if isinstance(c[0], int):
        return [c[0] + t0, c[1]]
    return [_late(kind, x, t0) for x in c]


def _small(kind, c, rng):
    """the same structure with times folded into 0..999 ticks and frequencies into 0..199999 ticks (order may change:
    lines that need an order are put back into it)."""
    out = _map(kind, c, lambda t: t % 1000, lambda f: (f * 37) % 200000)
    if kind == "TimeInterval":
        out.sort()
    if kind == "BoundingBox":
        out = [min(out[0], out[2]), min(out[1], out[3]), max(out[0], out[2]), max(out[1], out[3])]
    if kind == "LineString" and out[0][0] > out[-1][0]:
        out.reverse()
    if kind == "MultiLineString":
        for line in out:
            line.sort(key=lambda p: p[0])
            if line[0][0] == line[-1][0]:
                line[-1][0] += 1
    return out


def _copy(x):
    return [_copy(y) for y in x] if isinstance(x, list) else x


def _cut(rng, xs, least):
    """cut a list into consecutive blocks of at least `least` items, at random."""
    sizes, left = [], len(xs)
    while left > 0:
        k = rng.randint(least, min(left, least + 2))
        if left - k < least:
            k = left
        sizes.append(k)
        left -= k
    rng.shuffle(sizes)
    out, i = [], 0
    for k in sizes:
        out.append(_copy(xs[i:i + k]))
        i += k
    return out


def nontrivial(o):
    return any(g["type"] != "TimeStamp" for g in o["in"]["gs"])


MANIFEST = {
    "text": ("GeomFeatures.tla states Bounds (min/max over the coordinates, time-only kinds spanning [0, MAX_FREQUENCY]), the features "
             "derived from them, the nine named anchor points in doubled ticks, and what a shapely conversion must preserve; "
             "MC_GeomFeatures.tla runs the implementation's four code paths (per-type conversion, bounds read from the converted "
             "shape's shell, per-type feature functions, the position-name selector table) as a pipeline and TLC checks Impl => Req "
             "plus the consistency laws (ordering, duration/bandwidth identities, every anchor on the bounds, the nine names pairwise "
             "consistent, bounds recomputed from the raw tokens) for every geometry of a bounded universe of all nine kinds "
             "(zero-extent boxes, cw/ccw open/closed rings, L-shapes, degenerate rings, holes, multi-geometries of 1..3 parts; on time "
             "ticks 0..4 and again 2^26 ticks late -- times have no ceiling, only frequencies do). "
             "Histories -- regroupings of one vertex sequence converted one after the other, with no state carried over in Impl -- "
             "show anything the library keeps between conversions. Every geometry is then built for real, in history order within "
             "one process, at three dyadic time units; compute_bounds, geometry_to_shapely (every coordinate "
             "read back), compute_geometric_features and get_geometry_point at all eleven positions are recorded as exact integers / "
             "limb numbers and judged by TLC. Bounded-exhaustive plus random geometries on a 1000 x 5000 lattice."),
    "note": ("trusted: TLC, the binder checks/c05.py + vt/geom.py (encoders), exact float arithmetic on dyadic units; geometries are "
             "valid, in normal form, with simple rings and holes inside the shell; rings are compared as closed curves; the shapely "
             "kind of TimeStamp/TimeInterval/BoundingBox and a ValueError for unknown position names are not demanded by the "
             "statement and not judged (the former is reported as MODEL-DRIFT if it changes); small-scope hypothesis beyond the lattice"),
    "design_ref": "DESIGN.md section 4 C05",
}
