"""C15 binder: load_recording / load_clip / resample / compute_spectrogram.  Encoder only -- the verdict is T_AudioAxis's.

One case = one call (see spec/AudioAxis.tla for the case record).  The binder writes the tiny WAV file of the case
(frame k, channel j holds the integer k*ch + j, PCM_16 or FLOAT, so identity of frames survives soundfile's 1/32768
normalisation exactly), builds the Recording / Clip with the public constructors, calls the real functions and encodes:
lengths, frames as rows of integers, coordinates as exact limb numbers (first coordinate, exact differences to it,
advertised step), and the boundary flags of DESIGN 2.5 (signed distance of start*samplerate and duration*samplerate,
computed exactly on the doubles actually passed, from the nearest integer, in units of 2^-30 relative).
After the last call of a resamp / spec case the binder looks again at every array produced earlier in the case (the loaded
source; in derived-twice cases also the result of the preliminary resample) and encodes its time axis the same way ("reobs").
Clip / recording cases with a history (hist = mutate | rewrite | rewrite_len) use a file of their own: load, then edit the
returned arrays in place or rewrite the file at the same path (N2 frames, values from base2), then load again; the SECOND load
is what is encoded.
Long arrays (kinds long / longclip: one 13e6-frame file written once per run) are not encoded coordinate by coordinate but by
generic reductions of the axis (dtype, n, number of non-increasing pairs, first / last / step, exact maximum deviation from
c_0 + i*step, a handful of sampled (i, c_i, value) triples).
Cases with decl > 0 use a Recording built by hand (samplerate = decl, duration = N/decl) over a file whose header rate x time
expansion is something else.
Kind chain: case["ops"] (resamp / filter / spec / order = rotate the dims so that time is first, middle or last) are applied one
after the other to the loaded array; the axes of the final array are encoded.
It computes no expected value and takes no decision.
"""
from __future__ import annotations
import math, os, warnings
from fractions import Fraction
from pathlib import Path

import numpy as np
import soundfile as sf

from soundevent import data
from soundevent.audio import compute_spectrogram, load_clip, load_recording, resample
from soundevent.audio.operations import filter as audio_filter

PROPERTY = "C15"
TRACE = "T_AudioAxis"
ENUM = {
    "quick": [dict(module="MC_AudioAxis", cfg="MC_AudioAxis_quick.cfg", workers=8)],
    "thorough": [dict(module="MC_AudioAxis", cfg="MC_AudioAxis_thorough.cfg", workers=16, coverage=True,
                      may_be_unused=["SeekFail", "AxisEmpty"]),      # the as-found branches are disabled in the repaired Impl
                 dict(module="MC_AudioAxis", cfg="MC_AudioAxis_live.cfg", workers=8, expect_cases=False)],
}
POOL = 12
CHUNK = 1500
RULE = ("every call of the TLA+ enumeration (all clips [s,e] on the quarter-sample lattice incl. past EOF x file shapes x "
        "samplerate/time-expansion settings; all window/hop pairs x sources; sources x target rates; derived-twice sequences "
        "resample-then-resample / resample-then-spectrogram on one loaded array, the source re-observed after the calls; every "
        "11th (thorough: 5th) clip and every recording also as load / edit-in-place or rewrite-file / load-again) plus "
        "random calls on larger universes; non-trivial = an array with at least two coordinates was produced (clip: at least one frame)")
TRUSTED_BASE = ["checks/c15.py (writes the WAV, builds Recording/Clip, calls the API, encodes rows/coordinates as exact limb numbers, "
                "boundary-distance flags by fractions.Fraction on the doubles passed)",
                "soundfile/libsndfile write path (PCM_16 / FLOAT samples k/32768 are exact)"]
ASSUMPTIONS = ["recording samplerate = file samplerate x time expansion is an integer (other settings are truncated by Recording.from_file and are not generated)",
               "dyadic times and power-of-two rates: every float operation of the implementation is exact, verdicts are exact",
               "stress units (te 10, 10 Hz, 22050/44100/48000 Hz, decimal times): counts and frame identity are verdict-bearing (both neighbours "
               "accepted within 2^-30 of an integer), coordinates within 2.4e-10 of a sample",
               "compute_spectrogram / resample with default options (window, boundary='zeros', padded=True)"]

_WAVDIR_ENV = "VERIF_C15_WAVDIR"
_DEFAULT_WAVDIR = Path(__file__).resolve().parent.parent / ".work" / "C15_wav"


CHAIN_INEXACT = False      # also generate resample chains with an inexact intermediate length (rejected on the unchanged tree: finding candidate)
LONG_FR, LONG_TE, LONG_N = 30001, (10, 1), 13_000_000      # nominal 300.01 kHz, 43.3 s: beyond 2^23 frames and beyond 32 s


def prepare(work, tier, seed):
    d = Path(work) / "wav"
    d.mkdir(parents=True, exist_ok=True)
    os.environ[_WAVDIR_ENV] = str(d)          # inherited by the worker processes
    p = _long_wav(LONG_FR, LONG_N)            # the long recording is written once per run (26 MB) and removed afterwards
    import atexit
    atexit.register(lambda: p.exists() and p.unlink())


# ----------------------------------------------------------------------------- encoders (no verdicts)
def _limbs(q) -> list:
    """Exact rational -> [sign, int, f1, f2, f3, f4, exact] (same format as vt.enc.limbs)."""
    q = Fraction(q)
    s = 0 if q == 0 else (1 if q > 0 else -1)
    a = abs(q)
    i = int(a)
    if i >= 2**31 - 1:
        return [9, 4 if s > 0 else 5, 0, 0, 0, 0, 0]
    r = a - i
    fs = []
    for _ in range(4):
        r *= 65536
        f = int(r)
        fs.append(f)
        r -= f
    return [s, i] + fs + [1 if r == 0 else 0]


_NAN = [9, 3, 0, 0, 0, 0, 0]


def _flimbs(x) -> list:
    x = float(x)
    return _limbs(Fraction(x)) if math.isfinite(x) else _NAN


def _axis(coords, attrs, ref0=None) -> dict:
    """coords: 1-d array of doubles; attrs: its attributes; ref0: first coordinate of the source array (or None)."""
    vals = [float(v) for v in np.asarray(coords, dtype=np.float64)]
    step = attrs.get("step")
    a = {"n": len(vals), "c0": _limbs(0), "dev0": _limbs(0), "d": [],
         "step": [] if step is None else [_flimbs(step)]}
    if not vals:
        return a
    fin = all(math.isfinite(v) for v in vals)
    if not fin:
        a["c0"] = _NAN
        a["dev0"] = _NAN
        a["d"] = [_NAN for _ in vals]
        return a
    f0 = Fraction(vals[0])
    a["c0"] = _limbs(f0)
    a["dev0"] = _limbs(f0 - (Fraction(float(ref0)) if ref0 is not None else 0))
    a["d"] = [_limbs(Fraction(v) - f0) for v in vals]
    return a


def _near(x: Fraction, scale: Fraction) -> int:
    """Signed distance of x from the nearest integer in units of 2^-30 * max(1, scale), rounded away from 0, saturating."""
    n = math.floor(x + Fraction(1, 2))
    dist = x - n
    if dist == 0:
        return 0
    rel = abs(dist) / max(Fraction(1), abs(scale))
    v = min(math.ceil(rel * 2**30), 2**30)
    return v if dist > 0 else -v


def _rows(arr) -> list:
    """Frames of a (time, channel) array as integers in units of 1/32768 (raises if a value is not on that lattice)."""
    out = []
    for row in np.asarray(arr):
        r = []
        for v in row:
            q = Fraction(float(v)) * 32768
            if q.denominator != 1:
                raise ValueError(f"sample value {v!r} is not a multiple of 1/32768")
            r.append(int(q))
        out.append(r)
    return out


# ----------------------------------------------------------------------------- the file of a case
def _wavdir() -> Path:
    d = Path(os.environ.get(_WAVDIR_ENV, str(_DEFAULT_WAVDIR)))
    d.mkdir(parents=True, exist_ok=True)
    return d


def _write(path, fr, ch, n, fmt, base=0):
    vals = base + np.arange(1, n * ch + 1, dtype=np.int64).reshape(n, ch)   # frame k, channel j (1-based): base + k*ch + j
    if fmt == "PCM_16":
        sf.write(str(path), vals.astype(np.int16), fr, subtype="PCM_16", format="WAV")
    else:
        sf.write(str(path), (vals / 32768.0).astype(np.float32), fr, subtype="FLOAT", format="WAV")


def _wav(case) -> Path:
    fr, ch, n = case["fr"], case["ch"], case["N"]
    fmt = case.get("fmt", "PCM_16")
    p = _wavdir() / f"f_{fr}_{ch}_{n}_{fmt}.wav"
    if not p.exists():
        tmp = p.with_name(p.name + f".{os.getpid()}.tmp")
        _write(tmp, fr, ch, n, fmt)
        os.replace(tmp, p)
    return p


def _long_wav(fr, n) -> Path:
    """One channel, frame k holds k % 32749 + 1."""
    p = _wavdir() / f"long_{fr}_{n}.wav"
    if not p.exists():
        tmp = p.with_name(p.name + f".{os.getpid()}.tmp")
        sf.write(str(tmp), (np.arange(n, dtype=np.int64) % 32749 + 1).astype(np.int16), fr, subtype="PCM_16", format="WAV")
        os.replace(tmp, p)
    return p


def _reductions(arr) -> dict:
    """Generic reductions of the time axis of a long (time, channel) array; none of them knows an expected value."""
    red = _blank()["red"]
    c = arr.time.values
    n = int(c.size)
    step = arr.time.attrs.get("step")
    red.update(dtype=str(c.dtype), n=n, step=[] if step is None else [_flimbs(step)])
    if n == 0:
        return red
    c64 = c.astype(np.float64)                                   # exact for float32 / float64 coordinates
    if not np.isfinite(c64).all():
        red.update(c0=_NAN, last=_NAN, maxdev=_NAN, nonincr=n)
        return red
    red["nonincr"] = int((c64[1:] <= c64[:-1]).sum())
    red["c0"], red["last"] = _flimbs(c64[0]), _flimbs(c64[-1])
    if step is not None and math.isfinite(float(step)):
        st = Fraction(float(step))
        dev = np.abs(c64 - (c64[0] + np.arange(n) * float(step)))    # float evaluation locates the maximum ...
        k = min(8, n)
        cand = set(int(i) for i in np.argpartition(dev, n - k)[n - k:]) | {n - 1}
        f0 = Fraction(float(c64[0]))
        red["maxdev"] = _limbs(max(abs(Fraction(float(c64[i])) - f0 - i * st) for i in cand))   # ... Fraction evaluates it exactly there
    vals = arr.values
    for i in sorted({0, 1, n // 4, n // 2, 2**23 - 1, 2**23, 2**23 + 1, n - 2, n - 1}):
        if 0 <= i < n:
            q = Fraction(float(vals[i, 0])) * 32768
            if q.denominator != 1:
                raise ValueError(f"sample value {vals[i, 0]!r} is not a multiple of 1/32768")
            red["samples"].append([i, _flimbs(c64[i]), int(q)])
    return red


def _long(case, out):
    rec = data.Recording.from_file(_long_wav(case["fr"], case["N"]), time_expansion=case["te"][0] / case["te"][1], compute_hash=False)
    try:
        if case["kind"] == "long":
            arr = load_recording(rec)
        else:
            clip = _clip(case, rec)
            _flags(out, clip, rec.samplerate)
            arr = load_clip(clip)
    except Exception as ex:
        out["raised"] = type(ex).__name__
        return out
    out["n"] = int(arr.sizes["time"])
    out["red"] = _reductions(arr)
    return out


def _chain(case, src, ref0, out):
    """Apply case["ops"] one after the other; encode the axes of the final array (and look at the source again)."""
    arr = src
    try:
        for name, a, b in case["ops"]:
            if name == "resamp":
                arr = resample(arr, a)
            elif name == "filter":
                arr = audio_filter(arr, low_freq=a or None, high_freq=b or None)
            elif name == "spec":
                arr = compute_spectrogram(arr, window_size=a / case["tden"], hop_size=b / case["tden"])
            elif name == "order":
                dims = list(arr.dims)
                arr = arr.transpose(*(dims[a % len(dims):] + dims[:a % len(dims)]))
            else:
                raise KeyError(name)
        out["n"] = int(arr.sizes["time"])
        out["axes"] = [_axis(arr.time.values, arr.time.attrs, ref0)]
        if "frequency" in arr.dims:
            out["axes"].append(_axis(arr.frequency.values, arr.frequency.attrs))
    except Exception as ex:
        out["raised"] = type(ex).__name__
        out["n"] = 0
        out["axes"] = []
    out["reobs"] = [dict(_axis(src.time.values, src.time.attrs), role="source")]
    return out


_HIST_SEQ = [0]


def _history(case, out):
    """Cases with a history get a file of their own: first load(s), then the in-place edit of the returned arrays or
    the rewrite of the file at the same path; returns the Recording (rebuilt from the file) for the second, observed load."""
    _HIST_SEQ[0] += 1
    p = _wavdir() / f"h_{os.getpid()}_{_HIST_SEQ[0]}.wav"
    fr, ch, fmt, te = case["fr"], case["ch"], case.get("fmt", "PCM_16"), case["te"][0] / case["te"][1]
    _write(p, fr, ch, case["N"], fmt)
    keep = []                                   # the first results stay alive during the second load
    try:
        rec1 = data.Recording.from_file(p, time_expansion=te, compute_hash=False)
        keep.append(load_recording(rec1))
        if case["kind"] == "clip":
            keep.append(load_clip(_clip(case, rec1)))
    except Exception as ex:
        out["hist_raised"] = "first:" + type(ex).__name__
    if case["hist"] == "mutate":
        for a in keep:
            try:
                np.add(a.data, 3 / 32768, out=a.data)          # the caller edits what it was given, in place
            except Exception as ex:                              # (a read-only result cannot be edited: nothing to do)
                out["hist_raised"] = "edit:" + type(ex).__name__
    else:
        _write(p, fr, ch, case["N2"], fmt, base=case["base2"])   # same path, other content
    return p, data.Recording.from_file(p, time_expansion=te, compute_hash=False), keep


_RECS: dict = {}


def _recording(case):
    p = _wav(case)
    te = case["te"][0] / case["te"][1]
    decl = case.get("decl", 0)
    key = (str(p), te, decl)
    if key not in _RECS:
        if decl:      # a Recording built by hand: its samplerate (and the duration that goes with it) is what the user declares
            _RECS[key] = data.Recording(path=p, duration=case["N"] / decl, channels=case["ch"], samplerate=decl, time_expansion=te)
        else:
            _RECS[key] = data.Recording.from_file(p, time_expansion=te, compute_hash=False)
    return _RECS[key]


def _clip(case, rec):
    return data.Clip(recording=rec, start_time=case["s"] / case["tden"], end_time=case["e"] / case["tden"])


def _blank():
    return {"raised": "", "n": 0, "rows": [], "rec_rows": [], "bs": 0, "bd": 0, "src_ok": True, "src_n": 0, "axes": [],
            "pre_raised": "", "reobs": [], "hist_raised": "", "fo": 0, "fn": 0,
            "red": {"dtype": "", "n": 0, "nonincr": 0, "c0": _limbs(0), "last": _limbs(0), "step": [], "maxdev": _limbs(0), "samples": []}}


def _flags(out, clip, sr):
    s, e = Fraction(clip.start_time), Fraction(clip.end_time)
    out["bs"] = _near(s * sr, s * sr)
    out["bd"] = _near((e - s) * sr, e * sr)
    # the same two products rounded in double arithmetic (advisory: Drift/ClipFloatFloor)
    out["fo"] = int(math.floor(clip.start_time * sr))
    out["fn"] = int(math.floor((clip.end_time - clip.start_time) * sr))


def execute(case):
    warnings.simplefilter("ignore")
    out = _blank()
    if case["kind"] in ("long", "longclip"):
        return _long(case, out)
    if case.get("hist", "none") != "none":
        path, rec, keep = _history(case, out)
        try:
            return _observe(case, rec, out)
        finally:
            del keep
            try:
                os.unlink(path)
            except OSError:
                pass
    return _observe(case, _recording(case), out)


def _observe(case, rec, out):
    sr = rec.samplerate
    kind = case["kind"]

    if kind == "rec":
        try:
            wav = load_recording(rec)
        except Exception as ex:
            out["raised"] = type(ex).__name__
            return out
        out["n"] = int(wav.sizes["time"])
        out["rows"] = _rows(wav.values)
        out["axes"] = [_axis(wav.time.values, wav.time.attrs)]
        return out

    if kind == "clip":
        clip = _clip(case, rec)
        _flags(out, clip, sr)
        try:
            full = load_recording(rec)
            out["rec_rows"] = _rows(full.values)
        except Exception as ex:
            out["raised"] = "source:" + type(ex).__name__
            out["src_ok"] = False
            return out
        try:
            wav = load_clip(clip)
        except Exception as ex:
            out["raised"] = type(ex).__name__
            return out
        out["n"] = int(wav.sizes["time"])
        out["rows"] = _rows(wav.values)
        out["axes"] = [_axis(wav.time.values, wav.time.attrs)]
        return out

    # resamp / spec: the source array first
    try:
        if case["src"] == "rec":
            src = load_recording(rec)
        else:
            clip = _clip(case, rec)
            _flags(out, clip, sr)
            src = load_clip(clip)
    except Exception as ex:
        out["raised"] = "source:" + type(ex).__name__
        out["src_ok"] = False
        return out
    out["src_n"] = int(src.sizes["time"])
    ref0 = src.time.values[0] if src.sizes["time"] else None
    if kind == "chain":
        return _chain(case, src, ref0, out)
    # derived-twice cases: resample the source to case["pre"] first and set the result aside; the case's operation
    # is then applied to the SAME loaded array
    first = None
    if case.get("pre", 0):
        try:
            first = resample(src, case["pre"])
        except Exception as ex:
            out["pre_raised"] = type(ex).__name__
    try:
        if kind == "resamp":
            res = resample(src, case["target"])
        else:
            kw = {}
            if not case.get("padded", 1):
                kw["padded"] = False
            if case.get("bnd", "default") != "default":
                kw["boundary"] = None if case["bnd"] == "none" else case["bnd"]
            res = compute_spectrogram(src, window_size=case["w"] / case["tden"], hop_size=case["h"] / case["tden"], **kw)
        out["n"] = int(res.sizes["time"])
        out["axes"] = [_axis(res.time.values, res.time.attrs, ref0)]
        if kind == "spec":
            out["axes"].append(_axis(res.frequency.values, res.frequency.attrs))
    except Exception as ex:
        out["raised"] = type(ex).__name__
        out["n"] = 0
        out["axes"] = []
    # after the last call: look again at every array produced earlier (same encoding as when it was produced)
    out["reobs"] = [dict(_axis(src.time.values, src.time.attrs), role="source")]
    if first is not None and first.sizes["time"] <= 4000:
        out["reobs"].append(dict(_axis(first.time.values, first.time.attrs, ref0), role="derived"))
    return out


# ----------------------------------------------------------------------------- larger universes (random, seeded)
def _case(kind, fr, te, tden, ch, n, s=0, e=0, src="clip", w=0, h=0, target=0, fmt="PCM_16", pre=0, hist="none", n2=None, base2=0, decl=0, ops=(), padded=1, bnd="default"):
    return {"kind": kind, "fr": fr, "te": list(te), "tden": tden, "ch": ch, "N": n, "s": s, "e": e,
            "src": src, "w": w, "h": h, "target": target, "pre": pre, "hist": hist, "N2": n if n2 is None else n2,
            "base2": base2, "decl": decl, "ops": [list(o) for o in ops], "padded": padded, "bnd": bnd, "fmt": fmt}


def _hist(rng, n):
    """History of a random clip / recording case: (hist, N2, base2)."""
    r = rng.random()
    if r < 0.7:
        return "none", n, 0
    if r < 0.8:
        return "mutate", n, 0
    if r < 0.9:
        return "rewrite", n, rng.choice([100, 1000, 7])
    return "rewrite_len", max(1, n + rng.choice([-3, -1, 1, 2, 5, n])), rng.choice([100, 1000])


def _pre(rng, sr, n):
    """Rate of the preliminary resample of a derived-twice case (0 = none); at most ~2000 output samples."""
    if rng.random() < 0.6:
        return 0
    p = rng.choice([2 * sr, max(1, sr // 2), max(1, sr // 3), 3 * sr, rng.randrange(1, 2 * sr + 2), 8000, 22050, 16])
    return p if (n + 8) * p <= 2000 * sr else 0


# (file rate, time expansion): recording rate = fr * te is an integer
_RATES = [(8, (1, 1)), (16, (1, 1)), (16, (1, 2)), (4, (2, 1)), (32, (1, 4)), (256, (1, 1)), (1024, (1, 1)),   # exact
          (8000, (1, 1)), (10, (1, 1)), (12, (1, 1)), (44100, (1, 1)), (22050, (1, 1)), (22050, (2, 1)), (48000, (1, 1)),
          (4410, (10, 1)), (25600, (10, 1)), (96000, (1, 2)), (8, (10, 1)), (500, (1, 1)), (19200, (10, 1)),
          (93, (1, 1)), (31, (3, 1)), (99, (1, 1)), (123, (1, 1))]
# integer rates r with 1/(1.0/r) < r in doubles (int(1/step) = r - 1; 25 kHz, 50 kHz ... have the same property, but a
# one-step effect on a resampled axis needs >= 2r output samples, which only small rates allow within the encoding)
_ODD_RATES = [(93, (1, 1)), (31, (3, 1)), (99, (1, 1)), (105, (1, 1)), (117, (1, 1)), (123, (1, 1)), (186, (1, 1)), (93, (2, 1)),
              (210, (1, 1)), (245, (1, 1))]


def _tdens(sr, rng):
    opts = [4 * sr]                                          # quarter samples
    if sr & (sr - 1) == 0:
        opts += [8 * sr, 16 * sr]
    else:
        opts += [1000, 10000, 1000000, 256, 1024]            # decimal and dyadic times
    return rng.choice(opts)


def random_cases(rng, tier):
    # long arrays (too long for the enumerated lattice): the whole recording, and clips of it that start before and reach
    # beyond frame 2^23 (off and on sample boundaries), one that reaches past the end of the file
    yield _case("long", LONG_FR, LONG_TE, 128, 1, LONG_N, src="rec")
    yield _case("longclip", LONG_FR, LONG_TE, 128, 1, LONG_N, 3560, 3640)
    yield _case("longclip", LONG_FR, LONG_TE, 128, 1, LONG_N, 128 * rng.randrange(24, 28), 128 * 28 + rng.randrange(1, 700))
    yield _case("longclip", LONG_FR, LONG_TE, 128, 1, LONG_N, 5530 + rng.randrange(0, 25), 5560)
    # clips that start later than 1 s, given in DECIMAL seconds (ms grid; many of them on sample boundaries whose double is
    # slightly below the boundary: 2.3 s, 1.025 s at 16 kHz, 1.16 s at 44.1 kHz, 1.2 s at 22.05 kHz ...), 12.5 s files
    mid = [(16000, (1, 1)), (22050, (1, 1)), (22050, (2, 1)), (24000, (2, 1)), (8000, (1, 1))]
    fixed = [(16000, (1, 1), 2300), (16000, (1, 1), 1025), (22050, (2, 1), 1160), (22050, (1, 1), 1200), (24000, (2, 1), 3700),
             (24000, (2, 1), 1041), (16000, (1, 1), 12345), (8000, (1, 1), 2300)]
    for _ in range(40 if tier == "quick" else 400):
        fr, te = rng.choice(mid)
        fixed.append((fr, te, rng.randrange(1001, 12400)))
    for fr, te, s in fixed:
        sr = fr * te[0] // te[1]
        yield _case("longclip", fr, te, 1000, 1, 25 * sr // 2, s, s + rng.choice([1, 10, 25, 40, 125]))
    n_clip, n_spec, n_res, n_rec = (700, 150, 120, 40) if tier == "quick" else (6000, 1200, 900, 300)
    for _ in range(n_rec):
        fr, te = rng.choice(_RATES)
        n = rng.choice([1, 2, rng.randrange(3, 400)])
        hist, n2, base2 = _hist(rng, n)
        yield _case("rec", fr, te, 4 * (fr * te[0] // te[1]), rng.choice([1, 2, 3]), n,
                    src="rec", fmt=rng.choice(["PCM_16", "FLOAT"]), hist=hist, n2=n2, base2=base2)
    # operation chains on one loaded array.  Only chains whose INTERMEDIATE lengths are exact (N * t1 / sr an integer) are
    # generated: with an inexact intermediate length the implementation itself drifts by more than a step on the final array
    # (finding candidate TimeWithinStep/chain, e.g. 101 frames 16000 -> 8000 -> 48000), see CHAIN_INEXACT.
    import math as _m
    chains = [  # (fr, te, ch, N, ops)
        (22050, (2, 1), 1, 64, [("resamp", 22050, 0), ("resamp", 16000, 0)]),
        (16000, (1, 1), 2, 64, [("resamp", 8000, 0), ("resamp", 12000, 0)]),
        (22050, (2, 1), 1, 128, [("resamp", 22050, 0), ("filter", 0, 4000), ("resamp", 16000, 0)]),
        (16000, (1, 1), 1, 96, [("resamp", 8000, 0), ("filter", 500, 3000), ("resamp", 12000, 0)]),
        (8, (1, 1), 2, 16, [("order", 1, 0), ("resamp", 12, 0)]),
        (8, (1, 1), 3, 20, [("order", 1, 0), ("resamp", 4, 0), ("resamp", 6, 0)]),
        (8, (1, 1), 1, 40, [("spec", 16, 8), ("resamp", 8, 0)]),
        (8, (1, 1), 2, 40, [("spec", 16, 8), ("order", 1, 0), ("resamp", 8, 0)]),
        (8, (1, 1), 2, 40, [("spec", 16, 8), ("order", 2, 0), ("resamp", 6, 0)]),
        (22050, (1, 1), 1, 600, [("spec", 4 * 64, 4 * 32), ("resamp", 1000, 0)]),
    ]
    # ONE chain with an inexact intermediate length is always run: the open finding TimeWithinStep/chain/inexact-intermediate-length
    chains.append((16000, (1, 1), 1, 101, [("resamp", 8000, 0), ("resamp", 48000, 0)]))
    if CHAIN_INEXACT:
        chains.append((8, (1, 1), 1, 13, [("resamp", 4, 0), ("resamp", 12, 0)]))
    for _ in range(60 if tier == "quick" else 600):
        fr, te = rng.choice([(8, (1, 1)), (16, (1, 1)), (16, (1, 2)), (16000, (1, 1)), (22050, (2, 1)), (22050, (1, 1)), (24000, (2, 1)),
                             (8000, (1, 1)), (10, (1, 1)), (4410, (10, 1))])
        sr = fr * te[0] // te[1]
        ch = rng.choice([1, 2, 3])
        kind_ = rng.random()
        ops = []
        if kind_ < 0.55:                      # resample (-> filter) -> resample, exact intermediate length
            t1 = rng.choice([sr // 2, sr // 4, 2 * sr, 3 * sr // 2] if sr % 4 == 0 else [sr // 2, 2 * sr] if sr % 2 == 0 else [2 * sr])
            unit = sr // _m.gcd(sr, t1)       # N must be a multiple of this
            n = unit * rng.randrange(max(1, 48 // unit), max(2, 200 // unit) + 1)
            t2 = rng.choice([t1 // 2, 2 * t1, 3 * t1 // 4, rng.randrange(max(2, t1 // 3), 2 * t1 + 1), 16000, 8000] if t1 > 64 else
                            [max(2, t1 // 2), 2 * t1, rng.randrange(2, 2 * t1 + 2)])
            if rng.random() < 0.3:
                ops.append(("order", 1, 0))
            ops.append(("resamp", t1, 0))
            if rng.random() < 0.4 and n * t1 // sr >= 64 and t1 >= 16:
                ops.append(("filter", rng.choice([0, max(1, t1 // 16)]), max(2, t1 // 4)))
            ops.append(("resamp", t2, 0))
            if n * t1 // sr * t2 > 3000 * t1 or n * t1 // sr < 2:
                continue
        else:                                 # spectrogram (time in the middle / first / last) -> resample along time
            n = rng.randrange(24, 160)
            hop = rng.randrange(1, 6)
            w = hop * rng.choice([1, 2, 3])
            ops = [("spec", 4 * w, 4 * hop)]
            r = rng.choice([0, 0, 1, 2])
            if r:
                ops.append(("order", r, 0))
            ops.append(("resamp", max(1, rng.choice([sr // hop, 2 * sr // hop, sr // (2 * hop), sr // hop + 1, rng.randrange(1, 2 * sr // hop + 2)])), 0))
        # resample chains need the exact source length, so they start from load_recording; spectrogram chains also from clips
        src = "rec" if kind_ < 0.55 else rng.choice(["rec", "clip"])
        s, e = (0, 0) if src == "rec" else (4 * rng.randrange(0, 5) + rng.randrange(0, 4), 0)
        if src == "clip":
            e = s + 4 * n
            chains.append((fr, te, ch, n + 8, ops, s, e))
        else:
            chains.append((fr, te, ch, n, ops))
    for cdef in chains:
        fr, te, ch, n, ops = cdef[:5]
        s, e = cdef[5:] if len(cdef) > 5 else (0, 0)
        yield _case("chain", fr, te, 4 * (fr * te[0] // te[1]), ch, n, s, e, src="clip" if e else "rec", ops=ops)
    # Recordings built by hand whose samplerate differs from header rate x time expansion
    for _ in range(60 if tier == "quick" else 500):
        fr, te, decl = rng.choice([(5512, (8, 1), 44100), (83333, (3, 1), 250000), (8000, (1, 1), 8001), (8, (1, 1), 16), (12, (1, 1), 8),
                                   (16, (1, 2), 16), (22050, (1, 1), 22051), (4410, (10, 1), 44000), (32, (1, 1), 64)])
        n = rng.randrange(1, 60)
        tden = 4 * decl
        top = 4 * (n + 6) + 1
        s, e = sorted((rng.randrange(0, top + 1), rng.randrange(0, top + 1)))
        yield _case(rng.choice(["clip", "clip", "clip", "rec"]), fr, te, tden, rng.choice([1, 2]), n, s, e, decl=decl)
    for _ in range(n_clip):
        fr, te = rng.choice(_RATES)
        sr = fr * te[0] // te[1]
        ch = rng.choice([1, 1, 2, 3, 4])
        n = rng.choice([1, 2, rng.randrange(3, 40), rng.randrange(40, 160)])
        tden = _tdens(sr, rng)
        top = (n + 8) * tden // sr + 1                       # clips reach up to 8 samples past EOF
        if top * sr >= 2**30:
            tden = 4 * sr
            top = (n + 8) * 4 + 1
        mode = rng.random()
        if mode < 0.35:                                      # on sample boundaries (where they exist on this lattice)
            k = lambda: min(top, (rng.randrange(0, n + 8) * tden) // sr)
            s, e = sorted((k(), k()))
        elif mode < 0.5:                                     # shorter than / about one sample
            s = rng.randrange(0, top + 1)
            e = min(top, s + rng.randrange(0, 2 * tden // sr + 2))
        else:
            s, e = sorted((rng.randrange(0, top + 1), rng.randrange(0, top + 1)))
        hist, n2, base2 = _hist(rng, n)
        yield _case("clip", fr, te, tden, ch, n, s, e, fmt=rng.choice(["PCM_16", "PCM_16", "FLOAT"]), hist=hist, n2=n2, base2=base2)
    for _ in range(n_spec):
        fr, te = rng.choice(_RATES)
        sr = fr * te[0] // te[1]
        n = rng.choice([rng.randrange(2, 12), rng.randrange(12, 200), rng.randrange(200, 1500)])
        tden = _tdens(sr, rng)
        if (n + 2) * tden >= 2**30 or tden > 4 * sr and (n * tden // sr) * sr >= 2**30:
            tden = 4 * sr
        per = tden / sr                                      # ticks per sample
        src = rng.choice(["rec", "clip", "clip"])
        s = e = 0
        if src == "clip":
            s = rng.randrange(0, int(n * per / 2) + 1)
            e = rng.randrange(s + int(2 * per) + 1, int((n + 4) * per) + 2)
        wmax = max(2, int(min(n, 64) * per * rng.choice([0.25, 0.5, 1.2])))
        w = rng.randrange(max(1, int(per)), wmax + 1) if wmax >= per else max(1, int(per))
        h = rng.choice([w, max(1, w // 2), max(1, w // 4), rng.randrange(1, w + 1), rng.randrange(1, w + 1),
                        rng.randrange(w + 1, 2 * w + 2), w + max(1, int(per))])          # also hops longer than the window
        if w * sr >= 2**30:
            continue
        pd, bnd = rng.choice([(1, "default")] * 4 + [(0, "default"), (0, "zeros"), (0, "even"), (1, "even"), (1, "zeros"), (0, "none"), (1, "none")])
        yield _case("spec", fr, te, tden, rng.choice([1, 2]), n, s, e, src=src, w=w, h=h, pre=_pre(rng, sr, n), padded=pd, bnd=bnd)
    # the anticipated witness (DESIGN F13): 12.3 ms window, 4.1 ms hop at 22050 Hz, and relatives
    for fr, tden, w, h, n in [(22050, 10000, 123, 41, 22050), (44100, 10000, 100, 33, 30000), (8000, 1000, 10, 3, 4000),
                              (48000, 100000, 1234, 411, 24000)]:
        yield _case("spec", fr, (1, 1), tden, 1, n, 0, 0, src="rec", w=w, h=h)
    # long enough resamples at the rates of _ODD_RATES: at least 2.2 x rate output samples
    for fr, te in (_ODD_RATES if tier != "quick" else rng.sample(_ODD_RATES, 4)):
        sr = fr * te[0] // te[1]
        mult = rng.choice([2, 3, 4])
        n = rng.randrange(int(2.2 * sr / mult) + 2, int(3 * sr / mult) + 4)
        src = rng.choice(["rec", "clip"])
        s, e = (0, 0) if src == "rec" else (rng.randrange(0, 12), 4 * (n + 6))
        yield _case("resamp", fr, te, 4 * sr, 1, n + (0 if src == "rec" else 4), s, e, src=src, target=mult * sr + rng.choice([0, 0, 1, 7]))
    for _ in range(n_res):
        fr, te = rng.choice(_RATES)
        sr = fr * te[0] // te[1]
        n = rng.choice([2, 3, rng.randrange(4, 40), rng.randrange(40, 300)])
        tden = 4 * sr
        src = rng.choice(["rec", "clip"])
        s = e = 0
        if src == "clip":
            s = rng.randrange(0, 2 * n + 1)
            e = rng.randrange(s + 8, 4 * (n + 3) + 9)
        target = rng.choice([sr, 2 * sr, max(1, sr // 2), max(1, sr // 3), rng.randrange(1, 3 * sr + 2), 8000, 22050, 44100, 16, 10])
        if (n + 8) * target > 2000 * sr or n * target >= 2**30:
            continue                                          # keep outputs below ~2000 samples and the spec's products below 2^31
        yield _case("resamp", fr, te, tden, rng.choice([1, 2]), n, s, e, src=src, target=target, pre=_pre(rng, sr, n))


def nontrivial(o):
    r = o["out"]
    if o["in"]["kind"] == "chain":
        return r.get("raised", "x") == "" and len(o["in"]["ops"]) >= 2
    if r.get("raised", "x") != "":
        return False
    if o["in"]["kind"] in ("long", "longclip"):
        return r["n"] >= 2
    if o["in"]["kind"] == "clip":
        return r["n"] >= 1
    return bool(r["axes"]) and r["axes"][0]["n"] >= 2


def _chain_inexact(c):
    """a resample chain whose FIRST resampled length N*t1/sr is not a whole number (its advertised and its realised step differ)
    and that is resampled again"""
    try:
        rate = c["fr"] * c["te"][0] // c["te"][1]
        n = c["N"]
        res = [op for op in c.get("ops", []) if op[0] == "resamp"]
        for k, op in enumerate(res[:-1]):
            if (n * op[1]) % rate != 0:
                return True
            n, rate = n * op[1] // rate, op[1]
    except Exception:
        pass
    return False


def finding_key(o, clause):
    c = o["in"]
    k = f"{clause}/{c['kind']}"
    if clause in ("TimeWithinStep", "FirstResult/TimeWithinStep") and c["kind"] == "chain" and _chain_inexact(c):
        return "TimeWithinStep/chain/inexact-intermediate-length"
    if clause == "Produced" and c["kind"] == "clip":
        k += "/" + str(o["out"].get("raised"))
    return k


MANIFEST = {
    "text": ("AudioAxis.tla states C15 on integer sample arithmetic (n = floor(dur*sr), off = floor(start*sr), frame i = file frame off+i "
             "or 0 past EOF, time (off+i)/sr, same frame as load_recording; every axis strictly increasing, starting at the source's "
             "start, within one advertised step of first + i*step). MC_AudioAxis.tla transcribes load_recording, load_clip "
             "(floor/seek/zero-fill/axis from the snapped offset), resample (num = floor(N*target/sr), scipy's coordinates) and "
             "compute_spectrogram (nperseg/noverlap by truncation, scipy's triage/extension/padding/frame count) as a state machine; "
             "TLC checks Impl => Req for every clip on the quarter-sample lattice incl. past EOF, every window/hop pair and target "
             "rate of the bounded universe (resample drift bounded; as-found counterexamples kept in spec/history), and prints each "
             "call as a case. The binder writes the WAV, calls the real functions and encodes frames as integers and coordinates as "
             "exact limb numbers; TLC validates every observation clause by clause (exact on dyadic units, boundary guard and 2.4e-10 "
             "sample tolerance on stress units), plus random calls on larger universes. After resample / compute_spectrogram the source "
             "array (and, in derived-twice sequences on one loaded array, the first result) is re-observed and must still satisfy the "
             "axis clauses (SourceUntouched/*, FirstResult/*; Impl action Reobserve, invariant ImplSourceTruthful). Clips and recordings "
             "are also loaded twice with an in-place edit of the first result or a rewrite of the file (other values, other length) in "
             "between; the second load is judged by the same clauses against the file as it then is (Impl: Between/Reload keeps no "
             "state; the caching variant's counterexample is kept in spec/history). A 13e6-frame recording (beyond 2^23 frames / 32 s) and "
             "clips of it are judged by the same clauses on exact reductions of their axes."),
    "note": ("trusted: TLC, the binder checks/c15.py (encoder + exact Fraction reductions), soundfile's write path; bounded-exhaustive "
             "lattice + seeded random sampling; numerical values of resampled audio / STFT are not judged; resample's output length is "
             "not pinned by the statement and not judged"),
    "design_ref": "DESIGN.md section 4 C15, section 5 F13",
}
