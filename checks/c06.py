"""C06 binder: compute_affinity.  Encoder only -- the verdict is T_Affinity's.

One case = one *session* of calls on a pair of geometries (both argument orders, each geometry with itself,
and the pair shifted in time), recorded as limb numbers / float.hex strings.  Lattice cases come from TLC
(spec/MC_Affinity.tla) and are run at three dyadic time units; random cases (arbitrary doubles) are described by
integers only (a seed and two kinds) and rebuilt here deterministically.
"""
import copy
import math
import random
import warnings

from soundevent import data
from soundevent.evaluation import compute_affinity
from soundevent.geometry import buffer_geometry, compute_bounds, geometry_to_shapely
from vt.enc import limbs, fhex
from vt.geom import build, TIME_UNITS, FREQ_UNIT

PROPERTY = "C06"
TRACE = "T_Affinity"
ENUM = {
    "quick":    [dict(module="MC_Affinity", cfg="MC_Affinity_quick.cfg", workers=8)],
    # coverage (an action never taken = failure) on the small config only: TLC's interim coverage reports of a long run contain zeros
    "thorough": [dict(module="MC_Affinity", cfg="MC_Affinity_quick.cfg", workers=8, coverage=True),
                 dict(module="MC_Affinity", cfg="MC_Affinity_thorough.cfg", workers=16)],
}
POOL = 12
CHUNK = 600
RULE = ("one session per unordered pair of the 33-geometry lattice catalogue (all 9 kinds, 45 kind combinations in both "
        "argument orders) x buffer pair x shift offsets, each run at three dyadic time units (6+ calls of compute_affinity "
        "per unit); 'far' sessions: the closed-form pairs (time-only, two boxes) of the same catalogue in ticks of 2^-10 s counted from "
        "origins of 2^27 / 0 / 2^22 (thorough also 2^18, 2^25) s; plus random sessions on arbitrary doubles, a quarter of them "
        "millisecond events 2^18..2^27 s along the time axis; non-trivial = the pair has a positive affinity")
TRUSTED_BASE = ["checks/c06.py + vt/geom.py (build geometries, call compute_affinity / buffer_geometry / compute_bounds, "
                "encode doubles as limbs and hex; division of observed bounds by the power-of-two time unit)"]
ASSUMPTIONS = ["OverlapPositive (a buffered point level with a box of positive area and closer to it than the buffer has a positive "
               "affinity, also when they overlap only through the buffer) and DisjointRegions lean on the property's title, like RectIoU",
               "'iso' sessions use one numeric unit on both axes (1 tick = u s = u Hz, u = 0.5, 2, 0.125) with time_buffer = freq_buffer, so that "
               "equal buffers and literally equal coordinate lists of different kinds (TimeInterval [1,2] / Point [1,2]) occur; "
               "the closed forms apply unchanged",
               "bent / oblique lines against time-only geometries: the buffered time extent is bracketed between tmin - b .. tmax + b and the "
               "same shortened by b/128 at either end (inscribed round caps, shortfall <= 0.48 %), for lines whose bends are at most 90 "
               "degrees in buffer units and lie at least tb inside the extent; decided at 1 ms ticks (kind far, origin 0) and on the "
               "coarse lattice",
               "RectIoU (exact area IoU of polygons / multi-polygons bounded by axis-parallel rectangles, interior rings included) leans on "
               "the property's title (an intersection-over-union); the statement spells the area IoU out for two bounding boxes only",
               "the geometry objects of a session are constructed, derived by model_copy / attribute assignment from a used geometry "
               "elsewhere, or deep-copied (case field prov): the affinity is taken to be a function of the geometries as values",
               "dyadic units and power-of-two buffers: time extents of the implementation are exact on the lattice",
               "TimeInterval: the statement does not say whether its extent is buffered; both readings are accepted",
               "results that go through shapely's overlay are symmetric / shift invariant / self = 1 within 3e-9 (numeric "
               "policy); the upper bound 1 and the lower bound 0 are exact",
               "random geometries: valid and non-self-intersecting by construction (checked with shapely.is_valid, resampled)"]

_NONFINITE = [9, 0, 0, 0, 0, 0, 0]


def _val(fn, *a):
    try:
        with warnings.catch_warnings():
            warnings.simplefilter("ignore")
            v = fn(*a)
        v = float(v)
    except Exception as ex:  # an observation, judged by the spec
        return {"l": _NONFINITE, "h": "raise", "r": type(ex).__name__}
    return {"l": limbs(v), "h": fhex(v), "r": ""}


def _ext(fn, scale, origin=0.0):
    """time bounds reported by the public API, in ticks counted from origin (scale is a power of two and the bounds
    lie within a few ticks of the origin: subtraction and division are exact)."""
    try:
        with warnings.catch_warnings():
            warnings.simplefilter("ignore")
            b = fn()
        return [limbs((b[0] - origin) / scale), limbs((b[2] - origin) / scale)]
    except Exception:
        return [_NONFINITE, _NONFINITE]


def _extents(g, tb, fb, scale, origin=0.0):
    return {"raw": _ext(lambda: compute_bounds(g), scale, origin),
            "buf": _ext(lambda: compute_bounds(buffer_geometry(g, time_buffer=tb, freq_buffer=fb)), scale, origin)}


def _session(mk, offsets, tb, fb, scale, origins=None):
    """mk(d) -> (g1, g2) shifted by offset d; the first offset is where both orders and the self comparisons are observed.
    origins[k]: the time the extents of the k-th pair are counted from (default 0)."""
    g1, g2 = mk(offsets[0])
    v12 = _val(compute_affinity, g1, g2, tb, fb)
    run = {"v12": v12,
           "v21": _val(compute_affinity, g2, g1, tb, fb),
           "v11": _val(compute_affinity, g1, g1, tb, fb),
           "v22": _val(compute_affinity, g2, g2, tb, fb),
           "sh": []}
    for k, d in enumerate(offsets):
        a, b = (g1, g2) if k == 0 else mk(d)
        run["sh"].append({"v": v12 if k == 0 else _val(compute_affinity, a, b, tb, fb),
                          "e1": _extents(a, tb, fb, scale, origins[k] if origins else 0.0),
                          "e2": _extents(b, tb, fb, scale, origins[k] if origins else 0.0)})
    return run


# ---------------------------------------------------------------- lattice sessions
def _map_lat(g, f):
    """apply f to every time coordinate of a geometry record."""
    def pts(s):
        return [[f(p[0]), p[1]] for p in s]
    k, c = g["type"], g["coordinates"]
    if k == "TimeStamp":
        c2 = f(c)
    elif k == "TimeInterval":
        c2 = [f(c[0]), f(c[1])]
    elif k == "Point":
        c2 = [f(c[0]), c[1]]
    elif k == "BoundingBox":
        c2 = [f(c[0]), c[1], f(c[2]), c[3]]
    elif k in ("LineString", "MultiPoint"):
        c2 = pts(c)
    elif k in ("Polygon", "MultiLineString"):
        c2 = [pts(r) for r in c]
    else:
        c2 = [[pts(r) for r in p] for p in c]
    return {"type": k, "coordinates": c2}


def _shift_lat(g, d):
    return _map_lat(g, lambda t: t + d)


def provenance(make, rec, prov, far=7):
    """The geometry make(rec), obtained in one of four ways (the case says which; the value is the same):
    0 constructed; 1 an equal-kind geometry elsewhere (shifted by `far`) is used in a geometry operation, then
    model_copy(update=coordinates) derives this one; 2 the same by attribute assignment; 3 a deep copy of a used geometry."""
    if prov == 0:
        return make(rec)
    if prov == 3:
        g = make(rec)
        compute_bounds(g)
        return copy.deepcopy(g)
    other = make(_shift_lat(rec, far))
    compute_bounds(other)
    coords = make(rec).coordinates
    if prov == 1:
        return other.model_copy(update={"coordinates": coords})
    other.coordinates = coords
    return other


ISO_UNITS = [0.5, 2.0, 0.125]    # one numeric unit on both axes: 1 tick = u seconds = u hertz; buffers tb = fb = ticks * u


def _iso(case):
    runs = []
    for u in ISO_UNITS:
        make = lambda r, u=u: build(r, u, u)
        mk = lambda d, make=make: (provenance(make, _shift_lat(case["g1"], d), case["prov"][0], 7),
                                   provenance(make, _shift_lat(case["g2"], d), case["prov"][1], 11))
        runs.append(_session(mk, case["ds"], case["tb"] * u, case["fb"] * u, u))
    return {"runs": runs}


def _lattice(case):
    runs = []
    for tu in TIME_UNITS:
        make = lambda r, tu=tu: build(r, tu)
        mk = lambda d, make=make: (provenance(make, _shift_lat(case["g1"], d), case["prov"][0], 7),
                                   provenance(make, _shift_lat(case["g2"], d), case["prov"][1], 11))
        runs.append(_session(mk, case["ds"], case["tb"] * tu, case["fb"] * FREQ_UNIT, tu))
    return {"runs": runs}


FAR_UNIT = 2.0 ** -10          # far sessions: ticks of 2^-10 s counted from an origin of 2^E s (exact: <= 37 significant bits)


def _far(case):
    origins = [0 if e == 0 else 2 ** e for e in case["bases"]]
    shift = {o: int(o / FAR_UNIT) for o in origins}
    make = lambda r: build(r, FAR_UNIT)
    mk = lambda o: (provenance(make, _shift_lat(case["g1"], shift[o]), case["prov"][0], 7),
                    provenance(make, _shift_lat(case["g2"], shift[o]), case["prov"][1], 11))
    return {"runs": [_session(mk, origins, case["tb"] * FAR_UNIT, case["fb"] * FREQ_UNIT, FAR_UNIT,
                              origins=[float(o) for o in origins])]}


# ---------------------------------------------------------------- random sessions (arbitrary doubles)
KINDS = ["TimeStamp", "TimeInterval", "Point", "LineString", "Polygon", "BoundingBox", "MultiPoint",
         "MultiLineString", "MultiPolygon"]


def _poly_ring(rng, t0, t1, f0, f1):
    """star-shaped ring inside [t0,t1] x [f0,f1]: angular gaps below pi, so it cannot self-intersect."""
    n = rng.randint(3, 8)
    cx, cy, rx, ry = (t0 + t1) / 2, (f0 + f1) / 2, (t1 - t0) / 2, (f1 - f0) / 2
    pts = []
    for k in range(n):
        a = 2 * math.pi * (k + 0.4 * rng.random()) / n
        r = rng.uniform(0.35, 1.0)
        pts.append([cx + r * rx * math.cos(a), cy + r * ry * math.sin(a)])
    pts.append(list(pts[0]))
    return pts


def _rand_coords(rng, kind, t0, t1, flo=200.0, fhi=20000.0):
    """coordinates of a valid geometry of the given kind inside the time window [t0, t1] (frequencies in [flo, fhi])."""
    f = lambda: rng.uniform(flo, fhi)
    if kind == "TimeStamp":
        return rng.uniform(t0, t1)
    if kind == "TimeInterval":
        a, b = sorted([rng.uniform(t0, t1), rng.uniform(t0, t1)])
        return [a, b + 1e-3]
    if kind == "Point":
        return [rng.uniform(t0, t1), f()]
    if kind == "BoundingBox":
        a, b = sorted([rng.uniform(t0, t1), rng.uniform(t0, t1)])
        lo, hi = sorted([f(), f()])
        return [a, lo, b + 1e-3, hi + 1.0]
    if kind == "LineString":                       # strictly increasing in time: no self-intersection
        n = rng.randint(2, 5)
        ts = sorted(rng.uniform(t0, t1) for _ in range(n))
        return [[ts[i] + i * 1e-3, f()] for i in range(n)]
    if kind == "MultiPoint":
        return [[rng.uniform(t0, t1), f()] for _ in range(rng.randint(1, 4))]
    if kind == "Polygon":
        lo, hi = sorted([f(), f()])
        return [_poly_ring(rng, t0, t1, lo, hi + 500.0)]
    if kind == "MultiLineString":                  # parts in disjoint time slots
        m = rng.randint(1, 3)
        w = (t1 - t0) / m
        out = []
        for i in range(m):
            a, b = t0 + i * w, t0 + (i + 0.8) * w
            ts = sorted(rng.uniform(a, b) for _ in range(rng.randint(2, 3)))
            out.append([[ts[j] + j * 1e-4, f()] for j in range(len(ts))])
        return out
    if kind == "MultiPolygon":                     # parts in disjoint time slots
        m = rng.randint(1, 3)
        w = (t1 - t0) / m
        out = []
        for i in range(m):
            lo, hi = sorted([f(), f()])
            out.append([_poly_ring(rng, t0 + i * w, t0 + (i + 0.8) * w, lo, hi + 500.0)])
        return out
    raise ValueError(kind)


def _mk(kind, c):
    return getattr(data, kind)(coordinates=c)


def _shift_coords(kind, c, d):
    g = _shift_lat({"type": kind, "coordinates": c}, d)
    return g["coordinates"]


def _random(case):
    rng = random.Random(case["seed"])
    k1, k2 = case["k1"], case["k2"]
    tb, fb = rng.uniform(0.05, 0.5), rng.uniform(50.0, 500.0)
    mode = case["mode"]
    for _ in range(50):
        a0 = rng.uniform(0.0, 2.0) if rng.random() < 0.3 else rng.uniform(1.0, 4.0)
        c1 = _rand_coords(rng, k1, a0, a0 + rng.uniform(0.3, 3.0))
        if mode == "rot":                            # the same polygon, its ring started at another vertex / reversed
            ring = c1[0][:-1]
            r = rng.randrange(1, len(ring))
            ring = ring[r:] + ring[:r]
            if rng.random() < 0.5:
                ring = ring[::-1]
            c2 = [ring + [list(ring[0])]]
        elif mode == "same":
            c2 = c1
        elif mode == "far":
            b0 = a0 + 3.0 + 2 * tb + rng.uniform(0.5, 2.0)
            c2 = _rand_coords(rng, k2, b0, b0 + rng.uniform(0.3, 3.0))
        else:
            b0 = max(0.0, a0 + rng.uniform(-1.0, 1.5))
            c2 = _rand_coords(rng, k2, b0, b0 + rng.uniform(0.3, 3.0))
        try:
            ok = all(geometry_to_shapely(_mk(k, c)).is_valid for k, c in ((k1, c1), (k2, c2)))
        except Exception:
            ok = False
        if ok:                                       # the quantifier: valid, non-self-intersecting geometries
            break
    else:
        raise RuntimeError("no valid random geometry")
    d = rng.uniform(0.5, 4.0)
    offsets = [0.0, d]
    make = lambda r: _mk(r["type"], r["coordinates"])
    rec = lambda k, c, off: {"type": k, "coordinates": _shift_coords(k, c, off) if off else c}
    mk = lambda off: (provenance(make, rec(k1, c1, off), case["prov"][0], 3.0), provenance(make, rec(k2, c2, off), case["prov"][1], 5.0))
    return {"runs": [_session(mk, offsets, tb, fb, 1.0)]}


FAR_KINDS_1 = ["TimeStamp", "TimeInterval"]
FAR_KINDS_2 = ["TimeStamp", "TimeInterval", "BoundingBox", "Polygon", "MultiPolygon"]


def _random_far(case):
    """millisecond events 2^18..2^27 s along the time axis.  Times and the time buffer are multiples of 2^-20 s and the
    origins whole seconds, so origin + time is exact and the same pair is observed at every origin; extents are reported
    in ticks of 2^-10 s counted from the origin."""
    rng = random.Random(case["seed"])
    k1, k2 = case["k1"], case["k2"]
    q = lambda t: round(t * 2 ** 20) / 2 ** 20
    tb, fb = q(rng.uniform(0.0005, 0.003)), rng.uniform(50.0, 500.0)
    for _ in range(50):
        a0 = rng.uniform(0.004, 0.008)
        c1 = _rand_coords(rng, k1, a0, a0 + rng.uniform(0.0005, 0.008), 1000.0, 4000.0)
        b0 = a0 + rng.uniform(-0.002, 0.006 if case["mode"] == "near" else 0.012)
        c2 = c1 if case["mode"] == "same" else _rand_coords(rng, k2, b0, b0 + rng.uniform(0.0005, 0.008), 1000.0, 4000.0)
        c1 = _map_lat({"type": k1, "coordinates": c1}, q)["coordinates"]
        c2 = _map_lat({"type": k2, "coordinates": c2}, q)["coordinates"]
        try:
            ok = all(geometry_to_shapely(_mk(k, c)).is_valid for k, c in ((k1, c1), (k2, c2)))
        except Exception:
            ok = False
        if ok:
            break
    else:
        raise RuntimeError("no valid random geometry")
    origins = [float(rng.randrange(2 ** 18, 2 ** 27)), 0.0, float(2 ** rng.randrange(18, 28))]
    make = lambda r: _mk(r["type"], r["coordinates"])
    rec = lambda k, c, off: {"type": k, "coordinates": _shift_coords(k, c, off) if off else c}
    mk = lambda off: (provenance(make, rec(k1, c1, off), case["prov"][0], 3.0), provenance(make, rec(k2, c2, off), case["prov"][1], 5.0))
    return {"runs": [_session(mk, origins, tb, fb, FAR_UNIT, origins=origins)]}


def execute(case):
    if case["kind"] == "rnd" and case["mode"].startswith("axis-"):
        case = dict(case, mode=case["mode"][5:])
        return _random_far(case)
    if case["kind"] == "lat":
        return _lattice(case)
    if case["kind"] == "far":
        return _far(case)
    if case["kind"] == "iso":
        return _iso(case)
    return _random(case)


def random_cases(rng, tier):
    n = 1500 if tier == "quick" else 12000
    for i in range(n // 3):                          # short events far along the time axis (time-only pairs)
        mode = rng.choice(["same", "near", "near", "near", "far"])
        k1 = rng.choice(FAR_KINDS_1)
        k2 = k1 if mode == "same" else rng.choice(FAR_KINDS_2)
        if mode != "same" and rng.random() < 0.5:
            k1, k2 = k2, k1
        yield {"kind": "rnd", "seed": rng.randrange(1, 2**31 - 1), "k1": k1, "k2": k2, "mode": "axis-" + mode,
               "tb": 1, "fb": 1, "ds": [0, 1],
               "prov": [rng.choice([0, 0, 1, 2, 3]), rng.choice([0, 0, 1, 2, 3])]}
    for i in range(n):
        k1 = rng.choice(KINDS)
        mode = rng.choice(["same", "same", "near", "near", "near", "far"])
        k2 = k1 if mode == "same" else rng.choice(KINDS)
        if mode == "same" and k1 == "Polygon" and rng.random() < 0.7:
            mode = "rot"
        yield {"kind": "rnd", "seed": rng.randrange(1, 2**31 - 1), "k1": k1, "k2": k2, "mode": mode,
               "tb": 1, "fb": 1, "ds": [0, 1],
               "prov": [rng.choice([0, 0, 1, 2, 3]), rng.choice([0, 0, 1, 2, 3])]}


def nontrivial(o):
    try:
        return o["out"]["runs"][0]["v12"]["l"][0] == 1
    except Exception:
        return False

MANIFEST = {
    "text": ("Affinity.tla states compute_affinity as a session of calls on a pair of geometries: exact rational closed forms on an "
             "integer lattice (IoU of the buffered time extents when either side is time-only, area IoU of two boxes) and the "
             "clauses Range / Sym / Self / DisjointInTime / BoxIoU / TimeOnly / Shift. MC_Affinity.tla transcribes the dispatch of "
             "the implementation (which kinds are buffered, time-only vs area branch, zero-union guard); TLC checks on every "
             "catalogue pair that the dispatch agrees with the closed forms and that the closed forms are in range, symmetric, 1 on "
             "self, 0 when disjoint and shift invariant away from 0, and enumerates the sessions (33 geometries of all 9 kinds, "
             "all 45 unordered kind combinations, both argument orders, buffer pairs, shifts). Each session is run on the real code "
             "at three dyadic units; results travel as limb numbers / hex strings and TLC decides every clause (v <= 1 exactly). "
             "Far sessions put millisecond events up to 2^27 s along the time axis (same closed forms: they are free of scale and, "
             "away from 0, of origin -- LawOriginFree) and compare origins 2^27 s apart in the Shift clause. "
             "Random sessions on arbitrary doubles (valid, non-self-intersecting geometries of every kind) exercise the numerical "
             "clauses. Bounded-exhaustive on the lattice, sampled beyond."),
    "note": ("trusted: TLC, the binder checks/c06.py (encoder), exact float arithmetic on dyadic units with power-of-two buffers. "
             "Exact equality is decided where the specification has a closed form; area ratios produced by shapely's overlay are "
             "decided for range exactly and for symmetry / self / shift within 3e-9; time extents of obliquely capped or mitred "
             "lines are taken from the public buffer_geometry + compute_bounds (relational clause, 2^-10 tick resolution)."),
    "design_ref": "DESIGN.md section 4 C06",
}
