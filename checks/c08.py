"""C08 binder: sound_event_detection.  Encoder only -- the verdict is T_Detection's.

A case describes clips (id, annotated events, predicted events), the order of the prediction and the annotation list
and the size of the tag vocabulary.  The binder builds the real objects (one recording, one clip per id, sound events
with or without geometry, tags, predicted tags with scores in quarters), calls sound_event_detection and reports, per
clip evaluation: the clip id, the clip score and every match as (index of the prediction in that clip | none, index of the
annotation | none, affinity, score); plus the overall score and compute_affinity of every prediction/annotation pair.
Indices are 1-based, None is [], doubles are limbs + hex.
"""
import copy
import math
import random
import uuid
import warnings

from soundevent import data
from soundevent.evaluation import compute_affinity, sound_event_detection
from soundevent.geometry import geometry_to_shapely
from vt.enc import limbs, fhex
from vt.geom import build
from checks.c06 import _rand_coords, _mk, KINDS, _NONFINITE

PROPERTY = "C08"
TRACE = "T_Detection"
ENUM = {
    "quick": [dict(module="MC_Detection", cfg="MC_Detection_quick.cfg", workers=12),
              dict(module="MC_Detection", cfg="MC_Detection_clips.cfg", workers=4),
              dict(module="MC_Detection", cfg="MC_Detection_extra.cfg", workers=4)],
    # coverage (an action never taken = failure) on the small config only: TLC's interim coverage reports of a long run contain zeros
    "thorough": [dict(module="MC_Detection", cfg="MC_Detection_clips.cfg", workers=4, coverage=True),
                 dict(module="MC_Detection", cfg="MC_Detection_extra.cfg", workers=4),
                 dict(module="MC_Detection", cfg="MC_Detection_thorough.cfg", workers=16),
                 dict(module="MC_Detection", cfg="MC_Detection_thorough_rich.cfg", workers=16)],
}
POOL = 12
CHUNK = 1000
UNITS = [1.0, 0.25]
RULE = ("one call of sound_event_detection per case and exact unit: an anchor clip plus one clip with every arrangement of "
        "<= 2 annotated x <= 2 predicted events (geometry none / 3 boxes, class A / B / none, two score vectors; "
        "<= 3 events quick, <= 4 thorough, plus a touching box and four score vectors with <= 3 events thorough), every order and membership of three clips in the two input lists, and random "
        "runs (<= 4 clips, <= 4 events a side, all geometry kinds, vocabulary of 2..4 tags); non-trivial = some evaluated clip "
        "has both annotated and predicted events")
TRUSTED_BASE = ["checks/c08.py (build recording / clips / sound events / tags, call sound_event_detection, map the uuids in "
                "the result back to list positions, encode doubles)"]
ASSUMPTIONS = ["touching TimeIntervals (deci cases) are also run at the decimal units 0.1 s and 0.7 s (real doubles): an expected affinity or "
               "score of 0 is demanded exactly; other values on those units within 2.4e-10",
               "'extra' universe: regions with an interior ring (MultiPolygon and Polygon) against boxes strictly inside / touching / "
               "across the hole (a geometry strictly inside a hole does not overlap the region), and vocabularies / annotation tags / "
               "predicted tags over different terms that share a label or a name with equal values (a tag is a (term, value) pair)",
               "every generated run contains an anchor clip with one labelled annotation and the vocabulary has >= 2 tags: "
               "otherwise the run-level metrics of the same call (mean average precision, top-3 accuracy) raise inside "
               "scikit-learn -- that is C09's subject (DESIGN section 4 C09), not a clause of C08",
               "an annotation's class is its single tag when that tag is in the vocabulary; annotations with several tags are "
               "not generated; for an annotation without a class the score demanded is 1 - sum of the predicted scores",
               "lattice geometries are bounding boxes (never buffered); 'overlap' accepts touching boxes"]

_REC = data.Recording(path="a.wav", duration=1000.0, channels=1, samplerate=8000, uuid=uuid.UUID(int=77))
_OOV = data.Tag(key="species", value="zz")
_SNR = data.Term(name="v:snr", label="snr", definition="clip level signal to noise ratio")


def _V(x):
    if x is None:
        return {"l": _NONFINITE, "h": "none", "r": "none"}
    x = float(x)
    return {"l": limbs(x), "h": fhex(x), "r": ""}


def _vocab(n):
    return [data.Tag(key="species", value=f"c{i}") for i in range(1, n + 1)]


# term cases (Detection.tla, tag table): T1 and T2 are different terms with the same label, T1 and T3 different terms with
# the same name; tag ids 1..4 = (T1, x) (T2, x) (T3, x) (T1, y)
_T1 = data.Term(name="v:species", label="species", definition="species named by the annotator")
_T2 = data.Term(name="w:species", label="species", definition="species group of the classifier")
_T3 = data.Term(name="v:species", label="taxon", definition="another term under the same name")
_TAG = {1: data.Tag(term=_T1, value="x"), 2: data.Tag(term=_T2, value="x"), 3: data.Tag(term=_T3, value="x"),
        4: data.Tag(term=_T1, value="y")}


def _uid(*k):
    n = 0
    for x in k:
        n = n * 1000 + x
    return uuid.UUID(int=10**9 + n)


def _build(case, tu, geom_of):
    """-> (clip_predictions, clip_annotations, tags, events) ; events[clip id] = (pred geoms, ann geoms)."""
    tags = [_TAG[t] for t in case["voc"]] if "voc" in case else _vocab(case["vocab"])
    preds, anns, geoms = {}, {}, {}
    for c in case["clips"]:
        cid = c["id"]
        clip = data.Clip(recording=_REC, start_time=0.0, end_time=100.0 + cid, uuid=_uid(1, cid))
        cv = c.get("cv", 0)                          # which Clip object the prediction side holds (same identity: the uuid)
        if cv == 0:
            pclip = clip
        elif cv == 1:
            pclip = copy.deepcopy(clip)
        elif cv == 2:
            pclip = clip.model_copy(update={"features": [data.Feature(term=_SNR, value=3.0)]})
        else:
            pclip = data.Clip(recording=_REC, start_time=0.0, end_time=math.nextafter(100.0 + cid, 1e9), uuid=_uid(1, cid))
        pg, ag = [], []
        ses = []
        for j, a in enumerate(c["anns"]):
            g = geom_of(cid, "a", j, a, tu)
            ag.append(g)
            if "tags" in a:
                t = [_TAG[i] for i in a["tags"]]
            else:
                t = [tags[a["cls"] - 1]] if 1 <= a["cls"] <= len(tags) else ([_OOV] if a["cls"] == 9 else [])
            ses.append(data.SoundEventAnnotation(
                uuid=_uid(2, cid, j), tags=t,
                sound_event=data.SoundEvent(uuid=_uid(3, cid, j), recording=_REC, geometry=g)))
        anns[cid] = data.ClipAnnotation(uuid=_uid(4, cid), clip=clip, sound_events=ses)
        ses = []
        for i, p in enumerate(c["preds"]):
            g = geom_of(cid, "p", i, p, tu)
            pg.append(g)
            if "pt" in p:
                pt = [data.PredictedTag(tag=_TAG[i], score=q / 4) for i, q in p["pt"]]
            else:
                pt = [data.PredictedTag(tag=tags[k], score=q / 4) for k, q in enumerate(p["sc"]) if q > 0 and k < len(tags)]
            ses.append(data.SoundEventPrediction(
                uuid=_uid(5, cid, i), score=p.get("conf", 2) / 4, tags=pt,
                sound_event=data.SoundEvent(uuid=_uid(6, cid, i), recording=_REC, geometry=g)))
        preds[cid] = data.ClipPrediction(uuid=_uid(7, cid), clip=pclip, sound_events=ses)
        geoms[cid] = (pg, ag)
    return ([preds[k] for k in case["porder"]], [anns[k] for k in case["aorder"]], tags, geoms)


def _run(case, tu, geom_of):
    cp, ca, tags, geoms = _build(case, tu, geom_of)
    clip_id = {_uid(1, c["id"]): c["id"] for c in case["clips"]}
    out = {"raised": "", "cs": int(round(100 * tu)), "clips": [], "score": _V(0.0), "aff": []}
    with warnings.catch_warnings():
        warnings.simplefilter("ignore")
        for c in case["clips"]:
            pg, ag = geoms[c["id"]]
            out["aff"].append([[(_V(compute_affinity(p, a)) if p is not None and a is not None else
                                 {"l": limbs(0.0), "h": "nogeom", "r": "nogeom"}) for a in ag] for p in pg])
        try:
            ev = sound_event_detection(cp, ca, tags)
        except Exception as ex:  # an observation, judged by the spec
            out["raised"] = type(ex).__name__
            return out
    for ce in ev.clip_evaluations:
        pidx = {p.uuid: i + 1 for i, p in enumerate(ce.predictions.sound_events)}
        aidx = {a.uuid: i + 1 for i, a in enumerate(ce.annotations.sound_events)}
        ms = [{"s": [] if m.source is None else [pidx.get(m.source.uuid, 0)],
               "t": [] if m.target is None else [aidx.get(m.target.uuid, 0)],
               "a": _V(m.affinity), "sc": _V(m.score)} for m in ce.matches]
        out["clips"].append({"id": clip_id.get(ce.annotations.clip.uuid, 0), "score": _V(ce.score), "m": ms})
    out["score"] = _V(ev.score)
    return out


def _lat_geom(cid, side, k, e, tu):
    return build(e["g"][0], tu) if e["g"] else None


def execute(case):
    if case["kind"] == "lat":
        units = UNITS + ([0.1, 0.7] if case.get("deci") else [])     # a decimal grid: times such as 0.3, 0.7 as real doubles
        return {"runs": [_run(case, tu, _lat_geom) for tu in units]}
    rng = random.Random(case["seed"])
    cache = {}

    def rnd_geom(cid, side, k, e, tu):
        if not e["g"]:
            return None
        key = (cid, side, k)
        if key not in cache:
            for _ in range(50):
                a0 = rng.uniform(0.0, 2.5)              # a narrow window and band: overlaps are frequent
                g = _mk(e["g"][0], _rand_coords(rng, e["g"][0], a0, a0 + rng.uniform(0.3, 3.0), 1000.0, 4000.0))
                if geometry_to_shapely(g).is_valid:
                    break
            else:
                raise RuntimeError("no valid random geometry")
            cache[key] = g
        return cache[key]
    return {"runs": [_run(case, 1.0, rnd_geom)]}


def random_cases(rng, tier):
    n = 400 if tier == "quick" else 2000
    for _ in range(n):
        v = rng.randint(2, 4)

        def scores():
            q = [0] * v
            for _ in range(rng.randint(0, 4)):
                q[rng.randrange(v)] += 1
            return q

        def gk():
            if rng.random() < 0.2:
                return []
            return [rng.choice(KINDS if rng.random() < 0.4 else ["BoundingBox", "Polygon", "TimeInterval", "MultiPolygon"])]
        clips = [{"id": 1, "anns": [{"g": ["BoundingBox"], "cls": 1}], "preds": [{"g": ["Polygon"], "sc": scores()}]}]
        for cid in range(2, rng.randint(2, 4) + 1):
            clips.append({"id": cid, "cv": rng.randrange(4),
                          "anns": [{"g": gk(), "cls": rng.choice([0, 9] + list(range(1, v + 1)))} for _ in range(rng.randint(0, 4))],
                          "preds": [{"g": gk(), "sc": scores(), "conf": rng.randint(1, 4)} for _ in range(rng.randint(0, 4))]})
        ids = [c["id"] for c in clips]
        po = [1] + [i for i in ids[1:] if rng.random() < 0.8]
        ao = [1] + [i for i in ids[1:] if rng.random() < 0.8]
        rng.shuffle(po)
        rng.shuffle(ao)
        yield {"kind": "rnd", "seed": rng.randrange(1, 2**31 - 1), "vocab": v, "clips": clips, "porder": po, "aorder": ao}


def finding_key(o, clause):
    if clause == "Returns":
        r = [x["raised"] for x in o["out"].get("runs", []) if x.get("raised")]
        return "Returns:" + (r[0] if r else "?")
    return clause


def nontrivial(o):
    c = o["in"]
    both = set(c["porder"]) & set(c["aorder"])
    return any(x["id"] in both and x["id"] != 1 and x["anns"] and x["preds"] for x in c["clips"])

MANIFEST = {
    "text": ("Detection.tla states sound_event_detection declaratively (ClipsAreIntersection, EveryEventOnce, PairedOnlyIfOverlap, "
             "PairAffinity, PairScore, UnpairedZero, ClipScoreIsMean, OverallIsMeanOfClips, plus Returns). MC_Detection.tla "
             "transcribes iterate_over_valid_clips and evaluate_clip (the two filtered geometry lists, the matcher as any outcome "
             "its C07 contract allows, the three-way split, events without geometry, the ClipEvaluation validator, _mean) and TLC "
             "checks Impl => Req with the same clause operators on exact rationals for every arrangement of <= 2 x 2 events "
             "(geometry-less, overlapping, touching, disjoint; class A / B / none; score vectors in quarters) and every order / "
             "membership of three clips; the algorithm as found fails Returns, PairAffinity and PairedOnlyIfOverlap "
             "(spec/history/MC_Detection_prefix*). Every enumerated run is executed on the real code at two dyadic units and TLC "
             "validates who was matched with whom, affinities (exact box IoU), scores (exact quarters) and the means; random runs "
             "with up to 4 clips x 4 + 4 events of all geometry kinds are validated against the observed affinities."),
    "note": ("trusted: TLC, binder checks/c08.py (encoder: uuid -> list position, doubles -> limbs). Generated runs always contain "
             "one labelled annotation and a vocabulary of >= 2 tags, because the run-level metrics computed by the same call raise "
             "otherwise (C09's subject). Means are decided on values floored to 2^-24 and exactly (rationals) when the match scores "
             "are the specified ones."),
    "design_ref": "DESIGN.md section 4 C08",
}
