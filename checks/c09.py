"""C09 binder: evaluation metrics of the four tasks.  Encoder only -- the verdict is T_Metrics's.

One case = one abstract evaluation problem (spec/Metrics.tla): task, vocabulary size C, score unit u,
items [t, y, s], clips (lists of item indices), extras (clips present in one input only, with their
position), style.  The binder builds real clips / annotations /
predictions realising it, calls the task function with the clips in case order (fwd) and reversed (rev),
saves the fwd Evaluation with soundevent.io.save and loads it again (aoef), and records for every level
the (term label, term name, value) lists and the scores.  Doubles travel as limb numbers.
"""
import math
import os
import tempfile
import warnings
from pathlib import Path

from soundevent import data, io
from soundevent.evaluation import (
    clip_classification,
    clip_multilabel_classification,
    sound_event_classification,
    sound_event_detection,
)
from vt.enc import limbs, opt

PROPERTY = "C09"
TRACE = "T_Metrics"
ENUM = {
    "quick":    [dict(module="MC_Metrics", cfg="MC_Metrics_quick.cfg", workers=8)],
    "thorough": [dict(module="MC_Metrics", cfg="MC_Metrics_thorough.cfg", workers=16, coverage=True)],
}
POOL = 12
CHUNK = 600
RULE = ("every (task, vocabulary size, multiset of items = truth x score vector on the quarter lattice, clip shape, "
        "pattern of clips present in one input only, realisation style) of the TLA+ enumeration plus random problems with up to 4 items / 4 classes on the 1/4 and 1/8 "
        "lattices; each run in two clip orders and through an AOEF save/load; non-trivial = the task returned and the "
        "evaluation carries at least one metric whose allowed set is not the whole of {0, 1/n, .., 1} "
        "(counted here as: at least two items, or a vocabulary of three or more tags, or a multilabel item)")
TRUSTED_BASE = ["checks/c09.py (builds clips/annotations/predictions for an abstract item list, maps clip evaluations and "
                "matches back to clip / item indices by uuid, encodes doubles as limb numbers)"]
ASSUMPTIONS = ["sound_event_detection: an unmatched prediction is an item with its scores and no true class, an unmatched "
               "annotation an item with its class and all-zero scores (nothing was predicted for it)",
               "scores k/4 and k/8 are exact in float32 and float64, so the encoded score vectors are the lattice vectors",
               "vocabulary of at least one tag; at least one evaluated item; sound_event_detection inputs contain at least "
               "one labelled item (mean average precision over nothing is undefined, DESIGN section 4 C09)",
               "sound_event_detection is driven with identical (matched) or pairwise disjoint / absent (unmatched) geometries "
               "only: which events the matcher pairs is C08"]

TASKS = {"cc": clip_classification, "cml": clip_multilabel_classification,
         "sec": sound_event_classification, "sed": sound_event_detection}
_REC = data.Recording(path="a.wav", duration=1000.0, channels=1, samplerate=8000)
_OOV = data.Tag(key="other", value="thing")


def _vocab(C):
    return [data.Tag(key="species", value=f"sp{k}") for k in range(1, C + 1)]


_ALIKE_LABEL = data.Term(label="species", name="other_scheme:species", definition="Species in another naming scheme")
_ALIKE_NAME = data.Term(label="Species (alternative)", name="soundevent:species", definition="Unknown")


def _alike(case, tag):
    """Styles 2 / 3: a tag of a DIFFERENT term that shares label (2) or name (3) and the value with a vocabulary tag.
    It equals no vocabulary tag, so it names no class."""
    return data.Tag(term=_ALIKE_LABEL if case["style"] == 2 else _ALIKE_NAME, value=tag.value)


def _truth_tags(case, it, T):
    """Tags of an annotation realising the truth of item `it`."""
    C = case["C"]
    if case["task"] == "cml":
        tags = [T[k] for k in range(C) if it["y"][k]]
        missing = [T[k] for k in range(C) if not it["y"][k]]
    else:
        tags = [T[it["t"] - 1]] if it["t"] else []
        missing = [T[k] for k in range(C) if k != it["t"] - 1]
    if case["style"] == 1:
        return [_OOV] + tags
    if case["style"] in (2, 3) and missing:
        # look-alikes of classes the item does NOT have, ahead of its real tags
        return [_alike(case, missing[(sum(it["s"]) + it["t"]) % len(missing)])] + tags
    return tags


def _score(case, it, k):
    """Score of class k: tick / unit, plus the tiny offset named by the item's fine code (spec/Metrics.tla, FineOf):
    2 / 3: +4e-7 / +8e-7 (distinct float32 values); 1: below float32 resolution (+1e-9, or the next double)."""
    base = it["s"][k] / case["u"]
    f = it.get("f", [0] * case["C"])[k]
    if f == 1:
        return base + 1e-9 if case["style"] % 2 == 0 else math.nextafter(base, 2.0)
    return base + (0.0, 0.0, 4e-7, 8e-7)[f]


def _pred_tags(case, it, T):
    """Predicted tags realising the score ticks of item `it` (style 1: explicit zeros and an out-of-vocabulary tag;
    styles 2 / 3: a look-alike of one vocabulary tag, after the real ones, with a score that must not count)."""
    u, C = case["u"], case["C"]
    out = [data.PredictedTag(tag=T[k], score=_score(case, it, k))
           for k in range(C) if it["s"][k] or case["style"] == 1]
    rest = (u - sum(it["s"])) / u if case["task"] != "cml" else 0.75
    if case["style"] == 1:
        out.insert(0, data.PredictedTag(tag=_OOV, score=max(rest, 0.0)))
    elif case["style"] in (2, 3):
        k = (sum(it["s"]) + it["t"] + sum(it["y"])) % C
        out.append(data.PredictedTag(tag=_alike(case, T[k]), score=max(rest, 0.0)))
    return out


def _build(case):
    T = _vocab(case["C"])
    preds, anns, clip_of, item_of = [], [], {}, {}
    for k, members in enumerate(case["clips"], start=1):
        clip = data.Clip(recording=_REC, start_time=20.0 * k, end_time=20.0 * k + 16.0)
        clip_of[clip.uuid] = k
        if case["task"] in ("cc", "cml"):
            (i,) = members
            it = case["items"][i - 1]
            anns.append(data.ClipAnnotation(clip=clip, tags=_truth_tags(case, it, T)))
            preds.append(data.ClipPrediction(clip=clip, tags=_pred_tags(case, it, T)))
            continue
        sas, sps = [], []
        for j, i in enumerate(members):
            it = case["items"][i - 1]
            box = [20.0 * k + 4.0 * j + 1.0, 1000.0 * (j + 1), 20.0 * k + 4.0 * j + 3.0, 1000.0 * (j + 1) + 500.0]
            kind = it.get("m", "both")      # detection only: "pred"/"ann" = the event exists on one side (0: no geometry)
            geom = (lambda: None) if kind.endswith("0") else (lambda: data.BoundingBox(coordinates=box))
            se = data.SoundEvent(recording=_REC, geometry=geom())
            # classification: the prediction refers to the annotated sound event itself;
            # detection: an own sound event with the same geometry (full overlap); the boxes of different
            # items are disjoint in time and frequency, so one-sided events stay unmatched
            sp = se if case["task"] == "sec" else data.SoundEvent(recording=_REC, geometry=geom())
            if not kind.startswith("pred"):
                item_of[se.uuid] = i
                sas.append(data.SoundEventAnnotation(sound_event=se, tags=_truth_tags(case, it, T)))
            if not kind.startswith("ann"):
                item_of[sp.uuid] = i
                # detection confidence: the item's `conf` quarters, 0 / absent = left at the model's default
                conf = {"score": it["conf"] / 4} if it.get("conf") else {}
                sps.append(data.SoundEventPrediction(sound_event=sp, tags=_pred_tags(case, it, T), **conf))
        # order of the clip's predictions relative to its annotations: 1 reversed, 2 rotated by one (pairing is by
        # sound-event identity / geometry, never by position)
        if case.get("perm") == 1:
            sps.reverse()
        elif case.get("perm") == 2 and sps:
            sps = sps[1:] + sps[:1]
        extra = case["style"] == 1 and case["C"] >= 1
        anns.append(data.ClipAnnotation(clip=clip, sound_events=sas, tags=[T[0]] if extra else []))
        preds.append(data.ClipPrediction(clip=clip, sound_events=sps,
                                         tags=[data.PredictedTag(tag=T[-1], score=0.5)] if extra else []))
    preds, anns = _with_extras(case, T, preds, anns)
    return T, preds, anns, clip_of, item_of


def _with_extras(case, T, preds, anns):
    """Interleave the clips that are in one input only (case["extras"]: after `pos` of the evaluated clips, on `side`).

    Their uuids are not registered: a clip evaluation for one of them is counted as `extra` by _encode."""
    extras = case.get("extras", [])
    if not extras:
        return preds, anns
    P, A = [], []
    for q in range(len(case["clips"]) + 1):
        for x, e in enumerate(extras):
            if e["pos"] != q:
                continue
            clip = data.Clip(recording=_REC, start_time=500.0 + 20.0 * x, end_time=516.0 + 20.0 * x)
            box = data.BoundingBox(coordinates=[501.0 + 20.0 * x, 1000.0, 503.0 + 20.0 * x, 1500.0])
            se = data.SoundEvent(recording=_REC, geometry=box)
            sound = case["task"] in ("sec", "sed")
            if e["side"] == "pred":
                tags = [data.PredictedTag(tag=T[0], score=1.0)]
                P.append(data.ClipPrediction(clip=clip, tags=[] if sound else tags, sound_events=(
                    [data.SoundEventPrediction(sound_event=se, score=1.0, tags=tags)] if sound else [])))
            else:
                A.append(data.ClipAnnotation(clip=clip, tags=[] if sound else [T[0]], sound_events=(
                    [data.SoundEventAnnotation(sound_event=se, tags=[T[0]])] if sound else [])))
        if q < len(case["clips"]):
            P.append(preds[q])
            A.append(anns[q])
    return P, A


def _metrics(ms):
    return [{"label": m.term.label, "name": m.term.name, "v": limbs(m.value)} for m in ms]


def _item_of_match(m, item_of):
    a = item_of.get(m.source.sound_event.uuid, 0) if m.source is not None else None
    b = item_of.get(m.target.sound_event.uuid, 0) if m.target is not None else None
    if a is None and b is None:
        return 0
    if a is None or b is None:
        return a if b is None else b
    return a if a == b else 0


def _empty_run(raised, nclips, msg=""):
    return {"raised": raised, "msg": msg, "score": [], "metrics": [], "extra": 0,
            "clips": [{"n": 0, "score": [], "metrics": [], "matches": []} for _ in range(nclips)]}


def _encode(ev, nclips, clip_of, item_of):
    run = _empty_run("", nclips)
    run["score"] = opt(ev.score, limbs)
    run["metrics"] = _metrics(ev.metrics)
    for ce in ev.clip_evaluations:
        k = clip_of.get(ce.annotations.clip.uuid, 0)
        if k == 0 or clip_of.get(ce.predictions.clip.uuid, 0) != k:
            run["extra"] += 1
            continue
        slot = run["clips"][k - 1]
        slot["n"] += 1
        if slot["n"] > 1:
            continue
        slot["score"] = opt(ce.score, limbs)
        slot["metrics"] = _metrics(ce.metrics)
        slot["matches"] = [{"item": _item_of_match(m, item_of), "src": m.source is not None, "tgt": m.target is not None,
                            "score": opt(m.score, limbs), "metrics": _metrics(m.metrics)} for m in ce.matches]
    return run


def _call(case, T, preds, anns, clip_of, item_of):
    try:
        with warnings.catch_warnings():
            warnings.simplefilter("ignore")          # library warnings are not failures
            ev = TASKS[case["task"]](preds, anns, T)
    except Exception as ex:                           # an exception of the library is an observation
        return None, _empty_run(type(ex).__name__, len(case["clips"]), str(ex)[:160])
    return ev, _encode(ev, len(case["clips"]), clip_of, item_of)


def _tmp_base():
    base = Path(os.environ.get("C09_TMP") or (Path(__file__).resolve().parent.parent / ".work" / "c09_tmp"))
    base.mkdir(parents=True, exist_ok=True)
    return base


def _through_aoef(ev, nclips, clip_of, item_of):
    try:
        with tempfile.TemporaryDirectory(dir=_tmp_base()) as d:
            path = Path(d) / "evaluation.json"
            io.save(ev, path)
            back = io.load(path)
    except Exception as ex:
        return _empty_run("aoef:" + type(ex).__name__, nclips)
    if not isinstance(back, data.Evaluation):
        return _empty_run("aoef:loaded " + type(back).__name__, nclips)
    return _encode(back, nclips, clip_of, item_of)


def execute(case):
    T, preds, anns, clip_of, item_of = _build(case)
    n = len(case["clips"])
    ev, fwd = _call(case, T, preds, anns, clip_of, item_of)
    _, rev = _call(case, T, preds[::-1], anns[::-1], clip_of, item_of)
    aoef = _through_aoef(ev, n, clip_of, item_of) if ev is not None else _empty_run("aoef:nothing to save", n)
    return {"fwd": fwd, "rev": rev, "aoef": aoef}


def prepare(work, tier, seed):
    os.environ["C09_TMP"] = str(Path(work) / "aoef")


def random_cases(rng, tier):
    """Problems beyond the enumerated universe: up to 4 items, 4 classes (6 items in clips of 1/2/3 events with <= 2 classes),
    1/4 and 1/8 lattices, any clip partition."""
    want = 400 if tier == "quick" else 2000
    made = 0
    while made < want:
        task = rng.choice(["cc", "cml", "sec", "sed"])
        C = rng.choice([1, 2, 2, 3, 3, 3, 4, 4])
        u = rng.choice([4, 4, 8])
        n = rng.choice([1, 2, 3, 3, 4, 4])
        # a quarter of the sound-event problems: six events in clips of 1, 2 and 3 events (clips of different weight, so
        # the mean of the clip scores differs from a pooled mean over the events); small vocabulary keeps TLC's tie sets small
        uneven = task in ("sec", "sed") and rng.random() < 0.25
        if uneven:
            C, n = rng.choice([1, 2, 2]), 6
        items = []
        # a third of the single-label problems: balanced truths (every occurring class, 'none' included, equally often)
        # whose items all have an exact top-score tie involving the true class (e.g. a tag at 1/2 against the 'none' mass)
        tied = task != "cml" and C >= 2 and not uneven and rng.random() < 0.33
        if tied:
            K = rng.choice([k for k in (1, 2, 3, 4) if k <= C + 1])
            classes = rng.sample(range(C + 1), K)                    # 0 = 'none'
            n = K * rng.choice([r for r in (1, 2, 3, 4) if K * r <= 4])
            for j in range(n):
                t = classes[j % K]
                slot = (t - 1) if t else C                            # position in the extended score vector
                ext = [0] * (C + 1)
                partner = rng.choice([q for q in range(C + 1) if q != slot])
                if u == 8 and C >= 2 and rng.random() < 0.5:
                    third = rng.choice([q for q in range(C + 1) if q not in (slot, partner)])
                    ext[slot], ext[partner], ext[third] = 3, 3, 2
                else:
                    ext[slot] = ext[partner] = u // 2
                items.append({"t": t, "y": [], "s": ext[:C]})
            rng.shuffle(items)
        for _ in range(0 if tied else n):
            if task == "cml":
                y = [rng.randrange(2) for _ in range(C)]
                s = [rng.choice([0, 0, u // 2, u, rng.randrange(u + 1), rng.randrange(u + 1)]) for _ in range(C)]
                items.append({"t": 0, "y": y, "s": s})
            else:
                left, s = u, []
                for _ in range(C):
                    k = rng.choice([0, rng.randrange(left + 1), rng.randrange(left + 1), left if rng.random() < 0.2 else 0])
                    s.append(k)
                    left -= k
                rng.shuffle(s)
                items.append({"t": rng.randrange(C + 1), "y": [], "s": s})
        if task in ("cml", "sed") and not tied:
            # near-equal scores: half of these problems give two items the same tick on one class and separate them (or
            # not) by a tiny offset; the rest sprinkle offsets at random
            for it in items:
                it["f"] = [rng.choice([0, 0, 0, 1, 2, 3]) if 0 < it["s"][k] < u and (task == "cml" or sum(it["s"]) < u) else 0
                           for k in range(C)]
            if n >= 2 and rng.random() < 0.5:
                a, b = rng.sample(range(n), 2)
                k = rng.randrange(C)
                tick = rng.randrange(1, u)
                for it, code in ((items[a], rng.choice([2, 3, 1])), (items[b], rng.choice([0, 0, 2]))):
                    if task == "cml" or sum(it["s"]) - it["s"][k] + tick < u:
                        it["s"][k] = tick
                        it["f"][k] = code
                    else:
                        it["f"][k] = 0 if it["s"][k] == 0 or sum(it["s"]) >= u else it["f"][k]
        if task in ("sec", "sed"):
            for it in items:
                it["conf"] = rng.choice([0, 4, 2, 1])
        if task == "sed":
            for it in items:
                it["m"] = "both" if tied else rng.choice(["both", "both", "both", "pred", "ann", "pred", "ann", "pred0", "ann0"])
            if not any(it["t"] and not it["m"].startswith("pred") for it in items):
                continue
        order = list(range(1, n + 1))
        rng.shuffle(order)
        if task in ("cc", "cml"):
            clips = [[i] for i in order]
        elif uneven:
            sizes, clips, at = rng.sample([1, 2, 3], 3), [], 0
            for z in sizes:
                clips.append(order[at:at + z])
                at += z
            if rng.random() < 0.3:
                clips.insert(rng.randrange(4), [])
        else:
            clips, cur = [], []
            for i in order:
                cur.append(i)
                if rng.random() < 0.5:
                    clips.append(cur)
                    cur = []
                    if rng.random() < 0.25:
                        clips.append([])
            if cur:
                clips.append(cur)
            if rng.random() < 0.15:
                clips.insert(0, [])
        made += 1
        extras = [{"pos": rng.randrange(len(clips) + 1), "side": rng.choice(["pred", "pred", "ann"])}
                  for _ in range(rng.choice([0, 0, 1, 1, 2, 3]))]
        yield {"task": task, "C": C, "u": u, "items": items, "clips": clips, "extras": extras,
               "perm": rng.randrange(3) if task in ("sec", "sed") else 0, "style": rng.randrange(4)}


def nontrivial(o):
    c = o["in"]
    return (o["out"].get("fwd", {}).get("raised") == "" and bool(o["out"]["fwd"]["metrics"])
            and (len(c["items"]) >= 2 or c["C"] >= 3 or c["task"] == "cml"))


def finding_key(o, clause):
    """Specific key of a reject (matched against known_findings.json)."""
    if clause != "Evaluates":
        return f"{clause}/{o['in']['task']}"
    c, out = o["in"], o["out"]
    exc = out["fwd"]["raised"] or out["rev"]["raised"]
    msg = out["fwd"].get("msg") or out["rev"].get("msg") or ""
    if c["C"] == 1 and exc == "ValueError":
        # scikit-learn refusing a single label column, by the routine that refuses
        if c["task"] in ("cc", "sec", "sed") and "is binary while y_score is 2d" in msg:
            return "Evaluates/top3/ValueError/vocab1"            # top_k_accuracy_score in metrics.top_3_accuracy
        if c["task"] == "cml" and ("Samplewise metrics are not available" in msg or "y_true contains only one label" in msg):
            return "Evaluates/cml/ValueError/vocab1"             # jaccard_score(average="samples") / log_loss
    what = "emptyclip" if c["task"] in ("sec", "sed") and any(len(m) == 0 for m in c["clips"]) else "other"
    return f"Evaluates/{c['task']}/{exc}/{what}"

MANIFEST = {
    "text": ("Metrics.tla defines accuracy, balanced accuracy, top-3 accuracy, true-class probability, average precision "
             "(per class and per clip), macro mean average precision and the Jaccard index (threshold 1/2) as exact "
             "rationals over abstract items (truth, score ticks), as SETS of allowed values where argmax / top-k ties, a "
             "score exactly on the threshold, classes without positives or 0/0 leave freedom, with the extra 'none' class "
             "for the accuracy family and unlabelled items left out of mean average precision. TLC checks on the model: "
             "every allowed value is a rational of [0,1], permutation invariance, accuracy <= top-3, balanced accuracy = "
             "accuracy on balanced truths, none-is-a-class, none-left-out, AP = 1 on perfect rankings, Jaccard extremes, "
             "DistinctTerms and term-names-function for the (term, metric) tables of the four tasks, and Impl => Req for "
             "mean_average_precision on multilabel truths (both as-found defects are refuted by TLC in spec/history). It "
             "enumerates problems (<= 3 items, <= 3 tags, quarter scores, clip shapes with empty clips, two realisation "
             "styles); each is built as real clips/annotations/predictions, run through the task function in two clip "
             "orders and through soundevent.io.save/load, and TLC validates the recorded terms, every value (observed "
             "doubles as limb numbers against the rationals), score means, order independence and AOEF survival. "
             "Bounded-exhaustive / strided, plus random problems with <= 4 items, <= 4 tags on 1/4 and 1/8 lattices."),
    "note": ("trusted: TLC, the binder checks/c09.py (builds objects, maps results back by uuid, encodes doubles), exactness of "
             "k/4 and k/8 in float32; small-scope hypothesis beyond the enumerated universe. Not decided: empty vocabulary; "
             "sound_event_detection without any labelled item (mean average precision undefined, the library raises); the "
             "value of base-level scores (only their aggregation); unmatched detections (C08). Open findings (one-tag "
             "vocabulary): Evaluates/cml/ValueError/vocab1 and Evaluates/top3/ValueError/vocab1."),
    "design_ref": "DESIGN.md section 4 C09",
}
