"""C02 binder: AOEF save/load documents are self-contained.  Encoder only -- the verdict is T_AoefC02's."""
from pathlib import Path
from checks import aoef_common as ac

PROPERTY = "C02"
TRACE = "T_AoefC02"
ENUM = {
    "quick":    [dict(module="MC_Aoef", cfg="MC_Aoef_quick.cfg", workers=8)],
    "thorough": [dict(module="MC_Aoef", cfg="MC_Aoef_thorough.cfg", workers=16, coverage=True)],
}
POOL = 12
CHUNK = 400
WORK = Path(__file__).resolve().parent.parent / ".work" / "aoef_tmp"
RULE = ("every (collection type, switch set, option) terminal state of the registry machine MC_Aoef becomes one real object "
        "graph that is saved and loaded n times through fresh calls; non-trivial = the graph has at least one shared "
        "sub-object or optional edge (switch set non-empty)")
TRUSTED_BASE = ["checks/aoef_common.py: build_world (objects from TLC's description), gen_value (typed scalars from model_fields), "
                "diff (generic field walker, terms by label), analyse_doc (document definitions/references)"]
ASSUMPTIONS = ["terms are simple-label terms; feature labels distinct within a list; finite floats; no object repeated within one list",
               "acyclic sequence parents"]

def execute(case):
    WORK.mkdir(parents=True, exist_ok=True)
    return ac.run_cycles(case, WORK)

def nontrivial(o):
    return len(o["in"].get("sw", [])) > 0
