"""C02 binder: AOEF save/load documents are self-contained.  Encoder only -- the verdict is T_AoefC02's."""
import os
# the registry hooks are enabled by an environment variable read when soundevent is imported
os.environ.setdefault("SOUNDEVENT_VERIF", "/verif/.work/hook_unrouted.ndjson")
from pathlib import Path
from checks import aoef_common as ac

PROPERTY = "C02"
TRACE = "T_AoefC02"
ENUM = {
    "quick":    [dict(module="MC_Aoef", cfg="MC_Aoef_quick.cfg", workers=8)],
    "thorough": [dict(module="MC_Aoef", cfg="MC_Aoef_thorough.cfg", workers=16, coverage=True)],
}
POOL = 12
CHUNK = 400
WORK = Path(__file__).resolve().parent.parent / ".work" / "aoef_tmp"
RULE = ("every (collection type, switch set, option) terminal state of the registry machine MC_Aoef becomes one real object "
        "graph that is saved and loaded n times through fresh calls; non-trivial = the graph has at least one shared "
        "sub-object or optional edge (switch set non-empty)")
TRUSTED_BASE = ["checks/aoef_common.py: build_world (objects from TLC's description), gen_value (typed scalars from model_fields), "
                "diff (generic field walker, terms by label), analyse_doc (document definitions/references)"]
ASSUMPTIONS = ["terms are simple-label terms; feature labels distinct within a list; finite floats",
               "acyclic sequence parents"]

EVENT_TRACES = ("T_AoefTrace",)
TRACE_EVERY = {"quick": 4, "thorough": 4}
_TIER = os.environ.get("VERIF_TIER", "quick")

def execute(case):
    WORK.mkdir(parents=True, exist_ok=True)
    out = ac.run_cycles(case, WORK, subclass_ok=True)
    if not out["hooks"]:
        raise ac.Machinery("SOUNDEVENT_VERIF hooks are not active (soundevent._verif missing or disabled)")
    # the hooks are considered missing only when a successful save recorded NO event at all; a save that records calls and
    # hits but stores nothing (a registry shared with an earlier save) is behaviour and is judged by the validators
    if out["cycles"] and out["cycles"][0]["saved"] == "" and not out["traces"][0] \
            and any(out["cycles"][0]["doc"]["defs"].values()):
        raise ac.Machinery("no hook event was recorded although the document defines objects (hook removed?)")
    return out

def trace_module(o):
    """every observation is judged on its document; every k-th one also has its hook trace walked by the registry machine"""
    if str(o.get("src", "")).startswith("repo-tests:"):
        return ["T_AoefTrace"]
    if str(o.get("src", "")).startswith("bundled:"):
        return ["T_AoefC02"]          # no graph description, no hook trace: document clauses only
    return ["T_AoefC02", "T_AoefTrace"] if o["id"] % TRACE_EVERY.get(_TIER, 3) == 0 else ["T_AoefC02"]

def advisory(o):
    return str(o.get("src", "")).startswith("repo-tests:")

def project(tm, o):
    if tm == "T_AoefTrace":
        return {"id": o["id"], "in": {"ctype": o["in"]["ctype"], "objs": o["in"]["objs"]}, "out": {"traces": o["out"].get("traces", [])} if "crashed" not in o["out"] else o["out"]}
    out = dict(o["out"]); out.pop("traces", None)
    return {"id": o["id"], "in": o["in"], "out": out}

def random_cases(rng, tier):
    """random object graphs an order of magnitude larger than the enumerated worlds"""
    yield from ac.random_worlds(rng, 150 if tier == "quick" else 1500)

def extra_observations(work, tier, seed):
    """bundled documents of the repository: load -> save -> analyse / reload (code -> spec direction)"""
    WORK.mkdir(parents=True, exist_ok=True)
    for p in ac.bundled(tier):
        yield ac.run_recorded(p, WORK)
    if tier == "thorough":
        # the executions of the repository's own tests/test_io, recorded by the hooks and walked by the registry machine;
        # advisory (their documents need not come from save), so their rejects are reported as drift, never as violations
        yield from ac.repo_test_traces(work)

_ROOT_KIND = {"recordings": "recording", "clip_annotations": "clip_ann", "clip_predictions": "clip_pred"}


def finding_key(o, clause):
    """DefinedOnce on a collection that lists one member twice, where the identifiers defined twice are exactly those members:
    the open finding (the member list of the document is its definition list, so the member is defined once per mention)"""
    c = o["in"]
    if clause == "DefinedOnce":
        twice = {}
        for f, k in _ROOT_KIND.items():
            lst = (c.get("roots") or {}).get(f) or []
            for x in set(lst):
                if lst.count(x) > 1:
                    twice.setdefault(k, {})[x] = lst.count(x)
        if twice:
            ok = True
            for cy in o["out"].get("cycles", []):
                defs = (cy.get("doc") or {}).get("defs") or {}
                for k, ids in defs.items():
                    dup = {x: ids.count(x) for x in set(ids) if ids.count(x) > 1}
                    ok = ok and dup == twice.get(k, {})
            if ok:
                return "DefinedOnce/collection-lists-member-twice"
    return clause


def nontrivial(o):
    return len(o["in"].get("sw", [])) > 0

MANIFEST = {
    "text": ("Same registry machine as C01 (MC_Aoef.tla: DocIsStore = every adapter is read after its last store, Exact = document lists "
             "are exactly the objects reachable from the collection, ParentFirst, AllHit = every lookup during single-pass loading hits). "
             "For every exported graph (and random larger ones) the real document written by io.save is analysed generically "
             "(definitions, every reference incl. note authors, badge owners, (tag id, score) pairs, project/evaluation tag lists, parents) "
             "and TLC validates Closed, DefinedOnce, ParentFirst, NothingMissing, NothingUnreachable against the graph TLC exported."),
    "note": ("trusted: TLC; checks/aoef_common.py (analyse_doc with the document schema's reference table DOC_REFS, identifier decoding); "
             "no object repeated inside one list of the saved collection"),
    "design_ref": "DESIGN.md section 4 C02",
}
