"""X03 binder (extension): find_tag / find_feature first-match semantics and the deprecated key= / name= spellings.
Encoder only: the verdict is T_Lookup's."""
import warnings
from soundevent import data

PROPERTY = "X03"
TRACE = "T_Lookup"
ENUM = {
    "quick":    [dict(module="MC_Lookup", cfg="MC_Lookup_quick.cfg", workers=8)],
    "thorough": [dict(module="MC_Lookup", cfg="MC_Lookup_thorough.cfg", workers=16, coverage=True)],
}
POOL = 8
RULE = ("list of <= 3 tags / features over a catalogue of five terms (same label under two names one of which does not end in the label, same name with two definitions, "
        "the compat term built through key= / name=, an unrelated term) x two values x selector term (none or one of five) x selector "
        "label (none, 'a', 'b', 'c', 'A') x default given or not x tags or features x list or tuple; non-trivial = the list holds at least "
        "two elements and some element matches the selector")
TRUSTED_BASE = ["checks/x03.py (build Term / Tag / Feature objects, call find_tag / find_feature, report which element came back "
                "by content and by identity)"]
ASSUMPTIONS = ["Term equality is pydantic's field-wise equality (name, label, definition, ...); the catalogue's terms differ only in "
               "the three fields the model records"]
EXTENSION = {
    "title": "find_tag / find_feature: first match, default, refusal; deprecated key / name spellings",
    "text": ("Lookup.tla states the lookup as 'the first element whose term equals the given term (all declared fields), or whose "
             "term's label equals the given label; otherwise the default; otherwise None; ValueError when neither is given', accepts "
             "either reading when both selectors are given, and requires the searched sequence to be left as it was and the deprecated "
             "Tag(key=..).key / Feature(name=..).name to read the label back. MC_Lookup.tla is the generator scan as a step machine "
             "(Begin, Skip, Hit, Exhaust, Refuse); TLC proves that its outcome is accepted on every case, that it stops at the first "
             "match, three laws of the specification and termination; the real calls are validated by TLC against the specification "
             "(violations) and against the scan (identity of the returned object, precedence of term over label: advisory drift)."),
}

TERMS = [None,
         dict(name="ns:a", label="a", definition="d1"),
         dict(name="ns2:alpha", label="a", definition="d1"),
         dict(name="ns:a", label="a", definition="d2"),
         dict(name="ns:b", label="b", definition="d1"),
         None]                                            # 5: built through the deprecated key= / name= route
LABELS = [None, "a", "b", "c", "A"]
VALS = {"tag": [None, "x", "y"], "feature": [None, 1.5, -2.0]}


def _term(i):
    return data.term_from_key("a") if i == 5 else data.Term(**TERMS[i])


def _make(kind, t, v):
    val = VALS[kind][v]
    with warnings.catch_warnings():
        warnings.simplefilter("ignore")
        if kind == "tag":
            return data.Tag(key="a", value=val) if t == 5 else data.Tag(term=_term(t), value=val)
        return data.Feature(name="a", value=val) if t == 5 else data.Feature(term=_term(t), value=val)


def _code(kind, obj):
    """content of an element as (term index, value code); 0 when it is not in the catalogue"""
    t = next((i for i in range(1, 6) if obj.term == _term(i)), 0)
    v = VALS[kind].index(obj.value) if obj.value in VALS[kind][1:] else 0
    return t, v


def execute(case):
    kind = case["kind"]
    xs = [_make(kind, e["t"], e["v"]) for e in case["xs"]]
    given = tuple(xs) if case["cont"] == "tuple" else list(xs)
    dflt = _make(kind, 4, 2) if case["dflt"] else None
    kw = {}
    if case["term"]:
        kw["term"] = _term(case["term"])
    if case["lbl"]:
        kw["label"] = LABELS[case["lbl"]]
    if case["dflt"]:
        kw["default"] = dflt
    fn = data.find_tag if kind == "tag" else data.find_feature
    out = {"kind": "other", "t": 0, "v": 0, "ident": 0}
    try:
        got = fn(given, **kw)
    except Exception as ex:
        out["kind"] = "raise:" + ("ValueError" if isinstance(ex, ValueError) else type(ex).__name__)
    else:
        if got is None:
            out["kind"] = "none"
        elif dflt is not None and got is dflt:
            out["kind"] = "default"
        elif isinstance(got, data.Tag if kind == "tag" else data.Feature):
            out["kind"] = "elem"
            out["t"], out["v"] = _code(kind, got)
            out["ident"] = next((i + 1 for i, x in enumerate(xs) if x is got), 0)
    out["after"] = [list(_code(kind, x)) for x in given] if len(given) == len(xs) else [[0, 0]]
    with warnings.catch_warnings():
        warnings.simplefilter("ignore")
        out["keys"] = [(x.key if kind == "tag" else x.name) for x in xs]
    return out


def nontrivial(o):
    return len(o["in"]["xs"]) >= 2 and o["in"]["ikind"] == "elem"
