"""C01 binder: AOEF save/load round trip.  Encoder only -- the verdict is T_AoefC01's."""
from pathlib import Path
from checks import aoef_common as ac

PROPERTY = "C01"
TRACE = "T_AoefC01"
ENUM = {
    "quick":    [dict(module="MC_Aoef", cfg="MC_Aoef_quick.cfg", workers=8)],
    "thorough": [dict(module="MC_Aoef", cfg="MC_Aoef_thorough.cfg", workers=16, coverage=True)],
}
POOL = 12
CHUNK = 400
WORK = Path(__file__).resolve().parent.parent / ".work" / "aoef_tmp"
RULE = ("every (collection type, switch set, option) terminal state of the registry machine MC_Aoef becomes one real object "
        "graph that is saved and loaded n times through fresh calls; non-trivial = the graph has at least one shared "
        "sub-object or optional edge (switch set non-empty)")
TRUSTED_BASE = ["checks/aoef_common.py: build_world (objects from TLC's description), gen_value (typed scalars from model_fields), "
                "diff (generic field walker, terms by label), analyse_doc (document definitions/references)"]
ASSUMPTIONS = ["terms are simple-label terms; feature labels distinct within a list; finite floats",
               "acyclic sequence parents"]

def execute(case):
    WORK.mkdir(parents=True, exist_ok=True)
    out = ac.run_cycles(case, WORK)
    out.pop("traces", None)
    return out

def random_cases(rng, tier):
    """random object graphs an order of magnitude larger than the enumerated worlds"""
    yield from ac.random_worlds(rng, 150 if tier == "quick" else 1500)

def extra_observations(work, tier, seed):
    """bundled documents of the repository: load -> save -> analyse / reload (code -> spec direction)"""
    WORK.mkdir(parents=True, exist_ok=True)
    for p in ac.bundled(tier):
        yield ac.run_recorded(p, WORK)

def finding_key(o, clause):
    """DeepEqual on an Evaluation that lists one clip evaluation twice, where the only difference is the length of that list:
    the open finding (the document's clip_evaluations list is the definition list, a second mention cannot be written)"""
    c = o["in"]
    lst = (c.get("roots") or {}).get("clip_evaluations") or []
    if clause == "DeepEqual" and c.get("ctype") == "evaluation" and len(set(lst)) < len(lst):
        diffs = [d for cy in o["out"].get("cycles", []) for d in cy.get("diff", [])]
        if diffs and all(d.startswith("clip_evaluations:len(") for d in diffs):
            return "DeepEqual/evaluation-lists-clip-evaluation-twice"
    return clause


def nontrivial(o):
    return len(o["in"].get("sw", [])) > 0

MANIFEST = {
    "text": ("MC_Aoef.tla models the AOEF registry as a state machine (to_aoef call/hit/store in post-order, values() read-outs, "
             "document emission, single-pass resolution with lenient lookups) for the eight collection programs transcribed from "
             "the adapters; TLC checks RefClosed, NoDup, ParentFirst, DocIsStore, Exact, AllHit, LoadedAll and termination over every "
             "collection type x switch set (weight/co-weight bound) and exports each object graph. Every graph is built from real "
             "pydantic objects (scalars generated from the live model_fields in three presence patterns), saved and loaded n<=3 times "
             "through fresh calls, with and without audio directory, and TLC validates type, field-by-field equality (terms by label) "
             "and the document fixpoint. Random graphs ten times larger go through the same validator."),
    "note": ("trusted: TLC; checks/aoef_common.py (object builder, generic diff walker, document analyser); small-scope hypothesis over the "
             "switch sets; floats finite, simple-label terms, distinct feature labels"),
    "design_ref": "DESIGN.md section 4 C01",
}
