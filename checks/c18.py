"""C18 binder: audio paths relocate.  Encoder only -- the verdict is T_AoefPaths's."""
from pathlib import Path
from checks import aoef_common as ac

PROPERTY = "C18"
TRACE = "T_AoefPaths"
ENUM = {
    "quick":    [dict(module="MC_AoefPaths", cfg="MC_AoefPaths_quick.cfg", workers=8)],
    "thorough": [dict(module="MC_AoefPaths", cfg="MC_AoefPaths_thorough.cfg", workers=16)],
}
POOL = 12
CHUNK = 500
WORK = Path(__file__).resolve().parent.parent / ".work" / "aoef_tmp"
RULE = ("collection type x directory depth x file name x audio_dir given as none/str/Path x recordings inside/outside; "
        "non-trivial = an audio directory is given")
TRUSTED_BASE = ["checks/aoef_common.py: build_world, run_paths (paths shipped as component lists; comparison is TLC's)"]
ASSUMPTIONS = ["POSIX paths; directories need not exist"]

def execute(case):
    WORK.mkdir(parents=True, exist_ok=True)
    return ac.run_paths(case, WORK)

def nontrivial(o):
    return o["in"]["audio"] != "none"

MANIFEST = {
    "text": ("AoefPaths.tla states relative_to/join on component sequences (laws: Join(B, RelativeTo(A.x, A)) = B.x, prefix test) and the "
             "acceptance of observed stored/relocated paths; MC_AoefPaths enumerates collection type x directory depth x file name "
             "(unicode, spaces, dots) x audio_dir as none/str/Path x inside/outside. Each case saves a real collection under A, reads the "
             "stored paths from the JSON, loads under B and under no directory; TLC validates StoredIsRelative, Relocates (every recording, "
             "every place it is reachable from), PassThroughWithoutDir, OutsideRaises, NothingWrittenOnError."),
    "note": "trusted: TLC; checks/aoef_common.py run_paths (paths shipped as component lists); POSIX paths",
    "design_ref": "DESIGN.md section 4 C18",
}
