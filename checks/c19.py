"""C19 binder: tag encoders and the hash/equality contract.  Encoder only -- the verdict is T_Encoding's.

"enc" cases: universe tags (spec/Encoding.tla UTag) are built as fresh objects every time they are used, so nothing
can succeed by object identity.  "pair" cases: two separately built objects of one of the eight hashable classes,
chosen by field-choice vectors over the small domains in FIELDS, each brought about by a provenance (fresh constructor;
donor hashed, then model_copy(update=...); donor hashed, then attribute assignment; hashed, then model_copy(deep=True);
hashed, then model_validate(model_dump(exclude_unset=True)); constructor with every optional field passed explicitly with
its default; constructor giving every Term two extra attributes in the order a, b or b, a).  In "enc" cases the vocabulary tags and the query tags may be written differently (vprov / qprov).
"""
import datetime
import numpy as np
import uuid as _uuid
import warnings

from soundevent import data
from soundevent.evaluation import (
    classification_encoding,
    create_tag_encoder,
    multilabel_encoding,
    prediction_encoding,
)
from vt.enc import ticks

PROPERTY = "C19"
TRACE = "T_Encoding"
ENUM = {
    "quick":    [dict(module="MC_Encoding", cfg="MC_Encoding_quick.cfg", workers=8)],
    "thorough": [dict(module="MC_Encoding", cfg="MC_Encoding_thorough.cfg", workers=16, coverage=True)],
}
POOL = 12
CHUNK = 4000
RULE = ("enc: every (injective vocabulary of <= 3 of 5 (quick) / 6 (thorough) tags over terms sharing a name or a label, plus tags on terms sharing a URI under different names / a name under different URIs tags whose values differ only by surrounding whitespace tags on terms that differ only in an extra attribute and tags on terms with every optional field set (the aliased type / range included) and tags on terms whose extra attribute holds a loosely typed value (1 / 1.0 / True: one tag; tuple / list: two tags), tag list of <= 3 with "
        "repeats and outsiders, two quarter-score patterns) of the TLA+ enumeration, plus random vocabularies of <= 8 of 26 "
        "tags with lists of <= 8; pair: every ordered pair of freshly built objects of the eight hashable classes over two- to "
        "four-value field domains, plus model-equal (quick) / at most one field apart (thorough) pairs whose members were "
        "derived from an already hashed object by model_copy(update), attribute assignment, deep copy or a dump/validate "
        "round trip; non-trivial = enc cases with a non-empty vocabulary and list, pair cases whose objects compare equal "
        "or share a hash-relevant field")
TRUSTED_BASE = ["checks/c19.py (build tags/objects from tables, call the encoders, ==, hash(), set/dict operations; "
                "scores read back as exact quarter ticks)"]
ASSUMPTIONS = ["vocabularies hold pairwise distinct tags (quantifier of the statement)",
               "quarter scores are exact in float32/float64, so score vectors are compared exactly",
               "object pairs are built from small field domains (Feature values include NaN: two separately built NaN features are not "
               "equal on the tree, which the contract allows; a patch that makes them equal must also make them hash alike)"]

# ---------------------------------------------------------------- universe of the enc cases
_TERMS = [
    dict(name="n1", label="l1", definition="d"),       # T1
    dict(name="n1", label="l2", definition="d"),       # T1'  same name, other label
    dict(name="n2", label="l1", definition="d"),       # T1'' same label, other name
    dict(name="n3", label="l3", definition="d"),       # T2
    dict(name="n4", label="l4", definition="d", uri="u1"),   # T5
    dict(name="n5", label="l4", definition="d", uri="u1"),   # T6  T5's URI under another name
    dict(name="n4", label="l4", definition="d", uri="u2"),   # T7  T5's name and label under another URI
    dict(name="n1", label="l1", definition="d", status="draft"),   # T8  T1 in every declared field + an extra attribute
    dict(name="n1", label="l1", definition="d", status="final"),   # T9  ... with another value
    # T10: every optional Term field set; the two aliased ones (written "type" / "range") away from their defaults
    dict(name="n6", label="l6", definition="d", uri="u6", type="class", comment="c", see="s", subproperty_of="sp",
         subclass_of="sc", domain="dm", domain_includes="di", range="xsd:string", range_includes="ri", member_of="mo",
         instance_of="io", equivalent_property="ep", description="ds", scope_note="sn"),
    # T11: T10 with the default type_of_term
    dict(name="n6", label="l6", definition="d", uri="u6", comment="c", see="s", subproperty_of="sp",
         subclass_of="sc", domain="dm", domain_includes="di", range="xsd:string", range_includes="ri", member_of="mo",
         instance_of="io", equivalent_property="ep", description="ds", scope_note="sn"),
    # T12..T14: T1 plus an extra attribute holding ONE value typed three ways (1 == 1.0 == True): equal terms
    dict(name="n1", label="l1", definition="d", version=1),
    dict(name="n1", label="l1", definition="d", version=1.0),
    dict(name="n1", label="l1", definition="d", version=True),
    # T15, T16: a tuple is not a list: two different terms whose JSON text is the same
    dict(name="n1", label="l1", definition="d", parts=(1, 2)),
    dict(name="n1", label="l1", definition="d", parts=[1, 2]),
]
_VALUES = ["a", "b", "c", "a ", " a"]          # the last two differ from "a" only by surrounding whitespace
_UTAG = [(1, 1), (1, 2), (2, 1), (3, 1), (4, 1), (4, 2), (2, 2), (3, 2), (1, 3), (2, 3), (3, 3), (4, 3),
         (5, 1), (6, 1), (7, 1), (1, 4), (1, 5), (8, 1), (9, 1), (10, 1), (11, 1),
         (12, 1), (13, 1), (14, 1), (15, 1), (16, 1)]
_TERM_REP = [1, 2, 3, 4, 5, 6, 7, 8, 9, 10, 11, 12, 12, 12, 15, 16]      # Encoding!TermRep (only the case generator uses it)


_WRITE = {"explicit": False, "extras": None}      # how terms / objects are written down inside a _written(...) block
_EXTRAS = {"extras_ab": ["x_a", "x_b"], "extras_ba": ["x_b", "x_a"]}       # two extra attributes, in the order given
_EXTRA_VALUES = {"x_a": "1", "x_b": "2"}


class _written:
    """Within this block: "explicit_defaults" -- constructors receive every optional field explicitly, with its default
    value; "extras_ab" / "extras_ba" -- every Term (the only class with extra = "allow") receives the same two extra
    attributes, given in that order."""
    def __init__(self, how):
        self.how = how

    def __enter__(self):
        self.old = dict(_WRITE)
        _WRITE["explicit"] = self.how == "explicit_defaults"
        _WRITE["extras"] = _EXTRAS.get(self.how)

    def __exit__(self, *a):
        _WRITE.update(self.old)


def _make(model, **kw):
    """model(**kw); in explicit mode also pass every optional field that kw leaves out, with its declared default;
    in an extras mode give a Term its two extra attributes, in the order of the mode."""
    if _WRITE["explicit"]:
        for name, f in model.model_fields.items():
            key = f.alias or name                      # Term.type_of_term / term_range are written "type" / "range"
            if name not in kw and key not in kw and not f.is_required():
                kw[key] = f.get_default(call_default_factory=True)
    if _WRITE["extras"] and model is data.Term:
        for name in _WRITE["extras"]:
            kw[name] = _EXTRA_VALUES[name]
    return model(**kw)


def _term(t):
    return _make(data.Term, **_TERMS[t - 1])


def _tag(u, prov="fresh"):
    t, v = _UTAG[u - 1]
    with _written(prov):
        return data.Tag(term=_term(t), value=_VALUES[v - 1])


def _same_typed(x, y):
    return type(x) is type(y) and x == y


def _which(tag):
    """Universe number of a tag object (0 = none of them), by its visible fields."""
    if not isinstance(tag, data.Tag):
        return 0
    for u, (t, v) in enumerate(_UTAG, start=1):
        d = _TERMS[t - 1]
        if (tag.value == _VALUES[v - 1] and tag.term.name == d["name"] and tag.term.label == d["label"]
                and tag.term.uri == d.get("uri") and (tag.term.model_extra or {}).get("status") == d.get("status")
                and tag.term.type_of_term == d.get("type", "property")
                and all(_same_typed((tag.term.model_extra or {}).get(k), d.get(k)) for k in ("version", "parts"))):
            return u
    return 0


def _opt(x):
    return [] if x is None else [int(x)]


def _three(encoder, tags, scs, q):
    cls = _opt(classification_encoding([_tag(u, q) for u in tags], encoder))
    multi = [int(x) for x in multilabel_encoding([_tag(u, q) for u in tags], encoder)]
    pred = []
    for sc in scs:
        ptags = [data.PredictedTag(tag=_tag(u, q), score=s / 4) for u, s in zip(tags, sc)]
        pred.append([ticks(float(x), 0.25) for x in prediction_encoding(ptags, encoder)])
    return cls, multi, pred


def _enc(case):
    vocab, tags, scs = case["vocab"], case["tags"], case["scs"]
    vp, q = case.get("vprov", "fresh"), case.get("qprov", "fresh")      # how vocabulary / query tags are written
    encoder = create_tag_encoder([_tag(u, vp) for u in vocab])
    enc = [_opt(encoder.encode(_tag(u, q))) for u in range(1, len(_UTAG) + 1)]
    dec = [_which(encoder.decode(k)) for k in range(len(vocab))]
    encdec = [_opt(encoder.encode(encoder.decode(k))) for k in range(len(vocab))]
    deq = [bool(encoder.decode(k) == _tag(u, vp)) for k, u in enumerate(vocab)]       # decode(k) == the k-th vocabulary tag
    # observed equality of every universe tag (written as a query) with every vocabulary tag, and inside the vocabulary
    vtags = [_tag(u, vp) for u in vocab]
    qeq = [[bool(_tag(u, q) == vt) for vt in vtags] for u in range(1, len(_UTAG) + 1)]
    veq = [[bool(a == b) for b in vtags] for a in vtags]
    cls, multi, pred = _three(encoder, tags, scs, q)
    # the same list without its out-of-vocabulary members: given by the case, checked by the specification
    f_cls, f_multi, f_pred = _three(encoder, case["ftags"], case["fscs"], q)
    return {"num": int(encoder.num_classes), "enc": enc, "dec": dec, "encdec": encdec, "deq": deq, "qeq": qeq, "veq": veq,
            "cls": cls, "multi": multi, "pred": pred, "f_cls": f_cls, "f_multi": f_multi, "f_pred": f_pred}


# ---------------------------------------------------------------- objects of the pair cases
_U = [_uuid.UUID(int=0xA1), _uuid.UUID(int=0xB2)]
_UTC = datetime.timezone.utc
_CET = datetime.timezone(datetime.timedelta(hours=1))
# the last two are ONE instant written with two UTC offsets (12:00Z = 13:00+01:00): equal datetimes
_T = [datetime.datetime(2020, 1, 1, 12, 0, 0), datetime.datetime(2021, 6, 1, 8, 30, 0),
      datetime.datetime(2020, 1, 1, 12, 0, 0, tzinfo=_UTC), datetime.datetime(2020, 1, 1, 13, 0, 0, tzinfo=_CET)]


def _rec(k):
    if k == 3:        # recording 1 again, its path spelled differently (the same path for pathlib)
        return data.Recording(uuid=_uuid.UUID(int=0x101), path="./r1.wav", duration=10, channels=1, samplerate=8000)
    return data.Recording(uuid=_uuid.UUID(int=0x100 + k), path=f"r{k}.wav", duration=10.0, channels=1, samplerate=8000)


def _geom(k):
    if k == 3:        # 3 and 4 are ONE geometry spelled twice: 0.0 / -0.0 and 2.0 / the int 2
        return data.TimeInterval(coordinates=[0.0, 2.0])
    if k == 4:
        return data.TimeInterval(coordinates=[-0.0, 2])
    return data.TimeInterval(coordinates=[1.0, 2.0]) if k == 1 else data.BoundingBox(coordinates=[1.0, 100.0, 2.0, 200.0])


def _se(k):
    return data.SoundEvent(uuid=_uuid.UUID(int=0x200 + k), recording=_rec(1), geometry=_geom(k))


def _clip(k):
    return data.Clip(uuid=_uuid.UUID(int=0x300 + k), recording=_rec(1), start_time=0.0, end_time=float(k))


# FIELDS[cls] = (model class, [(field name, choice -> value)], fixed keyword arguments); values are built afresh per call
_FEAT = lambda: data.Feature(term=_term(1), value=1.5)
_PTAG = lambda: data.PredictedTag(tag=_tag(1), score=0.5)
FIELDS = {
    1: (data.Term, [("name", lambda k: ["n1", "n2"][k - 1]), ("label", lambda k: ["l1", "l2"][k - 1]),
                    ("definition", lambda k: ["d1", "d2"][k - 1]), ("extra_note", lambda k: None if k == 1 else "e"),
                    ("uri", lambda k: [None, "u1", "u2"][k - 1]), ("comment", lambda k: None if k == 1 else "c")], {}),
    2: (data.Tag, [("term", _term), ("value", lambda k: _VALUES[k - 1])], {}),
    # values 4 and 5 are NaN: a new float("nan") object per build, and numpy's nan
    3: (data.Feature, [("term", _term), ("value", lambda k: [0.0, -0.0, 0.5, float("nan"), np.nan][k - 1])], {}),
    4: (data.Note, [("uuid", lambda k: _U[k - 1]), ("message", lambda k: ["m1", "m2"][k - 1]),
                    ("is_issue", lambda k: k == 2), ("created_on", lambda k: _T[k - 1])], {}),
    5: (data.SoundEvent, [("uuid", lambda k: _U[k - 1]), ("geometry", _geom), ("recording", _rec),
                          ("features", lambda k: [] if k == 1 else [_FEAT()])], {}),
    6: (data.SoundEventAnnotation, [("uuid", lambda k: _U[k - 1]), ("sound_event", _se),
                                    ("tags", lambda k: [] if k == 1 else [_tag(1)]),
                                    ("notes", lambda k: [] if k == 1 else [data.Note(uuid=_U[0], message="m", created_on=_T[0])])],
        {"created_on": _T[0]}),
    7: (data.SoundEventPrediction, [("uuid", lambda k: _U[k - 1]), ("sound_event", _se),
                                    ("score", lambda k: [0.5, 1.0, 1][k - 1]), ("tags", lambda k: [] if k == 1 else [_PTAG()])], {}),
    8: (data.ClipPrediction, [("uuid", lambda k: _U[k - 1]), ("clip", _clip),
                              ("tags", lambda k: [] if k == 1 else [_PTAG()]),
                              ("features", lambda k: [] if k == 1 else [_FEAT()])], {}),
}
_DOM = {1: [2, 2, 2, 2, 3, 2], 2: [7, 2], 3: [7, 5], 4: [2, 2, 2, 4], 5: [2, 4, 3, 2], 6: [2, 2, 2, 2], 7: [2, 2, 3, 2], 8: [2, 2, 2, 2]}


def _build(cls, x):
    model, fields, fixed = FIELDS[cls]
    kw = dict(fixed)
    for (name, mk), k in zip(fields, x):
        v = mk(k)
        if not (cls == 1 and v is None):      # Term: the extra attribute / uri / comment are simply left out when absent
            kw[name] = v
    return _make(model, **kw)


def _realise(cls, x, prov):
    """Bring about an object holding the fields of x by the history prov = {"mode", "f"} (spec/Encoding.tla Provs).
    Every source object is hashed (and used as a set member) BEFORE the derivation step."""
    mode, f = prov["mode"], prov["f"]
    if mode == "fresh":
        return _build(cls, x)
    if mode in ("explicit_defaults", "extras_ab", "extras_ba"):
        # the object and every Term inside it: optional fields passed with their defaults / two extra attributes in order
        with _written(mode):
            return _build(cls, x)
    model, fields, _ = FIELDS[cls]
    if mode in ("deep_copy", "revalidate"):
        src = _build(cls, x)
        hash(src)
        _ = {src}
        return src.model_copy(deep=True) if mode == "deep_copy" else model.model_validate(src.model_dump(exclude_unset=True))
    donor_x = list(x)
    donor_x[f - 1] = x[f - 1] % _DOM[cls][f - 1] + 1                     # Encoding!Donor
    donor = _build(cls, donor_x)
    hash(donor)
    _ = {donor}
    name, mk = fields[f - 1]
    if mode == "copy_update":
        return donor.model_copy(update={name: mk(x[f - 1])})
    if mode == "assign":
        setattr(donor, name, mk(x[f - 1]))
        return donor
    raise ValueError(mode)


def _pair(case):
    x, y = _realise(case["cls"], case["x"], case["px"]), _realise(case["cls"], case["y"], case["py"])
    eq, eq_rev = bool(x == y), bool(y == x)
    s = {x}
    in_set = y in s
    s.add(y)
    d = {x: "x"}
    dict_hit = y in d
    d[y] = "y"
    return {"eq": eq, "eq_rev": eq_rev, "hash_eq": hash(x) == hash(y),
            "in_set": bool(in_set), "set_size": len(s), "dict_hit": bool(dict_hit), "dict_size": len(d)}


def execute(case):
    with warnings.catch_warnings():
        warnings.simplefilter("ignore")
        return _enc(case) if case["kind"] == "enc" else _pair(case)


def random_cases(rng, tier):
    """Larger vocabularies (<= 8 of all 26 universe tags) and longer lists (<= 8) than TLC enumerates."""
    n = 1500 if tier == "quick" else 15000
    for _ in range(n):
        nv = rng.randrange(0, 9)
        vocab, seen = [], set()
        for u in rng.sample(range(1, 27), 26):               # distinct TAGS: one per class of equal universe tags
            key = (_TERM_REP[_UTAG[u - 1][0] - 1], _UTAG[u - 1][1])
            if len(vocab) < nv and key not in seen:
                seen.add(key)
                vocab.append(u)
        lt = rng.randrange(0, 9)
        pool = vocab if (vocab and rng.random() < 0.3) else list(range(1, 27))
        tags = [rng.choice(pool) for _ in range(lt)]
        if tags and rng.random() < 0.5:           # force repeats
            tags[rng.randrange(lt)] = tags[0]
        scs = [[rng.randrange(0, 5) for _ in tags] for _ in range(2)]
        cls_of = lambda u: (_TERM_REP[_UTAG[u - 1][0] - 1], _UTAG[u - 1][1])          # equal universe tags, one class
        in_vocab = {cls_of(u) for u in vocab}
        keep = [j for j, u in enumerate(tags) if cls_of(u) in in_vocab]     # re-derived and checked by Encoding!Filtered in TLC
        vp, qp = rng.choice([("fresh", "fresh"), ("fresh", "explicit_defaults"), ("explicit_defaults", "fresh"),
                             ("extras_ab", "extras_ba"), ("extras_ba", "extras_ab"), ("extras_ab", "extras_ab")])
        yield {"kind": "enc", "vocab": vocab, "tags": tags, "scs": scs, "vprov": vp, "qprov": qp,
               "ftags": [tags[j] for j in keep], "fscs": [[sc[j] for j in keep] for sc in scs]}


def nontrivial(o):
    c = o["in"]
    if c["kind"] == "enc":
        return bool(c["vocab"]) and bool(c["tags"])
    return bool(o["out"].get("eq")) or c["x"][0] == c["y"][0]


MANIFEST = {
    "text": ("Encoding.tla states Encode / Decode / Classify (first hit) / Multilabel / prediction vectors (with repeats any of "
             "that tag's scores) over a universe of tags whose terms share a name or a label, and the hash contract (equal => "
             "equal hash, set / dict membership); MC_Encoding.tla runs SimpleEncoder's dictionary and the three loops as a state "
             "machine and TLC proves Impl => Req, the round-trip and out-of-vocabulary laws and soundness of the hashed "
             "projections for every vocabulary of <= 3 tags x list of <= 3 tags and every object pair (controls with keys / "
             "hashes that look at part of a term are refuted by TLC); every case is executed on the real encoders and on "
             "==, hash(), set and dict operations of the eight hashable classes -- each object of a pair brought about by a provenance "
             "(constructor; hashed donor then model_copy(update) / attribute assignment; hashed then deep copy / dump-validate "
             "round trip; constructor with every optional field passed explicitly), and vocabulary / query tags of the encoders "
             "written differently, so a hash that remembers a derivation or sees which fields were set is refuted (controls "
             "history/MC_Encoding_hash_memo, _hash_fields_set, _hash_extras_order, _eq_uri, _eq_nan, _key_strip_value, _hash_note_iso, _hash_geometry_json, _key_declared_fields, _key_json_text, _decode_redump; Terms also carry two extra "
             "attributes given in either order; the encoder is also judged against the OBSERVED equality "
             "of query and vocabulary tags, EncodeIffObservedEqual) -- plus random vocabularies of <= 8 of 26 tags "
             "with lists of <= 8, and TLC validates the observations clause by clause."),
    "note": ("trusted: TLC, binder checks/c19.py (encoder; objects rebuilt for every use so identity cannot help); the hash "
             "clause is the contract, not the projection: different but sound hashes pass (mutants/C19/must_pass)"),
    "design_ref": "DESIGN.md section 4 C19",
}
