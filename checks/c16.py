"""C16 binder: create_range_dim / create_time_range / create_frequency_range / get_coord_index / set_value_at_pos.

Encoder only -- the verdict is T_RangeDim's.  The binder builds the axis the case describes, calls the real API and ships
what came back: coordinates as read back from the object (IEEE bit patterns for order comparisons, limb numbers for the
distance to the rational lattice point), the query double (bit pattern), the raw outcome.  It never says where a query
lies relative to the coordinates and never computes an expected index, count or cell.
"""
from __future__ import annotations
import math, struct
from fractions import Fraction
import warnings
import numpy as np
import xarray as xr
from soundevent import arrays
from vt.enc import limbs, ticks

PROPERTY = "C16"
TRACE = "T_RangeDim"
ENUM = {
    "quick":    [dict(module="MC_RangeDim", cfg="MC_RangeDim_quick.cfg", workers=8)],
    # TLC prints interim coverage reports every minute and the engine takes an interim zero for a dead action, so the
    # coverage guard runs on the small sub-universe "cov" (contained in both tiers: an action taken there is taken in them)
    "thorough": [dict(module="MC_RangeDim", cfg="MC_RangeDim_thorough.cfg", workers=16),
                 dict(module="MC_RangeDim", cfg="MC_RangeDim_cov.cfg", workers=4, coverage=True, expect_cases=False,
                      may_be_unused=["Fast"])],   # Fast = the seeded step-attribute lookup, only enabled in spec/history
}
PROOFS = ["proofs/P_RangeDim.tla"]    # thorough tier: bracket uniqueness, right-bound-minus-one, whole count, trim law for all integers (tlapm)
POOL = 12
CHUNK = 2500
RULE = ("every call of the TLA+ enumeration: (constructor, how the step is communicated: step / samplerate / size, alone, agreeing or "
        "conflicting; step, start, stop in quarter steps, way the stop double is formed); "
        "(step, start, length, query position among: each coordinate as read back, its two neighbouring doubles, each midpoint, "
        "half a step beyond both ends, raise/clamp, coordinate dtype float64/float32/int64/int32, 1-D to 3-D arrays with the queried dimension "
        "first / middle / last); (array shape <= 3 dims, queried dimensions "
        "and positions, scalar/array value, coordinate dtype, layout of the object: registration order of the coordinates, "
        "transposition, a dimension without coordinate). "
        "non-trivial = a range with at least one point, or a lookup/write on a non-empty axis")
TRUSTED_BASE = ["checks/c16.py (builds axes, forms query doubles from the coordinates read back, encodes doubles as IEEE bit "
                "patterns / limb numbers; no comparison with an expected value)"]
ASSUMPTIONS = ["dyadic steps (1, 2, 250, 1/2, 1/4, 1/8): coordinates must equal the lattice points exactly",
               "non-representable steps (1/10, 1/100, 1/3, 1/44100): coordinates within 2^-28/(4 qs) ~ 0.93e-9 step of the lattice point; "
               "counts, brackets and cells are judged exactly (order of doubles by bit pattern)",
               "np.arange accumulates i*ulp(start): random ranges on 1/44100 and 1/22050 keep |start| < 1 and < 300 points so that this stays "
               "below the tolerance; the enumerated universe (|start| <= 3.5, <= 12 points) is unrestricted",
               "coordinate dtypes float64, int64, int32 (integer start and step) and float32; on a float32 axis the queries are float32 values "
               "(a float64 query within float32 rounding of a coordinate is looked up by pandas as that coordinate: reported, not generated)",
               "the bracket is defined by the coordinates: axes are also given without a step attribute, with a stale one (subsampled with isel "
               "keeping attrs, coarser claim) and irregular with an explicit step attribute; likewise the range of an axis is that of its "
               "coordinates: axes are also given start/stop attributes wider than the coordinates (set_dim_attrs, a pass through extend_dim)",
               "set_value_at_pos also runs on bool / uint8 / int16 / int32 / float32 arrays with Python and numpy scalars and rows of other dtypes: the "
               "values are small whole numbers, so 'the value as the array's dtype represents it' is the value itself (non-zero for bool); "
               "fractional values into integer arrays (numpy truncates) are not generated",
               "explicit steps sweep the decimals k/1000 (every 7th in quick, all 999 in thorough, a random 200 per run): the recorded step must "
               "be the very double that was passed",
               "range constructors are also exercised in histories (construct, edit the result in place, construct again): the second "
               "result is judged by the same clauses",
               "a count is pinned only when (stop - start)/step is nominally whole; otherwise floor or ceil is accepted",
               "the class of the exception raised outside the range is not pinned by the statement (any exception counts as 'raises')"]

NAMES = ["x", "y", "z"]
SET_STARTS = [0.0, 3.5, -2.0]
SET_STARTS_INT = [-2.0, -5.0, -3.0]          # integer-dtype axes: negative coordinates (truncation toward zero differs from floor)


# ----------------------------------------------------------------------------- encoders (no verdicts)
def bits(x) -> list[int]:
    """IEEE-754 double as [sign, hi21, mid21, lo21, finite]: sign/magnitude order of these integers is the order of the doubles."""
    x = float(x)
    u = struct.unpack("<Q", struct.pack("<d", x))[0]
    mag = u & ((1 << 63) - 1)
    sign = 0 if mag == 0 else (-1 if (u >> 63) else 1)
    return [sign, mag >> 42, (mag >> 21) & 0x1FFFFF, mag & 0x1FFFFF, 1 if math.isfinite(x) else 0]


def step_of(case) -> float:
    return float(Fraction(case["s"][0], case["s"][1]))


ARRAY_DTYPES = {"f8": np.float64, "f4": np.float32, "i4": np.int32, "i2": np.int16, "u1": np.uint8}
DTYPES = {"f8": np.float64, "f4": np.float32, "i8": np.int64, "i4": np.int32}


def _lat(ir, k):
    return k if ir == 0 else (k * (k + 1)) // 2 if ir == 1 else k + k // 2


def make_axis(name, a4, s, n, dt="f8", sa=((1, 1),), ir=0):
    """The axis of n points a4/4 + lat(i)*s with coordinate dtype dt, and what its attributes claim.
    sa = [[1,1]], ir = 0, float64: as the library builds it (whole-number case of create_range_dim).
    sa = [[1,k]] (regular): a k-times finer create_range_dim axis subsampled with isel(slice(None, None, k)), which keeps
    the step attribute of the fine axis.  Otherwise: a numpy array (np.arange for regular integers) wrapped with a step
    attribute of (p/q)*s, or with no step attribute at all (sa = [])."""
    a = Fraction(a4, 4)
    fs = Fraction(s[0], s[1])
    sa = [list(x) for x in sa]
    if dt == "f8" and ir == 0 and sa == [[1, 1]]:
        return arrays.create_range_dim(name, float(a), float(a + n * fs), float(fs))
    if dt == "f8" and ir == 0 and sa and sa[0][0] == 1 and sa[0][1] > 1:
        k = sa[0][1]
        fine = arrays.create_range_dim(name, float(a), float(a + n * fs), float(fs / k))
        v = xr.DataArray(np.zeros(fine.size), dims=[name], coords={name: fine}).isel({name: slice(None, None, k)}).coords[name].variable
        if v.size != n:
            raise AssertionError("binder: subsampled axis has the wrong length")
        return v
    if dt in ("i8", "i4"):
        if a.denominator != 1 or fs.denominator != 1:
            raise ValueError("an integer axis needs an integer start and step")
        data = np.array([int(a + _lat(ir, i) * fs) for i in range(n)], dtype=DTYPES[dt])
    else:
        data = np.array([float(a + _lat(ir, i) * fs) for i in range(n)], dtype=DTYPES[dt])
    attrs = {"step": float(fs * Fraction(sa[0][0], sa[0][1]))} if sa else {}
    return xr.Variable(name, data, attrs=attrs)


def pos_to_value(coords, step, p):
    """Query double for model position p (8 ticks per step), formed from the coordinates AS READ BACK."""
    n = len(coords)
    k, r = divmod(p, 8)
    # arithmetic in the precision of the axis (float32 axis: float32 neighbours / midpoints; integer axis: float64)
    T = coords.dtype.type if coords.dtype.kind == "f" else np.float64
    c = coords.astype(T)
    if r == 0 and 0 <= k < n:
        return float(c[k])
    if r == 1 and 0 <= k < n:
        return float(np.nextafter(c[k], T(np.inf)))
    if r == 7 and 0 <= k + 1 < n:
        return float(np.nextafter(c[k + 1], T(-np.inf)))
    if r == 4:
        if 0 <= k < n - 1:
            return float((c[k] + c[k + 1]) / T(2))
        if k == -1:
            return float(c[0] - T(step) / T(2))
        if k == n - 1:
            return float(c[-1] + T(step) / T(2))
    raise ValueError(f"position {p} not expressible on an axis of {n} points")


def with_range_attrs(arr, dims, step, ra):
    """Give the coordinates start / stop attributes wider than their values: by set_dim_attrs, or by a pass through extend_dim
    that adds no sample (it records start - eps and the requested stop)."""
    for src, dl, dh in ra:
        for dim in dims:
            c = arr.coords[dim].data
            lo, hi = float(c[0]), float(c[-1])
            if src == "attrs":
                arr = arrays.set_dim_attrs(arr, dim, start=lo - (dl / 8) * step, stop=hi + (dh / 8) * step)
            elif src == "extend":
                n = arr.sizes[dim]
                arr = arrays.extend_dim(arr, dim, start=lo, stop=hi + (dh / 8) * step)
                if arr.sizes[dim] != n:
                    raise AssertionError("binder: the preparatory extend_dim changed the axis")
            else:
                raise ValueError(src)
    return arr


def _int(x) -> int:
    return ticks(float(x), 1.0)


# ----------------------------------------------------------------------------- the three kinds of call
def _range(case):
    a = float(Fraction(case["a4"], 4))
    fs = Fraction(case["s"][0], case["s"][1])
    s = float(fs)
    m = case["m"]
    stop = float(Fraction(case["a4"], 4) + Fraction(m, 4) * fs) if case["sm"] == "near" else a + (m / 4) * s
    fn = case["fn"]
    # how the step is communicated: step argument (st), samplerate (sr), size -- possibly several at once, possibly conflicting
    kw = {}
    if case["st"]:
        kw["step"] = s
    if case["sr"]:
        kw["samplerate"] = float(Fraction(case["sr"][0][0], case["sr"][0][1]))
    if case["size"]:
        kw["size"] = case["size"][0]
    passed = [bits(s)] if case["st"] else []

    def construct(fn, kw):
        if fn == "range":
            return arrays.create_range_dim("x", a, stop, **kw)
        if fn == "time":
            return arrays.create_time_range(a, stop, **kw)
        if fn == "freq":
            return arrays.create_frequency_range(a, stop, s)
        raise ValueError(fn)

    try:
        v = construct(fn, kw)
        for mut, fn2 in case.get("hist", []):
            # history: edit the Variable we were given in place, then ask for the same range again; the second result is observed
            if v.size:
                if mut == "add":
                    v.values[...] += 1000.0 + s
                else:
                    v.values[0] = stop + 1000.0
            v = construct(fn2, {"step": s})
            passed = [bits(s)]
    except Exception as ex:
        return {"raised": type(ex).__name__, "lim": [], "cb": [], "startb": bits(a), "stopb": bits(stop),
                "step": limbs(float("nan")), "stepb": bits(float("nan")), "passed": passed}
    data = np.asarray(v.data, dtype=float)
    st = v.attrs.get("step", float("nan"))
    return {"raised": "", "lim": [limbs(x) for x in data], "cb": [bits(x) for x in data],
            "startb": bits(a), "stopb": bits(stop), "step": limbs(st), "stepb": bits(st), "passed": passed}


def _index(case):
    n = case["n"]
    v = make_axis("x", case["a4"], case["s"], n, case.get("dt", "f8"), case.get("sa", [[1, 1]]), case.get("ir", 0))
    before, after = case.get("nd", [[], []])                       # sizes of the other dimensions in front of / behind the queried one
    dims = [f"b{j}" for j in range(len(before))] + ["x"] + [f"a{j}" for j in range(len(after))]
    arr = xr.DataArray(np.zeros(list(before) + [v.sizes["x"]] + list(after)), dims=dims, coords={"x": v})
    arr = with_range_attrs(arr, ["x"], step_of(case), case.get("ra", []))
    coords = arr.coords["x"].data
    q = pos_to_value(coords, step_of(case), case["p"])
    kw = {} if case["re"] else {"raise_error": False}
    try:
        res = arrays.get_coord_index(arr, "x", q, **kw)
        out = {"k": "int", "v": int(res), "exc": ""}
        if int(res) != res:
            raise TypeError(f"non-integer index {res!r}")
    except (KeyError, ValueError, IndexError, LookupError, ArithmeticError) as ex:
        out = {"k": "raise", "v": -1, "exc": type(ex).__name__}
    out.update(cb=[bits(float(x)) for x in coords], qb=bits(q))
    return out


def _set(case):
    sh = case["sh"]
    s = case["s"]
    d = len(sh)
    dt = case.get("dt", "f8")
    ident = list(range(1, d + 1))
    reg, tr, nc = case.get("reg", ident), case.get("tr", ident), case.get("nc", [])
    names = NAMES[:d]
    a4s = [int(x * 4) for x in (SET_STARTS_INT if dt in ("i8", "i4") else SET_STARTS)]
    axes = {names[j]: make_axis(names[j], a4s[j], s, sh[j], dt, case.get("sa", [[1, 1]]), case.get("ir", 0)) for j in range(d)}
    total = int(np.prod(sh))
    adt, vt = case.get("adt", "f8"), case.get("vt", "py_float" if case["vm"] == "scalar" else "arr_f8")
    data = np.arange(1, total + 1, dtype=float).reshape(sh)          # the array as set_value_at_pos will see it (dims = names)
    if adt == "b1":
        data = (data % 2 == 1)                                       # a boolean array: True at odd positions
    elif adt != "f8":
        data = data.astype(ARRAY_DTYPES[adt])
    # layout: built with its dims in the order tr, coordinates registered in the order reg (without dimension nc), then transposed
    base = np.ascontiguousarray(data.transpose([k - 1 for k in tr]))
    coords_reg = {names[k - 1]: axes[names[k - 1]] for k in reg if not (nc and nc[0] == k)}
    arr = xr.DataArray(base, dims=[names[k - 1] for k in tr], coords=coords_reg)
    if tr != ident:
        arr = arr.transpose(*names)
    arr = with_range_attrs(arr, [names[j] for j in range(d) if not (nc and nc[0] == j + 1)], step_of(case), case.get("ra", []))
    if tuple(arr.dims) != tuple(names) or tuple(arr.shape) != tuple(sh):
        raise AssertionError("binder built the wrong layout")
    coords = [np.asarray(arr[names[j]].data) for j in range(d)]
    query, qb = {}, []
    for j in range(d):
        if case["q"][j]:
            qv = pos_to_value(coords[j], step_of(case), case["q"][j][0])
            query[NAMES[j]] = qv
            qb.append([bits(qv)])
        else:
            qb.append([])
    if case.get("rev"):
        query = dict(reversed(list(query.items())))
    free = [sh[j] for j in range(d) if not case["q"][j]]
    if case["vm"] == "scalar":                                       # the value in the type the case names; vflat = its numeric value
        value = {"py_int": 100, "py_float": 100.0, "py_bool": True, "np_f4": np.float32(100), "np_i8": np.int64(100), "np_u1": np.uint8(100)}[vt]
        vflat = [_int(value)]
    else:
        nfree = int(np.prod(free))
        f = np.arange(1, nfree + 1, dtype=float)
        value = ((f % 2 == 1) if vt == "arr_b1" else (100.0 + f).astype({"arr_f8": np.float64, "arr_f4": np.float32, "arr_i4": np.int32}[vt])).reshape(free)
        vflat = [_int(x) for x in value.ravel()]
        if case.get("aslist"):
            value = value.tolist()
    try:
        res = arrays.set_value_at_pos(arr, value, **query)
        raised = ""
        after = [_int(x) for x in np.asarray(res.data).ravel()]
    except Exception as ex:
        raised = type(ex).__name__
        after = [_int(x) for x in np.asarray(arr.data).ravel()]
    return {"axes": [[bits(float(x)) for x in c] for c in coords], "qb": qb, "before": [_int(x) for x in data.ravel()],
            "after": after, "value": vflat, "raised": raised}


def execute(case):
    with warnings.catch_warnings():
        warnings.simplefilter("ignore")
        k = case["kind"]
        if k == "range":
            return _range(case)
        if k == "index":
            return _index(case)
        if k == "set":
            return _set(case)
    raise ValueError(k)


# ----------------------------------------------------------------------------- larger universe (seeded)
UNITS = [[1, 1], [1, 10], [1, 4], [1, 3], [1, 100], [1, 44100], [2, 1], [1, 2], [250, 1], [1, 8], [1, 22050], [1000, 1]]


def random_cases(rng, tier):
    k = 1 if tier == "quick" else 6
    for _ in range(150 * k):
        s = rng.choice(UNITS)
        m = rng.choice([4 * rng.randrange(1, 300), rng.randrange(1, 1200)])
        fn = rng.choice(["range", "range", "time", "time", "freq"])
        st, sr, size = True, [], []
        mode = rng.random()
        if fn == "range" and mode < 0.5:
            m = 4 * max(1, m // 4)
            st, size = mode < 0.15, [m // 4]                                  # size alone / step and an agreeing size
        elif fn == "range" and mode < 0.65:
            size = [m // 4 + rng.randrange(1, 5)]                              # step and a conflicting size
        elif fn == "time" and mode < 0.4 and s[0] == 1:
            st, sr = mode < 0.15, [[s[1], 1]]                                  # samplerate alone / step and the agreeing samplerate
        elif fn == "time" and mode < 0.6:
            sr = [[rng.choice([2, 3, 5]) * s[1], s[0]]]                        # step and a conflicting samplerate
        # np.arange fills start + i*((start+step)-start): the deviation grows like i*ulp(start); keep it far below the
        # 1e-9*step tolerance of CoordsOnLattice (generator restriction: |start| < 1 for the two sample-period units)
        a4 = rng.randrange(-3, 4) if s[1] > 1000 else rng.randrange(-32, 33)
        hist = [[rng.choice(["add", "set0"]), rng.choice(["range", "time", "freq"])]] if st and not sr and not size and rng.random() < 0.3 else []
        yield {"kind": "range", "fn": fn, "st": st, "sr": sr, "size": size, "s": s, "a4": a4, "m": m,
               "sm": rng.choice(["near", "fma"]) if fn == "range" and st and not size and not hist else "near", "hist": hist}
    for kk in rng.sample(range(1, 1000), 200):                      # decimal steps k/1000: a fresh random 200 per run
        fn = rng.choice(["range", "time", "freq"])
        yield {"kind": "range", "fn": fn, "st": True, "sr": [], "size": [], "s": [kk, 1000], "a4": rng.choice([0, 14, -8]),
               "m": rng.randrange(1, 120), "sm": "near", "hist": []}
    for _ in range(300 * k):
        s = rng.choice(UNITS)
        n = rng.randrange(1, 200)
        j = rng.randrange(0, n)
        p = rng.choice([8 * j, 8 * j + 1, 8 * j - 1, 8 * j + 4 if j < n - 1 else 8 * j, -4, -1, 8 * (n - 1) + 1, 8 * (n - 1) + 4, 8 * (n - 1)])
        a4 = rng.randrange(-32, 33)
        dt = "f8"
        if s[1] == 1 and rng.random() < 0.5:
            a4, dt = 4 * (rng.randrange(-8, 9) - (n * s[0] // 2 if rng.random() < 0.5 else 0)), rng.choice(["i8", "i4"])
        elif rng.random() < 0.15:
            dt = "f4"
        sa, ir = [[1, 1]], 0
        if dt in ("f8", "i8") and n >= 2 and rng.random() < 0.35:
            sa, ir = rng.choice([([], 0), ([[1, 2]], 0), ([[1, 3]], 0), ([[2, 1]], 0), ([[3, 2]], 0), ([], 1), ([[1, 1]], 1), ([[1, 1]], 2), ([[1, 2]], 2)])
            if ir:
                n = min(n, 60)
                p = min(p, 8 * (n - 1) + 4)
        ra = []
        if dt == "f8" and sa == [[1, 1]] and ir == 0 and rng.random() < 0.3:
            ra = [rng.choice([["attrs", rng.randrange(1, 40), rng.randrange(1, 40)], ["extend", 1, rng.randrange(1, 8)]])]
        nd = [[], []]
        if rng.random() < 0.4:
            nd = [[rng.randrange(1, 6) for _ in range(rng.randrange(0, 3))], [rng.randrange(1, 6) for _ in range(rng.randrange(0, 2))]]
        yield {"kind": "index", "s": s, "a4": a4, "dt": dt, "n": n, "p": p, "re": rng.random() < 0.5, "sa": sa, "ir": ir, "ra": ra, "nd": nd}
    for _ in range(100 * k):
        d = rng.randrange(1, 4)
        sh = [rng.randrange(1, 4) for _ in range(d)]
        q = []
        for j in range(d):
            opts = [8 * i for i in range(sh[j])] + [8 * i + 4 for i in range(sh[j] - 1)] + [8 * i + 1 for i in range(sh[j] - 1)]
            q.append([rng.choice(opts)] if rng.random() < 0.6 else [])
        if not any(q):
            q[0] = [0]
        vm = "array" if (not all(q) and rng.random() < 0.6) else "scalar"
        perm = lambda: rng.sample(range(1, d + 1), d)
        free = [j + 1 for j in range(d) if not q[j]]
        su = rng.choice(UNITS[:10])
        yield {"kind": "set", "s": su, "dt": rng.choice(["i8", "i4"]) if su[1] == 1 and rng.random() < 0.5 else "f8",
               "sh": sh, "q": q, "vm": vm, "reg": perm(), "tr": perm(),
               "nc": [rng.choice(free)] if free and rng.random() < 0.3 else [],
               "rev": rng.random() < 0.5, "aslist": rng.random() < 0.3,
               "adt": rng.choice(["f8", "f8", "f4", "i4", "i2", "u1", "b1"]),
               "vt": rng.choice(["py_int", "py_float", "py_bool", "np_f4", "np_i8", "np_u1"] if vm == "scalar" else ["arr_f8", "arr_f4", "arr_i4", "arr_b1"]),
               **dict(zip(("sa", "ir"), rng.choice([([[1, 1]], 0)] * 3 + [([], 0), ([[1, 2]], 0), ([[1, 1]], 1), ([[2, 1]], 2)])))}


def nontrivial(o):
    c, r = o["in"], o["out"]
    if c["kind"] == "range":
        return len(r.get("cb", [])) >= 1
    return True


MANIFEST = {
    "text": ("RangeDim.tla states, on a rational axis (a, s, n): Range(a, stop, s) = {a + i*s < stop} with the count pinned when "
             "(stop - a)/s is whole (floor or ceil otherwise), Index(axis, v) = the unique bracket c_i <= v < c_{i+1} with the last "
             "bin closed at the upper edge, raise / clamp outside (high clamp n-1 or n), and set_value_at_pos = exactly the "
             "addressed cell or slice of a row-major array of <= 3 dimensions. MC_RangeDim.tla transcribes create_range_dim "
             "(np.arange whose floating-point length is 'q or q+1' on non-representable steps, then the removal test "
             "last >= stop - s/2), get_coord_index (range check, scan for the right slice bound, minus one) and "
             "set_value_at_pos (one lookup per queried dimension, one write) as state machines; TLC checks Impl => Req, bracket "
             "uniqueness, the upper-edge and own-bin laws, termination, and shows (spec/history) that arange without the removal "
             "test breaks the whole-number count. Every enumerated call (3 constructors x the ways the step is communicated: step, samplerate or size alone, both agreeing, both conflicting -- the step argument is the step, RangeDim!Denoted --; 6-10 steps incl. 0.1, 0.01, 1/3, "
             "1/44100, 3-4 starts, stops in quarter steps; every coordinate as read back, its two neighbouring doubles, every "
             "midpoint, half a step beyond both ends, raise and clamp, on float64 / float32 / int64 / int32 coordinate arrays; all array "
             "shapes/queried dimensions/positions, scalar and array values, and -- on a sub-universe -- every registration order "
             "of the coordinates, transposed arrays, a dimension without coordinate, integer coordinates) plus seeded random calls on longer axes runs on the real code; TLC validates the recorded doubles "
             "(IEEE bit patterns ordered in TLA+, limb numbers for the distance to the lattice point) clause by clause. Thorough "
             "tier adds the laws for all integers proved by tlapm."),
    "note": ("trusted: TLC, the binder checks/c16.py (forms query doubles from the coordinates read back and encodes doubles; it never "
             "says where a query lies nor computes an expected index, count or cell). Coordinates must equal the lattice point "
             "exactly on dyadic steps and lie within ~0.93e-9 step of it otherwise (np.arange accumulates i*ulp(start): random "
             "ranges on 1/44100, 1/22050 are restricted so that this stays below the tolerance). Not pinned by the statement and "
             "not judged: the count when (stop-start)/step is not whole beyond floor/ceil, the class of the exception, dtype "
             "other than float64. Bounded universe + seeded random; small-scope hypothesis beyond."),
    "design_ref": "DESIGN.md section 4 C16",
}
