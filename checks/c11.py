"""C11 binder: buffer_geometry.  Encoder only -- the verdict is T_Buffer's (spec/Buffer.tla).

Generic reductions done here (none knows an expected value): minimum/maximum over all output coordinates,
"is every ring closed", and the location of given probe points relative to the RETURNED geometry, computed with
exact rational arithmetic on the returned coordinates (even-odd ray casting, boundary counts as inside).
"""
from fractions import Fraction
import numpy as np
from soundevent.geometry import buffer_geometry
from vt.geom import build
from vt.enc import limbs

PROPERTY = "C11"
TRACE = "T_Buffer"
ENUM = {
    "quick":    [dict(module="MC_Buffer", cfg="MC_Buffer_quick.cfg", workers=8)],
    "thorough": [dict(module="MC_Buffer", cfg="MC_Buffer_thorough.cfg", workers=16, coverage=True)],
}
POOL = 12
CHUNK = 250
SUB_T = [0.5, 0.25, 0.0625]        # seconds per time sub-tick (case field u = 1, 2, 3)
SUB_F = 64.0                       # Hz per frequency sub-tick; MAX_FREQUENCY = 78125 sub-ticks (Buffer!FMAXS)

RULE = ("every pair of calls of the TLA+ enumeration (63 geometries of all nine kinds incl. shapes on the edges time 0, "
        "frequency 0 and MAX_FREQUENCY and events later than 5e6 s; time/frequency buffers 0, 1/2, 1, 2 ticks and beyond the domain "
        "(time buffers up to 1e8 s for the closed-form kinds: the time axis has no upper edge), paired with the next "
        "larger setting; negative-buffer combinations incl. tiny magnitudes -1e-9 .. -5e-324 and -0.0 on either axis; the buffer arguments passed as Python int/float and as numpy float64/float32/"
        "int64/uint8/16/32/64 scalars wherever the type holds the value) plus random geometries and buffers on a larger lattice; each probed on a "
        "grid of lattice points around the geometry; non-trivial = both buffers non-negative and not both zero")
TRUSTED_BASE = ["checks/c11.py + vt/geom.py (build geometries and buffers on dyadic units, call buffer_geometry, min/max of the "
                "output coordinates as limb numbers, exact rational point-in-polygon of the probe points on the output coordinates)"]
ASSUMPTIONS = ["dyadic units (time sub-tick 2^-k s, frequency sub-tick 64 Hz): inputs, buffers and closed-form results are exact doubles",
               "containment and monotonicity are decided on lattice probe points (vertices, points of the original on the grid, "
               "grid points around it), not on the continuum",
               "bounds may miss their target by 2^-24 sub-tick (rounding) + 2^-20 of the buffer (GEOS joins offset segments closer than "
               "1e-3 of the distance without the mitre tip: <= 5e-7 of the buffer)",
               "monotonicity is judged only for buffer pairs that are identical or grow by >= 207/206 on every non-zero axis"]


# ----------------------------------------------------------------------------- exact point location
def _orient(ax, ay, bx, by, px, py):
    v = (Fraction(bx) - Fraction(ax)) * (Fraction(py) - Fraction(ay)) - (Fraction(by) - Fraction(ay)) * (Fraction(px) - Fraction(ax))
    return (v > 0) - (v < 0)


def _in_polygon(rings, px, py):
    """even-odd over all rings of one polygon; a point on any ring counts as inside.  Float comparisons are exact;
    the orientation test uses rationals."""
    odd = False
    for ring in rings:
        for (ax, ay), (bx, by) in zip(ring, ring[1:]):
            if min(ax, bx) <= px <= max(ax, bx) and min(ay, by) <= py <= max(ay, by):
                if _orient(ax, ay, bx, by, px, py) == 0:
                    return True
            if (ay > py) != (by > py):
                o = _orient(ax, ay, bx, by, px, py)
                if o != 0 and ((o > 0) == (by > ay)):
                    odd = not odd
    return odd


def _polygons(r):
    return [r.coordinates] if r.type == "Polygon" else list(r.coordinates)


_CAST = {"int": int, "float": float, "np.float64": np.float64, "np.float32": np.float32, "np.int64": np.int64,
         "np.uint8": np.uint8, "np.uint16": np.uint16, "np.uint32": np.uint32, "np.uint64": np.uint64}


def _typed(value, ty):
    """the buffer `value` (an exact double) as a number of the type named in the case; the case may only name a type that
    holds the value exactly (Buffer!Fits) -- anything else is an error of the generator, not an observation."""
    x = _CAST[ty](value)
    if type(x) is not _CAST[ty] or Fraction(float(x)) != Fraction(value) or (ty != "float" and not ty.startswith("np.float") and int(x) != value):
        raise RuntimeError(f"{value!r} is not representable as {ty}")
    return x


def _run(g, b, tys, tiny, probes, st):
    blank = {"raised": "", "type": "", "coords": [], "bounds": [], "closed": False, "inside": []}
    tb, fb = _typed(b[0] * st, tys[0]), _typed(b[1] * SUB_F, tys[1])
    if tiny[0]:                                   # a named real number around zero instead of the lattice buffer (Buffer!TinyNames)
        tb = float(tiny[0])
    if tiny[1]:
        fb = float(tiny[1])
    try:
        r = buffer_geometry(g, time_buffer=tb, freq_buffer=fb)
    except Exception as ex:                     # an observation, judged by the spec
        return dict(blank, raised=type(ex).__name__)
    out = dict(blank, type=str(r.type))
    if r.type == "TimeInterval":
        s, e = r.coordinates
        out["coords"] = [limbs(s / st), limbs(e / st)]
        out["closed"] = True
        out["inside"] = [bool(s <= p[0] <= e) for p in probes]
    elif r.type == "BoundingBox":
        s, lo, e, hi = r.coordinates
        out["coords"] = [limbs(s / st), limbs(lo / SUB_F), limbs(e / st), limbs(hi / SUB_F)]
        out["bounds"] = out["coords"]
        out["closed"] = True
        out["inside"] = [bool(s <= p[0] <= e and lo <= p[1] <= hi) for p in probes]
    elif r.type in ("Polygon", "MultiPolygon"):
        polys = _polygons(r)
        pts = [p for poly in polys for ring in poly for p in ring]
        ts, fs = [p[0] for p in pts], [p[1] for p in pts]
        out["bounds"] = [limbs(min(ts) / st), limbs(min(fs) / SUB_F), limbs(max(ts) / st), limbs(max(fs) / SUB_F)]
        out["closed"] = all(len(ring) >= 4 and list(ring[0]) == list(ring[-1]) for poly in polys for ring in poly)
        out["inside"] = [any(_in_polygon(poly, p[0], p[1]) for poly in polys) for p in probes]
    return out


def _real_interval(case):
    """a TimeInterval on decimal times (real doubles) with a decimal time buffer: ends of input and result, exactly"""
    from soundevent import data
    s, e, b = float(case["start"]), float(case["end"]), float(case["buf"])
    out = {"raised": "", "type": "", "ins": limbs(s), "ine": limbs(e), "rs": limbs(0.0), "re": limbs(0.0),
           "hin": [s.hex(), e.hex()], "hout": []}
    try:
        r = buffer_geometry(data.TimeInterval(coordinates=[s, e]), time_buffer=b)
    except Exception as ex:
        return dict(out, raised=type(ex).__name__)
    out["type"] = str(r.type)
    if r.type == "TimeInterval":
        rs, re_ = float(r.coordinates[0]), float(r.coordinates[1])
        out.update(rs=limbs(rs), re=limbs(re_), hout=[rs.hex(), re_.hex()])
    return out


def execute(case):
    if case.get("real"):
        return _real_interval(case)
    st = SUB_T[case["u"] - 1]
    g = build(case["g"], st, SUB_F)
    probes = [(p[0] * st, p[1] * SUB_F) for p in case["probes"]]
    t1, t2 = case.get("t1", ["float", "float"]), case.get("t2", ["float", "float"])
    e1, e2 = case.get("e1", ["", ""]), case.get("e2", ["", ""])
    return {"r1": _run(g, case["b1"], t1, e1, probes, st), "r2": _run(g, case["b2"], t2, e2, probes, st)}


# ----------------------------------------------------------------------------- random cases on a larger lattice
FMAXS = 78125


def _rand_geom(rng):
    """A valid geometry of any kind on sub-ticks: times 0..40, frequencies low (0..400), or hugging MAX_FREQUENCY."""
    band = rng.choice(["low", "low", "top", "high"])

    def f():
        if band == "high":                               # 1.9 .. 4.6 MHz
            return rng.randrange(30000, 72001, 8)
        return rng.randrange(0, 401, 4) if band == "low" else FMAXS - rng.randrange(0, 401, 4)

    def pt(t=None):
        return [rng.randint(0, 40) if t is None else t, f()]

    def line():
        ts = sorted(rng.sample(range(0, 41), rng.randint(2, 4)))
        if len(ts) > 2 and rng.random() < 0.5:           # interior vertices in any order: the line may go back in time
            mid = [rng.randint(0, 40) for _ in ts[1:-1]]  # (legal as long as first time < last time)
            ts = [ts[0]] + mid + [ts[-1]]
        return [pt(t) for t in ts]

    def tri():
        while True:
            a, b, c = pt(), pt(), pt()
            if (b[0] - a[0]) * (c[1] - a[1]) - (b[1] - a[1]) * (c[0] - a[0]) != 0:
                return [[a, b, c, a]]

    k = rng.choice(["TimeStamp", "TimeInterval", "BoundingBox", "Point", "MultiPoint", "LineString", "LineString",
                    "MultiLineString", "Polygon", "Polygon", "MultiPolygon"])
    # closed-form kinds: sometimes late in a very long recording (time has no upper edge; 8e7 sub-ticks >= 5e6 s at every unit)
    late = rng.choice([0, 0, rng.randint(80_000_000, 400_000_000)]) if k in ("TimeStamp", "TimeInterval", "BoundingBox") else 0
    if k == "TimeStamp":
        return {"type": k, "coordinates": late + rng.randint(0, 40)}
    if k == "TimeInterval":
        return {"type": k, "coordinates": sorted([late + rng.randint(0, 40), late + rng.randint(0, 40)])}
    if k == "BoundingBox":
        t = sorted([late + rng.randint(0, 40), late + rng.randint(0, 40)]); q = sorted([f(), f()])
        return {"type": k, "coordinates": [t[0], q[0], t[1], q[1]]}
    if k == "Point":
        return {"type": k, "coordinates": pt()}
    if k == "MultiPoint":
        return {"type": k, "coordinates": [pt() for _ in range(rng.randint(1, 4))]}
    if k == "LineString":
        return {"type": k, "coordinates": line()}
    if k == "MultiLineString":
        return {"type": k, "coordinates": [line() for _ in range(rng.randint(1, 3))]}
    if k == "Polygon":
        return {"type": k, "coordinates": tri()}
    # two triangles separated in time, so that the multipolygon is valid
    a, b = tri(), tri()
    shift = max(p[0] for p in a[0]) + 1
    b = [[[p[0] + shift, p[1]] for p in b[0]]]
    return {"type": k, "coordinates": [a, b]}


def _vertices(g):
    k, c = g["type"], g["coordinates"]
    if k in ("TimeStamp", "TimeInterval"):
        ts = [c] if k == "TimeStamp" else list(c)
        return [[t, q] for t in ts for q in (0, 40, FMAXS)]
    if k == "BoundingBox":
        return [[c[0], c[1]], [c[2], c[3]], [c[0], c[3]], [c[2], c[1]]]
    if k == "Point":
        return [list(c)]
    if k in ("MultiPoint", "LineString"):
        return [list(p) for p in c]
    if k in ("MultiLineString", "Polygon"):
        return [list(p) for r in c for p in r]
    return [list(p) for poly in c for r in poly for p in r]


def _rand_probes(rng, g):
    """vertices, lattice points on the segments between consecutive vertices, and random lattice points around the bounding box."""
    vs = _vertices(g)
    out = [list(v) for v in vs]
    from math import gcd
    for a, b in zip(vs, vs[1:]):                          # lattice points on the segment between consecutive vertices (at most 7)
        n = gcd(abs(a[0] - b[0]), abs(a[1] - b[1]))
        for q in range(1, n, max(1, n // 8)):
            out.append([a[0] + (b[0] - a[0]) // n * q, a[1] + (b[1] - a[1]) // n * q])
    t0, t1 = min(v[0] for v in vs), max(v[0] for v in vs)
    f0, f1 = min(v[1] for v in vs), max(v[1] for v in vs)
    for _ in range(60):
        out.append([rng.randint(max(0, t0 - 3), t1 + 3), min(FMAXS, max(0, rng.randint(f0 - 24, f1 + 24)))])
    seen, uniq = set(), []
    for p in out:
        if tuple(p) not in seen:
            seen.add(tuple(p)); uniq.append(p)
    return uniq


_SUB_PER_SEC = [2, 4, 16]
_TYPES = list(_CAST)


def _fits(ty, axis, v, u):
    """generator-side copy of Buffer!Fits (chooses admissible inputs; not an oracle)."""
    integral = axis == "f" or v % _SUB_PER_SEC[u - 1] == 0
    units = v * 64 if axis == "f" else v // _SUB_PER_SEC[u - 1]
    if ty in ("float", "np.float64"):
        return True
    if ty == "np.float32":
        n = abs(v)
        while n and n % 2 == 0:
            n //= 2
        return n < 2 ** 24
    if ty in ("int", "np.int64"):
        return integral
    return v >= 0 and integral and units <= {"np.uint8": 255, "np.uint16": 65535}.get(ty, 2 ** 62)


def _arg_types(rng, b, u):
    ty = rng.choice(_TYPES)
    return [ty if _fits(ty, ax, v, u) else "float" for ax, v in (("t", b[0]), ("f", b[1]))]


def random_cases(rng, tier):
    n = 300 if tier == "quick" else 5000
    for _ in range(n):
        g = _rand_geom(rng)
        tb = rng.choice([0, rng.randint(1, 12), rng.randint(1, 12), 300])
        if g["type"] in ("TimeStamp", "TimeInterval", "BoundingBox") and rng.random() < 0.3:
            tb = rng.randint(80_000_000, 300_000_000)     # a time buffer longer than MAX_FREQUENCY seconds
        fb = rng.choice([0, rng.randint(1, 600), rng.randint(1, 600), 2 * FMAXS])    # every integer 1..600: about 1 in 50 is a
        #                                       buffer b with MAX_FREQUENCY * (1/b) / (1/b) != MAX_FREQUENCY in doubles
        mode = rng.random()
        if mode < 0.5:                                   # both axes grow by a comfortable factor (or stay 0)
            b2 = [tb * rng.randint(2, 3), fb * rng.randint(2, 3)] if fb < FMAXS else [tb * 2, fb]
        elif mode < 0.7:                                 # barely above the 207/206 threshold
            b2 = [-(-tb * 207 // 206), -(-fb * 207 // 206)]
        elif mode < 0.9:                                 # arbitrary second setting (monotonicity may be undecided)
            b2 = [rng.randint(0, 20), rng.randint(0, 300)]
        else:                                            # a negative buffer somewhere
            b2 = [rng.choice([-1, tb]), rng.choice([-5, -1])]
        cap = 10 ** 9 if g["type"] in ("TimeStamp", "TimeInterval", "BoundingBox") else 10 ** 6
        b1, b2, u = [tb, fb], [min(b2[0], cap), min(b2[1], 4 * FMAXS)], rng.randint(1, 3)
        if rng.random() < 0.5:                           # buffers that are whole seconds, so that the integer types apply
            b1[0] -= b1[0] % _SUB_PER_SEC[u - 1]
            b2[0] -= b2[0] % _SUB_PER_SEC[u - 1] if b2[0] >= 0 else 0
        e1, e2 = ["", ""], ["", ""]
        if rng.random() < 0.15:                          # a tiny magnitude around zero on an axis whose lattice buffer is then 0
            for b, e in ((b1, e1), (b2, e2)):
                ax = rng.randint(0, 1)
                if b[ax] >= 0 and rng.random() < 0.7:
                    b[ax] = 0
                    e[ax] = rng.choice(["-1e-9", "-1e-10", "-1e-12", "-5e-324", "-0.0"])
        yield {"g": g, "b1": b1, "b2": b2, "t1": _arg_types(rng, b1, u), "t2": _arg_types(rng, b2, u), "e1": e1, "e2": e2,
               "probes": _rand_probes(rng, g), "u": u}      # buffers stay below 2^20 sub-ticks (Buffer!SlackFor)


def finding_key(obs, clause):
    """BoundsGrowRoundStrict fails (TLA+: some bound of a buffered line string misses the exact target) while the tolerant
    clause BoundsGrowRound (TLA+: shortfall beyond 1/207 of the buffer) is a separate reject that keeps its own name:
    only a shortfall within the inscribed-32-gon bound is the known finding F16."""
    if obs["in"].get("real"):
        return clause
    if clause == "BoundsGrowRoundStrict" and obs["in"]["g"]["type"] in ("LineString", "MultiLineString"):
        return "BoundsGrowRound/deficit<=1-cos(pi/32)"
    # a line string that folds back (Buffer!Folded, decided in TLA+) misses even the tolerant target at the tip of the fold
    if clause == "BoundsGrowFolded" and obs["in"]["g"]["type"] in ("LineString", "MultiLineString"):
        return "BoundsGrowRound/line-string-folding-back"
    # same split (Buffer!FlatCase, decided in TLA+): zero frequency buffer on a shape reaching above 2.25 MHz
    if clause == "BoundsGrowFlatStrict" and 0 in (obs["in"]["b1"][1], obs["in"]["b2"][1]):
        return "BoundsGrow/zero-freq-buffer-above-2.25MHz/deficit<=1-cos(pi/8)"
    # buffer_geometry raised KeyError (GEOS returned NaN coordinates for the 1e9-scaled line, the clipped result is an empty
    # GeometryCollection): only for line strings in a call with freq_buffer = 0; any other failure of ValidGeometry stays a violation
    if clause == "ValidGeometry" and obs["in"]["g"]["type"] in ("LineString", "MultiLineString"):
        neg_tiny = lambda e: any(n and n != "-0.0" for n in e)        # a named negative magnitude: the run is a negative-buffer call
        runs = [(obs["in"]["b1"], obs["in"].get("e1", []), obs["out"].get("r1", {})),
                (obs["in"]["b2"], obs["in"].get("e2", []), obs["out"].get("r2", {}))]
        bad = [(b, r) for b, e, r in runs if min(b) >= 0 and not neg_tiny(e) and r.get("raised") != ""]
        if bad and all(r.get("raised") == "KeyError" and b[1] == 0 for b, r in bad):
            return "ValidGeometry/KeyError-line-string-zero-freq-buffer"
    return clause


def nontrivial(o):
    if o["in"].get("real"):
        return o["in"]["buf"] != "0"
    b1, b2 = o["in"]["b1"], o["in"]["b2"]
    tiny = [n for n in o["in"].get("e1", []) + o["in"].get("e2", []) if n and n != "-0.0"]
    return min(b1 + b2) >= 0 and max(b1 + b2) > 0 and not tiny


MANIFEST = {
    "text": ("Buffer.tla states buffer_geometry on an exact sub-tick lattice. TimeStamp/TimeInterval/BoundingBox: closed forms "
             "with the clamps at time 0, frequency 0 and MAX_FREQUENCY, compared exactly; TLC checks containment, monotonicity, "
             "domain and exact widening for every catalogue shape under all 625 ordered buffer pairs, and proofs/P_Buffer.tla "
             "proves the same laws for all integers (TLAPS, 4 obligations). The six shapely kinds: a relation over what the "
             "binder measures on the returned polygon(s) -- Polygon/MultiPolygon with closed rings, every coordinate inside the "
             "domain, every vertex and lattice point of the original inside the result (exact rational even-odd ray casting on "
             "the output coordinates), bounds reaching the widened bounds clipped to the domain (limb numbers compared in TLA+; "
             "line strings against the inscribed-32-gon bound as well), supersets for comparable buffer pairs, negative buffers "
             "rejected. TLC enumerates 63 geometries of all nine kinds (incl. shapes on the three domain edges) x 25 buffer "
             "settings paired with the next larger one + negative combinations; a random driver adds larger lattices; every call "
             "is executed on the real code and judged by TLC."),
    "note": ("trusted: TLC, the binder checks/c11.py (encoder; min/max, ring closure and exact point location are generic "
             "reductions), exact doubles on dyadic units; containment/monotonicity are decided on lattice probe points; slack "
             "2^-24 sub-tick + 2^-20 of the buffer on bounds; three open findings are matched by specific keys (F16 round caps, "
             "zero frequency buffer above 2.25 MHz, KeyError for line strings with freq_buffer=0)"),
    "design_ref": "DESIGN.md section 4 C11",
}
