"""C20 binder: rasterize.  Encoder only -- the verdict is T_Raster's (spec/Raster.tla)."""
import random
import numpy as np
import xarray as xr
from soundevent import arrays
from soundevent.geometry import rasterize
from vt.geom import build
from vt.enc import ticks_or_none

PROPERTY = "C20"
TRACE = "T_Raster"
ENUM = {
    "quick":    [dict(module="MC_Raster", cfg="MC_Raster_quick.cfg", workers=8)],
    "thorough": [dict(module="MC_Raster", cfg="MC_Raster_thorough.cfg", workers=16, coverage=True)],
}
POOL = 12
CHUNK = 1000
TIME_UNITS = [1.0, 0.5, 0.125]     # seconds per time tick (chosen per case from its sizes)
FREQ_UNIT = 250.0                  # Hz per frequency tick when tpl.fu = 250; MAX_FREQUENCY = 20000 ticks (Raster!FMAXT)
OFF = -(2 ** 30)                   # sentinel: value not an integer / coordinate not on the lattice

RULE = ("every call of the TLA+ enumeration (template sizes x both dimension orders x three spacings; boxes on the ticks "
        "around the template, time intervals, time stamps, catalogue geometries of all nine kinds at two scales, lists of two "
        "geometries, value lists of the wrong length; fill, dtype, scalar/list values varied; templates whose time and frequency "
        "ticks are the same numbers (1 s, 1 Hz) with boxes and lists whose time coordinates equal frequency coordinates of another "
        "bin) plus random larger templates; "
        "each executed three times (contents A, contents B, all_touched); non-trivial = the call is valid and marks at least one cell")
TRUSTED_BASE = ["checks/c20.py + vt/geom.py (build template with the library's own range constructors and the geometries on "
                "dyadic units, call rasterize, read dims/coordinates/cells back as integers)"]
ASSUMPTIONS = ["dyadic units: coordinates, bin lookups and comparisons of the implementation are exact, so lattice verdicts are exact",
               "axis steps that are not exactly representable (0.1, 1/44100) are out of scope here (C16 covers the lookup on them)",
               "for lines and points the statement's centre rule is vacuous; only 'a cell not touched by the mapped shape is not "
               "marked' is demanded for them",
               "an end strictly inside the last bin may be looked up as n (clamped, as get_coord_index does) or n-1 (the bin "
               "containing it): both readings are accepted"]


def _units(tp):
    """(seconds per time tick, Hz per frequency tick).  tpl.fu = 1: one tick is the same number (1 s, 1 Hz) on both axes."""
    if tp.get("fu", 250) == 1:
        return 1.0, 1.0
    return TIME_UNITS[(tp["T"] + 2 * tp["F"] + tp["ts"]) % 3], FREQ_UNIT


def _template(tp, tu, fu, variant):
    T, F = tp["T"], tp["F"]
    tc = arrays.create_time_range(start_time=tp["t0"] * tu, end_time=(tp["t0"] + T * tp["ts"]) * tu, step=tp["ts"] * tu)
    fc = arrays.create_frequency_range(low_freq=tp["f0"] * fu, high_freq=(tp["f0"] + F * tp["fs"]) * fu, step=tp["fs"] * fu)
    if len(tc) != T or len(fc) != F:
        raise RuntimeError(f"template axes have {len(tc)}x{len(fc)} points, wanted {T}x{F}")
    if variant == "A":
        content = np.zeros((T, F))
    else:                               # arbitrary contents: noise, a NaN, an infinity
        rng = np.random.default_rng(T * 131 + F * 17 + tp["t0"])
        content = rng.normal(size=(T, F)) * 1e3 + 9.0
        content.flat[0] = np.nan
        content.flat[-1] = np.inf
    if tp["order"] == "tf":
        return xr.DataArray(content, dims=["time", "frequency"], coords={"time": tc, "frequency": fc})
    return xr.DataArray(content.T.copy(), dims=["frequency", "time"], coords={"frequency": fc, "time": tc})


def _int(x):
    x = float(x)
    if x != x or x in (float("inf"), float("-inf")) or x != int(x) or abs(x) >= 2 ** 30:
        return OFF
    return int(x)


def _coords(r, name, unit):
    if name not in r.coords:
        return []
    out = []
    for v in np.asarray(r.coords[name].values, dtype=float).ravel():
        t = ticks_or_none(v, unit) if v == v and abs(v) != float("inf") else None
        out.append(OFF if t is None else t)
    return out


def _run(geoms, arr, kw, tu, fu):
    try:
        r = rasterize(geoms, arr, **kw)
    except Exception as ex:                       # an observation, judged by the spec
        return {"raised": type(ex).__name__, "dims": [], "tc": [], "fc": [], "cells": []}
    dims = [str(d) for d in r.dims]
    cells = []
    if sorted(dims) == ["frequency", "time"]:
        cells = [[_int(v) for v in row] for row in r.transpose("time", "frequency").values]
    return {"raised": "", "dims": dims, "tc": _coords(r, "time", tu), "fc": _coords(r, "frequency", fu), "cells": cells}


def execute(case):
    tp = case["tpl"]
    tu, fu = _units(tp)
    geoms = [build(g, tu, fu) for g in case["geoms"]]
    values = case["values"][0] if case["scalar"] else list(case["values"])
    kw = dict(values=values, fill=case["fill"], dtype=np.dtype(case["dt"]))
    a, b = _template(tp, tu, fu, "A"), _template(tp, tu, fu, "B")
    return {"r1": _run(geoms, a, dict(kw), tu, fu),
            "r2": _run(geoms, b, dict(kw), tu, fu),
            "rt": _run(geoms, a, dict(kw, all_touched=True), tu, fu)}


def _rand_geom(rng, tp):
    tlo, thi = max(0, tp["t0"] - 3), tp["t0"] + tp["T"] * tp["ts"] + 3
    flo, fhi = max(0, tp["f0"] - 3), tp["f0"] + tp["F"] * tp["fs"] + 3
    k = rng.random()
    if k < 0.6:
        s, e = sorted([rng.randint(tlo, thi), rng.randint(tlo, thi)])
        lo, hi = sorted([rng.randint(flo, fhi), rng.randint(flo, fhi)])
        return {"type": "BoundingBox", "coordinates": [s, lo, e, hi]}
    if k < 0.7:
        s, e = sorted([rng.randint(tlo, thi), rng.randint(tlo, thi)])
        return {"type": "TimeInterval", "coordinates": [s, e]}
    if k < 0.9:                                                       # triangle (any three points; degenerate ones included)
        p = [[rng.randint(tlo, thi), rng.randint(flo, fhi)] for _ in range(3)]
        return {"type": "Polygon", "coordinates": [p + [p[0]]]}
    p = sorted([[rng.randint(tlo, thi), rng.randint(flo, fhi)] for _ in range(rng.randint(2, 3))])
    return {"type": "LineString", "coordinates": p}


def random_cases(rng, tier):
    """Templates up to 8 x 8 with random origin and spacing, 1-3 random geometries (boxes mostly), random values/fill."""
    n = 250 if tier == "quick" else 4000
    for _ in range(n):
        tp = {"T": rng.randint(1, 8), "F": rng.randint(1, 8), "order": rng.choice(["ft", "tf"]),
              "t0": rng.randint(0, 6), "ts": rng.randint(1, 5), "f0": rng.randint(0, 6), "fs": rng.randint(1, 5),
              "fu": rng.choice([250, 1])}       # fu = 1: time and frequency ticks are the same numbers
        ng = rng.choice([1, 1, 2, 3])
        geoms = [_rand_geom(rng, tp) for _ in range(ng)]
        scalar = rng.random() < 0.2
        fill = rng.choice([0, 0, -1, 7])
        vals = [rng.randint(1, 6)] if scalar else rng.sample([1, 2, 3, 4, 5, 6], ng)
        dt = rng.choice(["float32", "int16", "int32", "float64"] if fill < 0 else ["float32", "uint8", "int32", "float64"])
        yield {"tpl": tp, "geoms": geoms, "values": vals, "scalar": scalar, "fill": fill, "dt": dt}


LINE_KINDS = {"TimeStamp", "Point", "MultiPoint", "LineString", "MultiLineString"}


def finding_key(obs, clause):
    """AllTouchedSupersetLines (decided in TLA+: a cell marked by a line/point geometry in the plain run is lost with
    all_touched=True) is the open finding about rasterio's two line algorithms; every other reject keeps its clause name."""
    if clause == "AllTouchedSupersetLines" and any(g["type"] in LINE_KINDS for g in obs["in"]["geoms"]):
        return "AllTouchedSuperset/line-or-point-geometry"
    return clause


def nontrivial(o):
    r = o["out"].get("r1", {})
    return bool(r.get("cells")) and any(v != o["in"]["fill"] for row in r["cells"] for v in row)


MANIFEST = {
    "text": ("Raster.tla states rasterize on integer ticks: the bin lookup is transcribed from get_coord_index(raise_error=False) "
             "(and the 'bin containing v' reading where they differ), every vertex is mapped to bin indices, and the cells of a "
             "geometry are those whose centre lies inside the mapped shape (exact even-odd test; a centre on an edge is undecided); "
             "for boxes and time intervals TLC checks that this IS [bin(start), bin(end)) x [bin(low), bin(high)) and that it is "
             "monotone in the box. Acceptance: dims/coordinates of the template, independence of its contents and dimension order, "
             "exact cells for boxes, centre rule, painter's order, fill elsewhere, all_touched superset, value-list length. "
             "MC_Raster.tla is rasterize as a machine (length check, one burn per geometry, transposition and relabelling) and TLC "
             "proves Impl => Req on every enumerated call; with rows/columns taken from array.shape TLC finds the time-first "
             "non-square counterexample (spec/history/MC_Raster_prefix.*). Every enumerated call (16 sizes x 2 orders x 3 "
             "spacings x boxes/intervals/stamps/catalogue shapes/pairs/length mismatches) and random larger templates are run on "
             "the real code three times (contents A, contents B, all_touched) and judged by TLC."),
    "note": ("trusted: TLC, the binder checks/c20.py (encoder), exact arithmetic on dyadic units; for lines and points only "
             "'cells away from the mapped shape stay unmarked' is demanded; open finding: all_touched=True can drop cells of line "
             "geometries (key AllTouchedSuperset/line-or-point-geometry)"),
    "design_ref": "DESIGN.md section 4 C20",
}
