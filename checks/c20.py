"""C20 binder: rasterize.  Encoder only -- the verdict is T_Raster's (spec/Raster.tla)."""
import random
import numpy as np
import xarray as xr
from soundevent import arrays
from soundevent.geometry import rasterize
from vt.geom import build
from vt.enc import ticks_or_none

PROPERTY = "C20"
TRACE = "T_Raster"
ENUM = {
    "quick":    [dict(module="MC_Raster", cfg="MC_Raster_quick.cfg", workers=8)],
    "thorough": [dict(module="MC_Raster", cfg="MC_Raster_thorough.cfg", workers=16, coverage=True, heap="20g")]   # the labelled state graph of the thorough universe needs more than the default 6 GB,
}
POOL = 12
CHUNK = 1000
TIME_UNITS = [1.0, 0.5, 0.125]     # seconds per time tick (chosen per case from its sizes)
FREQ_UNIT = 250.0                  # Hz per frequency tick when tpl.fu = 250; MAX_FREQUENCY = 20000 ticks (Raster!FMAXT)
OFF = -(2 ** 30)                   # sentinel: coordinate not on the lattice

RULE = ("every call of the TLA+ enumeration (template sizes x both dimension orders x three spacings; boxes on the ticks "
        "around the template, time intervals, time stamps, catalogue geometries of all nine kinds at two scales, lists of two "
        "geometries and of three (A, B, A again or another box in the same bins), polygons and multipolygons with holes, value lists of the wrong length, the empty geometry list with every fill; fill, dtype, scalar/list values varied; templates whose time and frequency "
        "ticks are the same numbers (1 s, 1 Hz) with boxes and lists whose time coordinates equal frequency coordinates of another "
        "bin; templates whose step attributes are stale (subsampled axes) or absent) plus random larger templates; "
        "each executed three times (contents A, contents B, all_touched); non-trivial = the call is valid and marks at least one cell")
TRUSTED_BASE = ["checks/c20.py + vt/geom.py (build template with the library's own range constructors and the geometries on "
                "dyadic units, call rasterize, read dims/coordinates/cells back as integers)"]
ASSUMPTIONS = ["dyadic units: coordinates, bin lookups and comparisons of the implementation are exact, so lattice verdicts are exact",
               "axis steps that are not exactly representable (0.1, 1/44100) are out of scope here (C16 covers the lookup on them)",
               "for lines and points the statement's centre rule is vacuous; only 'a cell not touched by the mapped shape is not "
               "marked' is demanded for them",
               "an end strictly inside the last bin may be looked up as n (clamped, as get_coord_index does) or n-1 (the bin "
               "containing it): both readings are accepted"]


def _units(tp):
    """(seconds per time tick, Hz per frequency tick).  tpl.fu = 1: one tick is the same number (1 s, 1 Hz) on both axes."""
    if tp.get("fu", 250) == 1:
        return 1.0, 1.0
    return TIME_UNITS[(tp["T"] + 2 * tp["F"] + tp["ts"]) % 3], FREQ_UNIT


def _axis(kind, a, s, n, unit, attr):
    """n coordinates a + i*s (ticks of `unit`) built with the library's range constructor.  attr = [] / [v]: the 'step'
    attribute the coordinate carries: [s] a fresh range; [v] with v dividing s: the axis of step v subsampled by s/v
    (returns the fine axis and the subsampling factor); []: no step attribute."""
    make = arrays.create_time_range if kind == "time" else arrays.create_frequency_range
    v = attr[0] if attr else s
    k = s // v if (v and s % v == 0) else 1
    fine = make(a * unit, (a + n * s) * unit, step=(s // k) * unit)
    if len(fine) != n * k:
        raise RuntimeError(f"{kind} axis has {len(fine)} points, wanted {n * k}")
    if attr and k * v != s:                       # a step attribute that is not a divisor: just recorded
        fine.attrs["step"] = v * unit
    if not attr:
        fine.attrs.pop("step", None)
    return fine, k


def _template(tp, tu, fu, variant):
    T, F = tp["T"], tp["F"]
    tc, kt = _axis("time", tp["t0"], tp["ts"], T, tu, tp.get("tstep", [tp["ts"]]))
    fc, kf = _axis("frequency", tp["f0"], tp["fs"], F, fu, tp.get("fstep", [tp["fs"]]))
    if variant == "A":
        content = np.zeros((T * kt, F * kf))
    else:                               # arbitrary contents: noise, a NaN, an infinity
        rng = np.random.default_rng(T * 131 + F * 17 + tp["t0"])
        content = rng.normal(size=(T * kt, F * kf)) * 1e3 + 9.0
        content.flat[0] = np.nan
        content.flat[-1] = np.inf
    if tp["order"] == "tf":
        arr = xr.DataArray(content, dims=["time", "frequency"], coords={"time": tc, "frequency": fc})
    else:
        arr = xr.DataArray(content.T.copy(), dims=["frequency", "time"], coords={"frequency": fc, "time": tc})
    if kt > 1 or kf > 1:                # the subsampled template keeps the attributes of the finer axes
        arr = arr.isel(time=slice(None, None, kt), frequency=slice(None, None, kf))
    if arr.sizes["time"] != T or arr.sizes["frequency"] != F:
        raise RuntimeError("template has the wrong size")
    return arr


def _num(numeral):
    """the number a numeral of the case stands for: "3" -> 3, "0.1" -> 0.1, "1/3" -> 1/3 (the nearest double)."""
    if "/" in numeral:
        p, q = numeral.split("/")
        return int(p) / int(q)
    return float(numeral) if "." in numeral else int(numeral)


def _cell(x):
    """canonical text of a cell's content: the decimal integer when it is integral, else the hex form of the double equal to it
    (a float32 cell converts to double exactly)."""
    x = float(x)
    if x != x or x in (float("inf"), float("-inf")):
        return repr(x)
    return str(int(x)) if x == int(x) else x.hex()


def _coords(r, name, unit):
    if name not in r.coords:
        return []
    out = []
    for v in np.asarray(r.coords[name].values, dtype=float).ravel():
        t = ticks_or_none(v, unit) if v == v and abs(v) != float("inf") else None
        out.append(OFF if t is None else t)
    return out


def _run(geoms, arr, kw, tu, fu):
    try:
        r = rasterize(geoms, arr, **kw)
    except Exception as ex:                       # an observation, judged by the spec
        return {"raised": type(ex).__name__, "dims": [], "tc": [], "fc": [], "cells": []}
    dims = [str(d) for d in r.dims]
    cells = []
    if sorted(dims) == ["frequency", "time"]:
        cells = [[_cell(v) for v in row] for row in r.transpose("time", "frequency").values]
    return {"raised": "", "dims": dims, "tc": _coords(r, "time", tu), "fc": _coords(r, "frequency", fu), "cells": cells}


def execute(case):
    tp = case["tpl"]
    tu, fu = _units(tp)
    geoms = [build(g, tu, fu) for g in case["geoms"]]
    values = _num(case["values"][0]) if case["scalar"] else [_num(v) for v in case["values"]]
    kw = dict(values=values, fill=_num(case["fill"]), dtype=np.dtype(case["dt"]))
    a, b = _template(tp, tu, fu, "A"), _template(tp, tu, fu, "B")
    return {"r1": _run(geoms, a, dict(kw), tu, fu),
            "r2": _run(geoms, b, dict(kw), tu, fu),
            "rt": _run(geoms, a, dict(kw, all_touched=True), tu, fu)}


def _rand_geom(rng, tp):
    tlo, thi = max(0, tp["t0"] - 3), tp["t0"] + tp["T"] * tp["ts"] + 3
    flo, fhi = max(0, tp["f0"] - 3), tp["f0"] + tp["F"] * tp["fs"] + 3
    k = rng.random()
    if k < 0.6:
        s, e = sorted([rng.randint(tlo, thi), rng.randint(tlo, thi)])
        lo, hi = sorted([rng.randint(flo, fhi), rng.randint(flo, fhi)])
        return {"type": "BoundingBox", "coordinates": [s, lo, e, hi]}
    if k < 0.7:
        s, e = sorted([rng.randint(tlo, thi), rng.randint(tlo, thi)])
        return {"type": "TimeInterval", "coordinates": [s, e]}
    if k < 0.9:                                                       # triangle (any three points; degenerate ones included)
        p = [[rng.randint(tlo, thi), rng.randint(flo, fhi)] for _ in range(3)]
        return {"type": "Polygon", "coordinates": [p + [p[0]]]}
    p = sorted([[rng.randint(tlo, thi), rng.randint(flo, fhi)] for _ in range(rng.randint(2, 3))])
    return {"type": "LineString", "coordinates": p}


_SPECIAL = [("float64", ["0.1", "0.7", "0.3", "1/3", "2", "16777217"], ["0", "0.3", "-1"]),
            ("float32", ["0.1", "0.7", "0.3", "1/3", "2", "5"], ["0", "1/3"]),
            ("int32", ["16777217", "2147483647", "1", "2", "3"], ["0", "-1"]),
            ("uint32", ["4294967295", "16777217", "1", "2", "3"], ["0", "7"]),
            ("uint8", ["255", "1", "2", "3"], ["0", "7"])]


def random_cases(rng, tier):
    """Templates up to 8 x 8 with random origin and spacing, 1-3 random geometries (boxes mostly), random values/fill."""
    n = 250 if tier == "quick" else 4000
    for _ in range(n):
        tp = {"T": rng.randint(1, 8), "F": rng.randint(1, 8), "order": rng.choice(["ft", "tf"]),
              "t0": rng.randint(0, 6), "ts": rng.randint(1, 5), "f0": rng.randint(0, 6), "fs": rng.randint(1, 5),
              "fu": rng.choice([250, 1])}       # fu = 1: time and frequency ticks are the same numbers
        for ax, key in (("ts", "tstep"), ("fs", "fstep")):        # step attribute: truthful, a stale divisor, or absent
            divs = [d for d in range(1, tp[ax]) if tp[ax] % d == 0]
            tp[key] = rng.choice([[tp[ax]], [tp[ax]], [rng.choice(divs)] if divs else [tp[ax]], []])
        ng = rng.choice([1, 1, 2, 3])
        geoms = [_rand_geom(rng, tp) for _ in range(ng)]
        scalar = rng.random() < 0.2
        fill = rng.choice([0, 0, -1, 7])
        vals = [rng.randint(1, 6)] if scalar else rng.sample([1, 2, 3, 4, 5, 6], ng)
        dt = rng.choice(["float32", "int16", "int32", "float64"] if fill < 0 else ["float32", "uint8", "int32", "float64"])
        vals, fill = [str(v) for v in vals], str(fill)
        if rng.random() < 0.25:                          # numerals a float32 raster could not carry (Raster!Cast knows their forms)
            dt, pool, fills = rng.choice(_SPECIAL)
            vals = rng.sample(pool, 1 if scalar else ng)
            fill = rng.choice(fills)
        yield {"tpl": tp, "geoms": geoms, "values": vals, "scalar": scalar, "fill": fill, "dt": dt}


LINE_KINDS = {"TimeStamp", "Point", "MultiPoint", "LineString", "MultiLineString"}


def finding_key(obs, clause):
    """AllTouchedSupersetLines (decided in TLA+: a cell marked by a line/point geometry in the plain run is lost with
    all_touched=True) is the open finding about rasterio's two line algorithms; every other reject keeps its clause name."""
    if clause == "AllTouchedSupersetLines" and any(g["type"] in LINE_KINDS for g in obs["in"]["geoms"]):
        return "AllTouchedSuperset/line-or-point-geometry"
    return clause


def nontrivial(o):
    r = o["out"].get("r1", {})
    return bool(r.get("cells")) and len({v for row in r["cells"] for v in row}) > 1


MANIFEST = {
    "text": ("Raster.tla states rasterize on integer ticks: the bin lookup is transcribed from get_coord_index(raise_error=False) "
             "(and the 'bin containing v' reading where they differ), every vertex is mapped to bin indices, and the cells of a "
             "geometry are those whose centre lies inside the mapped shape (exact even-odd test; a centre on an edge is undecided); "
             "for boxes and time intervals TLC checks that this IS [bin(start), bin(end)) x [bin(low), bin(high)) and that it is "
             "monotone in the box. Acceptance: dims/coordinates of the template, independence of its contents and dimension order, "
             "exact cells for boxes, centre rule, painter's order, fill elsewhere, all_touched superset, value-list length. "
             "MC_Raster.tla is rasterize as a machine (length check, one burn per geometry, transposition and relabelling) and TLC "
             "proves Impl => Req on every enumerated call; with rows/columns taken from array.shape TLC finds the time-first "
             "non-square counterexample (spec/history/MC_Raster_prefix.*). Every enumerated call (16 sizes x 2 orders x 3 "
             "spacings x boxes/intervals/stamps/catalogue shapes/pairs/length mismatches) and random larger templates are run on "
             "the real code three times (contents A, contents B, all_touched) and judged by TLC."),
    "note": ("trusted: TLC, the binder checks/c20.py (encoder), exact arithmetic on dyadic units; for lines and points only "
             "'cells away from the mapped shape stay unmarked' is demanded; open finding: all_touched=True can drop cells of line "
             "geometries (key AllTouchedSuperset/line-or-point-geometry)"),
    "design_ref": "DESIGN.md section 4 C20",
}
